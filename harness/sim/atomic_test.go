//go:build verif

package sim

// M4: controlled interleavings of the real flow-controlled sender at the granularity of its
// atomic operations. Yield hooks inside defaultSender.send / updateWindow park the sending and
// the updating goroutine; the driver advances one of them (or cancels the context) at a time
// inside a synctest bubble, which also tells when the sender is parked in its real select.
// Every schedule (all of them for small parameters, by depth-first replay) is written with the
// state observed after each step; validator/vmodel replays it on the Coq model (SenderCtl.v).

import (
	"bufio"
	"context"
	"fmt"
	"os"
	"strconv"
	"strings"
	"sync"
	"testing"
	"testing/synctest"

	"github.com/jhump/grpctunnel"
)

type atomParams struct {
	w0     uint32
	msg    int
	ups    []uint32
	cancel bool
}

type atomObs struct {
	win     uint32
	tok     bool
	out     []string
	phase   int // 0 not started, 1 before CAS, 2 in select, 3 before sendFunc, 4 returned ok, 5 returned error
	added   bool
	upsLeft int
}

func (o atomObs) String() string {
	b := 0
	if o.tok {
		b = 1
	}
	a := 0
	if o.added {
		a = 1
	}
	return fmt.Sprintf("%d,%d,%s,%d,%d,%d", o.win, b, strings.Join(o.out, ";"), o.phase, a, o.upsLeft)
}

// runAtomic executes one schedule (0 = sender, 1 = updater, 2 = cancel); it returns the
// observation after each step and which actions are enabled at the end.
func runAtomic(t *testing.T, p atomParams, sched []int) (obs []atomObs, enabled [3]bool) {
	synctest.Test(t, func(t *testing.T) {
		var mu sync.Mutex
		sPos, uPos := "init", "idle"
		sRel, uRel := make(chan struct{}), make(chan struct{})
		grpctunnel.VerifSetYieldHook(func(tag string) {
			switch tag {
			case "sender.cas":
				mu.Lock()
				sPos = "cas"
				mu.Unlock()
				<-sRel
				mu.Lock()
				sPos = "run"
				mu.Unlock()
			case "sender.emit":
				mu.Lock()
				sPos = "emit"
				mu.Unlock()
				<-sRel
				mu.Lock()
				sPos = "run"
				mu.Unlock()
			case "sender.added":
				mu.Lock()
				uPos = "added"
				mu.Unlock()
				<-uRel
				mu.Lock()
				uPos = "run"
				mu.Unlock()
			}
		})
		defer grpctunnel.VerifSetYieldHook(nil)
		ctx, cancel := context.WithCancel(context.Background())
		defer cancel()
		var out []string
		snd := grpctunnel.VerifNewSender(ctx, p.w0, func(b []byte, total uint32, first bool) error {
			f := 0
			if first {
				f = 1
			}
			mu.Lock()
			out = append(out, fmt.Sprintf("%d:%d", len(b), f))
			mu.Unlock()
			return nil
		})
		go func() {
			<-sRel
			mu.Lock()
			sPos = "run"
			mu.Unlock()
			err := snd.Send(make([]byte, p.msg))
			mu.Lock()
			if err == nil {
				sPos = "retok"
			} else {
				sPos = "reterr"
			}
			mu.Unlock()
		}()
		upsLeft := len(p.ups)
		go func() {
			for _, a := range p.ups {
				<-uRel
				mu.Lock()
				uPos = "run"
				upsLeft--
				mu.Unlock()
				snd.UpdateWindow(a)
				mu.Lock()
				uPos = "idle"
				mu.Unlock()
			}
		}()
		cancelled := false
		observe := func() atomObs {
			synctest.Wait()
			mu.Lock()
			defer mu.Unlock()
			o := atomObs{win: snd.Window(), tok: snd.TokenPending(), out: append([]string(nil), out...), added: uPos == "added", upsLeft: upsLeft}
			switch sPos {
			case "init":
				o.phase = 0
			case "cas":
				o.phase = 1
			case "run":
				o.phase = 2 // running but durably blocked: parked in the select
			case "emit":
				o.phase = 3
			case "retok":
				o.phase = 4
			case "reterr":
				o.phase = 5
			}
			return o
		}
		en := func(o atomObs) [3]bool {
			return [3]bool{o.phase == 0 || o.phase == 1 || o.phase == 3, o.added || (o.upsLeft > 0 && uPos == "idle"), p.cancel && !cancelled}
		}
		last := observe()
		for _, a := range sched {
			e := en(last)
			if !e[a] {
				break
			}
			switch a {
			case 0:
				sRel <- struct{}{}
			case 1:
				uRel <- struct{}{}
			case 2:
				cancelled = true
				cancel()
			}
			last = observe()
			obs = append(obs, last)
		}
		enabled = en(last)
		// release everything so that the bubble can end
		cancel()
		done := false
		for i := 0; i < 64 && !done; i++ {
			synctest.Wait()
			mu.Lock()
			sp, up := sPos, uPos
			ul := upsLeft
			mu.Unlock()
			switch {
			case sp == "init" || sp == "cas" || sp == "emit":
				sRel <- struct{}{}
			case up == "added" || (up == "idle" && ul > 0):
				uRel <- struct{}{}
			default:
				done = true
			}
		}
	})
	return
}

// TestAtomic: ATOM_OUT, ATOM_MAXDEPTH, ATOM_LEVEL (quick|thorough)
func TestAtomic(t *testing.T) {
	outPath := os.Getenv("ATOM_OUT")
	if outPath == "" {
		t.Skip("ATOM_OUT not set")
	}
	maxDepth, _ := strconv.Atoi(os.Getenv("ATOM_MAXDEPTH"))
	if maxDepth == 0 {
		maxDepth = 12
	}
	f, err := os.Create(outPath)
	if err != nil {
		t.Fatal(err)
	}
	defer f.Close()
	bw := bufio.NewWriterSize(f, 1<<20)
	defer bw.Flush()
	var params []atomParams
	upsSets := [][]uint32{{}, {1}, {2}, {1, 1}, {0, 1}, {3}, {1, 2}, {4294967295}, {4294967295, 2}}
	maxW, maxM := uint32(2), 3
	if os.Getenv("ATOM_LEVEL") == "thorough" {
		maxW, maxM = 3, 4
		upsSets = append(upsSets, []uint32{1, 1, 1}, []uint32{2, 2}, []uint32{1, 0, 2})
	}
	for w0 := uint32(0); w0 <= maxW; w0++ {
		for m := 0; m <= maxM; m++ {
			for _, u := range upsSets {
				for _, c := range []bool{false, true} {
					params = append(params, atomParams{w0, m, u, c})
				}
			}
		}
	}
	total := 0
	for _, p := range params {
		var dfs func(prefix []int)
		dfs = func(prefix []int) {
			obs, en := runAtomic(t, p, prefix)
			leaf := len(prefix) >= maxDepth || !(en[0] || en[1] || en[2])
			if leaf {
				var us, ss, os_ []string
				for _, u := range p.ups {
					us = append(us, fmt.Sprint(u))
				}
				for _, s := range prefix {
					ss = append(ss, fmt.Sprint(s))
				}
				for _, o := range obs {
					os_ = append(os_, o.String())
				}
				c := 0
				if p.cancel {
					c = 1
				}
				fmt.Fprintf(bw, "atomic\t%d\t%d\t%s\t%d\t%s\t%s\n", p.w0, p.msg, strings.Join(us, ","), c, strings.Join(ss, ""), strings.Join(os_, "|"))
				total++
				return
			}
			for a := 0; a < 3; a++ {
				if en[a] {
					dfs(append(append([]int(nil), prefix...), a))
				}
			}
		}
		dfs(nil)
	}
	fmt.Printf("atomic schedules %d parameter-sets %d\n", total, len(params))
}
