//go:build verif

package sim

// M3, directed family "ctor": the carrier stream's context ends while the server's settings
// frame is about to be handed to the new channel's receive loop, and the caller starts an RPC
// on the channel the moment NewChannel(...).Start returns. The lock-discipline table (Access.v)
// has no entry that orders the receive loop's writes of the negotiated revision / settings with
// the reads in NewStream on this path; this family performs exactly those accesses under the
// race detector.

import (
	"bufio"
	"context"
	"fmt"
	"io"
	"math/rand"
	"runtime"
	"sync"
	"time"

	"github.com/jhump/grpctunnel"
	"github.com/jhump/grpctunnel/tunnelpb"
	"google.golang.org/grpc"
	"google.golang.org/grpc/metadata"
)

type ctorStream struct {
	ctx     context.Context
	release chan struct{}
	once    sync.Once
	first   bool
	mu      sync.Mutex
}

func (s *ctorStream) Header() (metadata.MD, error) {
	return metadata.Pairs("grpctunnel-negotiate", "on"), nil
}
func (s *ctorStream) Trailer() metadata.MD         { return nil }
func (s *ctorStream) CloseSend() error             { return nil }
func (s *ctorStream) Context() context.Context     { return s.ctx }
func (s *ctorStream) SendMsg(m any) error          { return nil }
func (s *ctorStream) RecvMsg(m any) error          { return io.EOF }
func (s *ctorStream) Send(*tunnelpb.ClientToServer) error { return nil }
func (s *ctorStream) Recv() (*tunnelpb.ServerToClient, error) {
	s.mu.Lock()
	first := !s.first
	s.first = true
	s.mu.Unlock()
	if first {
		// a carrier that hands over a frame it had already received even though the context
		// has ended meanwhile (grpc-go does: the receive buffer and the context race)
		<-s.release
		return &tunnelpb.ServerToClient{StreamId: -1, Frame: &tunnelpb.ServerToClient_Settings{Settings: &tunnelpb.Settings{
			InitialWindowSize:          65536,
			SupportedProtocolRevisions: []tunnelpb.ProtocolRevision{tunnelpb.ProtocolRevision_REVISION_ZERO, tunnelpb.ProtocolRevision_REVISION_ONE},
		}}}, nil
	}
	<-s.ctx.Done()
	return nil, s.ctx.Err()
}

type ctorStub struct{ mk func(ctx context.Context) *ctorStream }

func (c ctorStub) OpenTunnel(ctx context.Context, opts ...grpc.CallOption) (tunnelpb.TunnelService_OpenTunnelClient, error) {
	return c.mk(ctx), nil
}
func (c ctorStub) OpenReverseTunnel(ctx context.Context, opts ...grpc.CallOption) (tunnelpb.TunnelService_OpenReverseTunnelClient, error) {
	return nil, io.ErrClosedPipe
}

func runCtorStress(name string, seed int64, iters int, bw *bufio.Writer) {
	fmt.Fprintf(bw, "S %s %s\n", name, Config{Mode: "fwd", Free: true}.String())
	fmt.Fprintf(bw, "A 0 stress ctor\n")
	rng := rand.New(rand.NewSource(seed))
	status := "ok"
	done := make(chan struct{})
	go func() {
		defer close(done)
		defer func() {
			if p := recover(); p != nil {
				status = fmt.Sprintf("panic %v", p)
			}
		}()
		for i := 0; i < iters; i++ {
			ctx, cancel := context.WithCancel(context.Background())
			release := make(chan struct{})
			stub := ctorStub{mk: func(ctx context.Context) *ctorStream { return &ctorStream{ctx: ctx, release: release} }}
			spinA, spinB := rng.Intn(200), rng.Intn(200)
			go func() {
				for k := 0; k < spinA; k++ {
					runtime.Gosched()
				}
				cancel()
			}()
			go func() {
				for k := 0; k < spinB; k++ {
					runtime.Gosched()
				}
				close(release)
			}()
			ch, err := grpctunnel.NewChannel(stub).Start(ctx)
			if err == nil {
				cctx, ccancel := context.WithTimeout(context.Background(), 20*time.Millisecond)
				str, err := ch.NewStream(cctx, &grpc.StreamDesc{ClientStreams: true, ServerStreams: true}, "/v.S/B0")
				if err == nil {
					_ = str.CloseSend()
				}
				ccancel()
				ch.Close()
			}
			cancel()
		}
	}()
	select {
	case <-done:
	case <-time.After(60 * time.Second):
		status = "hang ctor"
	}
	fmt.Fprintf(bw, "X %s %s\n", name, status)
	bw.Flush()
}
