//go:build verif

package sim

// M3, directed family "ctor": the carrier stream's context ends while the server's settings
// frame is about to be handed to the new channel's receive loop, and the caller starts an RPC
// on the channel the moment NewChannel(...).Start returns. The lock-discipline table (Access.v)
// has no entry that orders the receive loop's writes of the negotiated revision / settings with
// the reads in NewStream on this path; this family performs exactly those accesses under the
// race detector.

import (
	"strings"
	"bufio"
	"context"
	"fmt"
	"io"
	"math/rand"
	"runtime"
	"sync"
	"time"

	"github.com/jhump/grpctunnel"
	"github.com/jhump/grpctunnel/tunnelpb"
	"google.golang.org/grpc"
	"google.golang.org/grpc/metadata"
)

type ctorStream struct {
	ctx     context.Context
	release chan struct{}
	once    sync.Once
	first   bool
	mu      sync.Mutex
}

func (s *ctorStream) Header() (metadata.MD, error) {
	return metadata.Pairs("grpctunnel-negotiate", "on"), nil
}
func (s *ctorStream) Trailer() metadata.MD         { return nil }
func (s *ctorStream) CloseSend() error             { return nil }
func (s *ctorStream) Context() context.Context     { return s.ctx }
func (s *ctorStream) SendMsg(m any) error          { return nil }
func (s *ctorStream) RecvMsg(m any) error          { return io.EOF }
func (s *ctorStream) Send(*tunnelpb.ClientToServer) error { return nil }
func (s *ctorStream) Recv() (*tunnelpb.ServerToClient, error) {
	s.mu.Lock()
	first := !s.first
	s.first = true
	s.mu.Unlock()
	if first {
		// a carrier that hands over a frame it had already received even though the context
		// has ended meanwhile (grpc-go does: the receive buffer and the context race)
		<-s.release
		return &tunnelpb.ServerToClient{StreamId: -1, Frame: &tunnelpb.ServerToClient_Settings{Settings: &tunnelpb.Settings{
			InitialWindowSize:          65536,
			SupportedProtocolRevisions: []tunnelpb.ProtocolRevision{tunnelpb.ProtocolRevision_REVISION_ZERO, tunnelpb.ProtocolRevision_REVISION_ONE},
		}}}, nil
	}
	<-s.ctx.Done()
	return nil, s.ctx.Err()
}

type ctorStub struct{ mk func(ctx context.Context) *ctorStream }

func (c ctorStub) OpenTunnel(ctx context.Context, opts ...grpc.CallOption) (tunnelpb.TunnelService_OpenTunnelClient, error) {
	return c.mk(ctx), nil
}
func (c ctorStub) OpenReverseTunnel(ctx context.Context, opts ...grpc.CallOption) (tunnelpb.TunnelService_OpenReverseTunnelClient, error) {
	return nil, io.ErrClosedPipe
}

func runCtorStress(name string, seed int64, iters int, bw *bufio.Writer) {
	fmt.Fprintf(bw, "S %s %s\n", name, Config{Mode: "fwd", Free: true}.String())
	fmt.Fprintf(bw, "A 0 stress ctor\n")
	rng := rand.New(rand.NewSource(seed))
	status := "ok"
	done := make(chan struct{})
	go func() {
		defer close(done)
		defer func() {
			if p := recover(); p != nil {
				status = fmt.Sprintf("panic %v", p)
			}
		}()
		for i := 0; i < iters; i++ {
			ctx, cancel := context.WithCancel(context.Background())
			release := make(chan struct{})
			stub := ctorStub{mk: func(ctx context.Context) *ctorStream { return &ctorStream{ctx: ctx, release: release} }}
			spinA, spinB := rng.Intn(200), rng.Intn(200)
			go func() {
				for k := 0; k < spinA; k++ {
					runtime.Gosched()
				}
				cancel()
			}()
			go func() {
				for k := 0; k < spinB; k++ {
					runtime.Gosched()
				}
				close(release)
			}()
			ch, err := grpctunnel.NewChannel(stub).Start(ctx)
			if err == nil {
				cctx, ccancel := context.WithTimeout(context.Background(), 20*time.Millisecond)
				str, err := ch.NewStream(cctx, &grpc.StreamDesc{ClientStreams: true, ServerStreams: true}, "/v.S/B0")
				if err == nil {
					_ = str.CloseSend()
				}
				ccancel()
				ch.Close()
			}
			cancel()
		}
	}()
	select {
	case <-done:
	case <-time.After(60 * time.Second):
		status = "hang ctor"
	}
	fmt.Fprintf(bw, "X %s %s\n", name, status)
	bw.Flush()
}

// M3, directed family "closerace": callers keep sending on a forward (or reverse) tunnel while the
// channel is closed from another goroutine. Everything that reaches the carrier stream must
// still go through the library's thread-safe wrappers: the carrier reports overlapping Send /
// CloseSend calls (1502), the race detector watches the rest.
func runCloseRace(name string, seed int64, rounds int, bw *bufio.Writer) {
	status := "ok"
	var lines []string
	for round := 0; round < rounds; round++ {
		cfg := Config{Mode: []string{"fwd", "rev"}[round%2], Free: true}
		if round == 0 {
			fmt.Fprintf(bw, "S %s %s\n", name, cfg.String())
			fmt.Fprintf(bw, "A 0 stress closerace\n")
		}
		w := NewWorld(cfg)
		w.auto = true
		w.autoPlans = map[int]*autoPlan{}
		rng := rand.New(rand.NewSource(seed + int64(round)))
		w.openTunnelFree("who=closerace", "p")
		ch := w.waitChannel(0, 5*time.Second)
		if ch == nil {
			status = "hang closerace: tunnel did not come up"
			break
		}
		var wg sync.WaitGroup
		stop := make(chan struct{})
		for c := 0; c < 4; c++ {
			wg.Add(1)
			go func(c int) {
				defer wg.Done()
				for i := 0; ; i++ {
					select {
					case <-stop:
						return
					default:
					}
					r := (c*31 + i) % MaxRPC
					if c%2 == 1 {
						// a handler that answers with a run of messages: at the moment of the Close /
						// Stop some handler is in the middle of sending
						p := &autoPlan{shape: "SS", cSends: []int{10}, hSends: []int{10, 10, 10, 10, 10, 10, 10, 10, 10, 10, 10, 10, 10, 10, 10, 10, 10, 10, 10, 10}}
						w.mu.Lock()
						w.autoPlans[r] = p
						w.mu.Unlock()
						w.autoCall(r, ch, p, rand.New(rand.NewSource(int64(c*1000+i))))
						continue
					}
					w.mu.Lock()
					w.autoPlans[r] = &autoPlan{shape: "U", cSends: []int{10}, respSz: 10}
					w.mu.Unlock()
					ctx, cancel := context.WithTimeout(context.Background(), 2*time.Second)
					resp := staleMsg()
					_ = ch.Invoke(ctx, fmt.Sprintf("/v.S/U%d", r), &Msg{Value: payloadFor(r, 'c', 0, 10)}, resp)
					cancel()
				}
			}(c)
		}
		for k := 0; k < rng.Intn(200); k++ {
			runtime.Gosched()
		}
		w.mu.Lock()
		ts := w.tunnels[0]
		w.mu.Unlock()
		if cfg.Mode == "rev" && (round%4 == 1 || round >= 28) && w.revServer != nil {
			// the serving side stops instead: Stop half-closes the carrier of every tunnel it tracks
			w.revServer.Stop()
		} else if ts.ch != nil {
			ts.ch.Close()
		}
		close(stop)
		done := make(chan struct{})
		go func() { wg.Wait(); close(done) }()
		select {
		case <-done:
		case <-time.After(20 * time.Second):
			status = "hang closerace: callers did not return after Close"
		}
		for _, e := range w.drain() {
			if strings.HasPrefix(e, "harnessfail") || strings.HasPrefix(e, "PANIC") {
				lines = append(lines, e)
			}
		}
		ts.cancel()
		if ts.link != nil {
			ts.link.kill(io.ErrClosedPipe)
		}
		if status != "ok" {
			break
		}
	}
	for i, e := range lines {
		if i < 8 {
			fmt.Fprintf(bw, "E 0 %s\n", e)
		}
	}
	fmt.Fprintf(bw, "X %s %s\n", name, status)
	bw.Flush()
}
