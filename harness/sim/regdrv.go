//go:build verif

package sim

import (
	"fmt"
	"math/rand"
)

// registryDriver: several reverse tunnels (with colliding / nil affinity keys) opened and
// closed from either end or broken, interleaved with RPCs routed through the pooled channels,
// Ready and enumeration calls.
type regTunnel struct {
	n      int
	key    string // "" = nil key
	issued bool
	up     bool
	gone   bool
}

type regRPC struct {
	r     int
	via   string
	stage int // 0 new issued, 1 sent, 2 closed-send, 3 handler returned, 4 done
	t     int
}

type registryDriver struct {
	name    string
	rng     *rand.Rand
	cfg     Config
	tunnels []*regTunnel
	cur     *regRPC
	nextR   int
	budget  int
	settle  []string
}

func newRegistryDriver(name string, seed int64, keys bool) *registryDriver {
	rng := rand.New(rand.NewSource(seed))
	return &registryDriver{name: name, rng: rng, cfg: Config{Mode: "rev", Keys: keys, SDisable: rng.Intn(5) == 0}, budget: 80 + rng.Intn(120)}
}

func (d *registryDriver) Config() Config { return d.cfg }
func (d *registryDriver) Name() string   { return d.name }

func (d *registryDriver) pickVia() string {
	keys := []string{"ka", "kb", "nil", "kc"}
	if !d.cfg.Keys || d.rng.Intn(2) == 0 {
		return "multi"
	}
	return "key:" + keys[d.rng.Intn(len(keys))]
}

func (d *registryDriver) Next(w *World, step int) string {
	rng := d.rng
	if step == 0 && rng.Intn(2) == 0 {
		// waiters parked while nothing is registered, a tunnel that dies during its settings
		// exchange, then (from the ordinary moves) healthy tunnels
		d.settle = append(d.settle, "wait via=multi")
		if d.cfg.Keys {
			d.settle = append(d.settle, "wait via=key:ka")
		}
		switch rng.Intn(4) {
		case 0, 1:
			t := &regTunnel{n: 0, key: "ka", gone: true}
			d.tunnels = append(d.tunnels, t)
			d.settle = append(d.settle, "open t=0 md=key=ka peer=p0", []string{"ctxend t=0", "fail t=0"}[rng.Intn(2)])
		case 2:
			// a tunnel that dies between its two registrations (all tunnels / per key): the handler
			// is held at the hook between them, the tunnel is ended, the handler goes on
			t := &regTunnel{n: 0, key: "ka", gone: true}
			d.tunnels = append(d.tunnels, t)
			d.settle = append(d.settle, "holdreg", "open t=0 md=key=ka peer=p0", "ds t=0", "dc t=0", "ds t=0",
				[]string{"ctxend t=0", "fail t=0", "stop"}[rng.Intn(3)], "dc t=0", "ds t=0", "releasereg", "probe", "ready via=multi")
			if d.cfg.Keys {
				d.settle = append(d.settle, "ready via=key:ka")
			}
		}
	}
	if len(d.settle) > 0 {
		mv := d.settle[0]
		d.settle = d.settle[1:]
		return mv
	}
	if step > d.budget {
		return ""
	}
	// finish the RPC in progress first (most of the time)
	if c := d.cur; c != nil && rng.Intn(12) != 0 {
		rs := w.rpcs[c.r]
		if rs == nil || !rs.started {
			d.cur = nil
			return "probe"
		}
		c.t = rs.picked
		pc, ps := w.pend(c.t)
		h := w.hand(c.r)
		switch {
		case c.stage == 0:
			c.stage = 1
			return fmt.Sprintf("csend r=%d size=%d", c.r, 10+rng.Intn(2000))
		case c.stage == 1:
			c.stage = 2
			return fmt.Sprintf("cclose r=%d", c.r)
		case h == nil && pc > 0:
			return fmt.Sprintf("dc t=%d", c.t)
		case h != nil && c.stage == 2 && pc > 0:
			return fmt.Sprintf("dc t=%d", c.t)
		case h != nil && c.stage == 2:
			c.stage = 3
			d.settle = append(d.settle, fmt.Sprintf("hret r=%d code=0 size=%d", c.r, 10+rng.Intn(500)))
			return fmt.Sprintf("hrecv r=%d", c.r)
		case c.stage == 3 && ps > 0:
			return fmt.Sprintf("ds t=%d", c.t)
		case c.stage == 3:
			c.stage = 4
			d.settle = append(d.settle, fmt.Sprintf("crecv r=%d", c.r))
			return fmt.Sprintf("crecv r=%d", c.r)
		default:
			d.cur = nil
		}
	}
	var moves []string
	add := func(wt int, s string) {
		for i := 0; i < wt; i++ {
			moves = append(moves, s)
		}
	}
	live := 0
	for _, t := range d.tunnels {
		if !t.gone {
			live++
		}
	}
	if len(d.tunnels) < 6 && live < 4 {
		add(3, "OPEN")
	}
	for _, t := range d.tunnels {
		if t.gone {
			continue
		}
		pc, ps := w.pend(t.n)
		if ps > 0 {
			add(3, fmt.Sprintf("ds t=%d", t.n))
		}
		if pc > 0 {
			add(2, fmt.Sprintf("dc t=%d", t.n))
		}
		if rng.Intn(20) == 0 {
			add(1, fmt.Sprintf("CLOSE %d", t.n))
		}
	}
	add(2, "READY")
	add(1, "WAIT")
	if len(d.tunnels) < 6 && live < 4 {
		add(1, "OPENFAIL")
	}
	if d.cur == nil && d.nextR < MaxRPC-1 {
		add(5, "RPC")
	}
	mv := moves[rng.Intn(len(moves))]
	switch {
	case mv == "OPEN":
		t := &regTunnel{n: len(d.tunnels), key: []string{"", "ka", "kb", "ka", ""}[rng.Intn(5)]}
		d.tunnels = append(d.tunnels, t)
		md := "w=x"
		if t.key != "" {
			md = "key=" + t.key
		}
		d.settle = append(d.settle, fmt.Sprintf("ds t=%d", t.n))
		return fmt.Sprintf("open t=%d md=%s peer=p%d", t.n, md, t.n)
	case mv == "WAIT":
		return "wait via=" + d.pickVia()
	case mv == "OPENFAIL":
		// a tunnel that dies during the settings exchange
		t := &regTunnel{n: len(d.tunnels), key: []string{"", "ka"}[rng.Intn(2)], gone: true}
		d.tunnels = append(d.tunnels, t)
		md := "w=x"
		if t.key != "" {
			md = "key=" + t.key
		}
		d.settle = append(d.settle, fmt.Sprintf("%s t=%d", []string{"ctxend", "fail"}[rng.Intn(2)], t.n))
		return fmt.Sprintf("open t=%d md=%s peer=p%d", t.n, md, t.n)
	case mv == "READY":
		return "ready via=" + d.pickVia()
	case mv == "RPC":
		c := &regRPC{r: d.nextR, via: d.pickVia()}
		d.nextR++
		d.cur = c
		return fmt.Sprintf("cnew r=%d t=0 shape=U method=auto md=- via=%s opts=x,t,h,c credmd=tok=abc", c.r, c.via)
	case len(mv) > 6 && mv[:5] == "CLOSE":
		var n int
		fmt.Sscanf(mv[6:], "%d", &n)
		d.tunnels[n].gone = true
		how := []string{"chclose", "ctxend", "fail"}[rng.Intn(3)]
		d.settle = append(d.settle, fmt.Sprintf("dc t=%d", n), fmt.Sprintf("ds t=%d", n), fmt.Sprintf("dc t=%d", n), "ready via=multi")
		return fmt.Sprintf("%s t=%d", how, n)
	}
	return mv
}

// registryRawDriver: keyed reverse tunnels whose tunnel-server end is played by the harness, so
// that a tunnel can end during the settings exchange for reasons other than its context ending
// (the peer hangs up, or sends a wrong first frame), interleaved with registry queries.
type registryRawDriver struct {
	name   string
	rng    *rand.Rand
	script []string
}

func newRegistryRawDriver(name string, seed int64) *registryRawDriver {
	rng := rand.New(rand.NewSource(seed))
	d := &registryRawDriver{name: name, rng: rng}
	keys := []string{"ka", "kb", ""}
	vias := []string{"multi", "key:ka", "key:kb", "key:nil"}
	nt := 2 + rng.Intn(4)
	var healthy []int
	for t := 0; t < nt; t++ {
		k := keys[rng.Intn(len(keys))]
		md := "w=x"
		if k != "" {
			md = "key=" + k
		}
		if rng.Intn(3) == 0 {
			d.script = append(d.script, "wait via="+vias[rng.Intn(len(vias))])
		}
		d.script = append(d.script, fmt.Sprintf("open t=%d md=%s peer=p%d", t, md, t))
		switch rng.Intn(4) {
		case 0: // the peer hangs up before sending its settings
			d.script = append(d.script, fmt.Sprintf("raws t=%d kind=end code=0", t), fmt.Sprintf("ds t=%d", t))
		case 1: // a wrong first frame
			d.script = append(d.script, fmt.Sprintf("raws t=%d id=-1 kind=hdrs md=-", t), fmt.Sprintf("ds t=%d", t))
		default:
			d.script = append(d.script, fmt.Sprintf("raws t=%d kind=settings id=-1 revs=0,1 win=65536", t), fmt.Sprintf("ds t=%d", t))
			healthy = append(healthy, t)
		}
		for i, n := 0, rng.Intn(3); i < n; i++ {
			d.script = append(d.script, "ready via="+vias[rng.Intn(len(vias))])
		}
	}
	r := 0
	for i, n := 0, 2+rng.Intn(5); i < n; i++ {
		d.script = append(d.script, fmt.Sprintf("cnew r=%d t=0 shape=U method=auto md=- via=%s opts=x,t,h,c credmd=tok=abc", r, vias[rng.Intn(len(vias))]))
		r++
		d.script = append(d.script, "ready via="+vias[rng.Intn(len(vias))])
	}
	for _, t := range healthy {
		if rng.Intn(2) == 0 {
			d.script = append(d.script, fmt.Sprintf("raws t=%d kind=end code=0", t), fmt.Sprintf("ds t=%d", t), fmt.Sprintf("ds t=%d", t))
			d.script = append(d.script, "ready via="+vias[rng.Intn(len(vias))], "ready via=multi")
		}
	}
	for _, v := range vias {
		d.script = append(d.script, "ready via="+v)
	}
	return d
}

func (d *registryRawDriver) Config() Config { return Config{Mode: "rev", RawServer: true, Keys: true} }
func (d *registryRawDriver) Name() string   { return d.name }
func (d *registryRawDriver) Next(w *World, step int) string {
	if step < len(d.script) {
		return d.script[step]
	}
	return ""
}
