//go:build verif

package sim

import (
	"bufio"
	"fmt"
	"os"
	"strconv"
	"strings"
	"testing"
	"testing/synctest"
)

// TestSim runs the scenarios of $SIM_IN against the real library inside a
// synctest bubble each and writes the observed trace to $SIM_OUT.
//
//	S <name> <config>
//	A <n> <action>
//	E <n> <event>          events observed while the system settled after action n
//	X <name> ok|deadlock|panic ...
func TestSim(t *testing.T) {
	in, out := os.Getenv("SIM_IN"), os.Getenv("SIM_OUT")
	fam := os.Getenv("SIM_FAMILY")
	if (in == "" && fam == "") || out == "" {
		t.Skip("SIM_IN / SIM_FAMILY / SIM_OUT not set")
	}
	var scs []*Scenario
	var err error
	if in != "" {
		scs, err = ReadScenarios(in)
		if err != nil {
			t.Fatal(err)
		}
	}
	f, err := os.Create(out)
	if err != nil {
		t.Fatal(err)
	}
	defer f.Close()
	bw := bufio.NewWriterSize(f, 1<<20)
	defer bw.Flush()
	for _, sc := range scs {
		runScenario(t, sc, nil, bw)
	}
	if fam != "" {
		seed, _ := strconv.ParseInt(os.Getenv("SIM_SEED"), 10, 64)
		count, _ := strconv.Atoi(os.Getenv("SIM_COUNT"))
		for _, d := range Families(fam, seed, count) {
			runScenario(t, &Scenario{Name: d.Name(), Cfg: d.Config()}, d, bw)
		}
	}
}

func runScenario(t *testing.T, sc *Scenario, drv Driver, bw *bufio.Writer) {
	fmt.Fprintf(bw, "S %s %s\n", sc.Name, sc.Cfg.String())
	var lines []string
	status := "ok"
	func() {
		defer func() {
			if p := recover(); p != nil {
				status = "panic " + strings.ReplaceAll(fmt.Sprint(p), "\n", " | ")
			}
		}()
		ok := t.Run(sc.Name, func(t *testing.T) {
			synctest.Test(t, func(t *testing.T) {
				w := NewWorld(sc.Cfg)
				flush := func(n int) {
					synctest.Wait()
					for _, e := range w.drain() {
						lines = append(lines, fmt.Sprintf("E %d %s", n, e))
					}
				}
				n := 0
				for i := 0; ; i++ {
					var a string
					if drv != nil {
						a = drv.Next(w, i)
						if a == "" || i > 3000 {
							break
						}
					} else {
						if i >= len(sc.Actions) {
							break
						}
						a = sc.Actions[i]
					}
					lines = append(lines, fmt.Sprintf("A %d %s", i, a))
					w.Do(a)
					flush(i)
					w.probe(false)
					flush(i)
					n = i + 1
				}
				lines = append(lines, fmt.Sprintf("A %d teardown", n))
				w.Teardown()
				flush(n)
				w.probe(true)
				flush(n)
			})
		})
		if !ok {
			status = "failed"
		}
	}()
	for _, l := range lines {
		bw.WriteString(l)
		bw.WriteByte('\n')
	}
	fmt.Fprintf(bw, "X %s %s\n", sc.Name, status)
}
