//go:build verif

package sim

import (
	"runtime/pprof"
	"bufio"
	"fmt"
	"os"
	"runtime"
	"strconv"
	"strings"
	"sync"
	"testing"
	"testing/synctest"
	"time"
)

// TestSim runs the scenarios of $SIM_IN against the real library inside a
// synctest bubble each and writes the observed trace to $SIM_OUT.
//
//	S <name> <config>
//	A <n> <action>
//	E <n> <event>          events observed while the system settled after action n
//	X <name> ok|deadlock|panic ...
func TestSim(t *testing.T) {
	in, out := os.Getenv("SIM_IN"), os.Getenv("SIM_OUT")
	fam := os.Getenv("SIM_FAMILY")
	if (in == "" && fam == "") || out == "" {
		t.Skip("SIM_IN / SIM_FAMILY / SIM_OUT not set")
	}
	var scs []*Scenario
	var err error
	if in != "" {
		scs, err = ReadScenarios(in)
		if err != nil {
			t.Fatal(err)
		}
	}
	f, err := os.Create(out)
	if err != nil {
		t.Fatal(err)
	}
	defer f.Close()
	bw := bufio.NewWriterSize(f, 1<<20)
	defer bw.Flush()
	skip, _ := strconv.Atoi(os.Getenv("SIM_SKIP"))
	limit := 20 * time.Second
	if v := os.Getenv("SIM_WATCHDOG_S"); v != "" {
		n, _ := strconv.Atoi(v)
		limit = time.Duration(n) * time.Second
	}
	idx := 0
	guarded := func(sc *Scenario, d Driver) {
		idx++
		if idx <= skip {
			return
		}
		// watchdog (real time, outside the bubble): a goroutine parked on a mutex is not
		// "durably blocked", so a lock-level deadlock in the library would make the bubble
		// spin forever; report it as a hang and leave the process
		timer := time.AfterFunc(limit, func() {
			buf := make([]byte, 1<<18)
			n := runtime.Stack(buf, true)
			stacks := strings.ReplaceAll(string(buf[:n]), "\n", " | ")
			if len(stacks) > 6000 {
				stacks = stacks[:6000]
			}
			fmt.Fprintf(bw, "X %s hang %s\n", sc.Name, stacks)
			bw.Flush()
			f.Close()
			os.Exit(3)
		})
		runScenario(t, sc, d, bw)
		timer.Stop()
	}
	for _, sc := range scs {
		guarded(sc, nil)
	}
	if fam != "" {
		seed, _ := strconv.ParseInt(os.Getenv("SIM_SEED"), 10, 64)
		count, _ := strconv.Atoi(os.Getenv("SIM_COUNT"))
		for _, d := range Families(fam, seed, count) {
			guarded(&Scenario{Name: d.Name(), Cfg: d.Config()}, d)
		}
	}
}

var (
	curMu    sync.Mutex
	curLines []string
)

func runScenario(t *testing.T, sc *Scenario, drv Driver, bw *bufio.Writer) {
	fmt.Fprintf(bw, "S %s %s\n", sc.Name, sc.Cfg.String())
	bw.Flush()
	var lines []string
	curMu.Lock()
	curLines = nil
	curMu.Unlock()
	addLine := func(l string) {
		// written through at once: if the process dies (a leaked goroutine makes the bubble
		// panic on exit, a library panic on a foreign goroutine) the partial trace survives
		bw.WriteString(l)
		bw.WriteByte('\n')
		if len(l) > 0 && l[0] == 'A' {
			bw.Flush()
		}
	}
	_ = lines
	status := "ok"
	func() {
		defer func() {
			if p := recover(); p != nil {
				status = "panic " + strings.ReplaceAll(fmt.Sprint(p), "\n", " | ")
			}
		}()
		ok := t.Run(sc.Name, func(t *testing.T) {
			synctest.Test(t, func(t *testing.T) {
				w := NewWorld(sc.Cfg)
				// hostile-peer scenarios: live heap before and after (C09: no peer input makes an
				// endpoint hold more than a window per open stream)
				heap0 := int64(-1)
				heapFlagged := false
				if sc.Cfg.RawClient || sc.Cfg.RawServer {
					heap0 = liveHeap()
				}
				flush := func(n int) {
					synctest.Wait()
					for _, e := range w.drain() {
						addLine(fmt.Sprintf("E %d %s", n, e))
					}
				}
				n := 0
				for i := 0; ; i++ {
					var a string
					if drv != nil {
						a = drv.Next(w, i)
						if a == "" || i > 3000 {
							break
						}
					} else {
						if i >= len(sc.Actions) {
							break
						}
						a = sc.Actions[i]
					}
					addLine(fmt.Sprintf("A %d %s", i, a))
					w.Do(a)
					flush(i)
					w.probe(false)
					flush(i)
					n = i + 1
					if heap0 >= 0 && !heapFlagged {
						var ms runtime.MemStats
						runtime.ReadMemStats(&ms)
						if int64(ms.HeapAlloc)-heap0 > 256<<20 { // cheap look first, then a collection to be sure
							if grown := (liveHeap() - heap0) >> 20; grown > 200 {
								heapFlagged = true
								if pf := os.Getenv("SIM_HEAPPROF"); pf != "" {
									if f, err := os.Create(pf); err == nil {
										_ = pprof.Lookup("heap").WriteTo(f, 1)
										f.Close()
									}
								}
								w.logf("harnessfail code=902 a=%d b=0", grown)
								flush(i)
							}
						}
					}
				}
				if heap0 >= 0 && !heapFlagged {
					if grown := (liveHeap() - heap0) >> 20; grown > 200 {
						w.logf("harnessfail code=902 a=%d b=0", grown)
						flush(n)
					}
				}
				addLine(fmt.Sprintf("A %d teardown", n))
				w.Teardown()
				flush(n)
				w.probe(true)
				flush(n)
			})
		})
		if !ok {
			status = "failed"
		}
	}()
	fmt.Fprintf(bw, "X %s %s\n", sc.Name, status)
	bw.Flush()
}

// liveHeap: bytes of live heap objects after a collection
func liveHeap() int64 {
	runtime.GC()
	var ms runtime.MemStats
	runtime.ReadMemStats(&ms)
	return int64(ms.HeapAlloc)
}
