//go:build verif

package sim

// M3, directed family "sender": the real flow-controlled sender with a tiny window, one
// goroutine sending small messages as fast as it can and a well-behaved peer crediting back
// every byte it is handed, on real threads. Judged on the two system-level facts of Pipe.v /
// SenderAtomic.v that need real parallelism to be put at risk: the bytes handed to the carrier
// and not yet credited never exceed the window (602 -> C06), and the sender is never left
// parked while it has window and no credit is on its way (501 -> C05: lost wake-up).

import (
	"bufio"
	"context"
	"fmt"
	"math/rand"
	"runtime"
	"strings"
	"sync"
	"sync/atomic"
	"time"

	"github.com/jhump/grpctunnel"
)

func runSenderStress(name string, seed int64, dur time.Duration, bw *bufio.Writer) {
	fmt.Fprintf(bw, "S %s %s\n", name, Config{Mode: "fwd", Free: true}.String())
	fmt.Fprintf(bw, "A 0 stress sender\n")
	status := "ok"
	var fails []string
	var fmu sync.Mutex
	fail := func(code int, a, b int64) {
		fmu.Lock()
		if len(fails) < 4 {
			fails = append(fails, fmt.Sprintf("harnessfail code=%d a=%d b=%d", code, a, b))
		}
		fmu.Unlock()
	}
	var wg sync.WaitGroup
	pairs := runtime.GOMAXPROCS(0) / 2
	if pairs < 2 {
		pairs = 2
	}
	if pairs > 8 {
		pairs = 8
	}
	deadline := time.Now().Add(dur)
	for p := 0; p < pairs; p++ {
		wg.Add(1)
		go func(p int) {
			defer wg.Done()
			rng := rand.New(rand.NewSource(seed + int64(p)))
			window := uint32([]int{2, 3, 8, 64}[p%4])
			ctx, cancel := context.WithCancel(context.Background())
			defer cancel()
			var onWire, credited atomic.Int64 // bytes handed to the carrier / credited back
			credits := make(chan int, 1<<16)
			var snd *grpctunnel.VerifSender
			snd = grpctunnel.VerifNewSender(ctx, window, func(b []byte, _ uint32, _ bool) error {
				out := onWire.Add(int64(len(b))) - credited.Load()
				if out > int64(window) {
					fail(602, out, int64(window))
				}
				credits <- len(b)
				return nil
			})
			// the peer: returns credit for every byte, sometimes after a pause
			pdone := make(chan struct{})
			go func() {
				defer close(pdone)
				prng := rand.New(rand.NewSource(seed + 1000 + int64(p)))
				for n := range credits {
					if n == 0 {
						continue
					}
					if prng.Intn(4) == 0 {
						runtime.Gosched()
					}
					credited.Add(int64(n))
					snd.UpdateWindow(uint32(n))
				}
			}()
			var progress atomic.Int64
			sdone := make(chan struct{})
			var gid atomic.Int64
			go func() {
				defer close(sdone)
				gid.Store(goroutineID())
				for time.Now().Before(deadline) {
					msg := make([]byte, 1+rng.Intn(int(window)))
					if err := snd.Send(msg); err != nil {
						return
					}
					progress.Add(1)
				}
			}()
			// watchdog: parked although everything has been credited back
			last, since := int64(-1), time.Now()
		loop:
			for {
				select {
				case <-sdone:
					break loop
				case <-time.After(50 * time.Millisecond):
				}
				cur := progress.Load()
				if cur != last {
					last, since = cur, time.Now()
					continue
				}
				if time.Since(since) > 1500*time.Millisecond && len(credits) == 0 && onWire.Load() == credited.Load() {
					// nothing in flight, the whole window is back, and the sender does not move. Under
					// heavy load a goroutine may simply not have been scheduled: it only counts when the
					// sender is parked in its select with no wake-up token waiting for it
					if snd.Window() > 0 && !snd.TokenPending() && senderParked(gid.Load()) {
						fail(501, int64(snd.Window()), cur)
						cancel()
						<-sdone
						break loop
					}
					since = time.Now()
				}
			}
			close(credits)
			<-pdone
		}(p)
	}
	wg.Wait()
	for _, f := range fails {
		fmt.Fprintf(bw, "E 0 %s\n", f)
	}
	fmt.Fprintf(bw, "X %s %s\n", name, status)
	bw.Flush()
}

// senderParked: goroutine id is blocked in the select of (*defaultSender).send
func senderParked(id int64) bool {
	buf := make([]byte, 1<<20)
	n := runtime.Stack(buf, true)
	head := fmt.Sprintf("goroutine %d [select", id)
	for _, g := range strings.Split(string(buf[:n]), "\n\n") {
		if strings.HasPrefix(g, head) && strings.Contains(g, "(*defaultSender).send") {
			return true
		}
	}
	return false
}

func goroutineID() int64 {
	buf := make([]byte, 64)
	n := runtime.Stack(buf, false)
	var id int64
	fmt.Sscanf(string(buf[:n]), "goroutine %d ", &id)
	return id
}
