//go:build verif

package sim

import (
	"google.golang.org/protobuf/types/known/wrapperspb"
	"bufio"
	"context"
	"fmt"
	"io"
	"net/url"
	"os"
	"strconv"
	"strings"
	"testing/synctest"
	"time"

	"github.com/jhump/grpctunnel"
	"github.com/jhump/grpctunnel/tunnelpb"
	"google.golang.org/genproto/googleapis/rpc/errdetails"
	"google.golang.org/grpc"
	"google.golang.org/grpc/codes"
	"google.golang.org/grpc/metadata"
	"google.golang.org/grpc/status"
	"google.golang.org/protobuf/proto"
	"google.golang.org/protobuf/types/known/emptypb"
)

var curWorld *World // the world whose controller is running (one scenario at a time)

type tunnelStateKey struct{}

type Scenario struct {
	Name    string
	Cfg     Config
	Actions []string
}

func kv(line string) (string, map[string]string) {
	f := strings.Fields(line)
	m := map[string]string{}
	for _, t := range f[1:] {
		if i := strings.IndexByte(t, '='); i >= 0 {
			m[t[:i]] = t[i+1:]
		} else {
			m[t] = "1"
		}
	}
	return f[0], m
}

func atoi(s string) int {
	n, _ := strconv.Atoi(s)
	return n
}

func ReadScenarios(path string) ([]*Scenario, error) {
	f, err := os.Open(path)
	if err != nil {
		return nil, err
	}
	defer f.Close()
	var out []*Scenario
	var cur *Scenario
	sc := bufio.NewScanner(f)
	sc.Buffer(make([]byte, 1<<20), 1<<24)
	for sc.Scan() {
		line := strings.TrimSpace(sc.Text())
		if line == "" || line[0] == '#' {
			continue
		}
		if strings.HasPrefix(line, "scenario ") {
			_, m := kv(line)
			cur = &Scenario{Name: strings.Fields(line)[1]}
			cur.Cfg = Config{Mode: m["mode"], CDisable: m["cdis"] == "1", SDisable: m["sdis"] == "1", CLegacy: m["cleg"] == "1",
				SLegacy: m["sleg"] == "1", RawClient: m["rawc"] == "1", RawServer: m["raws"] == "1", Free: m["free"] == "1", Keys: m["keys"] == "1"}
			if cur.Cfg.Mode == "" {
				cur.Cfg.Mode = "fwd"
			}
			continue
		}
		if line == "end" {
			out = append(out, cur)
			cur = nil
			continue
		}
		if cur != nil {
			cur.Actions = append(cur.Actions, line)
		}
	}
	return out, sc.Err()
}

func (c Config) String() string {
	b := func(x bool) int {
		if x {
			return 1
		}
		return 0
	}
	return fmt.Sprintf("mode=%s cdis=%d sdis=%d cleg=%d sleg=%d rawc=%d raws=%d free=%d keys=%d nested=%d", c.Mode, b(c.CDisable), b(c.SDisable), b(c.CLegacy), b(c.SLegacy), b(c.RawClient), b(c.RawServer), b(c.Free), b(c.Keys), b(c.Nested))
}

// ---------- raw peers ----------
type rawClientEnd struct { // harness plays the tunnel client
	send   func(*tunnelpb.ClientToServer) error
	finish func(error) // CloseSend (forward) / handler return (reverse)
}
type rawServerEnd struct { // harness plays the tunnel server
	send   func(*tunnelpb.ServerToClient) error
	finish func(error)
}

// fake network service for raw ends living on the network-server side
type rawSvc struct {
	tunnelpb.UnimplementedTunnelServiceServer
	w *World
}

func (s *rawSvc) OpenTunnel(stream tunnelpb.TunnelService_OpenTunnelServer) error {
	// harness = tunnel server (forward tunnel, real tunnel client)
	w := s.w
	ts := w.lastTunnel()
	if !w.cfg.SLegacy {
		_ = stream.SendHeader(metadata.Pairs("grpctunnel-negotiate", "on"))
	} else {
		_ = stream.SendHeader(metadata.MD{})
	}
	done := make(chan error, 1)
	ts.rawS = &rawServerEnd{
		send: func(m *tunnelpb.ServerToClient) error { return stream.Send(m) },
		finish: func(err error) {
			select {
			case done <- err:
			default:
			}
		},
	}
	go func() {
		for {
			m, err := stream.Recv()
			if err != nil {
				w.logf("rawrecv t=%d end=%s", ts.n, encErr(err))
				return
			}
			w.logf("rawrecv t=%d dir=c2s id=%d %s", ts.n, m.StreamId, descC(m))
		}
	}()
	select {
	case err := <-done:
		return err
	case <-stream.Context().Done():
		return status.FromContextError(stream.Context().Err()).Err()
	}
}

func (s *rawSvc) OpenReverseTunnel(stream tunnelpb.TunnelService_OpenReverseTunnelServer) error {
	// harness = tunnel client (reverse tunnel, real tunnel server = ReverseTunnelServer.Serve)
	w := s.w
	ts := w.lastTunnel()
	if !w.cfg.CLegacy {
		_ = stream.SendHeader(metadata.Pairs("grpctunnel-negotiate", "on"))
	} else {
		_ = stream.SendHeader(metadata.MD{})
	}
	done := make(chan error, 1)
	ts.rawC = &rawClientEnd{
		send: func(m *tunnelpb.ClientToServer) error { return stream.Send(m) },
		finish: func(err error) {
			select {
			case done <- err:
			default:
			}
		},
	}
	go func() {
		for {
			m, err := stream.Recv()
			if err != nil {
				w.logf("rawrecv t=%d end=%s", ts.n, encErr(err))
				return
			}
			w.logf("rawrecv t=%d dir=s2c id=%d %s", ts.n, m.StreamId, descS(m))
		}
	}()
	select {
	case err := <-done:
		return err
	case <-stream.Context().Done():
		return status.FromContextError(stream.Context().Err()).Err()
	}
}

func (w *World) lastTunnel() *tunnelState {
	w.mu.Lock()
	defer w.mu.Unlock()
	return w.tunnels[len(w.tunnels)-1]
}

// ---------- world construction ----------
func NewWorld(cfg Config) *World {
	w := &World{cfg: cfg, free: cfg.Free, rpcs: map[int]*rpcState{}, hands: map[int]*handState{}}
	w.stub = &Stub{w: w}
	realServer := !cfg.RawServer
	realClient := !cfg.RawClient
	sd := w.serviceDesc()
	// what the outer tunnel's server exposes: the scripted service itself, or (nested) the tunnel
	// service of an inner handler that exposes the scripted service
	var outerDesc *grpc.ServiceDesc = sd
	var outerImpl interface{} = &simService{w}
	if cfg.Nested {
		w.inner = grpctunnel.NewTunnelServiceHandler(grpctunnel.TunnelServiceHandlerOptions{NoReverseTunnels: true})
		w.inner.RegisterService(sd, &simService{w})
		outerDesc = &tunnelpb.TunnelService_ServiceDesc
		outerImpl = w.inner.Service()
	}
	if cfg.Mode == "fwd" {
		if realServer {
			w.handler = grpctunnel.NewTunnelServiceHandler(grpctunnel.TunnelServiceHandlerOptions{DisableFlowControl: cfg.SDisable})
			w.handler.RegisterService(outerDesc, outerImpl)
			w.stub.svc = w.handler.Service()
		} else {
			w.stub.svc = &rawSvc{w: w}
		}
		w.stub.stripReq = cfg.CLegacy && realClient
		w.stub.stripResp = cfg.SLegacy && realServer
	} else {
		if realClient {
			opts := grpctunnel.TunnelServiceHandlerOptions{
				DisableFlowControl:   cfg.CDisable,
				OnReverseTunnelOpen:  func(ch grpctunnel.TunnelChannel) { w.revOpened(ch) },
				OnReverseTunnelClose: func(ch grpctunnel.TunnelChannel) { w.revClosed(ch) },
			}
			if cfg.Keys {
				opts.AffinityKey = func(ch grpctunnel.TunnelChannel) any {
					md, _ := metadata.FromIncomingContext(ch.Context())
					if v := md.Get("key"); len(v) > 0 {
						return v[0]
					}
					return nil
				}
			}
			w.handler = grpctunnel.NewTunnelServiceHandler(opts)
			w.stub.svc = w.handler.Service()
		} else {
			w.stub.svc = &rawSvc{w: w}
		}
		if realServer {
			var o []grpctunnel.TunnelOption
			if cfg.SDisable {
				o = append(o, grpctunnel.WithDisableFlowControl())
			}
			w.revServer = grpctunnel.NewReverseTunnelServer(w.stub, o...)
			w.revServer.RegisterService(outerDesc, outerImpl)
		}
		// in a reverse tunnel the network client is the tunnel server
		w.stub.stripReq = cfg.SLegacy && realServer
		w.stub.stripResp = cfg.CLegacy && realClient
	}
	return w
}

func (w *World) tunnelOfChannel(ch grpctunnel.TunnelChannel) int {
	w.mu.Lock()
	defer w.mu.Unlock()
	for _, t := range w.tunnels {
		if t.ch == ch {
			return t.n
		}
	}
	return -1
}

func (w *World) revOpened(ch grpctunnel.TunnelChannel) {
	// match by opening metadata "tn"
	md, _ := metadata.FromIncomingContext(ch.Context())
	n := -1
	if v := md.Get("tn"); len(v) > 0 {
		n = atoi(v[0])
	}
	w.mu.Lock()
	if n >= 0 && n < len(w.tunnels) {
		w.tunnels[n].ch = ch
	}
	w.mu.Unlock()
	w.logf("callback open t=%d", n)
	go func() {
		<-ch.Done()
		w.logf("chandone t=%d err=%s", n, encErr(ch.Err()))
	}()
}

func (w *World) revClosed(ch grpctunnel.TunnelChannel) {
	w.logf("callback close t=%d", w.tunnelOfChannel(ch))
}

func (w *World) c2s(t *tunnelState) *gpipe {
	if w.cfg.Mode == "fwd" {
		return t.link.up
	}
	return t.link.down
}
func (w *World) s2c(t *tunnelState) *gpipe {
	if w.cfg.Mode == "fwd" {
		return t.link.down
	}
	return t.link.up
}

// ---------- actions ----------
func (w *World) openTunnel(m map[string]string) { w.openTunnelOpt(m, true) }

// free-running variants (no bubble)
func (w *World) openTunnelFree(md, peer string) {
	w.openTunnelOpt(map[string]string{"md": md, "peer": peer}, false)
}

func (w *World) waitChannel(t int, d time.Duration) grpc.ClientConnInterface {
	deadline := time.Now().Add(d)
	for time.Now().Before(deadline) {
		w.mu.Lock()
		var ch grpctunnel.TunnelChannel
		ok := false
		if t < len(w.tunnels) {
			ts := w.tunnels[t]
			ch = ts.ch
			ok = ch != nil && (w.cfg.Mode != "fwd" || ts.startRet)
		}
		w.mu.Unlock()
		if ok {
			return ch
		}
		time.Sleep(time.Millisecond)
	}
	return nil
}

// negotiateOff: this legacy raw forward client sends the negotiate header with a value other than "on"
func negotiateOff(cfg Config, m map[string]string) bool {
	return cfg.Mode == "fwd" && cfg.RawClient && cfg.CLegacy && m["to"] != ""
}

func (w *World) openTunnelOpt(m map[string]string, settle bool) {
	ts := &tunnelState{peer: m["peer"]}
	w.mu.Lock()
	n := len(w.tunnels)
	ts.n = n
	w.tunnels = append(w.tunnels, ts)
	w.mu.Unlock()
	ctx := context.Background()
	md := decMD(m["md"])
	if md == nil {
		md = metadata.MD{}
	}
	md.Set("tn", fmt.Sprint(n))
	ctx = metadata.NewOutgoingContext(ctx, md)
	var cancel context.CancelFunc
	if to, ok := m["to"]; ok {
		ctx, cancel = context.WithTimeout(ctx, time.Duration(atoi(to)))
	} else {
		ctx, cancel = context.WithCancel(ctx)
	}
	ctx = context.WithValue(ctx, tunnelStateKey{}, ts)
	w.mu.Lock()
	ts.openCtx, ts.cancel = ctx, cancel
	w.mu.Unlock()
	{
		eff := md.Copy()
		adv := true
		if w.cfg.Mode == "fwd" {
			adv = !w.cfg.CLegacy
		} else {
			adv = !w.cfg.SLegacy
		}
		if adv {
			eff.Set("grpctunnel-negotiate", "on")
		} else if negotiateOff(w.cfg, m) {
			eff.Set("grpctunnel-negotiate", "off")
		}
		if w.cfg.Mode == "fwd" {
			eff.Set("x-stub", "1")
		}
		pa := m["peer"]
		if pa == "" {
			pa = "peer-0"
		}
		w.logf("stim kind=open t=%d md=%s peer=%s", n, encMD(eff), encStr(pa))
	}
	setLink := func() {}
	cfg := w.cfg
	switch {
	case cfg.Mode == "fwd" && !cfg.RawClient:
		var o []grpctunnel.TunnelOption
		if cfg.CDisable {
			o = append(o, grpctunnel.WithDisableFlowControl())
		}
		go func() {
			ch, err := grpctunnel.NewChannel(w.stub, o...).Start(ctx)
			w.mu.Lock()
			ts.ch = ch
			ts.startRet = true
			w.mu.Unlock()
			w.logf("startret t=%d err=%s", n, encErr(err))
			if ch != nil {
				go func() {
					<-ch.Done()
					w.logf("chandone t=%d err=%s", n, encErr(ch.Err()))
				}()
			}
		}()
	case cfg.Mode == "fwd" && cfg.RawClient:
		octx := ctx
		if !cfg.CLegacy {
			octx = metadata.AppendToOutgoingContext(ctx, "grpctunnel-negotiate", "on")
		} else if negotiateOff(cfg, m) {
			// a legacy client that names the header without asking for negotiation
			octx = metadata.AppendToOutgoingContext(ctx, "grpctunnel-negotiate", "off")
		}
		stream, _ := w.stub.OpenTunnel(octx)
		ts.rawC = &rawClientEnd{
			send:   func(m *tunnelpb.ClientToServer) error { return stream.Send(m) },
			finish: func(error) { _ = stream.CloseSend() },
		}
		go func() {
			for {
				m, err := stream.Recv()
				if err != nil {
					w.logf("rawrecv t=%d end=%s", n, encErr(err))
					return
				}
				w.logf("rawrecv t=%d dir=s2c id=%d %s", n, m.StreamId, descS(m))
			}
		}()
	case cfg.Mode == "rev" && !cfg.RawServer:
		go func() {
			started, err := w.revServer.Serve(ctx)
			w.mu.Lock()
			ts.serveRet = true
			w.mu.Unlock()
			w.logf("serveret t=%d started=%v err=%s", n, started, encErr(err))
		}()
	case cfg.Mode == "rev" && cfg.RawServer:
		octx := ctx
		if !cfg.SLegacy {
			octx = metadata.AppendToOutgoingContext(ctx, "grpctunnel-negotiate", "on")
		}
		stream, _ := w.stub.OpenReverseTunnel(octx)
		ts.rawS = &rawServerEnd{
			send:   func(m *tunnelpb.ServerToClient) error { return stream.Send(m) },
			finish: func(error) { _ = stream.CloseSend() },
		}
		go func() {
			for {
				m, err := stream.Recv()
				if err != nil {
					w.logf("rawrecv t=%d end=%s", n, encErr(err))
					return
				}
				w.logf("rawrecv t=%d dir=c2s id=%d %s", n, m.StreamId, descC(m))
			}
		}()
	}
	if settle {
		synctest.Wait()
		setLink()
	} else {
		for i := 0; i < 2000; i++ {
			w.mu.Lock()
			l := ts.link
			w.mu.Unlock()
			if l != nil {
				break
			}
			time.Sleep(100 * time.Microsecond)
		}
	}
}

func methodName(shape string, r int, m map[string]string) string {
	if mn, ok := m["method"]; ok && mn != "auto" {
		if mn == "~" {
			return ""
		}
		return mn
	}
	return fmt.Sprintf("/v.S/%s%d", shape, r)
}

func (w *World) channelFor(t int, via string) grpc.ClientConnInterface {
	switch {
	case via == "multi":
		return w.handler.AsChannel()
	case strings.HasPrefix(via, "key:"):
		k := strings.TrimPrefix(via, "key:")
		if k == "nil" {
			return w.handler.KeyAsChannel(nil)
		}
		return w.handler.KeyAsChannel(k)
	}
	w.mu.Lock()
	defer w.mu.Unlock()
	if t < len(w.tunnels) && w.tunnels[t].ch != nil {
		return w.tunnels[t].ch
	}
	return nil
}

func (w *World) cnew(m map[string]string) {
	r := atoi(m["r"])
	t := atoi(m["t"])
	shape := m["shape"]
	rs := &rpcState{r: r, tunnel: t, shape: shape}
	rs.cw = newActor(fmt.Sprintf("cw%d", r))
	rs.cr = newActor(fmt.Sprintf("cr%d", r))
	w.rpcs[r] = rs
	ctx := context.Background()
	if md := m["md"]; md != "" && md != "-" {
		ctx = metadata.NewOutgoingContext(ctx, decMD(md))
	}
	var cancel context.CancelFunc
	if to, ok := m["to"]; ok {
		ctx, cancel = context.WithTimeout(ctx, time.Duration(atoi(to)))
	} else {
		ctx, cancel = context.WithCancel(ctx)
	}
	rs.cancel = cancel
	var opts []grpc.CallOption
	for _, o := range strings.Split(m["opts"], ",") {
		switch o {
		case "h":
			rs.hdrOpt = true
			// the target holds something from an earlier use: the library must replace it
			rs.hdrT = metadata.Pairs("stale-target", "h")
			opts = append(opts, grpc.Header(&rs.hdrT))
		case "t":
			rs.trlOpt = true
			rs.trlT = metadata.Pairs("stale-target", "t")
			opts = append(opts, grpc.Trailer(&rs.trlT))
		case "p":
			opts = append(opts, grpc.Peer(&rs.peerT))
		case "c":
			cm := map[string]string{}
			for k, v := range decMD(m["credmd"]) {
				if len(v) > 0 {
					cm[k] = v[0]
				}
			}
			if m["credmd"] == "-" || m["credmd"] == "" {
				cm = nil
			}
			opts = append(opts, grpc.PerRPCCredentials(creds{md: cm}))
		case "cs":
			opts = append(opts, grpc.PerRPCCredentials(creds{md: map[string]string{"k": "v"}, secure: true}))
		case "x":
			rs.tcOpt = true
			opts = append(opts, grpctunnel.WithTunnelChannel(&rs.tcT))
		}
	}
	name := methodName(shape, r, m)
	to := "none"
	if v, ok := m["to"]; ok {
		to = v
	}
	cmdEnc := "-"
	if strings.Contains(","+m["opts"]+",", ",c,") && m["credmd"] != "" {
		cmdEnc = m["credmd"]
	}
	mdEnc := "-"
	if md := m["md"]; md != "" {
		mdEnc = md
	}
	multi := 0
	if m["via"] != "" && m["via"] != "direct" {
		multi = 1
	}
	w.logf("newcall r=%d t=%d shape=%s method=%s md=%s credmd=%s to=%s multi=%d", r, t, shape, encStr(name), mdEnc, cmdEnc, to, multi)
	if multi == 1 {
		w.logf("route r=%d via=%s", r, m["via"])
	}
	w.logf("call who=cw%d op=new", r)
	cc := w.channelFor(t, m["via"])
	if cc == nil {
		w.logf("ret who=cw%d op=new res=err:nochannel", r)
		return
	}
	ok := rs.cw.do(func() {
		defer func() {
			if p := recover(); p != nil {
				w.logf("PANIC who=cw%d op=new %v", r, p)
			}
		}()
		st, err := cc.NewStream(ctx, shapeDesc(shape), name, opts...)
		if err == nil {
			rs.stream = st
			rs.started = true
		}
		extra := ""
		if rs.tcOpt {
			extra = fmt.Sprintf(" tcopt=%d", w.tunnelOfChannel(rs.tcT))
		}
		if err == nil {
			tc := grpctunnel.TunnelChannelFromContext(st.Context())
			rs.picked = w.tunnelOfChannel(tc)
			tmd, tok := grpctunnel.TunnelMetadataFromOutgoingContext(st.Context())
			tm := "absent"
			if tok {
				tm = encMD(tmd)
			}
			extra += fmt.Sprintf(" ctxtc=%d ctxtmd=%s", w.tunnelOfChannel(tc), tm)
			scribble(tmd)
		}
		w.logf("ret who=cw%d op=new res=%s%s", r, encErr(err), extra)
	})
	if !ok {
		w.logf("skip busy who=cw%d", r)
	}
}

// cinvoke performs a whole unary call through Invoke (what generated stubs do)
func (w *World) cinvoke(m map[string]string) {
	r := atoi(m["r"])
	t := atoi(m["t"])
	rs := &rpcState{r: r, tunnel: t, shape: "U", invoke: true}
	rs.cw = newActor(fmt.Sprintf("cw%d", r))
	rs.cr = newActor(fmt.Sprintf("cr%d", r))
	w.rpcs[r] = rs
	ctx := context.Background()
	mdEnc := "-"
	if md := m["md"]; md != "" && md != "-" {
		ctx = metadata.NewOutgoingContext(ctx, decMD(md))
		mdEnc = md
	}
	ctx, rs.cancel = context.WithCancel(ctx)
	name := methodName("U", r, m)
	trl := metadata.Pairs("stale-target", "t")
	w.logf("newcall r=%d t=%d shape=U method=%s md=%s credmd=- to=none multi=0", r, t, encStr(name), mdEnc)
	cc := w.channelFor(t, m["via"])
	if cc == nil {
		w.logf("ret who=cw%d op=new res=err:nochannel", r)
		return
	}
	pl := payloadFor(r, 'c', 0, atoi(m["size"]))
	req := &Msg{Value: pl}
	w.logf("call who=cw%d op=new", r)
	w.logf("call who=cw%d op=send idx=0 ser=%d len=%d dg=%x", r, proto.Size(req), len(pl), digest(pl))
	w.logf("call who=cr%d op=recv", r)
	rs.cw.do(func() {
		defer func() {
			if p := recover(); p != nil {
				w.logf("PANIC who=cw%d op=invoke %v", r, p)
			}
		}()
		resp := staleMsg()
		err := cc.Invoke(ctx, name, req, resp, grpc.Trailer(&trl))
		w.setFlag(fmt.Sprintf("cterm%d", r))
		if err == nil {
			w.logf("ret who=cw%d op=send idx=0 res=ok", r)
			w.logf("ret who=cr%d op=recv res=ok len=%d dg=%x", r, len(resp.Value), digest(resp.Value))
			w.logf("call who=cr%d op=recv", r)
			w.logf("ret who=cr%d op=recv res=EOF trl=%s trlopt=%s", r, encMD(trl), encMD(trl))
		} else {
			if !rs.started {
				w.logf("ret who=cw%d op=new res=%s", r, encErr(err))
			}
			w.logf("ret who=cw%d op=send idx=0 res=%s", r, map[bool]string{true: "ok", false: encErr(err)}[rs.started])
			w.logf("ret who=cr%d op=recv res=%s trl=%s trlopt=%s", r, encErr(err), encMD(trl), encMD(trl))
		}
	})
}

func (w *World) clientOp(op string, m map[string]string) {
	r := atoi(m["r"])
	rs := w.rpcs[r]
	if rs == nil || (!rs.started && op != "ccancel") {
		w.logf("skip nostream r=%d op=%s", r, op)
		return
	}
	guard := func(who, op string) func() {
		return func() {
			if p := recover(); p != nil {
				w.logf("PANIC who=%s op=%s %v", who, op, p)
			}
		}
	}
	switch op {
	case "csend":
		if rs.cw.isBusy() {
			w.logf("skip busy who=cw%d", r)
			return
		}
		size := atoi(m["size"])
		idx := rs.nsent
		rs.nsent++
		pl := payloadFor(r, 'c', idx, size)
		var msg proto.Message = &Msg{Value: pl}
		if m["bad"] == "1" {
			// a message that cannot be encoded (a proto3 string that is not valid UTF-8): SendMsg fails
			// before anything reaches the carrier
			pl = nil
			msg = wrapperspb.String("\xff\xfe not utf-8")
		}
		w.logf("call who=cw%d op=send idx=%d ser=%d len=%d dg=%x", r, idx, proto.Size(msg), len(pl), digest(pl))
		if !rs.cw.do(func() {
			defer guard(rs.cw.name, "send")()
			err := rs.stream.SendMsg(msg)
			w.logf("ret who=cw%d op=send idx=%d res=%s", r, idx, encErr(err))
		}) {
			rs.nsent--
			w.logf("skip busy who=cw%d", r)
		}
	case "cclose":
		if rs.cw.isBusy() {
			w.logf("skip busy who=cw%d", r)
			return
		}
		w.logf("call who=cw%d op=closesend", r)
		if !rs.cw.do(func() {
			defer guard(rs.cw.name, "closesend")()
			err := rs.stream.CloseSend()
			w.logf("ret who=cw%d op=closesend res=%s", r, encErr(err))
		}) {
			w.logf("skip busy who=cw%d", r)
		}
	case "crecv":
		if rs.cr.isBusy() {
			w.logf("skip busy who=cr%d", r)
			return
		}
		w.logf("call who=cr%d op=recv", r)
		if !rs.cr.do(func() {
			defer guard(rs.cr.name, "recv")()
			msg := staleMsg()
			err := rs.stream.RecvMsg(msg)
			if err == nil {
				w.logf("ret who=cr%d op=recv res=ok len=%d dg=%x", r, len(msg.Value), digest(msg.Value))
			} else {
				// trailers must be visible as soon as the terminal result has been returned
				extra := " trl=" + encMD(rs.stream.Trailer())
				if rs.trlOpt {
					extra += " trlopt=" + encMD(rs.trlT)
				}
				w.setFlag(fmt.Sprintf("cterm%d", r))
				w.logf("ret who=cr%d op=recv res=%s%s", r, encErr(err), extra)
			}
		}) {
			w.logf("skip busy who=cr%d", r)
		}
	case "chdr":
		if rs.cr.isBusy() {
			w.logf("skip busy who=cr%d", r)
			return
		}
		w.logf("call who=cr%d op=header", r)
		if !rs.cr.do(func() {
			defer guard(rs.cr.name, "header")()
			md, err := rs.stream.Header()
			extra := ""
			if rs.hdrOpt {
				extra = " hdropt=" + encMD(rs.hdrT)
			}
			w.logf("ret who=cr%d op=header res=%s md=%s%s", r, encErr(err), encMD(md), extra)
		}) {
			w.logf("skip busy who=cr%d", r)
		}
	case "ctrl":
		w.logf("ret who=cx%d op=trailer res=ok md=%s", r, encMD(rs.stream.Trailer()))
	case "ccancel":
		w.setFlag(fmt.Sprintf("cterm%d", r))
		rs.cancel()
		w.logf("ret who=cx%d op=cancel res=ok", r)
	}
}

// scribble mutates metadata obtained from an accessor in every way a caller could: in place
// inside the value slices, by appending, by adding and by deleting keys. Nobody else may notice.
func scribble(md metadata.MD) {
	for k, v := range md {
		for i := range v {
			v[i] = "SCRIBBLED"
		}
		md[k] = append(v, "more")
	}
	md["scribble"] = []string{"x"}
	for k := range md {
		delete(md, k)
		break
	}
}

func statusFrom(m map[string]string) error {
	code := codes.Code(atoi(m["code"]))
	if code == codes.OK {
		return nil
	}
	msg := m["msg"]
	if msg == "~" {
		msg = ""
	}
	st := status.New(code, msg)
	if m["det"] == "1" {
		st2, err := st.WithDetails(&errdetails.ErrorInfo{Reason: "r" + m["r"], Domain: "verif"})
		if err == nil {
			st = st2
		}
	}
	return st.Err()
}

func (w *World) handlerOp(op string, m map[string]string) {
	r := atoi(m["r"])
	w.hmu.Lock()
	h := w.hands[r]
	w.hmu.Unlock()
	if h == nil {
		w.logf("skip nohandler r=%d op=%s", r, op)
		return
	}
	guard := func(who, op string) func() {
		return func() {
			if p := recover(); p != nil {
				w.logf("PANIC who=%s op=%s %v", who, op, p)
			}
		}
	}
	switch op {
	case "hrecv":
		if h.hr.isBusy() {
			w.logf("skip busy who=hr%d", r)
			return
		}
		w.logf("call who=hr%d op=recv", r)
		if !h.hr.do(func() {
			defer guard(h.hr.name, "recv")()
			msg := staleMsg()
			var err error
			if h.dec != nil {
				err = h.dec(msg)
			} else {
				err = h.ss.RecvMsg(msg)
			}
			if err == nil {
				w.setFlag(fmt.Sprintf("hgot%d", r))
				w.logf("ret who=hr%d op=recv res=ok len=%d dg=%x", r, len(msg.Value), digest(msg.Value))
			} else {
				w.setFlag(fmt.Sprintf("hend%d", r))
				w.logf("ret who=hr%d op=recv res=%s ctxerr=%s", r, encErr(err), encErr(h.ctx.Err()))
			}
		}) {
			w.logf("skip busy who=hr%d", r)
		}
	case "hsend":
		if h.ss == nil {
			w.logf("skip unary-send r=%d", r)
			return
		}
		if h.hw.isBusy() {
			w.logf("skip busy who=hw%d", r)
			return
		}
		size := atoi(m["size"])
		idx := h.nsent
		h.nsent++
		pl := payloadFor(r, 's', idx, size)
		msg := &Msg{Value: pl}
		w.logf("call who=hw%d op=send idx=%d ser=%d len=%d dg=%x", r, idx, proto.Size(msg), len(pl), digest(pl))
		if !h.hw.do(func() {
			defer guard(h.hw.name, "send")()
			err := h.ss.SendMsg(msg)
			w.logf("ret who=hw%d op=send idx=%d res=%s", r, idx, encErr(err))
		}) {
			h.nsent--
			w.logf("skip busy who=hw%d", r)
		}
	case "hsethdr", "hsendhdr", "hsettrl":
		md := decMD(m["md"])
		if h.hw.isBusy() {
			w.logf("skip busy who=hw%d", r)
			return
		}
		w.logf("call who=hw%d op=%s", r, op[1:])
		if !h.hw.do(func() {
			defer guard(h.hw.name, op)()
			var err error
			switch op {
			case "hsethdr":
				err = grpc.SetHeader(h.ctx, md)
			case "hsendhdr":
				err = grpc.SendHeader(h.ctx, md)
			default:
				err = grpc.SetTrailer(h.ctx, md)
			}
			w.logf("ret who=hw%d op=%s res=%s md=%s", r, op[1:], encErr(err), encMD(md))
		}) {
			w.logf("skip busy who=hw%d", r)
		}
	case "hret":
		err := statusFrom(m)
		ret := handRet{err: err}
		extra := ""
		if h.dec != nil && err == nil {
			size := atoi(m["size"])
			pl := payloadFor(r, 's', 0, size)
			ret.resp = &Msg{Value: pl}
			extra = fmt.Sprintf(" ser=%d len=%d dg=%x", proto.Size(ret.resp), len(pl), digest(pl))
		}
		select {
		case h.ret <- ret:
			w.logf("call who=hx%d op=return status=%s%s", r, encErr(err), extra)
		default:
			w.logf("skip already-returned r=%d", r)
		}
	case "hctx":
		w.logf("ret who=hx%d op=ctx res=%s", r, encErr(h.ctx.Err()))
	}
}

// validMessage returns size bytes that unmarshal as a BytesValue (when size allows one)
func validMessage(size int) []byte {
	if size < 2 {
		return make([]byte, size)
	}
	p := size - 2
	for p > 0 && 1+varintLen(p)+p > size {
		p--
	}
	b := []byte{0x0A}
	n := p
	for n >= 128 {
		b = append(b, byte(n)|0x80)
		n >>= 7
	}
	b = append(b, byte(n))
	b = append(b, make([]byte, p)...)
	for len(b)+2 <= size {
		b = append(b, 0x0A, 0x00)
	}
	for len(b) < size {
		b = append(b, 0) // cannot be made valid
	}
	return b
}

// rawData hands out the bytes of raw data frames so that consecutive frames of one message
// form a valid protobuf message whenever their lengths add up to the announced size
func (w *World) rawData(key string, env bool, size, n int) []byte {
	if w.rawBuf == nil {
		w.rawBuf = map[string][]byte{}
	}
	if env {
		if size > 8<<20 {
			// an announced size far beyond what will ever be sent: only the bytes asked for
			w.rawBuf[key] = nil
		} else {
			w.rawBuf[key] = validMessage(size)
		}
	}
	buf := w.rawBuf[key]
	out := make([]byte, n)
	c := copy(out, buf)
	w.rawBuf[key] = buf[c:]
	return out
}

func parseRawC(m map[string]string) *tunnelpb.ClientToServer {
	id, _ := strconv.ParseInt(m["id"], 10, 64)
	f := &tunnelpb.ClientToServer{StreamId: id}
	switch m["kind"] {
	case "new":
		name := m["method"]
		if name == "~" {
			name = ""
		}
		un, _ := urlUnescape(name)
		f.Frame = &tunnelpb.ClientToServer_NewStream{NewStream: &tunnelpb.NewStream{
			MethodName: un, ProtocolRevision: tunnelpb.ProtocolRevision(atoi(m["rev"])), InitialWindowSize: uint32(atoi(m["win"])),
			RequestHeaders: toPB(decMD(m["md"]))}}
	case "msg":
		f.Frame = &tunnelpb.ClientToServer_RequestMessage{RequestMessage: &tunnelpb.MessageData{Size: uint32(atoi(m["size"])), Data: curWorld.rawData("c"+m["id"], true, atoi(m["size"]), atoi(m["len"]))}}
	case "more":
		f.Frame = &tunnelpb.ClientToServer_MoreRequestData{MoreRequestData: curWorld.rawData("c"+m["id"], false, 0, atoi(m["len"]))}
	case "half":
		f.Frame = &tunnelpb.ClientToServer_HalfClose{HalfClose: &emptypb.Empty{}}
	case "cancel":
		f.Frame = &tunnelpb.ClientToServer_Cancel{Cancel: &emptypb.Empty{}}
	case "wu":
		n, _ := strconv.ParseUint(m["n"], 10, 32)
		f.Frame = &tunnelpb.ClientToServer_WindowUpdate{WindowUpdate: uint32(n)}
	case "nil":
	}
	return f
}

func urlUnescape(s string) (string, error) {
	if s == "~" {
		return "", nil
	}
	u, err := url.QueryUnescape(s)
	return u, err
}

func toPB(md metadata.MD) *tunnelpb.Metadata {
	if md == nil {
		return nil
	}
	vals := map[string]*tunnelpb.Metadata_Values{}
	for k, v := range md {
		vals[k] = &tunnelpb.Metadata_Values{Val: v}
	}
	return &tunnelpb.Metadata{Md: vals}
}

func parseRawS(m map[string]string) *tunnelpb.ServerToClient {
	id, _ := strconv.ParseInt(m["id"], 10, 64)
	f := &tunnelpb.ServerToClient{StreamId: id}
	switch m["kind"] {
	case "settings":
		var revs []tunnelpb.ProtocolRevision
		if m["revs"] != "" && m["revs"] != "-" {
			for _, r := range strings.Split(m["revs"], ",") {
				revs = append(revs, tunnelpb.ProtocolRevision(atoi(r)))
			}
		}
		f.Frame = &tunnelpb.ServerToClient_Settings{Settings: &tunnelpb.Settings{SupportedProtocolRevisions: revs, InitialWindowSize: uint32(atoi(m["win"]))}}
	case "hdrs":
		f.Frame = &tunnelpb.ServerToClient_ResponseHeaders{ResponseHeaders: toPB(decMD(m["md"]))}
	case "msg":
		f.Frame = &tunnelpb.ServerToClient_ResponseMessage{ResponseMessage: &tunnelpb.MessageData{Size: uint32(atoi(m["size"])), Data: curWorld.rawData("s"+m["id"], true, atoi(m["size"]), atoi(m["len"]))}}
	case "more":
		f.Frame = &tunnelpb.ServerToClient_MoreResponseData{MoreResponseData: curWorld.rawData("s"+m["id"], false, 0, atoi(m["len"]))}
	case "close":
		st := status.New(codes.Code(atoi(m["code"])), m["msg"])
		f.Frame = &tunnelpb.ServerToClient_CloseStream{CloseStream: &tunnelpb.CloseStream{Status: st.Proto(), ResponseTrailers: toPB(decMD(m["md"]))}}
	case "wu":
		n, _ := strconv.ParseUint(m["n"], 10, 32)
		f.Frame = &tunnelpb.ServerToClient_WindowUpdate{WindowUpdate: uint32(n)}
	case "nil":
	}
	return f
}

func (w *World) tunnel(m map[string]string) *tunnelState {
	t := atoi(m["t"])
	w.mu.Lock()
	defer w.mu.Unlock()
	if t < len(w.tunnels) {
		return w.tunnels[t]
	}
	return nil
}

// Do executes one controller action (without waiting for the system to settle).
func (w *World) Do(line string) {
	curWorld = w
	op, m := kv(line)
	defer func() {
		if p := recover(); p != nil {
			w.logf("PANIC controller op=%s %v", op, p)
		}
	}()
	switch op {
	case "open":
		w.openTunnel(m)
	case "cnew":
		w.cnew(m)
	case "csend", "cclose", "crecv", "chdr", "ctrl", "ccancel":
		w.clientOp(op, m)
	case "cinvoke":
		w.cinvoke(m)
	case "hrecv", "hsend", "hsethdr", "hsendhdr", "hsettrl", "hret", "hctx":
		w.handlerOp(op, m)
	case "dc", "ds":
		ts := w.tunnel(m)
		if ts == nil || ts.link == nil {
			w.logf("deliver dir=%s what=none", op)
			return
		}
		p := w.c2s(ts)
		dir := "c2s"
		if op == "ds" {
			p, dir = w.s2c(ts), "s2c"
		}
		p.release(func(what string) { w.logf("deliver dir=%s t=%d what=%s", dir, ts.n, what) })
		// n=K: a burst - K frames become receivable back to back, the receive loop is not given
		// the time to finish with one before the next is there
		for k := 1; k < atoi(m["n"]); k++ {
			if p.pending() == 0 {
				break
			}
			p.release(func(what string) { w.logf("deliver dir=%s t=%d what=%s", dir, ts.n, what) })
		}
	case "fail":
		w.logf("stim kind=fail t=%d", atoi(m["t"]))
		if ts := w.tunnel(m); ts != nil && ts.link != nil {
			ts.link.kill(status.Error(codes.Unavailable, "transport is closing"))
		}
	case "chclose":
		w.logf("stim kind=chclose t=%d", atoi(m["t"]))
		if ts := w.tunnel(m); ts != nil {
			w.mu.Lock()
			ch := ts.ch
			w.mu.Unlock()
			if ch != nil {
				go func() { ch.Close(); w.logf("ret who=ctl op=chclose t=%d res=ok", ts.n) }()
			}
		}
	case "ctxend":
		w.logf("stim kind=ctxend t=%d", atoi(m["t"]))
		if ts := w.tunnel(m); ts != nil {
			ts.cancel()
		}
	case "shutdown":
		w.logf("stim kind=shutdown t=0")
		if w.handler != nil && w.cfg.Mode == "fwd" {
			w.handler.InitiateShutdown()
		}
		if w.revServer != nil {
			go func() { w.revServer.GracefulStop(); w.logf("ret who=ctl op=gracefulstop res=ok") }()
		}
	case "stop":
		w.logf("stim kind=stop t=0")
		if w.revServer != nil {
			go func() { w.revServer.Stop(); w.logf("ret who=ctl op=stop res=ok") }()
		}
	case "adv":
		w.logf("stim kind=adv t=0")
		d, _ := strconv.ParseInt(m["ns"], 10, 64)
		time.Sleep(time.Duration(d))
	case "rawc":
		if ts := w.tunnel(m); ts != nil && ts.rawC != nil {
			if m["kind"] == "end" {
				w.logf("stim kind=rawend t=%d", ts.n)
				ts.rawC.finish(nil)
			} else {
				err := ts.rawC.send(parseRawC(m))
				if err != nil {
					w.logf("rawsend dir=c2s res=%s", encErr(err))
				}
			}
		}
	case "raws":
		if ts := w.tunnel(m); ts != nil && ts.rawS != nil {
			if m["kind"] == "end" {
				w.logf("stim kind=rawend t=%d", ts.n)
				var err error
				if c := atoi(m["code"]); c != 0 {
					err = status.Error(codes.Code(c), "raw end")
				}
				ts.rawS.finish(err)
			} else {
				err := ts.rawS.send(parseRawS(m))
				if err != nil {
					w.logf("rawsend dir=s2c res=%s", encErr(err))
				}
			}
		}
	case "holdreg":
		// reverse-tunnel handlers stop between the registration in the set of all tunnels and the
		// one in the per-key set, until "releasereg"
		w.mu.Lock()
		w.regGate = make(chan struct{})
		w.mu.Unlock()
		grpctunnel.VerifSetYieldHook(func(tag string) {
			if tag != "handler.registering" {
				return
			}
			w.mu.Lock()
			g := w.regGate
			w.mu.Unlock()
			if g != nil {
				<-g
			}
		})
	case "hold":
		// goroutines of the library stop at the named yield point until "release" (the yield point
		// must be one where no mutex of the library is held)
		w.mu.Lock()
		w.regGate = make(chan struct{})
		w.mu.Unlock()
		tagName := m["tag"]
		grpctunnel.VerifSetYieldHook(func(tag string) {
			if tag != tagName {
				return
			}
			w.mu.Lock()
			g := w.regGate
			w.mu.Unlock()
			if g != nil {
				<-g
			}
		})
	case "releasereg", "release":
		w.mu.Lock()
		if w.regGate != nil {
			close(w.regGate)
			w.regGate = nil
		}
		w.mu.Unlock()
		grpctunnel.VerifSetYieldHook(nil)
	case "ready":
		if w.handler != nil {
			via := m["via"]
			var rc grpctunnel.ReverseClientConnInterface
			if strings.HasPrefix(via, "key:") {
				k := strings.TrimPrefix(via, "key:")
				if k == "nil" {
					rc = w.handler.KeyAsChannel(nil)
				} else {
					rc = w.handler.KeyAsChannel(k)
				}
			} else {
				rc = w.handler.AsChannel()
			}
			var ts []string
			for _, ch := range w.handler.AllReverseTunnels() {
				ts = append(ts, fmt.Sprint(w.tunnelOfChannel(ch)))
			}
			w.logf("readyobs via=%s res=%v all=%s", via, rc.Ready(), strings.Join(ts, ","))
		}
	case "wait":
		// WaitForReady in its own goroutine; the context is cancelled at teardown
		if w.handler != nil {
			via := m["via"]
			var rc grpctunnel.ReverseClientConnInterface
			if strings.HasPrefix(via, "key:") {
				k := strings.TrimPrefix(via, "key:")
				if k == "nil" {
					rc = w.handler.KeyAsChannel(nil)
				} else {
					rc = w.handler.KeyAsChannel(k)
				}
			} else {
				rc = w.handler.AsChannel()
			}
			w.nwait++
			n := w.nwait
			ctx, cancel := context.WithCancel(context.Background())
			w.waitCancels = append(w.waitCancels, cancel)
			w.logf("waitcall n=%d via=%s", n, via)
			go func() {
				err := rc.WaitForReady(ctx)
				w.logf("waitret n=%d via=%s res=%s", n, via, encErr(err))
			}()
		}
	case "probe":
		w.probe(true)
	default:
		w.logf("skip unknown-action %s", op)
	}
}

func (w *World) probe(full bool) {
	var parts []string
	w.mu.Lock()
	ts := append([]*tunnelState(nil), w.tunnels...)
	w.mu.Unlock()
	for _, t := range ts {
		ctab := -2
		if t.ch != nil {
			ctab = grpctunnel.VerifClientTableSize(t.ch)
		}
		pc, ps := -1, -1
		if t.link != nil {
			pc, ps = w.c2s(t).pending(), w.s2c(t).pending()
		}
		parts = append(parts, fmt.Sprintf("t%d:ctab=%d,pc2s=%d,ps2c=%d", t.n, ctab, pc, ps))
	}
	st := grpctunnel.VerifServerTableSizes()
	var ss []string
	for _, n := range st {
		ss = append(ss, fmt.Sprint(n))
	}
	s := fmt.Sprintf("probe %s stabs=%s", strings.Join(parts, " "), strings.Join(ss, ","))
	if full {
		s += " goroutines=" + encCensus(census())
	}
	w.logf("%s", s)
}

// Teardown releases everything the harness itself holds so that only leaked
// library goroutines can remain in the bubble.
func (w *World) Teardown() {
	w.mu.Lock()
	if w.regGate != nil {
		close(w.regGate)
		w.regGate = nil
	}
	w.mu.Unlock()
	grpctunnel.VerifSetYieldHook(nil)
	for _, c := range w.waitCancels {
		c()
	}
	for _, rs := range w.rpcs {
		if rs.cancel != nil {
			rs.cancel()
		}
	}
	w.hmu.Lock()
	for _, h := range w.allHands {
		select {
		case h.ret <- handRet{err: status.Error(codes.Aborted, "teardown")}:
		default:
		}
	}
	w.hmu.Unlock()
	w.mu.Lock()
	ts := append([]*tunnelState(nil), w.tunnels...)
	w.mu.Unlock()
	for _, t := range ts {
		if t.rawC != nil {
			t.rawC.finish(nil)
		}
		if t.rawS != nil {
			t.rawS.finish(nil)
		}
		t.cancel()
		if t.link != nil {
			t.link.kill(io.ErrClosedPipe)
		}
	}
	synctest.Wait()
	for _, rs := range w.rpcs {
		rs.cw.stop()
		rs.cr.stop()
	}
	synctest.Wait()
}
