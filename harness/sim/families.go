//go:build verif

package sim

import (
	"fmt"
	"math/rand"
)

// configurations of the negotiation matrix that two real endpoints can be in
var realConfigs = []Config{
	{Mode: "fwd"}, {Mode: "rev"},
	{Mode: "fwd", CDisable: true}, {Mode: "fwd", SDisable: true}, {Mode: "rev", CDisable: true}, {Mode: "rev", SDisable: true},
}

// (A legacy peer cannot be emulated by stripping the negotiate header from a current
// endpoint: a current endpoint still advertises on its own side. Legacy peers are played
// by the raw-peer drivers, which speak revision zero.)

func fcConfigs() []Config { return []Config{{Mode: "fwd"}, {Mode: "rev"}} }

// Families returns the drivers of a scenario family.
func Families(family string, seed int64, count int) []Driver {
	rng := rand.New(rand.NewSource(seed*7919 + int64(len(family))))
	var out []Driver
	if family == "shapes" {
		// a fixed enumeration (count is ignored)
		return shapeScripts(seed)
	}
	for i := 0; i < count; i++ {
		s := rng.Int63()
		name := fmt.Sprintf("%s-%d-%d", family, seed, i)
		cfg := realConfigs[(i+int(seed))%len(realConfigs)]
		switch family {
		case "data":
			out = append(out, newWorkload(name, s, workloadOpts{cfg: cfg, nRPC: 1 + rng.Intn(3), volume: i%4 == 0, big: i%9 == 0}))
		case "meta":
			out = append(out, newWorkload(name, s, workloadOpts{cfg: cfg, nRPC: 1 + rng.Intn(2), meta: true}))
		case "utf8":
			out = append(out, newWorkload(name, s, workloadOpts{cfg: cfg, nRPC: 2 + rng.Intn(2), meta: true, badutf: true}))
		case "term":
			d := []string{"fail", "chclose", "ctxend", "stop"}[i%4]
			if d == "stop" {
				cfg.Mode = "rev"
			}
			out = append(out, newWorkload(name, s, workloadOpts{cfg: cfg, nRPC: 1 + rng.Intn(3), disturb: d, volume: i%3 == 0, lazy: i%5 == 4, streamingOnly: i%5 == 4}))
		case "cancel":
			out = append(out, newWorkload(name, s, workloadOpts{cfg: cfg, nRPC: 1 + rng.Intn(3), disturb: "cancel", volume: i%3 == 0, meta: i%2 == 0, precancel: i%2 == 1, lazy: i%6 == 5}))
		case "shutdown":
			d := "shutdown"
			if cfg.Mode == "rev" {
				d = []string{"shutdown", "shutdown", "shutdown+stop", "stop2"}[rng.Intn(4)]
			}
			out = append(out, newWorkload(name, s, workloadOpts{cfg: cfg, nRPC: 1 + rng.Intn(3), disturb: d}))
		case "term0":
			// revision zero, a consumer that never reads (the receive loop ends up parked in the
			// one-slot hand-off), then a termination cause
			c := []Config{{Mode: "fwd", CDisable: true}, {Mode: "rev", SDisable: true}, {Mode: "fwd", SDisable: true}, {Mode: "rev", CDisable: true}}[i%4]
			d := []string{"ctxend", "fail", "chclose", "stop"}[(i/4)%4]
			if d == "stop" && c.Mode != "rev" {
				d = "ctxend"
			}
			out = append(out, newWorkload(name, s, workloadOpts{cfg: c, nRPC: 1 + rng.Intn(2), noReader: true, streamingOnly: true, disturb: d}))
		case "blocked":
			// flow control, a consumer that never reads so that the peer's sender blocks on its
			// window, then that RPC is cancelled or the tunnel ends
			c := fcConfigs()[i%2]
			d := []string{"cancel", "cancel", "fail", "chclose", "ctxend"}[i%5]
			out = append(out, newWorkload(name, s, workloadOpts{cfg: c, nRPC: 1 + rng.Intn(3), noReader: true, streamingOnly: true, disturb: d}))
		case "rawc":
			c := []Config{{Mode: "fwd", RawClient: true}, {Mode: "rev", RawClient: true}, {Mode: "fwd", RawClient: true, SDisable: true}}[i%3]
			out = append(out, newRawClient(name, s, c, true))
		case "rawcok":
			// a conforming raw client, including a legacy one that does not advertise negotiation
			c := []Config{{Mode: "fwd", RawClient: true}, {Mode: "fwd", RawClient: true, CLegacy: true}, {Mode: "rev", RawClient: true}, {Mode: "rev", RawClient: true, CLegacy: true}}[i%4]
			out = append(out, newRawClient(name, s, c, false))
		case "raws":
			c := []Config{{Mode: "fwd", RawServer: true}, {Mode: "rev", RawServer: true}}[i%2]
			out = append(out, newRawServer(name, s, c, true, false))
		case "nego":
			// every settings message (revision lists incl. empty / unknown / duplicate / unsorted,
			// windows, wrong id, wrong first frame, missing) x client with flow control on / off,
			// and legacy servers
			c := []Config{{Mode: "fwd", RawServer: true}, {Mode: "rev", RawServer: true}, {Mode: "fwd", RawServer: true, CDisable: true},
				{Mode: "rev", RawServer: true, CDisable: true}, {Mode: "fwd", RawServer: true, SLegacy: true}, {Mode: "rev", RawServer: true, SLegacy: true}}[i%6]
			out = append(out, newRawServer(name, s, c, false, true))
		case "regraw":
			out = append(out, newRegistryRawDriver(name, s))
		case "registry":
			out = append(out, newRegistryDriver(name, s, i%4 != 0))
		case "nohol":
			c := fcConfigs()[i%2]
			out = append(out, newWorkload(name, s, workloadOpts{cfg: c, nRPC: 2 + rng.Intn(2), noReader: true, streamingOnly: true}))
		}
	}
	return out
}
