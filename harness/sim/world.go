//go:build verif

package sim

import (
	"context"
	"errors"
	"fmt"
	"hash/fnv"
	"io"
	"net/url"
	"runtime"
	"sort"
	"strings"
	"sync"
	"time"

	"github.com/jhump/grpctunnel"
	"github.com/jhump/grpctunnel/tunnelpb"
	"google.golang.org/grpc"
	"google.golang.org/grpc/codes"
	"google.golang.org/grpc/metadata"
	"google.golang.org/grpc/peer"
	"google.golang.org/grpc/status"
	"google.golang.org/protobuf/proto"
	"google.golang.org/protobuf/types/known/wrapperspb"
)

type Msg = wrapperspb.BytesValue

const MaxRPC = 128

// Config of one scenario's world.
type Config struct {
	Mode      string // "fwd" | "rev"
	CDisable  bool   // tunnel client disables flow control
	SDisable  bool   // tunnel server disables flow control
	CLegacy   bool   // tunnel client does not advertise negotiation (legacy peer)
	SLegacy   bool   // tunnel server does not advertise negotiation
	RawClient bool   // the harness plays the tunnel client with raw frames
	RawServer bool   // the harness plays the tunnel server with raw frames
	Free      bool   // free-running (no delivery gating)
	Keys      bool   // reverse handler uses an affinity key function (key from opening metadata "key")
	Nested    bool   // the scripted service is served through a tunnel that itself runs over the outer tunnel
}

type World struct {
	regGate chan struct{} // non-nil: reverse-tunnel handlers wait at the hook between the two registrations
	cfg     Config
	free    bool
	mu      sync.Mutex
	events  []string
	links   []*link
	openErr error

	handler   *grpctunnel.TunnelServiceHandler
	inner     *grpctunnel.TunnelServiceHandler // nested: the handler of the inner (forward) tunnel
	revServer *grpctunnel.ReverseTunnelServer
	stub      *Stub

	tunnels     []*tunnelState
	rpcs        map[int]*rpcState
	flags       map[string]bool
	ids         map[int]int64
	rawBuf      map[string][]byte
	auto        bool // free-running mode: handlers follow autoPlans without a controller
	pipeCap     int
	autoPlans   map[int]*autoPlan
	rLocks      [MaxRPC]sync.Mutex
	hands       map[int]*handState
	allHands    []*handState
	nwait       int
	waitCancels []context.CancelFunc
	hmu         sync.Mutex
}

type tunnelState struct {
	n        int
	link     *link
	ch       grpctunnel.TunnelChannel // forward: from Start; reverse: from the open callback
	openCtx  context.Context
	cancel   context.CancelFunc
	startRet bool
	peer     string
	serveRet bool
	rawC     *rawClientEnd
	rawS     *rawServerEnd
}

func (w *World) logf(f string, a ...any) {
	w.mu.Lock()
	w.events = append(w.events, fmt.Sprintf(f, a...))
	w.mu.Unlock()
}

func (w *World) drain() []string {
	w.mu.Lock()
	defer w.mu.Unlock()
	e := w.events
	w.events = nil
	return e
}

func (w *World) addLink(l *link) {
	w.mu.Lock()
	l.id = len(w.links)
	w.links = append(w.links, l)
	w.mu.Unlock()
}

// ---------- encoding of observables ----------
func encStr(s string) string {
	if s == "" {
		return "~"
	}
	return url.QueryEscape(s)
}

func encMD(md metadata.MD) string {
	if md == nil {
		return "-"
	}
	if len(md) == 0 {
		return "{}"
	}
	keys := make([]string, 0, len(md))
	for k := range md {
		keys = append(keys, k)
	}
	sort.Strings(keys)
	var parts []string
	for _, k := range keys {
		var vs []string
		for _, v := range md[k] {
			vs = append(vs, encStr(v))
		}
		parts = append(parts, encStr(k)+"="+strings.Join(vs, ","))
	}
	return strings.Join(parts, ";")
}

func decMD(s string) metadata.MD {
	if s == "-" || s == "" {
		return nil
	}
	md := metadata.MD{}
	if s == "{}" {
		return md
	}
	for _, kv := range strings.Split(s, ";") {
		i := strings.IndexByte(kv, '=')
		k, _ := url.QueryUnescape(kv[:i])
		if k == "~" {
			k = ""
		}
		var vals []string
		if kv[i+1:] != "" {
			for _, v := range strings.Split(kv[i+1:], ",") {
				if v == "~" {
					vals = append(vals, "")
				} else {
					u, _ := url.QueryUnescape(v)
					vals = append(vals, u)
				}
			}
		}
		md[k] = vals
	}
	return md
}

func pbMD(md *tunnelpb.Metadata) metadata.MD {
	if md == nil {
		return nil
	}
	out := metadata.MD{}
	for k, v := range md.Md {
		out[k] = v.Val
	}
	return out
}

func digest(b []byte) uint64 {
	h := fnv.New64a()
	h.Write(b)
	return h.Sum64()
}

// result of an application-level call, canonicalised
func encErr(err error) string {
	switch {
	case err == nil:
		return "ok"
	case err == io.EOF:
		return "EOF"
	case errors.Is(err, context.Canceled) && status.Code(err) == codes.Unknown:
		return "ctx:canceled"
	case errors.Is(err, context.DeadlineExceeded) && status.Code(err) == codes.Unknown:
		return "ctx:deadline"
	}
	if st, ok := status.FromError(err); ok {
		det := ""
		for _, d := range st.Proto().GetDetails() {
			det += fmt.Sprintf("|%s:%x", d.TypeUrl, d.Value)
		}
		return fmt.Sprintf("st:%d:%s:%s", int(st.Code()), encStr(st.Message()), encStr(det))
	}
	return "err:" + encStr(err.Error())
}

func (w *World) tap(l *link, m proto.Message, err error) {
	var s string
	switch m := m.(type) {
	case *tunnelpb.ClientToServer:
		s = fmt.Sprintf("emit dir=c2s t=%d id=%d %s", l.id, m.StreamId, descC(m))
		if ns := m.GetNewStream(); ns != nil {
			w.noteStreamID(ns.MethodName, m.StreamId)
		}
	case *tunnelpb.ServerToClient:
		s = fmt.Sprintf("emit dir=s2c t=%d id=%d %s", l.id, m.StreamId, descS(m))
	}
	if err != nil {
		s += " senderr=" + encErr(err)
	}
	w.logf("%s", s)
}

func (w *World) noteStreamID(method string, id int64) {
	i := len(method)
	for i > 0 && method[i-1] >= '0' && method[i-1] <= '9' {
		i--
	}
	if i == len(method) || !strings.Contains(method, "v.S/") {
		return
	}
	r := 0
	fmt.Sscanf(method[i:], "%d", &r)
	w.mu.Lock()
	if w.ids == nil {
		w.ids = map[int]int64{}
	}
	_, seen := w.ids[r]
	if !seen {
		w.ids[r] = id
	}
	rs := w.rpcs[r]
	w.mu.Unlock()
	if !seen && rs != nil && rs.invoke {
		rs.started = true
		w.logf("ret who=cw%d op=new res=ok ctxtc=%d", r, rs.tunnel)
	}
}

func descC(m *tunnelpb.ClientToServer) string {
	switch f := m.Frame.(type) {
	case *tunnelpb.ClientToServer_NewStream:
		return fmt.Sprintf("kind=new method=%s rev=%d win=%d md=%s", encStr(f.NewStream.MethodName), f.NewStream.ProtocolRevision, f.NewStream.InitialWindowSize, encMD(pbMD(f.NewStream.RequestHeaders)))
	case *tunnelpb.ClientToServer_RequestMessage:
		return fmt.Sprintf("kind=msg size=%d len=%d", f.RequestMessage.Size, len(f.RequestMessage.Data))
	case *tunnelpb.ClientToServer_MoreRequestData:
		return fmt.Sprintf("kind=more len=%d", len(f.MoreRequestData))
	case *tunnelpb.ClientToServer_HalfClose:
		return "kind=half"
	case *tunnelpb.ClientToServer_Cancel:
		return "kind=cancel"
	case *tunnelpb.ClientToServer_WindowUpdate:
		return fmt.Sprintf("kind=wu n=%d", f.WindowUpdate)
	}
	return "kind=nil"
}

func descS(m *tunnelpb.ServerToClient) string {
	switch f := m.Frame.(type) {
	case *tunnelpb.ServerToClient_Settings:
		var rs []string
		for _, r := range f.Settings.SupportedProtocolRevisions {
			rs = append(rs, fmt.Sprint(int32(r)))
		}
		return fmt.Sprintf("kind=settings revs=%s win=%d", strings.Join(rs, ","), f.Settings.InitialWindowSize)
	case *tunnelpb.ServerToClient_ResponseHeaders:
		return fmt.Sprintf("kind=hdrs md=%s", encMD(pbMD(f.ResponseHeaders)))
	case *tunnelpb.ServerToClient_ResponseMessage:
		return fmt.Sprintf("kind=msg size=%d len=%d", f.ResponseMessage.Size, len(f.ResponseMessage.Data))
	case *tunnelpb.ServerToClient_MoreResponseData:
		return fmt.Sprintf("kind=more len=%d", len(f.MoreResponseData))
	case *tunnelpb.ServerToClient_CloseStream:
		st := status.FromProto(f.CloseStream.Status)
		return fmt.Sprintf("kind=close status=%s md=%s", encErr(st.Err()), encMD(pbMD(f.CloseStream.ResponseTrailers)))
	case *tunnelpb.ServerToClient_WindowUpdate:
		return fmt.Sprintf("kind=wu n=%d", f.WindowUpdate)
	}
	return "kind=nil"
}

// ---------- actors ----------
type actor struct {
	name string
	cmd  chan func()
	mu   sync.Mutex
	busy bool
	dead bool
}

func newActor(name string) *actor {
	a := &actor{name: name, cmd: make(chan func())}
	go a.loop()
	return a
}

func (a *actor) loop() {
	for f := range a.cmd {
		f()
		a.mu.Lock()
		a.busy = false
		a.mu.Unlock()
	}
}

// do hands f to the actor unless it is still busy with an earlier call.
func (a *actor) do(f func()) bool {
	a.mu.Lock()
	if a.busy || a.dead {
		a.mu.Unlock()
		return false
	}
	a.busy = true
	a.mu.Unlock()
	a.cmd <- f
	return true
}

func (a *actor) isBusy() bool {
	a.mu.Lock()
	defer a.mu.Unlock()
	return a.busy || a.dead
}

func (a *actor) stop() {
	a.mu.Lock()
	defer a.mu.Unlock()
	if !a.dead {
		a.dead = true
		close(a.cmd)
	}
}

// ---------- payloads ----------
// payload for message #idx of rpc r in direction dir with (about) the given serialized size
func payloadFor(r int, dir byte, idx int, serialized int) []byte {
	if serialized < 3 {
		return nil
	}
	p := serialized - 2
	for p > 0 && 1+varintLen(p)+p > serialized {
		p--
	}
	b := make([]byte, p)
	x := uint64(r+1)*0x9E3779B97F4A7C15 ^ uint64(dir)<<32 ^ uint64(idx+1)*0xBF58476D1CE4E5B9
	for i := range b {
		x ^= x << 13
		x ^= x >> 7
		x ^= x << 17
		b[i] = byte(x)
	}
	if p >= 4 { // make misrouting recognisable even by eye
		b[0], b[1], b[2], b[3] = byte(r), dir, byte(idx), byte(idx>>8)
	}
	return b
}

func varintLen(n int) int {
	l := 1
	for n >= 128 {
		n >>= 7
		l++
	}
	return l
}

// ---------- client-side RPC state ----------
type rpcState struct {
	r        int
	tunnel   int
	shape    string
	cw, cr   *actor
	stream   grpc.ClientStream
	cancel   context.CancelFunc
	nsent    int
	hdrT     metadata.MD
	trlT     metadata.MD
	hdrOpt   bool
	trlOpt   bool
	peerT    peer.Peer
	tcT      grpctunnel.TunnelChannel
	tcOpt    bool
	started  bool
	order    int64 // stream id observed on the tap for this rpc
	picked   int   // tunnel that carries the rpc (from the stream's context)
	invoke   bool  // made through Invoke: the start of the stream is observed on the tap
	viaMulti string
}

type creds struct {
	md     map[string]string
	secure bool
	err    error
}

func (c creds) GetRequestMetadata(ctx context.Context, uri ...string) (map[string]string, error) {
	return c.md, c.err
}
func (c creds) RequireTransportSecurity() bool { return c.secure }

func shapeDesc(shape string) *grpc.StreamDesc {
	switch shape {
	case "U":
		return &grpc.StreamDesc{StreamName: "U"}
	case "CS":
		return &grpc.StreamDesc{StreamName: "CS", ClientStreams: true}
	case "SS":
		return &grpc.StreamDesc{StreamName: "SS", ServerStreams: true}
	default:
		return &grpc.StreamDesc{StreamName: "BD", ClientStreams: true, ServerStreams: true}
	}
}

// ---------- handler-side state ----------
type handState struct {
	r      int
	shape  string
	hw, hr *actor
	ctx    context.Context
	ss     grpc.ServerStream       // streaming shapes
	dec    func(interface{}) error // unary
	ret    chan handRet
	nsent  int
	gotReq bool
}

type handRet struct {
	err  error
	resp *Msg // unary only
}

type simService struct{ w *World }

func (w *World) serviceDesc() *grpc.ServiceDesc {
	sd := &grpc.ServiceDesc{ServiceName: "v.S", HandlerType: (*interface{})(nil)}
	for r := 0; r < MaxRPC; r++ {
		r := r
		sd.Methods = append(sd.Methods, grpc.MethodDesc{
			MethodName: fmt.Sprintf("U%d", r),
			Handler: func(srv interface{}, ctx context.Context, dec func(interface{}) error, _ grpc.UnaryServerInterceptor) (interface{}, error) {
				return w.runUnaryHandler(r, ctx, dec)
			},
		})
		for _, sh := range []string{"CS", "SS", "BD"} {
			sh := sh
			sd.Streams = append(sd.Streams, grpc.StreamDesc{
				StreamName:    fmt.Sprintf("%s%d", sh, r),
				ClientStreams: sh != "SS",
				ServerStreams: sh != "CS",
				Handler: func(srv interface{}, ss grpc.ServerStream) error {
					return w.runStreamHandler(r, sh, ss)
				},
			})
		}
	}
	return sd
}

func (w *World) handlerStarted(h *handState) {
	md, _ := metadata.FromIncomingContext(h.ctx)
	dl := "none"
	if d, ok := h.ctx.Deadline(); ok {
		dl = fmt.Sprint(int64(time.Until(d)))
	}
	tmd, tok := grpctunnel.TunnelMetadataFromIncomingContext(h.ctx)
	tmds := "absent"
	if tok {
		tmds = encMD(tmd)
	}
	pa := "none"
	if p, ok := peer.FromContext(h.ctx); ok && p.Addr != nil {
		pa = p.Addr.String()
	}
	ic, _ := h.ctx.Value(interceptorKey{}).(string)
	w.hmu.Lock()
	if old := w.hands[h.r]; old != nil {
		w.logf("hstart-duplicate r=%d", h.r)
	}
	w.hands[h.r] = h
	w.allHands = append(w.allHands, h)
	w.hmu.Unlock()
	w.logf("hstart r=%d shape=%s md=%s deadline=%s tmd=%s peer=%s icpt=%s", h.r, h.shape, encMD(md), dl, tmds, encStr(pa), encStr(ic))
	// mutate what the accessors returned; no other RPC may ever see it
	scribble(tmd)
	scribble(md)
}

func (w *World) acquireR(r int) { w.rLocks[r].Lock() }
func (w *World) releaseR(r int) { w.rLocks[r].Unlock() }

// goroutines of the library in the whole process (free-running mode)
func censusAll() map[string]int {
	buf := make([]byte, 1<<22)
	n := runtime.Stack(buf, true)
	out := map[string]int{}
	for _, g := range strings.Split(string(buf[:n]), "\n\n") {
		created := ""
		for _, ln := range strings.Split(g, "\n") {
			if strings.HasPrefix(ln, "created by ") {
				created = strings.TrimPrefix(ln, "created by ")
				if j := strings.Index(created, " in goroutine"); j >= 0 {
					created = created[:j]
				}
			}
		}
		if !strings.Contains(created, "jhump/grpctunnel.") {
			continue
		}
		out[strings.TrimPrefix(created, "github.com/jhump/grpctunnel.")]++
	}
	return out
}

func (w *World) runUnaryHandler(r int, ctx context.Context, dec func(interface{}) error) (interface{}, error) {
	if w.auto {
		return w.autoUnary(r, ctx, dec)
	}
	h := &handState{r: r, shape: "U", ctx: ctx, dec: dec, ret: make(chan handRet, 1)}
	h.hw = newActor(fmt.Sprintf("hw%d", r))
	h.hr = newActor(fmt.Sprintf("hr%d", r))
	w.handlerStarted(h)
	ret := <-h.ret
	h.hw.stop()
	h.hr.stop()
	w.logf("hexit r=%d", r)
	if ret.err != nil {
		return nil, ret.err
	}
	return ret.resp, nil
}

func (w *World) runStreamHandler(r int, shape string, ss grpc.ServerStream) error {
	if w.auto {
		return w.autoStream(r, shape, ss)
	}
	h := &handState{r: r, shape: shape, ctx: ss.Context(), ss: ss, ret: make(chan handRet, 1)}
	h.hw = newActor(fmt.Sprintf("hw%d", r))
	h.hr = newActor(fmt.Sprintf("hr%d", r))
	w.handlerStarted(h)
	ret := <-h.ret
	h.hw.stop()
	h.hr.stop()
	w.logf("hexit r=%d", r)
	return ret.err
}

// ---------- goroutine census ----------
// goroutines of the bubble grouped by the function that created them (or the top
// frame for the library's own goroutines), excluding the harness's actors.
func census() map[string]int {
	buf := make([]byte, 1<<20)
	n := runtime.Stack(buf, true)
	out := map[string]int{}
	for _, g := range strings.Split(string(buf[:n]), "\n\n") {
		if !strings.Contains(g, "synctest bubble") {
			continue
		}
		lines := strings.Split(g, "\n")
		created := ""
		for i, ln := range lines {
			if strings.HasPrefix(ln, "created by ") {
				created = strings.TrimPrefix(ln, "created by ")
				if j := strings.Index(created, " in goroutine"); j >= 0 {
					created = created[:j]
				}
				_ = i
			}
		}
		if created == "" {
			created = "root"
		}
		if !strings.Contains(created, "jhump/grpctunnel") {
			continue
		}
		// shorten
		created = strings.TrimPrefix(created, "github.com/jhump/grpctunnel.")
		out[created]++
	}
	return out
}

func encCensus(c map[string]int) string {
	if len(c) == 0 {
		return "none"
	}
	var ks []string
	for k := range c {
		ks = append(ks, k)
	}
	sort.Strings(ks)
	var parts []string
	for _, k := range ks {
		parts = append(parts, fmt.Sprintf("%s*%d", k, c[k]))
	}
	return strings.Join(parts, ",")
}

// staleMsg: a receive target that still holds the content of an earlier use - RecvMsg / Invoke
// must replace it entirely, also with an empty message
func staleMsg() *Msg { return &Msg{Value: []byte("stale content of an earlier receive")} }

// serveReturned: the reverse-tunnel Serve call of tunnel t has returned
func (w *World) serveReturned(t int) bool {
	w.mu.Lock()
	defer w.mu.Unlock()
	return t < len(w.tunnels) && w.tunnels[t].serveRet
}
