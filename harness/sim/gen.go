//go:build verif

package sim

// Online scenario drivers: the next controller action is chosen from the seeded
// PRNG and the quiescent state of the world (what is pending on the carrier,
// which actors are idle, which calls have ended), so schedules are mostly
// meaningful. Every chosen action is recorded in the trace, so a run can be
// replayed from its trace alone.

import (
	"fmt"
	"math/rand"
	"strings"
)

type Driver interface {
	Config() Config
	Name() string
	Next(w *World, step int) string // "" ends the scenario
}

// ---------- world queries (called at quiescent points only) ----------
func (w *World) pend(t int) (int, int) {
	w.mu.Lock()
	defer w.mu.Unlock()
	if t >= len(w.tunnels) || w.tunnels[t].link == nil {
		return 0, 0
	}
	ts := w.tunnels[t]
	return w.c2s(ts).pending(), w.s2c(ts).pending()
}

func (w *World) hand(r int) *handState {
	w.hmu.Lock()
	defer w.hmu.Unlock()
	return w.hands[r]
}

func (w *World) flag(k string) bool {
	w.mu.Lock()
	defer w.mu.Unlock()
	return w.flags[k]
}

func (w *World) setFlag(k string) {
	w.mu.Lock()
	if w.flags == nil {
		w.flags = map[string]bool{}
	}
	w.flags[k] = true
	w.mu.Unlock()
}

// ---------- size distribution: heavy on the chunk and window boundaries ----------
var boundarySizes = []int{0, 3, 5, 100, 1000, 16383, 16384, 16385, 16390, 32768, 32769, 49152, 65535, 65536, 65537, 65540, 70000, 100000, 131071, 131072, 131073, 200000}

func pickSize(rng *rand.Rand, big bool) int {
	switch rng.Intn(10) {
	case 0, 1, 2:
		return []int{0, 3, 10, 100, 500}[rng.Intn(5)]
	case 3:
		if big {
			return 262144 + rng.Intn(1<<20)
		}
		return rng.Intn(3000)
	default:
		return boundarySizes[rng.Intn(len(boundarySizes))]
	}
}

var mdPool = []string{"-", "{}", "a=1", "a=1,2;b=x", "k=", "k=~,~", "x-bin=%01%02;y=z", "multi=a,b,c,d", "user-agent=ua%2F1", "a=v+with+space;b=%E2%82%AC"}

func pickMD(rng *rand.Rand) string { return mdPool[rng.Intn(len(mdPool))] }

// ---------- a scripted RPC ----------
type plan struct {
	r      int
	t      int
	shape  string
	method string
	md     string
	opts   string
	credmd string
	to     int64
	via    string
	cSends []int
	cClose bool
	hPre   []string // handler ops before its sends: sethdr/sendhdr/settrl with md
	hSends []int
	hPost  []string // after the sends
	hCode  int
	hMsg   string
	hDet   bool
	respSz int
	invoke bool // unary call made through Invoke in one go
	reads  bool // whether the handler reads its requests
	cReads bool // whether the caller reads responses
	// progress
	started, newIssued bool
	ci                 int
	hReads             int
	cClosed            bool
	hi                 int
	hPreI, hPostI      int
	hRet               bool
	cancelled          bool
	lateSend           bool // the caller sends once more after CloseSend (must be refused, nothing on the wire)
	lateSent           bool
}

func newPlan(rng *rand.Rand, r int, t int, opt workloadOpts) *plan {
	shapes := []string{"U", "CS", "SS", "BD"}
	if opt.streamingOnly {
		shapes = []string{"CS", "SS", "BD", "BD"}
	}
	p := &plan{r: r, t: t, shape: shapes[rng.Intn(len(shapes))], method: "auto", md: "-", reads: true, cReads: true}
	nC, nH := 1, 1
	if p.shape == "CS" || p.shape == "BD" {
		nC = rng.Intn(4)
		if opt.volume {
			nC = 3 + rng.Intn(6)
		}
	}
	if p.shape == "SS" || p.shape == "BD" {
		nH = rng.Intn(4)
		if opt.volume {
			nH = 3 + rng.Intn(6)
		}
	}
	for i := 0; i < nC; i++ {
		p.cSends = append(p.cSends, pickSize(rng, opt.big))
	}
	for i := 0; i < nH; i++ {
		p.hSends = append(p.hSends, pickSize(rng, opt.big))
	}
	p.respSz = pickSize(rng, false)
	p.cClose = true
	if (p.shape == "CS" || p.shape == "BD") && rng.Intn(4) == 0 {
		p.lateSend = true
	}
	if p.shape == "U" && !opt.meta && rng.Intn(2) == 0 {
		p.invoke = true
	}
	if opt.meta {
		p.md = pickMD(rng)
		var o []string
		for _, x := range []string{"h", "t", "p", "x"} {
			if rng.Intn(2) == 0 {
				o = append(o, x)
			}
		}
		if rng.Intn(3) == 0 {
			o = append(o, "c")
			p.credmd = []string{"-", "{}", "tok=abc", "tok=abc;a=9"}[rng.Intn(4)]
		}
		p.opts = strings.Join(o, ",")
		for i, n := 0, rng.Intn(3); i < n; i++ {
			p.hPre = append(p.hPre, []string{"hsethdr", "hsendhdr", "hsettrl"}[rng.Intn(3)]+" md="+pickMDnn(rng))
		}
		for i, n := 0, rng.Intn(3); i < n; i++ {
			p.hPost = append(p.hPost, []string{"hsethdr", "hsettrl", "hsettrl"}[rng.Intn(3)]+" md="+pickMDnn(rng))
		}
	}
	if opt.badutf && r == 0 {
		// binary metadata that is not valid UTF-8, in one of the three places metadata travels
		switch rng.Intn(3) {
		case 0:
			p.md = "x-bin=%FF%FE"
		case 1:
			p.hPre = append(p.hPre, "hsethdr md=h-bin=%FF%FE")
		default:
			p.hPost = append(p.hPost, "hsettrl md=t-bin=%C3%28")
		}
	}
	if opt.precancel && rng.Intn(3) == 0 {
		p.to = []int64{1, 1000, 1000000}[rng.Intn(3)]
	}
	if rng.Intn(4) == 0 || opt.errStatus {
		p.hCode = 1 + rng.Intn(16)
		p.hMsg = []string{"~", "boom", "bad+thing", "%E2%82%AC"}[rng.Intn(4)]
		p.hDet = rng.Intn(2) == 0
	}
	return p
}

func pickMDnn(rng *rand.Rand) string {
	m := pickMD(rng)
	if m == "-" {
		return "{}"
	}
	return m
}

type workloadOpts struct {
	cfg           Config
	nRPC          int
	meta          bool
	big           bool
	volume        bool
	streamingOnly bool
	errStatus     bool
	disturb       string // "", cancel, timeout, fail, chclose, ctxend, stop, shutdown, late
	maxSteps      int
	noReader      bool // some RPC's consumer never reads (no head-of-line blocking)
	precancel     bool // some RPCs start with a context that is (almost) expired
	lazy          bool // the handlers stay behind: the disturbance comes once the client has sent everything, half-closed, and all of it has been handed over; the handlers read on afterwards
	badutf        bool // one RPC carries a metadata value that is not valid UTF-8 (legal for -bin keys in gRPC)
	openMD        string
}

type workload struct {
	name       string
	rng        *rand.Rand
	opt        workloadOpts
	plans      []*plan
	phase      int
	distAt     int
	distDone   bool
	lateIssued int
	draining   int
	opened     bool
	stopsLeft  int
	stopIssued bool
}

func newWorkload(name string, seed int64, opt workloadOpts) *workload {
	rng := rand.New(rand.NewSource(seed))
	wl := &workload{name: name, rng: rng, opt: opt}
	for r := 0; r < opt.nRPC; r++ {
		wl.plans = append(wl.plans, newPlan(rng, r, 0, opt))
	}
	if opt.maxSteps == 0 {
		wl.opt.maxSteps = 400
	}
	wl.distAt = 3 + rng.Intn(40)
	if opt.noReader {
		wl.distAt = 30 + rng.Intn(60)
	}
	if opt.noReader && len(wl.plans) > 0 {
		p := wl.plans[0]
		p.shape = "BD"
		p.cSends = []int{70000, 70000}
		p.hSends = []int{70000, 70000}
		p.reads, p.cReads = false, false
	}
	return wl
}

func (wl *workload) Config() Config { return wl.opt.cfg }
func (wl *workload) Name() string   { return wl.name }

func (wl *workload) cnewLine(p *plan) string {
	s := fmt.Sprintf("cnew r=%d t=%d shape=%s method=%s md=%s", p.r, p.t, p.shape, p.method, p.md)
	if p.opts != "" {
		s += " opts=" + p.opts
	}
	if p.credmd != "" {
		s += " credmd=" + p.credmd
	}
	if p.to > 0 {
		s += fmt.Sprintf(" to=%d", p.to)
	}
	if p.via != "" {
		s += " via=" + p.via
	}
	return s
}

func (wl *workload) Next(w *World, step int) string {
	rng := wl.rng
	if !wl.opened {
		wl.opened = true
		md := wl.opt.openMD
		if md == "" {
			md = "who=opener;x=1,2"
		}
		return "open t=0 md=" + md + " peer=p0"
	}
	pc, ps := w.pend(0)
	// wait until the tunnel is up: deliver the settings frame first
	if !w.flag("up0") {
		if w.tunnelUp(0) {
			w.setFlag("up0")
		} else if ps > 0 && w.cfg.Mode == "fwd" || (w.cfg.Mode == "rev" && ps > 0) {
			return "ds t=0"
		} else if pc > 0 {
			return "dc t=0"
		} else if step > 6 {
			return ""
		} else {
			return "probe"
		}
	}
	if step > wl.opt.maxSteps || wl.draining > 0 {
		// final phase: drain the carrier, let readers finish
		wl.draining++
		if wl.draining > 60 {
			return ""
		}
		if mv := wl.drainMove(w, pc, ps); mv != "" {
			return mv
		}
		return ""
	}
	// the disturbance
	lazyReady := true
	if wl.opt.lazy && !wl.distDone {
		for _, p := range wl.plans {
			if !p.newIssued || p.ci < len(p.cSends) || (p.cClose && !p.cClosed) {
				lazyReady = false
			}
		}
		if pc > 0 {
			lazyReady = false
		}
		if step > wl.distAt+120 {
			lazyReady = true
		}
	}
	if wl.opt.disturb != "" && !wl.distDone && step >= wl.distAt && lazyReady {
		wl.distDone = true
		switch wl.opt.disturb {
		case "cancel":
			p := wl.plans[rng.Intn(len(wl.plans))]
			if wl.opt.noReader {
				p = wl.plans[0]
			}
			if p.newIssued {
				p.cancelled = true
				return fmt.Sprintf("ccancel r=%d", p.r)
			}
		case "fail", "chclose", "ctxend":
			return wl.opt.disturb + " t=0"
		case "stop":
			return "stop"
		case "shutdown", "shutdown+stop":
			return "shutdown"
		case "stop2":
			wl.stopsLeft = 1
			return "stop"
		}
	}
	if wl.stopsLeft > 0 {
		wl.stopsLeft--
		return "stop"
	}
	if wl.opt.disturb == "shutdown+stop" && wl.distDone && !wl.stopIssued && step >= wl.distAt+3+wl.rng.Intn(6) {
		wl.stopIssued = true
		return "stop"
	}
	var moves []string
	add := func(weight int, s string) {
		for i := 0; i < weight; i++ {
			moves = append(moves, s)
		}
	}
	if pc > 0 {
		add(4, "dc t=0")
	}
	if ps > 0 {
		add(4, "ds t=0")
	}
	allDone := true
	for _, p := range wl.plans {
		rs := w.rpcs[p.r]
		if !p.newIssued {
			allDone = false
			if p.invoke {
				add(3, fmt.Sprintf("cinvoke r=%d t=%d size=%d md=%s", p.r, p.t, p.cSends[0], p.md))
			} else {
				add(3, wl.cnewLine(p))
			}
			continue
		}
		if p.invoke {
			// the whole client side runs inside Invoke; only the handler is scripted
			if !w.flag(fmt.Sprintf("cterm%d", p.r)) {
				allDone = false
			}
			if h := w.hand(p.r); h != nil && !p.hRet {
				allDone = false
				if !h.hr.isBusy() && !w.flag(fmt.Sprintf("hend%d", p.r)) && !w.flag(fmt.Sprintf("hgot%d", p.r)) {
					add(2, fmt.Sprintf("hrecv r=%d", p.r))
				}
				if !h.hw.isBusy() && !h.hr.isBusy() && (w.flag(fmt.Sprintf("hgot%d", p.r)) || w.flag(fmt.Sprintf("hend%d", p.r))) {
					add(2, wl.hretLine(p))
				}
			}
			continue
		}
		if rs == nil || !rs.started {
			continue
		}
		cTerm := w.flag(fmt.Sprintf("cterm%d", p.r))
		// client writer
		if !rs.cw.isBusy() && !cTerm {
			if p.ci < len(p.cSends) {
				add(3, fmt.Sprintf("csend r=%d size=%d", p.r, p.cSends[p.ci]))
			} else if p.cClose && !p.cClosed {
				add(3, fmt.Sprintf("cclose r=%d", p.r))
			} else if p.cClosed && p.lateSend && !p.lateSent {
				add(2, fmt.Sprintf("csend r=%d size=%d late=1", p.r, 5+rng.Intn(40)))
			}
		}
		if !cTerm {
			allDone = false
			if !rs.cr.isBusy() && p.cReads {
				add(2, fmt.Sprintf("crecv r=%d", p.r))
				if wl.opt.meta {
					add(1, fmt.Sprintf("chdr r=%d", p.r))
				}
			}
			if wl.opt.meta {
				add(1, fmt.Sprintf("ctrl r=%d", p.r))
			}
		} else if wl.opt.meta && rng.Intn(4) == 0 {
			add(1, fmt.Sprintf("ctrl r=%d", p.r))
			if !rs.cr.isBusy() {
				add(1, fmt.Sprintf("chdr r=%d", p.r))
			}
		}
		h := w.hand(p.r)
		if h == nil || p.hRet {
			continue
		}
		allDone = false
		hEnd := w.flag(fmt.Sprintf("hend%d", p.r))
		if !h.hr.isBusy() && !hEnd && p.reads && !(wl.opt.lazy && !wl.distDone && p.hReads >= 1) {
			add(2, fmt.Sprintf("hrecv r=%d", p.r))
		}
		if !h.hw.isBusy() {
			switch {
			case p.hPreI < len(p.hPre):
				add(2, fmt.Sprintf("%s r=%d", insertR(p.hPre[p.hPreI]), p.r))
			case p.shape != "U" && p.hi < len(p.hSends):
				// a unary or client-streaming handler answers after it has read its request(s)
				if (p.shape == "SS" || p.shape == "BD") || hEnd || !p.reads {
					add(3, fmt.Sprintf("hsend r=%d size=%d", p.r, p.hSends[p.hi]))
				}
			case p.hPostI < len(p.hPost):
				add(2, fmt.Sprintf("%s r=%d", insertR(p.hPost[p.hPostI]), p.r))
			default:
				if p.shape == "U" && !w.flag(fmt.Sprintf("hgot%d", p.r)) && !hEnd && p.hCode == 0 {
					// wait for the request before answering
				} else if !h.hr.isBusy() || wl.opt.disturb != "" {
					// (returning while a read is still in progress only under disturbance)
					add(2, wl.hretLine(p))
				}
			}
			if p.hCode != 0 && rng.Intn(8) == 0 {
				add(1, wl.hretLine(p))
			}
		}
	}
	if len(moves) == 0 || (allDone && pc == 0 && ps == 0) {
		if wl.opt.disturb == "late" || wl.opt.disturb == "shutdown" || wl.opt.disturb == "shutdown+stop" || wl.opt.disturb == "chclose" || wl.opt.disturb == "fail" || wl.opt.disturb == "ctxend" {
			if wl.lateIssued < 2 && len(wl.plans) < MaxRPC-1 {
				wl.lateIssued++
				p := newPlan(rng, len(wl.plans), 0, wl.opt)
				wl.plans = append(wl.plans, p)
				return wl.Next(w, step)
			}
		}
		wl.draining = 1
		return wl.Next(w, step)
	}
	mv := moves[rng.Intn(len(moves))]
	wl.commit(mv)
	return mv
}

func insertR(op string) string {
	// "hsethdr md=..." -> "hsethdr" + " md=..." (r= is appended by the caller)
	return op
}

func (wl *workload) hretLine(p *plan) string {
	s := fmt.Sprintf("hret r=%d code=%d", p.r, p.hCode)
	if p.hCode != 0 {
		s += " msg=" + p.hMsg
		if p.hDet {
			s += " det=1"
		}
	}
	if p.shape == "U" {
		s += fmt.Sprintf(" size=%d", p.respSz)
	}
	return s
}

func (wl *workload) commit(mv string) {
	op, m := kv(mv)
	r := atoi(m["r"])
	var p *plan
	for _, q := range wl.plans {
		if q.r == r {
			p = q
		}
	}
	if p == nil {
		return
	}
	switch op {
	case "cnew", "cinvoke":
		p.newIssued = true
	case "csend":
		if m["late"] == "1" {
			p.lateSent = true
		} else {
			p.ci++
		}
	case "cclose":
		p.cClosed = true
	case "hsend":
		p.hi++
	case "hrecv":
		p.hReads++
	case "hsethdr", "hsendhdr", "hsettrl":
		if p.hPreI < len(p.hPre) {
			p.hPreI++
		} else {
			p.hPostI++
		}
	case "hret":
		p.hRet = true
	}
}

// drainMove: deliver what is pending and let blocked readers finish
func (wl *workload) drainMove(w *World, pc, ps int) string {
	if pc > 0 {
		return "dc t=0"
	}
	if ps > 0 {
		return "ds t=0"
	}
	for _, p := range wl.plans {
		rs := w.rpcs[p.r]
		if rs == nil || !rs.started {
			continue
		}
		if h := w.hand(p.r); h != nil && !p.hRet && !h.hw.isBusy() && !wl.opt.noReader {
			p.hRet = true
			return wl.hretLine(p)
		}
		if !w.flag(fmt.Sprintf("cterm%d", p.r)) && !rs.cr.isBusy() && p.cReads {
			return fmt.Sprintf("crecv r=%d", p.r)
		}
	}
	return ""
}

func (w *World) tunnelUp(t int) bool {
	w.mu.Lock()
	defer w.mu.Unlock()
	if t >= len(w.tunnels) {
		return false
	}
	ts := w.tunnels[t]
	if w.cfg.Mode == "fwd" {
		return ts.startRet && ts.ch != nil
	}
	return ts.ch != nil
}
