//go:build verif

package sim

import "fmt"

// scriptDriver plays a fixed list of actions.
type scriptDriver struct {
	name  string
	cfg   Config
	lines []string
}

func (d *scriptDriver) Config() Config { return d.cfg }
func (d *scriptDriver) Name() string   { return d.name }
func (d *scriptDriver) Next(w *World, step int) string {
	if step < len(d.lines) {
		return d.lines[step]
	}
	return ""
}

func rep(s string, n int) []string {
	out := make([]string, n)
	for i := range out {
		out[i] = s
	}
	return out
}

// shapeScripts enumerates, for each call shape, every combination of: number of messages the raw
// peer sends (0..3), whether each is split into two frames, whether the half-close / close
// follows, and whether the application reads before or after the frames have been processed.
func shapeScripts(seed int64) []Driver {
	var out []Driver
	n := 0
	add := func(cfg Config, lines []string) {
		out = append(out, &scriptDriver{name: fmt.Sprintf("shapes-%d-%d", seed, n), cfg: cfg, lines: lines})
		n++
	}
	for _, mode := range []string{"fwd", "rev"} {
		// raw tunnel client -> real tunnel server
		for _, shape := range []string{"U", "SS", "CS", "BD"} {
			for k := 0; k <= 3; k++ {
				for _, split := range []bool{false, true} {
					for _, half := range []bool{true, false} {
						for _, early := range []bool{true, false} {
							l := []string{"open t=0 md=who=s peer=p0", "ds t=0",
								fmt.Sprintf("rawc t=0 id=1 kind=new method=%%2Fv.S%%2F%s0 rev=1 win=65536 md=-", shape), "dc t=0"}
							if early {
								l = append(l, "hrecv r=0")
							}
							frames := 0
							for i := 0; i < k; i++ {
								if split {
									l = append(l, "rawc t=0 id=1 kind=msg size=10 len=4", "rawc t=0 id=1 kind=more len=6")
									frames += 2
								} else {
									l = append(l, fmt.Sprintf("rawc t=0 id=1 kind=msg size=%d len=%d", 7+i, 7+i))
									frames++
								}
							}
							if half {
								l = append(l, "rawc t=0 id=1 kind=half")
								frames++
							}
							l = append(l, rep("dc t=0", frames)...)
							l = append(l, "hrecv r=0", "hrecv r=0", "hrecv r=0")
							if shape == "SS" || shape == "BD" || shape == "CS" {
								l = append(l, "hsend r=0 size=20")
							}
							l = append(l, "hret r=0 code=0 size=12")
							l = append(l, rep("ds t=0", 6)...)
							add(Config{Mode: mode, RawClient: true}, l)
						}
					}
				}
			}
		}
		// bursts: a new_stream that is refused at stream level (unknown method, unsupported
		// revision, shutting down) is handed over together with the next frames, which belong to
		// other streams - the refusal must still go to the refused stream and nothing else may
		// happen to the others
		for _, why := range []string{"method", "revision", "shutdown"} {
			for _, next := range []string{"msg", "half", "new", "new+msg"} {
				for _, mid := range []bool{false, true} {
					l := []string{"open t=0 md=who=s peer=p0", "ds t=0",
						"rawc t=0 id=1 kind=new method=%2Fv.S%2FBD0 rev=1 win=65536 md=-", "dc t=0", "hrecv r=0"}
					if why == "shutdown" {
						l = append(l, "shutdown")
					}
					refused := "rawc t=0 id=2 kind=new method=%2Fv.S%2FBD1 rev=1 win=65536 md=-"
					switch why {
					case "method":
						refused = "rawc t=0 id=2 kind=new method=%2Fv.S%2Fnosuch rev=1 win=65536 md=-"
					case "revision":
						refused = "rawc t=0 id=2 kind=new method=%2Fv.S%2FBD1 rev=7 win=65536 md=-"
					}
					var burst []string
					if mid {
						burst = append(burst, "rawc t=0 id=1 kind=msg size=5 len=5")
					}
					burst = append(burst, refused)
					switch next {
					case "msg":
						burst = append(burst, "rawc t=0 id=1 kind=msg size=9 len=9")
					case "half":
						burst = append(burst, "rawc t=0 id=1 kind=half")
					case "new":
						if why != "shutdown" {
							burst = append(burst, "rawc t=0 id=3 kind=new method=%2Fv.S%2FU2 rev=1 win=65536 md=-")
						} else {
							burst = append(burst, "rawc t=0 id=1 kind=msg size=3 len=3")
						}
					case "new+msg":
						if why != "shutdown" {
							burst = append(burst, "rawc t=0 id=3 kind=new method=%2Fv.S%2FU2 rev=1 win=65536 md=-", "rawc t=0 id=1 kind=msg size=9 len=9")
						} else {
							burst = append(burst, "rawc t=0 id=1 kind=msg size=3 len=3", "rawc t=0 id=1 kind=half")
						}
					}
					l = append(l, burst...)
					l = append(l, fmt.Sprintf("dc t=0 n=%d", len(burst)))
					l = append(l, "hrecv r=0", "hrecv r=0", "hsend r=0 size=20", "hret r=0 code=0 size=12")
					l = append(l, rep("ds t=0", 8)...)
					add(Config{Mode: mode, RawClient: true}, l)
				}
			}
		}
		// the one send a non-streaming request allows fails (the message cannot be encoded), then
		// the application sends again: refused, nothing more on the wire (real client, real server)
		for _, shape := range []string{"U", "SS", "CS"} {
			for _, fc := range []bool{true, false} {
				l := []string{"open t=0 md=who=s peer=p0", "ds t=0", "dc t=0", "ds t=0",
					fmt.Sprintf("cnew r=0 t=0 shape=%s method=auto md=-", shape), "dc t=0",
					"csend r=0 size=10 bad=1", "csend r=0 size=30", "dc t=0", "csend r=0 size=31", "dc t=0", "cclose r=0", "dc t=0",
					"hrecv r=0", "hrecv r=0", "hrecv r=0", "hret r=0 code=0 size=12", "ds t=0", "ds t=0", "ds t=0", "crecv r=0", "crecv r=0"}
				add(Config{Mode: mode, CDisable: !fc && mode == "fwd", SDisable: !fc && mode == "rev"}, l)
			}
		}
		// raw tunnel server -> real tunnel client
		for _, shape := range []string{"U", "CS", "SS", "BD"} {
			for k := 0; k <= 3; k++ {
				for _, split := range []bool{false, true} {
					for _, code := range []int{0, 5} {
						for _, how := range []string{"early", "late", "invoke"} {
							if how == "invoke" && shape != "U" {
								continue
							}
							l := []string{"open t=0 md=who=s peer=p0", "raws t=0 kind=settings id=-1 revs=0,1 win=65536", "ds t=0"}
							if how == "invoke" {
								l = append(l, "cinvoke r=0 t=0 size=30 md=-", "dc t=0", "dc t=0", "dc t=0")
							} else {
								l = append(l, fmt.Sprintf("cnew r=0 t=0 shape=%s method=auto md=-", shape), "dc t=0", "csend r=0 size=30", "cclose r=0", "dc t=0", "dc t=0")
							}
							if how == "early" {
								l = append(l, "crecv r=0")
							}
							l = append(l, "raws t=0 id=1 kind=hdrs md=h=1")
							frames := 1
							for i := 0; i < k; i++ {
								if split {
									l = append(l, "raws t=0 id=1 kind=msg size=10 len=4", "raws t=0 id=1 kind=more len=6")
									frames += 2
								} else {
									l = append(l, fmt.Sprintf("raws t=0 id=1 kind=msg size=%d len=%d", 7+i, 7+i))
									frames++
								}
							}
							l = append(l, fmt.Sprintf("raws t=0 id=1 kind=close code=%d msg=m md=t=1", code))
							frames++
							l = append(l, rep("ds t=0", frames)...)
							if how != "invoke" {
								l = append(l, "crecv r=0", "crecv r=0", "crecv r=0", "crecv r=0", "ctrl r=0")
							}
							add(Config{Mode: mode, RawServer: true}, l)
						}
					}
				}
			}
		}
		// graceful shutdown, then a unary Invoke whose refusal reaches the caller's endpoint between
		// newStream and SendMsg (the call is held at the yield point inside Invoke): the caller must
		// be told Unavailable, the status of the refusal
		for _, fc := range []bool{true, false} {
			l := []string{"open t=0 md=who=s peer=p0", "ds t=0", "dc t=0", "ds t=0",
				"cnew r=0 t=0 shape=BD method=auto md=-", "dc t=0", "shutdown",
				"hold tag=client.invoked", "cinvoke r=1 t=0 size=30 md=-", "dc t=0", "ds t=0", "ds t=0", "release",
				"dc t=0", "dc t=0", "dc t=0", "ds t=0", "cclose r=0", "dc t=0", "hrecv r=0", "hret r=0 code=0",
				"ds t=0", "ds t=0", "ds t=0", "crecv r=0", "crecv r=0"}
			add(Config{Mode: mode, CDisable: !fc && mode == "fwd", SDisable: !fc && mode == "rev"}, l)
		}
		// a raw tunnel server answers a non-streaming-response call with two messages and leaves the
		// stream open: the caller gets an error, and the RPC must be cancelled and forgotten
		for _, shape := range []string{"U", "CS"} {
			for _, early := range []bool{true, false} {
				l := []string{"open t=0 md=who=s peer=p0", "raws t=0 kind=settings id=-1 revs=0,1 win=65536", "ds t=0",
					fmt.Sprintf("cnew r=0 t=0 shape=%s method=auto md=-", shape), "dc t=0", "csend r=0 size=30", "cclose r=0", "dc t=0", "dc t=0"}
				if early {
					l = append(l, "crecv r=0")
				}
				l = append(l, "raws t=0 id=1 kind=hdrs md=h=1", "raws t=0 id=1 kind=msg size=9 len=9", "raws t=0 id=1 kind=msg size=8 len=8",
					"ds t=0", "ds t=0", "ds t=0", "crecv r=0", "crecv r=0", "ctrl r=0", "dc t=0", "probe", "probe")
				add(Config{Mode: mode, RawServer: true}, l)
			}
		}
		// the response of a non-streaming-response call has arrived, the close frame has not, and the
		// tunnel ends: the caller must not be told success (raw tunnel server; also through Invoke)
		for _, shape := range []string{"U", "CS"} {
			for _, end := range []string{"fail", "chclose", "ctxend"} {
				for _, how := range []string{"early", "late", "invoke"} {
					if how == "invoke" && shape != "U" {
						continue
					}
					l := []string{"open t=0 md=who=s peer=p0", "raws t=0 kind=settings id=-1 revs=0,1 win=65536", "ds t=0"}
					if how == "invoke" {
						l = append(l, "cinvoke r=0 t=0 size=30 md=-", "dc t=0", "dc t=0", "dc t=0")
					} else {
						l = append(l, fmt.Sprintf("cnew r=0 t=0 shape=%s method=auto md=-", shape), "dc t=0", "csend r=0 size=30", "cclose r=0", "dc t=0", "dc t=0")
					}
					if how == "early" {
						l = append(l, "crecv r=0")
					}
					l = append(l, "raws t=0 id=1 kind=hdrs md=h=1", "raws t=0 id=1 kind=msg size=9 len=9", "ds t=0", "ds t=0")
					if how == "late" {
						l = append(l, "crecv r=0")
					}
					l = append(l, end+" t=0")
					if how != "invoke" {
						l = append(l, "crecv r=0", "crecv r=0", "ctrl r=0")
					}
					add(Config{Mode: mode, RawServer: true}, l)
				}
			}
		}
	}
	// grpc-timeout values at and around the representable range (hours): the handler's deadline is the
	// encoded duration, saturated - never a short or past one
	for _, mode := range []string{"fwd", "rev"} {
		for _, v := range []string{"99999999H", "2562048H", "2562047H", "2500000H", "2100000H", "153722867M", "99999999M"} {
			l := []string{"open t=0 md=who=s peer=p0", "ds t=0",
				"rawc t=0 id=1 kind=new method=%2Fv.S%2FBD0 rev=1 win=65536 md=grpc-timeout=" + v, "dc t=0",
				"rawc t=0 id=1 kind=msg size=5 len=5", "rawc t=0 id=1 kind=half", "dc t=0", "dc t=0",
				"hrecv r=0", "hrecv r=0", "hctx r=0", "hsend r=0 size=20", "hret r=0 code=0", "ds t=0", "ds t=0", "ds t=0", "ds t=0"}
			add(Config{Mode: mode, RawClient: true}, l)
		}
	}
	// a reverse-tunnel server that has been stopped still polices stream ids while the peer stays
	// connected: an id that is not greater than all it has seen ends the tunnel with an error, and
	// Serve reports it (raw tunnel client)
	for _, second := range []string{"3", "5"} {
		l := []string{"open t=0 md=who=s peer=p0", "ds t=0",
			"rawc t=0 id=5 kind=new method=%2Fv.S%2FBD0 rev=1 win=65536 md=-", "dc t=0", "stop",
			"rawc t=0 id=" + second + " kind=new method=%2Fv.S%2FBD1 rev=1 win=65536 md=-", "dc t=0", "ds t=0", "ds t=0", "ds t=0"}
		add(Config{Mode: "rev", RawClient: true}, l)
	}
	return out
}
