//go:build verif

package sim

// In-memory carrier for the tunnel-opening RPCs (OpenTunnel / OpenReverseTunnel).
//
// It implements the generated stream interfaces, so NewChannel(stub).Start,
// NewReverseTunnelServer(stub).Serve and handler.Service().OpenTunnel /
// OpenReverseTunnel run unmodified. Every Send marshals and unmarshals the frame
// like a real wire, taps it in emission order, and never blocks. Delivery is
// gated: a receive loop obtains the next frame (or the end-of-stream marker)
// only when the controller releases it. Abrupt failures (context cancellation,
// injected transport failure, marshal errors) take effect at once and drop
// undelivered frames, following grpc-go's observable stream contract.

import (
	"context"
	"fmt"
	"io"
	"runtime"
	"sync"
	"sync/atomic"
	"time"

	"github.com/jhump/grpctunnel/tunnelpb"
	"google.golang.org/grpc"
	"google.golang.org/grpc/codes"
	"google.golang.org/grpc/metadata"
	"google.golang.org/grpc/peer"
	"google.golang.org/grpc/status"
	"google.golang.org/protobuf/proto"
)

// gpipe is a gated FIFO of frames with a gated end marker and an ungated kill.
type gpipe struct {
	mu       sync.Mutex
	cond     *sync.Cond
	q        []proto.Message
	released int
	term     bool // graceful end requested (CloseSend / handler returned)
	termErr  error
	termRel  bool // end marker released
	dead     bool
	deadErr  error
	free     bool // free-running mode: everything is released at once
	cap      int  // free-running mode: Send blocks while this many frames are buffered (0: unbounded)
	onPop    func()
}

func newGPipe(free bool, capacity int) *gpipe {
	p := &gpipe{free: free, cap: capacity}
	p.cond = sync.NewCond(&p.mu)
	return p
}

// send appends a frame; pre runs (under the pipe's lock) just before the frame becomes visible
// to the receiver, so that the emission is logged ahead of anything the receiver does with it.
func (p *gpipe) send(v proto.Message, pre func()) error {
	p.mu.Lock()
	defer p.mu.Unlock()
	for p.cap > 0 && len(p.q) >= p.cap && !p.dead && !p.term {
		p.cond.Wait()
	}
	if p.dead {
		return p.deadErr
	}
	if p.term {
		return io.EOF
	}
	pre()
	p.q = append(p.q, v)
	if p.free {
		p.released = len(p.q)
		p.cond.Broadcast()
	}
	return nil
}

// release makes the next undelivered frame (or, when none is left, the end marker)
// receivable. It reports what was released: "frame", "end" or "".
// pre is called with the outcome before the receiver is woken, so that the delivery is
// logged ahead of everything the receiver does with the frame.
func (p *gpipe) release(pre func(what string)) string {
	p.mu.Lock()
	defer p.mu.Unlock()
	if p.dead {
		pre("none")
		return ""
	}
	if p.released < len(p.q) {
		pre("frame")
		p.released++
		p.cond.Broadcast()
		return "frame"
	}
	if p.term && !p.termRel {
		pre("end")
		p.termRel = true
		p.cond.Broadcast()
		return "end"
	}
	pre("none")
	return ""
}

func (p *gpipe) pending() int {
	p.mu.Lock()
	defer p.mu.Unlock()
	if p.dead {
		return 0
	}
	n := len(p.q) - p.released
	if p.term && !p.termRel {
		n++
	}
	return n
}

func (p *gpipe) recv() (proto.Message, error) {
	p.mu.Lock()
	defer p.mu.Unlock()
	for {
		if p.dead {
			return nil, p.deadErr
		}
		if p.released > 0 {
			v := p.q[0]
			p.q = p.q[1:]
			p.released--
			if p.free {
				if p.onPop != nil {
					p.onPop()
				}
				p.cond.Broadcast() // a bounded sender may proceed
			}
			return v, nil
		}
		if p.term && len(p.q) == 0 && (p.termRel || p.free) {
			if p.termErr != nil {
				return nil, p.termErr
			}
			return nil, io.EOF
		}
		p.cond.Wait()
	}
}

func (p *gpipe) finish(err error) {
	p.mu.Lock()
	defer p.mu.Unlock()
	if !p.term && !p.dead {
		p.term, p.termErr = true, err
		p.cond.Broadcast()
	}
}

func (p *gpipe) kill(err error) {
	p.mu.Lock()
	defer p.mu.Unlock()
	if !p.dead && !(p.term && p.termRel && len(p.q) == 0) {
		p.dead, p.deadErr = true, err
		p.q = nil
		p.cond.Broadcast()
	}
}

// link is one tunnel-opening RPC: "up" flows from the network client to the
// network server, "down" the other way.
type link struct {
	w       *World
	id      int // tunnel number in this world
	up      *gpipe
	down    *gpipe
	cctx    context.Context
	ccancel context.CancelFunc
	sctx    context.Context
	scancel context.CancelFunc
	hdrOnce sync.Once
	hdr     metadata.MD
	hdrCh   chan struct{}
	// calls currently inside Send / CloseSend on the client-side and the server-side stream
	cSending, sSending atomic.Int32
	// legacy peers: strip the negotiate header in one direction
	stripReqNegotiate  bool
	stripRespNegotiate bool
	mu                 sync.Mutex
	handlerDone        bool
	handlerErr         error
}

func wireCopy(m proto.Message) (proto.Message, error) {
	b, err := proto.Marshal(m)
	if err != nil {
		return nil, err
	}
	fresh := m.ProtoReflect().New().Interface()
	if err := proto.Unmarshal(b, fresh); err != nil {
		return nil, err
	}
	return fresh, nil
}

// kill ends the carrier abruptly for both ends with the given error.
func (l *link) kill(err error) {
	l.up.kill(err)
	l.down.kill(err)
	l.ccancel()
	l.scancel()
	l.hdrOnce.Do(func() { close(l.hdrCh) })
}

func (l *link) sendUp(m proto.Message) error {
	if err := l.cctx.Err(); err != nil {
		return status.FromContextError(err).Err()
	}
	c, err := wireCopy(m)
	if err != nil {
		st := status.Errorf(codes.Internal, "grpc: error while marshaling: %v", err)
		l.w.logf("carrier-marshal-error tunnel=%d side=netclient %v", l.id, err)
		l.kill(st)
		return st
	}
	logged := false
	err = l.up.send(c, func() { logged = true; l.w.tap(l, c, nil) })
	if !logged {
		l.w.tap(l, c, err)
	}
	return err
}

func (l *link) sendDown(m proto.Message) error {
	if err := l.sctx.Err(); err != nil {
		return status.FromContextError(err).Err()
	}
	c, err := wireCopy(m)
	if err != nil {
		st := status.Errorf(codes.Internal, "grpc: error while marshaling: %v", err)
		l.w.logf("carrier-marshal-error tunnel=%d side=netserver %v", l.id, err)
		l.kill(st)
		return st
	}
	logged := false
	err = l.down.send(c, func() { logged = true; l.w.tap(l, c, nil) })
	if !logged {
		l.w.tap(l, c, err)
	}
	return err
}

// ---- network-client side stream ----
type cliStream[Req, Res any] struct{ l *link }

func (c *cliStream[Req, Res]) Context() context.Context { return c.l.cctx }
func (c *cliStream[Req, Res]) Header() (metadata.MD, error) {
	select {
	case <-c.l.hdrCh:
		c.l.mu.Lock()
		defer c.l.mu.Unlock()
		if c.l.hdr == nil && c.l.down.isDead() {
			return nil, c.l.down.deadError()
		}
		return c.l.hdr, nil
	case <-c.l.cctx.Done():
		return nil, status.FromContextError(c.l.cctx.Err()).Err()
	}
}
func (c *cliStream[Req, Res]) Trailer() metadata.MD { return nil }
func (c *cliStream[Req, Res]) CloseSend() error {
	defer c.l.useSend(&c.l.cSending, "client")()
	c.l.w.logf("carrier-closesend tunnel=%d", c.l.id)
	if c.l.w.free {
		// CloseSend happens once per tunnel: linger inside the section, so that a Send that is
		// not serialised with it by the library's wrapper does overlap
		time.Sleep(3 * time.Millisecond)
	}
	c.l.up.finish(nil)
	return nil
}
func (c *cliStream[Req, Res]) Send(m *Req) error {
	defer c.l.useSend(&c.l.cSending, "client")()
	return c.l.sendUp(any(m).(proto.Message))
}
func (c *cliStream[Req, Res]) SendMsg(m any) error {
	defer c.l.useSend(&c.l.cSending, "client")()
	return c.l.sendUp(m.(proto.Message))
}

// useSend: a gRPC stream allows one goroutine at a time in SendMsg / CloseSend (SendMsg on the
// server side). The library serialises them with its thread-safe wrappers; the carrier notices
// when two calls overlap (code 1502). In free-running mode the call yields a few times inside the
// section so that an overlap that is possible also happens.
func (l *link) useSend(ctr *atomic.Int32, side string) func() {
	if n := ctr.Add(1); n > 1 {
		l.w.logf("harnessfail code=1502 a=%d b=%d", l.id, n)
	}
	if l.w.free {
		for i := 0; i < 3; i++ {
			runtime.Gosched()
		}
	}
	return func() { ctr.Add(-1) }
}
func (c *cliStream[Req, Res]) Recv() (*Res, error) {
	v, err := c.l.down.recv()
	if err != nil {
		return nil, err
	}
	return any(v).(*Res), nil
}
func (c *cliStream[Req, Res]) RecvMsg(m any) error {
	v, err := c.l.down.recv()
	if err != nil {
		return err
	}
	proto.Reset(m.(proto.Message))
	proto.Merge(m.(proto.Message), v)
	return nil
}

func (p *gpipe) isDead() bool     { p.mu.Lock(); defer p.mu.Unlock(); return p.dead }
func (p *gpipe) deadError() error { p.mu.Lock(); defer p.mu.Unlock(); return p.deadErr }

// ---- network-server side stream ----
type srvStream[Req, Res any] struct{ l *link }

func (s *srvStream[Req, Res]) Context() context.Context { return s.l.sctx }
func (s *srvStream[Req, Res]) SendHeader(md metadata.MD) error {
	s.l.hdrOnce.Do(func() {
		s.l.mu.Lock()
		if s.l.stripRespNegotiate {
			md = md.Copy()
			delete(md, "grpctunnel-negotiate")
		}
		if md == nil {
			md = metadata.MD{}
		}
		s.l.hdr = md
		s.l.mu.Unlock()
		close(s.l.hdrCh)
	})
	return nil
}
func (s *srvStream[Req, Res]) SetHeader(md metadata.MD) error { return nil }
func (s *srvStream[Req, Res]) SetTrailer(md metadata.MD)      {}
func (s *srvStream[Req, Res]) Send(m *Res) error {
	defer s.l.useSend(&s.l.sSending, "server")()
	return s.l.sendDown(any(m).(proto.Message))
}
func (s *srvStream[Req, Res]) SendMsg(m any) error {
	defer s.l.useSend(&s.l.sSending, "server")()
	return s.l.sendDown(m.(proto.Message))
}
func (s *srvStream[Req, Res]) Recv() (*Req, error) {
	v, err := s.l.up.recv()
	if err != nil {
		return nil, err
	}
	return any(v).(*Req), nil
}
func (s *srvStream[Req, Res]) RecvMsg(m any) error {
	v, err := s.l.up.recv()
	if err != nil {
		return err
	}
	proto.Reset(m.(proto.Message))
	proto.Merge(m.(proto.Message), v)
	return nil
}

// Stub connects tunnel-opening calls to a TunnelServiceServer in memory.
type Stub struct {
	w   *World
	svc tunnelpb.TunnelServiceServer
	// per-call knobs, consumed by the next open
	stripReq, stripResp bool
	peerAddr            string
}

type simAddr string

func (a simAddr) Network() string { return "sim" }
func (a simAddr) String() string  { return string(a) }

func (f *Stub) newLink(ctx context.Context) *link {
	w := f.w
	l := &link{w: w, up: newGPipe(w.free, w.pipeCap), down: newGPipe(w.free, w.pipeCap), hdrCh: make(chan struct{}),
		stripReqNegotiate: f.stripReq, stripRespNegotiate: f.stripResp}
	// what a client interceptor / stub wrapper would do: add a header to the call's context
	// (only the stream's own context carries it, not the caller's)
	if f.w.cfg.Mode == "fwd" {
		ctx = metadata.AppendToOutgoingContext(ctx, "x-stub", "1")
	}
	l.cctx, l.ccancel = context.WithCancel(ctx)
	md, _ := metadata.FromOutgoingContext(ctx)
	md = md.Copy()
	if l.stripReqNegotiate {
		delete(md, "grpctunnel-negotiate")
	}
	sctx := context.Background()
	if md != nil {
		sctx = metadata.NewIncomingContext(sctx, md)
	}
	addr := f.peerAddr
	ts, _ := ctx.Value(tunnelStateKey{}).(*tunnelState)
	if ts != nil && ts.peer != "" {
		addr = ts.peer
	}
	if addr == "" {
		addr = "peer-0"
	}
	// a deadline of the opening call reaches the server through grpc-timeout: the server-side
	// stream context ends at the same (virtual) instant
	if dl, ok := ctx.Deadline(); ok {
		var dcancel context.CancelFunc
		sctx, dcancel = context.WithDeadline(sctx, dl)
		_ = dcancel // released when l.scancel / the deadline fires; the bubble ends with the scenario
	}
	sctx = peer.NewContext(sctx, &peer.Peer{Addr: simAddr(addr)})
	sctx = context.WithValue(sctx, interceptorKey{}, "icpt-"+addr)
	l.sctx, l.scancel = context.WithCancel(sctx)
	w.addLink(l)
	if ts != nil {
		w.mu.Lock()
		ts.link = l
		w.mu.Unlock()
	}
	if w.free {
		updir, downdir := "c2s", "s2c"
		if w.cfg.Mode != "fwd" {
			updir, downdir = "s2c", "c2s"
		}
		l.up.onPop = func() { w.logf("deliver dir=%s t=%d what=frame", updir, l.id) }
		l.down.onPop = func() { w.logf("deliver dir=%s t=%d what=frame", downdir, l.id) }
	}
	// cancellation of the opening context kills the carrier for both ends
	go func() {
		<-l.cctx.Done()
		l.mu.Lock()
		done := l.handlerDone
		l.mu.Unlock()
		if !done {
			err := status.FromContextError(l.cctx.Err()).Err()
			l.up.kill(err)
			l.down.kill(err)
			l.scancel()
			l.hdrOnce.Do(func() { close(l.hdrCh) })
		}
	}()
	return l
}

type interceptorKey struct{}

func (l *link) handlerReturned(err error) {
	l.mu.Lock()
	l.handlerDone, l.handlerErr = true, err
	l.mu.Unlock()
	l.hdrOnce.Do(func() {
		l.mu.Lock()
		l.hdr = metadata.MD{}
		l.mu.Unlock()
		close(l.hdrCh)
	})
	var serr error
	if err != nil {
		serr = status.Convert(err).Err()
	}
	l.down.finish(serr)
	// the network server no longer reads; the client's later sends see the end of the RPC
	l.up.kill(io.EOF)
	l.scancel()
	l.w.logf("netsrvret t=%d err=%s", l.id, encErr(err))
}

func (f *Stub) OpenTunnel(ctx context.Context, opts ...grpc.CallOption) (tunnelpb.TunnelService_OpenTunnelClient, error) {
	if f.w.openErr != nil {
		return nil, f.w.openErr
	}
	l := f.newLink(ctx)
	l.w.logf("open tunnel=%d kind=forward", l.id)
	ss := &srvStream[tunnelpb.ClientToServer, tunnelpb.ServerToClient]{l: l}
	go func() {
		err := f.svc.OpenTunnel(ss)
		l.handlerReturned(err)
	}()
	return &cliStream[tunnelpb.ClientToServer, tunnelpb.ServerToClient]{l: l}, nil
}

func (f *Stub) OpenReverseTunnel(ctx context.Context, opts ...grpc.CallOption) (tunnelpb.TunnelService_OpenReverseTunnelClient, error) {
	if f.w.openErr != nil {
		return nil, f.w.openErr
	}
	l := f.newLink(ctx)
	l.w.logf("open tunnel=%d kind=reverse", l.id)
	ss := &srvStream[tunnelpb.ServerToClient, tunnelpb.ClientToServer]{l: l}
	go func() {
		err := f.svc.OpenReverseTunnel(ss)
		l.handlerReturned(err)
	}()
	return &cliStream[tunnelpb.ServerToClient, tunnelpb.ClientToServer]{l: l}, nil
}

func errStr(err error) string {
	if err == nil {
		return "nil"
	}
	return fmt.Sprintf("%q", err.Error())
}
