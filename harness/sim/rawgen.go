//go:build verif

package sim

// Raw-peer drivers: the harness plays one endpoint of the tunnel protocol with
// hand-made frames (grammar-based conversations with targeted deviations and
// random mutation) against the real other endpoint.

import (
	"fmt"
	"math/rand"
	"strings"
)

// ---------- raw tunnel client against the real tunnel server ----------
type rawRPC struct {
	r        int
	id       int64
	shape    string
	msgs     []int // sizes still to send
	cur      int   // bytes of the current message still to send (0: none in progress)
	ctxProbed bool
	first    bool
	half     bool
	dead     bool
	hRet     bool
	hSends   int
	overrun  bool
	bytesOut int
}

type rawClientDriver struct {
	name    string
	rng     *rand.Rand
	cfg     Config
	rpcs    []*rawRPC
	nextID  int64
	nextR   int
	step0   int
	phase   int
	budget  int
	devLeft int
	ended   bool
	shut    bool
	hostile bool
	advanced bool
}

func newRawClient(name string, seed int64, cfg Config, hostile bool) *rawClientDriver {
	rng := rand.New(rand.NewSource(seed))
	return &rawClientDriver{name: name, rng: rng, cfg: cfg, nextID: 1, budget: 60 + rng.Intn(120), devLeft: 1 + rng.Intn(3), hostile: hostile}
}

func (d *rawClientDriver) Config() Config { return d.cfg }
func (d *rawClientDriver) Name() string   { return d.name }

func (d *rawClientDriver) rev() int {
	if d.cfg.CLegacy || d.cfg.SDisable {
		return 0
	}
	return 1
}

func (d *rawClientDriver) newLine(r *rawRPC, method string, rev int) string {
	// the window the raw client advertises for the server's sends: it never credits, so only the
	// standard size or larger; the server's own receive window stays 65536 whatever is said here
	win := []string{"65536", "65536", "65536", "131072", "1048576", "4294967295"}[d.rng.Intn(6)]
	return fmt.Sprintf("rawc t=0 id=%d kind=new method=%s rev=%d win=%s md=%s", r.id, method, rev, win,
		[]string{"-", "a=1", "{}", "grpc-timeout=30S", "a=1;grpc-timeout=2M"}[d.rng.Intn(5)])
}

func (d *rawClientDriver) Next(w *World, step int) string {
	rng := d.rng
	if d.phase == 0 {
		d.phase = 1
		if rng.Intn(3) == 0 {
			// the tunnel itself is opened under a far deadline (one hour of virtual time)
			return "open t=0 md=who=raw;tdl=1 peer=p0 to=3600000000000"
		}
		return "open t=0 md=who=raw peer=p0"
	}
	pc, ps := w.pend(0)
	if step > d.budget+40 {
		return ""
	}
	if step > d.budget {
		if pc > 0 {
			return "dc t=0"
		}
		if ps > 0 {
			return "ds t=0"
		}
		// once the tunnel's serving call has returned, nothing of it may stay live: ask every
		// handler that is still running for the state of its context
		if w.serveReturned(0) {
			for _, r := range d.rpcs {
				if h := w.hand(r.r); h != nil && !r.hRet && !r.ctxProbed {
					r.ctxProbed = true
					return fmt.Sprintf("hctx r=%d", r.r)
				}
			}
		}
		for _, r := range d.rpcs {
			if h := w.hand(r.r); h != nil && !r.hRet && !h.hw.isBusy() {
				r.hRet = true
				return fmt.Sprintf("hret r=%d code=0 size=10", r.r)
			}
		}
		if !d.ended {
			d.ended = true
			return "rawc t=0 kind=end"
		}
		return ""
	}
	var moves []string
	add := func(wt int, s string) {
		for i := 0; i < wt; i++ {
			moves = append(moves, s)
		}
	}
	if pc > 0 {
		add(6, "dc t=0")
	}
	if pc > 1 && !d.hostile {
		// (conforming conversations only: the lock-step monitors attribute what happens in an
		// action to the frame delivered in it, which a burst containing a tunnel-level violation blurs)
		add(3, fmt.Sprintf("dc t=0 n=%d", 2+rng.Intn(3)))
	}
	if ps > 0 {
		add(3, "ds t=0")
	}
	live := 0
	for _, r := range d.rpcs {
		if !r.dead {
			live++
		}
	}
	if live < 3 && d.nextR < MaxRPC-2 {
		add(3, "NEW")
	}
	for _, r := range d.rpcs {
		if r.dead {
			continue
		}
		if !r.half {
			if r.cur > 0 || len(r.msgs) > 0 {
				add(3, fmt.Sprintf("DATA %d", r.r))
			} else {
				add(2, fmt.Sprintf("HALF %d", r.r))
			}
		}
		if rng.Intn(30) == 0 {
			add(1, fmt.Sprintf("CANCEL %d", r.r))
		}
		if h := w.hand(r.r); h != nil && !r.hRet {
			if !h.hr.isBusy() && !w.flag(fmt.Sprintf("hend%d", r.r)) {
				add(2, fmt.Sprintf("hrecv r=%d", r.r))
			}
			if !h.hw.isBusy() {
				if r.shape != "U" && r.hSends < 2 && (r.shape != "CS" || w.flag(fmt.Sprintf("hend%d", r.r))) {
					add(1, fmt.Sprintf("HSEND %d", r.r))
				}
				if !h.hr.isBusy() && (w.flag(fmt.Sprintf("hend%d", r.r)) || w.flag(fmt.Sprintf("hgot%d", r.r)) || rng.Intn(6) == 0) {
					add(1, fmt.Sprintf("HRET %d", r.r))
				}
			}
		}
	}
	if d.hostile && d.devLeft > 0 && step > 4 {
		add(2, "DEV")
	}
	if !d.hostile && !d.advanced && step > 12 && rng.Intn(40) == 0 {
		// move the clock past every grpc-timeout this driver hands out (30S, 2M): handlers of such
		// RPCs that are blocked in a read must be released; the others are untouched
		d.advanced = true
		return "adv ns=200000000000"
	}
	if !d.shut && rng.Intn(60) == 0 {
		add(1, "shutdown")
	}
	if len(moves) == 0 {
		d.budget = step
		return d.Next(w, step+1)
	}
	mv := moves[rng.Intn(len(moves))]
	f := strings.Fields(mv)
	find := func(n string) *rawRPC {
		for _, r := range d.rpcs {
			if fmt.Sprint(r.r) == n {
				return r
			}
		}
		return nil
	}
	switch f[0] {
	case "NEW":
		shape := []string{"U", "CS", "SS", "BD"}[rng.Intn(4)]
		r := &rawRPC{r: d.nextR, id: d.nextID, shape: shape, first: true}
		d.nextR++
		d.nextID++
		if rng.Intn(6) == 0 {
			d.nextID += int64(rng.Intn(5)) // ids may skip ahead
		}
		n := 1
		if shape == "CS" || shape == "BD" {
			n = rng.Intn(4)
		}
		for i := 0; i < n; i++ {
			r.msgs = append(r.msgs, pickSize(rng, false))
		}
		d.rpcs = append(d.rpcs, r)
		return d.newLine(r, fmt.Sprintf("%%2Fv.S%%2F%s%d", shape, r.r), d.rev())
	case "DATA":
		r := find(f[1])
		if r.cur == 0 {
			sz := r.msgs[0]
			r.msgs = r.msgs[1:]
			c := sz
			if c > 16384 {
				c = 16384
			}
			if rng.Intn(5) == 0 && c > 1 {
				c = 1 + rng.Intn(c)
			}
			r.cur = sz - c
			r.bytesOut += c
			return fmt.Sprintf("rawc t=0 id=%d kind=msg size=%d len=%d", r.id, sz, c)
		}
		c := r.cur
		if c > 16384 {
			c = 16384
		}
		if rng.Intn(5) == 0 && c > 1 {
			c = 1 + rng.Intn(c)
		}
		r.cur -= c
		r.bytesOut += c
		return fmt.Sprintf("rawc t=0 id=%d kind=more len=%d", r.id, c)
	case "HALF":
		r := find(f[1])
		r.half = true
		return fmt.Sprintf("rawc t=0 id=%d kind=half", r.id)
	case "CANCEL":
		r := find(f[1])
		r.dead = true
		return fmt.Sprintf("rawc t=0 id=%d kind=cancel", r.id)
	case "HSEND":
		r := find(f[1])
		r.hSends++
		return fmt.Sprintf("hsend r=%d size=%d", r.r, pickSize(rng, false))
	case "HRET":
		r := find(f[1])
		r.hRet = true
		r.dead = true
		code := 0
		if rng.Intn(4) == 0 {
			code = 1 + rng.Intn(16)
		}
		return fmt.Sprintf("hret r=%d code=%d msg=m size=%d", r.r, code, pickSize(rng, false))
	case "shutdown":
		d.shut = true
		return "shutdown"
	case "DEV":
		d.devLeft--
		return d.deviation(w)
	}
	return mv
}

// one targeted deviation from the protocol
func (d *rawClientDriver) deviation(w *World) string {
	rng := d.rng
	var anyRPC *rawRPC
	if len(d.rpcs) > 0 {
		anyRPC = d.rpcs[rng.Intn(len(d.rpcs))]
	}
	id := int64(1)
	if anyRPC != nil {
		id = anyRPC.id
	}
	switch rng.Intn(24) {
	case 22, 23: // reuse the most recent id (the newest stream, active or already finished)
		return fmt.Sprintf("rawc t=0 id=%d kind=new method=%%2Fv.S%%2FBD%d rev=%d win=65536 md=-", d.nextID-1, d.nextR, d.rev())
	case 0: // reuse the id of an existing (active or finished) stream
		return fmt.Sprintf("rawc t=0 id=%d kind=new method=%%2Fv.S%%2FBD%d rev=%d win=65536 md=-", id, d.nextR, d.rev())
	case 1: // an id that goes backwards or is negative
		return fmt.Sprintf("rawc t=0 id=%d kind=new method=%%2Fv.S%%2FBD%d rev=%d win=65536 md=-", []int64{0, -1, -7, id - 1}[rng.Intn(4)], d.nextR, d.rev())
	case 2: // frame for a stream that was never created
		return fmt.Sprintf("rawc t=0 id=%d kind=%s", d.nextID+int64(rng.Intn(9)), []string{"half", "cancel", "more len=3", "wu n=5", "msg size=1 len=1"}[rng.Intn(5)])
	case 3: // empty / malformed / unknown method names
		m := []string{"~", "%2F", "nosuch", "%2Fnosuch", "%2Fv.S%2Fnosuch", "%2Fv.X%2FU1", "v.S%2F", "%2F%2F", "%2Fv.S%2FBD1%2Fextra"}[rng.Intn(9)]
		r := &rawRPC{r: MaxRPC - 1, id: d.nextID, shape: "BD", dead: true}
		d.nextID++
		d.rpcs = append(d.rpcs, r)
		return fmt.Sprintf("rawc t=0 id=%d kind=new method=%s rev=%d win=65536 md=-", r.id, m, d.rev())
	case 4: // unsupported revision
		r := &rawRPC{r: MaxRPC - 1, id: d.nextID, shape: "BD", dead: true}
		d.nextID++
		d.rpcs = append(d.rpcs, r)
		return fmt.Sprintf("rawc t=0 id=%d kind=new method=%%2Fv.S%%2FBD%d rev=%d win=65536 md=-", r.id, d.nextR, []int{2, 7, -1, 100}[rng.Intn(4)])
	case 5: // envelope before the previous message finished / continuation without envelope
		if anyRPC != nil && !anyRPC.dead {
			anyRPC.dead = true
			if anyRPC.cur > 0 {
				return fmt.Sprintf("rawc t=0 id=%d kind=msg size=5 len=5", anyRPC.id)
			}
			return fmt.Sprintf("rawc t=0 id=%d kind=more len=4", anyRPC.id)
		}
	case 6: // more data than the envelope announced
		if anyRPC != nil && !anyRPC.dead {
			anyRPC.dead = true
			return fmt.Sprintf("rawc t=0 id=%d kind=msg size=3 len=10", anyRPC.id)
		}
	case 7, 8: // overrun the flow-control window (by 1 byte .. several windows), in big chunks
		if anyRPC != nil && !anyRPC.dead {
			anyRPC.overrun = true
			n := []int{65537, 70000, 131072, 400000, 65536 - anyRPC.bytesOut + 1}[rng.Intn(5)]
			if n < 1 {
				n = 70000
			}
			anyRPC.bytesOut += n
			anyRPC.dead = true
			return fmt.Sprintf("rawc t=0 id=%d kind=msg size=%d len=%d", anyRPC.id, n+5, n)
		}
	case 9: // second message on a unary method / data after half-close / second half-close
		if anyRPC != nil && !anyRPC.dead {
			if anyRPC.half {
				return fmt.Sprintf("rawc t=0 id=%d kind=%s", anyRPC.id, []string{"half", "msg size=2 len=2"}[rng.Intn(2)])
			}
			return fmt.Sprintf("rawc t=0 id=%d kind=msg size=2 len=2", anyRPC.id)
		}
	case 10: // absurd window updates
		return fmt.Sprintf("rawc t=0 id=%d kind=wu n=%s", id, []string{"4294967295", "0", "4294901760", "1"}[rng.Intn(4)])
	case 11: // a frame with no body at all
		return fmt.Sprintf("rawc t=0 id=%d kind=nil", id)
	case 12: // cancel twice / frames after cancel
		if anyRPC != nil {
			anyRPC.dead = true
			return fmt.Sprintf("rawc t=0 id=%d kind=cancel", anyRPC.id)
		}
	case 13: // zero-length frames
		if anyRPC != nil && !anyRPC.dead && anyRPC.cur == 0 {
			return fmt.Sprintf("rawc t=0 id=%d kind=msg size=0 len=0", anyRPC.id)
		}
	case 14: // new_stream with a huge or zero window
		r := &rawRPC{r: d.nextR, id: d.nextID, shape: "BD", first: true}
		d.nextR++
		d.nextID++
		d.rpcs = append(d.rpcs, r)
		return fmt.Sprintf("rawc t=0 id=%d kind=new method=%%2Fv.S%%2FBD%d rev=%d win=%s md=-", r.id, r.r, d.rev(), []string{"0", "1", "4294967295"}[rng.Intn(3)])
	case 16: // an envelope announcing a huge message, then little data (the endpoint must not reserve the announced size)
		if anyRPC != nil && !anyRPC.dead && anyRPC.cur == 0 {
			anyRPC.dead = true
			anyRPC.bytesOut += 10
			return fmt.Sprintf("rawc t=0 id=%d kind=msg size=%d len=10", anyRPC.id, []int{1 << 30, 3 << 30, 1 << 29}[rng.Intn(3)])
		}
	case 15: // grpc-timeout oddities
		r := &rawRPC{r: d.nextR, id: d.nextID, shape: "BD", first: true}
		d.nextR++
		d.nextID++
		d.rpcs = append(d.rpcs, r)
		return fmt.Sprintf("rawc t=0 id=%d kind=new method=%%2Fv.S%%2FBD%d rev=%d win=65536 md=grpc-timeout=%s", r.id, r.r, d.rev(), []string{"-5S", "99999999H", "1n", "%2B5S", "5", "S", "123456789S", "0m", "5S", "10M", "1H", "100m"}[rng.Intn(12)])
	}
	return "probe"
}

// ---------- raw tunnel server against the real tunnel client ----------
type rawServerDriver struct {
	name     string
	rng      *rand.Rand
	cfg      Config
	phase    int
	settings string
	plans    []*plan
	budget   int
	hostile  bool
	devLeft  int
	// per stream (by rpc index) what the raw server has done
	closed  map[int]bool
	hdrs    map[int]bool
	sent    map[int]int
	ended   bool
	lateNew bool
}

var settingsPool = []string{
	"kind=settings id=-1 revs=0,1 win=65536", "kind=settings id=-1 revs=0,1 win=65536", "kind=settings id=-1 revs=0,1 win=65536",
	"kind=settings id=-1 revs=1,0 win=65536", "kind=settings id=-1 revs=0,1,0 win=65536", "kind=settings id=-1 revs=7,1,0 win=65536",
	"kind=settings id=-1 revs=0 win=65536", "kind=settings id=-1 revs=- win=65536", "kind=settings id=-1 revs=1 win=65536",
	"kind=settings id=-1 revs=2,7 win=65536", "kind=settings id=-1 revs=1,1 win=1000", "kind=settings id=-1 revs=0,1 win=0",
	"kind=settings id=0 revs=0,1 win=65536", "kind=settings id=5 revs=0,1 win=65536", "kind=hdrs id=-1 md=-", "kind=close id=-1 code=0 msg=x md=-",
	"kind=settings id=-1 revs=0,1 win=4294967295", "kind=end", "kind=settings id=-1 revs=1,2,3 win=65536", "kind=settings id=-1 revs=-1 win=65536",
}

func newRawServer(name string, seed int64, cfg Config, hostile bool, nego bool) *rawServerDriver {
	rng := rand.New(rand.NewSource(seed))
	d := &rawServerDriver{name: name, rng: rng, cfg: cfg, budget: 50 + rng.Intn(100), hostile: hostile, devLeft: 1 + rng.Intn(3),
		closed: map[int]bool{}, hdrs: map[int]bool{}, sent: map[int]int{}}
	d.settings = settingsPool[0]
	if nego {
		d.settings = settingsPool[rng.Intn(len(settingsPool))]
	}
	n := 1 + rng.Intn(3)
	for r := 0; r < n; r++ {
		d.plans = append(d.plans, newPlan(rng, r, 0, workloadOpts{}))
	}
	return d
}

func (d *rawServerDriver) Config() Config { return d.cfg }
func (d *rawServerDriver) Name() string   { return d.name }

func (d *rawServerDriver) Next(w *World, step int) string {
	rng := d.rng
	switch d.phase {
	case 0:
		d.phase = 1
		return "open t=0 md=who=raw peer=p0"
	case 1:
		d.phase = 2
		if d.cfg.SLegacy {
			return "probe"
		}
		if d.settings == "kind=end" {
			return "raws t=0 kind=end code=0"
		}
		return "raws t=0 " + d.settings
	case 2:
		d.phase = 3
		return "ds t=0"
	}
	pc, ps := w.pend(0)
	if step > d.budget+40 {
		return ""
	}
	var moves []string
	add := func(wt int, s string) {
		for i := 0; i < wt; i++ {
			moves = append(moves, s)
		}
	}
	if pc > 0 {
		add(4, "dc t=0")
	}
	if ps > 0 {
		add(5, "ds t=0")
	}
	up := w.tunnelUp(0)
	if step > d.budget {
		if pc > 0 {
			return "dc t=0"
		}
		if ps > 0 {
			return "ds t=0"
		}
		// a last RPC on whatever the channel has become, then read everything out
		if !d.lateNew && up && len(d.plans) < MaxRPC-2 {
			d.lateNew = true
			p := newPlan(rng, len(d.plans), 0, workloadOpts{})
			d.plans = append(d.plans, p)
			p.newIssued = true
			return fmt.Sprintf("cnew r=%d t=0 shape=%s method=auto md=-", p.r, p.shape)
		}
		for _, p := range d.plans {
			rs := w.rpcs[p.r]
			if rs != nil && rs.started && !w.flag(fmt.Sprintf("cterm%d", p.r)) && !rs.cr.isBusy() {
				return fmt.Sprintf("crecv r=%d", p.r)
			}
		}
		if !d.ended {
			d.ended = true
			return "raws t=0 kind=end code=0"
		}
		return ""
	}
	if !up {
		if len(moves) == 0 {
			d.budget = step
			return "probe"
		}
		return moves[rng.Intn(len(moves))]
	}
	for _, p := range d.plans {
		rs := w.rpcs[p.r]
		if !p.newIssued {
			if p.invoke {
				add(3, fmt.Sprintf("cinvoke r=%d t=0 size=%d md=-", p.r, pickSize(rng, false)))
			} else {
				add(3, fmt.Sprintf("cnew r=%d t=0 shape=%s method=auto md=-", p.r, p.shape))
			}
			continue
		}
		if rs == nil || !rs.started {
			continue
		}
		cTerm := w.flag(fmt.Sprintf("cterm%d", p.r))
		if !rs.cw.isBusy() && !cTerm && !p.invoke {
			if p.ci < len(p.cSends) {
				add(2, fmt.Sprintf("csend r=%d size=%d", p.r, p.cSends[p.ci]))
			} else if !p.cClosed {
				add(2, fmt.Sprintf("cclose r=%d", p.r))
			}
		}
		if !cTerm && !rs.cr.isBusy() && !p.invoke {
			add(2, fmt.Sprintf("crecv r=%d", p.r))
		}
		if rng.Intn(25) == 0 && !cTerm {
			add(1, fmt.Sprintf("ccancel r=%d", p.r))
		}
		// the raw server's side of this stream (stream id = r+1: ids are allocated in order)
		if !d.closed[p.r] {
			id := d.idOf(w, p.r)
			if id > 0 {
				if !d.hdrs[p.r] {
					add(2, fmt.Sprintf("SHDR %d %d", p.r, id))
				} else if d.sent[p.r] < len(p.hSends) || (p.shape == "U" || p.shape == "CS") && d.sent[p.r] == 0 {
					add(2, fmt.Sprintf("SMSG %d %d", p.r, id))
				} else {
					add(2, fmt.Sprintf("SCLOSE %d %d", p.r, id))
				}
				if rng.Intn(10) == 0 {
					add(1, fmt.Sprintf("SWU %d %d", p.r, id))
				}
			}
		}
	}
	if d.hostile && d.devLeft > 0 {
		add(2, "DEV")
	}
	if len(moves) == 0 {
		d.budget = step
		return "probe"
	}
	mv := moves[rng.Intn(len(moves))]
	f := strings.Fields(mv)
	switch f[0] {
	case "cnew", "csend", "cclose", "cinvoke":
		(&workload{plans: d.plans}).commit(mv)
		return mv
	case "SHDR":
		d.hdrs[atoi(f[1])] = true
		return fmt.Sprintf("raws t=0 id=%s kind=hdrs md=%s", f[2], pickMD(rng))
	case "SMSG":
		r := atoi(f[1])
		d.sent[r]++
		sz := pickSize(rng, false)
		if sz > 16384 {
			sz = 16384 // single-frame messages keep the raw server simple; chunked ones come from deviations
		}
		return fmt.Sprintf("raws t=0 id=%s kind=msg size=%d len=%d", f[2], sz, sz)
	case "SCLOSE":
		d.closed[atoi(f[1])] = true
		code := 0
		if rng.Intn(4) == 0 {
			code = 1 + rng.Intn(16)
		}
		return fmt.Sprintf("raws t=0 id=%s kind=close code=%d msg=m md=%s", f[2], code, pickMD(rng))
	case "SWU":
		return fmt.Sprintf("raws t=0 id=%s kind=wu n=%d", f[2], 1+rng.Intn(70000))
	case "DEV":
		d.devLeft--
		return d.deviation(w)
	}
	return mv
}

func (d *rawServerDriver) idOf(w *World, r int) int64 {
	w.mu.Lock()
	defer w.mu.Unlock()
	return w.ids[r]
}

func (d *rawServerDriver) deviation(w *World) string {
	rng := d.rng
	var ids []int64
	for _, p := range d.plans {
		if id := d.idOf(w, p.r); id > 0 {
			ids = append(ids, id)
		}
	}
	id := int64(1)
	if len(ids) > 0 {
		id = ids[rng.Intn(len(ids))]
	}
	switch rng.Intn(14) {
	case 0: // frame for a stream the client never created
		return fmt.Sprintf("raws t=0 id=%d kind=%s", id+20+int64(rng.Intn(5)), []string{"hdrs md=-", "msg size=1 len=1", "close code=0 msg=x md=-", "wu n=4"}[rng.Intn(4)])
	case 1: // settings in the middle of the conversation
		return fmt.Sprintf("raws t=0 id=%d kind=settings revs=0,1 win=65536", []int64{id, -1}[rng.Intn(2)])
	case 2: // headers twice
		return fmt.Sprintf("raws t=0 id=%d kind=hdrs md=late=1", id)
	case 3: // two messages (also for unary), message after close
		return fmt.Sprintf("raws t=0 id=%d kind=msg size=4 len=4", id)
	case 4: // continuation without envelope / more than announced / envelope early
		return fmt.Sprintf("raws t=0 id=%d kind=%s", id, []string{"more len=4", "msg size=2 len=9", "msg size=100 len=10"}[rng.Intn(3)])
	case 5, 6: // overrun the client's window
		n := []int{65537, 70000, 200000}[rng.Intn(3)]
		return fmt.Sprintf("raws t=0 id=%d kind=msg size=%d len=%d", id, n+1, n)
	case 7: // nil frame
		return fmt.Sprintf("raws t=0 id=%d kind=nil", id)
	case 8: // absurd window update
		return fmt.Sprintf("raws t=0 id=%d kind=wu n=%s", id, []string{"4294967295", "0", "4294901760"}[rng.Intn(3)])
	case 9: // negative / zero ids
		return fmt.Sprintf("raws t=0 id=%d kind=close code=0 msg=x md=-", []int64{0, -2, -1}[rng.Intn(3)])
	case 10: // close twice
		return fmt.Sprintf("raws t=0 id=%d kind=close code=%d msg=again md=-", id, rng.Intn(17))
	case 11: // zero messages and OK status on a unary method
		return fmt.Sprintf("raws t=0 id=%d kind=close code=0 msg=~ md=-", id)
	case 12: // an envelope announcing a huge message, then little data
		return fmt.Sprintf("raws t=0 id=%d kind=msg size=%d len=10", id, []int{1 << 30, 3 << 30, 1 << 29}[rng.Intn(3)])
	}
	return "probe"
}
