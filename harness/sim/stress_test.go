//go:build verif

package sim

// M3: free-running stress. The same world (in-memory carrier, scripted service) but with
// real goroutines, real parallelism, no delivery gating, optional bounded carrier buffers
// (Send blocks while the buffer is full, like a transport applying back-pressure), random
// yields at the hook points inside the library, and the race detector (the binary is built
// with -race). The log is a trace with a single action, judged by the same monitors; a
// watchdog turns a workload that does not finish into a hang report with goroutine stacks.

import (
	"bufio"
	"context"
	"fmt"
	"io"
	"math/rand"
	"os"
	"runtime"
	"strconv"
	"strings"
	"sync"
	"sync/atomic"
	"testing"
	"time"

	"github.com/jhump/grpctunnel"
	"github.com/jhump/grpctunnel/tunnelpb"
	"google.golang.org/grpc"
	"google.golang.org/grpc/codes"
	"google.golang.org/grpc/metadata"
	"google.golang.org/grpc/peer"
	"google.golang.org/grpc/status"
	"google.golang.org/protobuf/proto"
)

type autoPlan struct {
	shape   string
	cSends  []int
	hSends  []int
	code    int
	respSz  int
	hdr     string
	trl     string
	cancel  bool // the caller cancels somewhere in the middle
	precanc bool // the caller's context is already cancelled when the RPC starts
	noread  bool // the caller stops reading (must not stall anybody else)
}

func (w *World) planFor(r int) *autoPlan {
	w.mu.Lock()
	defer w.mu.Unlock()
	return w.autoPlans[r]
}

// autonomous handlers
func (w *World) autoStream(r int, shape string, ss grpc.ServerStream) error {
	p := w.planFor(r)
	if p == nil {
		return status.Error(codes.Internal, "no plan")
	}
	md, _ := metadata.FromIncomingContext(ss.Context())
	tmd, tok := grpctunnel.TunnelMetadataFromIncomingContext(ss.Context())
	tm := "absent"
	if tok {
		tm = encMD(tmd)
	}
	w.logf("hstart r=%d shape=%s md=%s deadline=none tmd=%s %s", r, shape, encMD(md), tm, peerIcpt(ss.Context()))
	scribble(tmd)
	if p.hdr != "" {
		_ = ss.SetHeader(decMD(p.hdr))
		w.logf("call who=hw%d op=sethdr", r)
		w.logf("ret who=hw%d op=sethdr res=ok md=%s", r, p.hdr)
	}
	var wg sync.WaitGroup
	var recvErr error
	wg.Add(1)
	go func() {
		defer wg.Done()
		for {
			m := staleMsg()
			w.logf("call who=hr%d op=recv", r)
			err := ss.RecvMsg(m)
			if err != nil {
				recvErr = err
				w.logf("ret who=hr%d op=recv res=%s ctxerr=%s", r, encErr(err), encErr(ss.Context().Err()))
				return
			}
			w.logf("ret who=hr%d op=recv res=ok len=%d dg=%x", r, len(m.Value), digest(m.Value))
			if shape == "SS" {
				return
			}
		}
	}()
	if shape == "CS" {
		wg.Wait() // a client-streaming handler answers after it has read everything
	}
	for i, sz := range p.hSends {
		pl := payloadFor(r, 's', i, sz)
		msg := &Msg{Value: pl}
		w.logf("call who=hw%d op=send idx=%d ser=%d len=%d dg=%x", r, i, proto.Size(msg), len(pl), digest(pl))
		err := ss.SendMsg(msg)
		w.logf("ret who=hw%d op=send idx=%d res=%s", r, i, encErr(err))
		if err != nil {
			break
		}
	}
	wg.Wait()
	if p.trl != "" {
		ss.SetTrailer(decMD(p.trl))
		w.logf("call who=hw%d op=settrl", r)
		w.logf("ret who=hw%d op=settrl res=ok md=%s", r, p.trl)
	}
	var err error
	if p.code != 0 {
		err = status.Error(codes.Code(p.code), "stress")
	}
	_ = recvErr
	w.logf("call who=hx%d op=return status=%s", r, encErr(err))
	return err
}

func (w *World) autoUnary(r int, ctx context.Context, dec func(interface{}) error) (interface{}, error) {
	p := w.planFor(r)
	if p == nil {
		return nil, status.Error(codes.Internal, "no plan")
	}
	md, _ := metadata.FromIncomingContext(ctx)
	tmd, tok := grpctunnel.TunnelMetadataFromIncomingContext(ctx)
	tm := "absent"
	if tok {
		tm = encMD(tmd)
	}
	w.logf("hstart r=%d shape=U md=%s deadline=none tmd=%s %s", r, encMD(md), tm, peerIcpt(ctx))
	m := staleMsg()
	w.logf("call who=hr%d op=recv", r)
	if err := dec(m); err != nil {
		w.logf("ret who=hr%d op=recv res=%s ctxerr=%s", r, encErr(err), encErr(ctx.Err()))
		w.logf("call who=hx%d op=return status=%s", r, encErr(err))
		return nil, err
	}
	w.logf("ret who=hr%d op=recv res=ok len=%d dg=%x", r, len(m.Value), digest(m.Value))
	if p.code != 0 {
		err := status.Error(codes.Code(p.code), "stress")
		w.logf("call who=hx%d op=return status=%s", r, encErr(err))
		return nil, err
	}
	pl := payloadFor(r, 's', 0, p.respSz)
	resp := &Msg{Value: pl}
	w.logf("call who=hx%d op=return status=ok ser=%d len=%d dg=%x", r, proto.Size(resp), len(pl), digest(pl))
	return resp, nil
}

// one caller program
func (w *World) autoCall(r int, cc grpc.ClientConnInterface, p *autoPlan, rng *rand.Rand) {
	ctx, cancel := context.WithCancel(context.Background())
	defer cancel()
	if p.precanc {
		w.logf("ret who=cx%d op=cancel res=ok", r)
		cancel()
	}
	hdrT, trlT := metadata.Pairs("stale-target", "h"), metadata.Pairs("stale-target", "t")
	name := fmt.Sprintf("/v.S/%s%d", p.shape, r)
	w.logf("newcall r=%d t=0 shape=%s method=%s md=- credmd=- to=none multi=0", r, p.shape, encStr(name))
	w.logf("call who=cw%d op=new", r)
	st, err := cc.NewStream(ctx, shapeDesc(p.shape), name, grpc.Header(&hdrT), grpc.Trailer(&trlT))
	if err != nil {
		w.logf("ret who=cw%d op=new res=%s", r, encErr(err))
		return
	}
	w.logf("ret who=cw%d op=new res=ok ctxtc=%d", r, w.tunnelOfChannel(grpctunnel.TunnelChannelFromContext(st.Context())))
	var wg sync.WaitGroup
	wg.Add(1)
	go func() {
		defer wg.Done()
		for i, sz := range p.cSends {
			pl := payloadFor(r, 'c', i, sz)
			msg := &Msg{Value: pl}
			w.logf("call who=cw%d op=send idx=%d ser=%d len=%d dg=%x", r, i, proto.Size(msg), len(pl), digest(pl))
			err := st.SendMsg(msg)
			w.logf("ret who=cw%d op=send idx=%d res=%s", r, i, encErr(err))
			if err != nil {
				return
			}
		}
		w.logf("call who=cw%d op=closesend", r)
		err := st.CloseSend()
		w.logf("ret who=cw%d op=closesend res=%s", r, encErr(err))
	}()
	if p.cancel {
		delay := time.Duration(rng.Intn(3000)) * time.Microsecond
		go func() {
			time.Sleep(delay)
			w.logf("ret who=cx%d op=cancel res=ok", r)
			cancel()
		}()
	}
	if p.noread {
		wg.Wait()
		time.Sleep(20 * time.Millisecond)
		w.logf("ret who=cx%d op=cancel res=ok", r)
		cancel()
		return
	}
	// Header(): the call-option target must be readable as soon as Header returns
	w.logf("call who=cr%d op=header", r)
	h, herr := st.Header()
	if herr == nil {
		// the completion signal has been given: the grpc.Header target may be read now
		w.logf("ret who=cr%d op=header res=ok md=%s hdropt=%s", r, encMD(h), encMD(hdrT))
	} else {
		w.logf("ret who=cr%d op=header res=%s md=-", r, encErr(herr))
	}
	for {
		m := staleMsg()
		w.logf("call who=cr%d op=recv", r)
		err := st.RecvMsg(m)
		if err != nil {
			w.logf("ret who=cr%d op=recv res=%s trl=%s trlopt=%s", r, encErr(err), encMD(st.Trailer()), encMD(trlT))
			break
		}
		w.logf("ret who=cr%d op=recv res=ok len=%d dg=%x", r, len(m.Value), digest(m.Value))
	}
	wg.Wait()
}

func genAutoPlan(rng *rand.Rand, fc bool) *autoPlan {
	p := &autoPlan{shape: []string{"U", "CS", "SS", "BD", "BD"}[rng.Intn(5)]}
	nC, nH := 1, 1
	if p.shape == "CS" || p.shape == "BD" {
		nC = rng.Intn(5)
	}
	if p.shape == "SS" || p.shape == "BD" {
		nH = rng.Intn(5)
	}
	sz := func() int {
		if rng.Intn(6) == 0 {
			return 60000 + rng.Intn(120000)
		}
		return boundarySizes[rng.Intn(len(boundarySizes))] % 40000
	}
	for i := 0; i < nC; i++ {
		p.cSends = append(p.cSends, sz())
	}
	if p.shape != "U" {
		for i := 0; i < nH; i++ {
			p.hSends = append(p.hSends, sz())
		}
		if p.shape == "CS" {
			p.hSends = []int{sz()}
		}
	}
	p.respSz = sz()
	if rng.Intn(5) == 0 {
		p.code = 1 + rng.Intn(16)
	}
	if rng.Intn(2) == 0 {
		p.hdr = "h=1;k=a,b"
	}
	if rng.Intn(2) == 0 {
		p.trl = "t=9"
	}
	switch rng.Intn(12) {
	case 0:
		p.cancel = true
	case 1:
		p.precanc = true
	case 2:
		// (only with flow control: in revision zero a consumer that stops reading stalls the
		// whole tunnel by design)
		if fc && (p.shape == "BD" || p.shape == "SS") {
			p.noread = true
			p.hSends = []int{70000, 70000}
		}
	}
	return p
}

func peerIcpt(ctx context.Context) string {
	pa := "none"
	if p, ok := peer.FromContext(ctx); ok && p.Addr != nil {
		pa = p.Addr.String()
	}
	ic, _ := ctx.Value(interceptorKey{}).(string)
	return fmt.Sprintf("peer=%s icpt=%s", encStr(pa), encStr(ic))
}

type stressCfg struct {
	name    string
	cfg     Config
	cap     int
	callers int
	perC    int
	yield   bool
}

func runStress(t *testing.T, sc stressCfg, seed int64, bw *bufio.Writer, limit time.Duration) {
	fmt.Fprintf(bw, "S %s %s\n", sc.name, sc.cfg.String())
	fmt.Fprintf(bw, "A 0 stress cap=%d callers=%d per=%d yield=%v\n", sc.cap, sc.callers, sc.perC, sc.yield)
	w := NewWorld(sc.cfg)
	w.auto = true
	w.pipeCap = sc.cap
	w.autoPlans = map[int]*autoPlan{}
	var out sync.Mutex
	flush := func() {
		out.Lock()
		for _, e := range w.drain() {
			fmt.Fprintf(bw, "E 0 %s\n", e)
		}
		out.Unlock()
	}
	if sc.yield {
		var ctr atomic.Uint64
		grpctunnel.VerifSetYieldHook(func(tag string) {
			n := ctr.Add(1)
			switch (n * 2654435761) % 7 {
			case 0:
				runtime.Gosched()
			case 1:
				time.Sleep(time.Duration(n%50) * time.Microsecond)
			}
		})
		defer grpctunnel.VerifSetYieldHook(nil)
	}
	status := "ok"
	done := make(chan struct{})
	go func() {
		defer close(done)
		defer func() {
			if p := recover(); p != nil {
				w.logf("PANIC stress %v", p)
			}
		}()
		w.openTunnelFree("who=stress", "p0")
		cc := w.waitChannel(0, 5*time.Second)
		if cc == nil {
			w.logf("PANIC stress tunnel did not come up")
			return
		}
		if sc.cfg.Nested {
			// a forward tunnel opened over the outer tunnel: its carrier is an RPC of the outer one
			inner, err := grpctunnel.NewChannel(tunnelpb.NewTunnelServiceClient(cc)).Start(context.Background())
			if err != nil {
				w.logf("PANIC stress inner tunnel did not start: %v", err)
				return
			}
			defer inner.Close()
			cc = inner
			// an RPC whose metadata cannot be encoded fails alone: the carrier of a nested tunnel
			// is a stream of the outer tunnel, whose SendMsg reports the encode error and lives
			// on - so nothing may end the inner tunnel (C03). Checked once the workload is over.
			defer func() {
				bctx := metadata.AppendToOutgoingContext(context.Background(), "bad", "\xff\xfe")
				bctx, bcancel := context.WithTimeout(bctx, 5*time.Second)
				_, berr := inner.NewStream(bctx, shapeDesc("BD"), "/v.S/BD0")
				bcancel()
				time.Sleep(20 * time.Millisecond)
				octx, ocancel := context.WithTimeout(context.Background(), 5*time.Second)
				w.acquireR(MaxRPC - 1)
				w.mu.Lock()
				w.autoPlans[MaxRPC-1] = &autoPlan{shape: "U", cSends: []int{10}, respSz: 10}
				w.mu.Unlock()
				oerr := inner.Invoke(octx, fmt.Sprintf("/v.S/U%d", MaxRPC-1), &Msg{Value: payloadFor(MaxRPC-1, 'c', 0, 10)}, staleMsg())
				ocancel()
				w.releaseR(MaxRPC - 1)
				select {
				case <-inner.Done():
					w.logf("harnessfail code=302 a=1 b=0")
				default:
					if berr == nil || oerr != nil {
						w.logf("harnessfail code=302 a=%d b=%d", map[bool]int{true: 2, false: 0}[berr == nil], map[bool]int{true: 3, false: 0}[oerr != nil])
					}
				}
			}()
		}
		var wg sync.WaitGroup
		for c := 0; c < sc.callers; c++ {
			c := c
			wg.Add(1)
			go func() {
				defer wg.Done()
				rng := rand.New(rand.NewSource(seed*1000 + int64(c)))
				for i := 0; i < sc.perC; i++ {
					r := c*sc.perC + i // every RPC of the run has its own method, so its own rpc number
					// one RPC per method index at a time: wait until the previous user is done
					w.acquireR(r)
					p := genAutoPlan(rng, !sc.cfg.CDisable && !sc.cfg.SDisable)
					w.mu.Lock()
					w.autoPlans[r] = p
					w.mu.Unlock()
					w.autoCall(r, cc, p, rng)
					time.Sleep(time.Millisecond) // let the handler of this r finish logging
					w.releaseR(r)
				}
			}()
		}
		wg.Wait()
	}()
	select {
	case <-done:
	case <-time.After(limit):
		buf := make([]byte, 1<<18)
		n := runtime.Stack(buf, true)
		stacks := strings.ReplaceAll(string(buf[:n]), "\n", " | ")
		if len(stacks) > 8000 {
			stacks = stacks[:8000]
		}
		status = "hang " + stacks
	}
	flush()
	if !strings.HasPrefix(status, "hang") {
		// end the tunnel and check that nothing of the library stays behind
		for _, ts := range w.tunnels {
			ts.cancel()
			if ts.link != nil {
				ts.link.kill(io.ErrClosedPipe)
			}
		}
		deadline := time.Now().Add(3 * time.Second)
		for time.Now().Before(deadline) {
			if len(censusAll()) == 0 {
				break
			}
			time.Sleep(20 * time.Millisecond)
		}
		fmt.Fprintf(bw, "A 1 teardown\n")
		fmt.Fprintf(bw, "E 1 probe stabs= goroutines=%s\n", encCensus(censusAll()))
	}
	fmt.Fprintf(bw, "X %s %s\n", sc.name, status)
	bw.Flush()
}

// TestStress: SIM_OUT, SIM_SEED, SIM_COUNT (rounds), SIM_STRESS (family)
func TestStress(t *testing.T) {
	out := os.Getenv("SIM_OUT")
	fam := os.Getenv("SIM_STRESS")
	if out == "" || fam == "" {
		t.Skip("SIM_OUT / SIM_STRESS not set")
	}
	seed, _ := strconv.ParseInt(os.Getenv("SIM_SEED"), 10, 64)
	count, _ := strconv.Atoi(os.Getenv("SIM_COUNT"))
	f, err := os.Create(out)
	if err != nil {
		t.Fatal(err)
	}
	defer f.Close()
	bw := bufio.NewWriterSize(f, 1<<20)
	defer bw.Flush()
	cfgs := []Config{{Mode: "fwd", Free: true}, {Mode: "rev", Free: true}, {Mode: "fwd", Free: true, CDisable: true}, {Mode: "rev", Free: true, SDisable: true}}
	for i := 0; i < count; i++ {
		switch fam {
		case "mix":
			c := cfgs[i%len(cfgs)]
			capacity := []int{0, 1, 4, 64}[(i/4)%4]
			if c.CDisable || c.SDisable {
				capacity = 0 // revision zero has head-of-line blocking by design: no back-pressure on top of it
			}
			runStress(t, stressCfg{name: fmt.Sprintf("stress-mix-%d-%d", seed, i), cfg: c, cap: capacity, callers: 8, perC: 12, yield: i%2 == 0}, seed+int64(i), bw, 25*time.Second)
		case "bounded":
			c := cfgs[i%2] // flow control only: no stalled stream may hold up the tunnel
			runStress(t, stressCfg{name: fmt.Sprintf("stress-bounded-%d-%d", seed, i), cfg: c, cap: 1 + i%3, callers: 12, perC: 8, yield: false}, seed+int64(i), bw, 25*time.Second)
		case "nested":
			c := cfgs[i%2]
			c.Nested = true
			runStress(t, stressCfg{name: fmt.Sprintf("stress-nested-%d-%d", seed, i), cfg: c, cap: []int{0, 2, 16}[i%3], callers: 6, perC: 8, yield: i%2 == 1}, seed+int64(i), bw, 40*time.Second)
		case "registry":
			runRegistryStress(t, fmt.Sprintf("stress-registry-%d-%d", seed, i), seed+int64(i), bw)
		case "sender":
			runSenderStress(fmt.Sprintf("stress-sender-%d-%d", seed, i), seed+int64(i), 3*time.Second, bw)
		case "closerace":
			runCloseRace(fmt.Sprintf("stress-closerace-%d-%d", seed, i), seed+int64(i), 44, bw)
		case "ctor":
			runCtorStress(fmt.Sprintf("stress-ctor-%d-%d", seed, i), seed+int64(i), 400, bw)
		}
	}
}

// registry stress: reverse tunnels with the same fresh affinity key registering at the same
// moment, queries racing with tunnels going away, then n RPCs through the keyed channel over a
// stable set of n tunnels must reach each tunnel exactly once.
func runRegistryStress(t *testing.T, name string, seed int64, bw *bufio.Writer) {
	cfg := Config{Mode: "rev", Free: true, Keys: true}
	fmt.Fprintf(bw, "S %s %s\n", name, cfg.String())
	fmt.Fprintf(bw, "A 0 stress registry\n")
	w := NewWorld(cfg)
	w.auto = true
	w.autoPlans = map[int]*autoPlan{}
	rng := rand.New(rand.NewSource(seed))
	status := "ok"
	done := make(chan struct{})
	// registrations of one round line up at the hook just before the per-key lookup, so that
	// the first lookups of a fresh key really happen at the same moment (every other round;
	// the other rounds run unaligned)
	var arrived, target atomic.Int32
	grpctunnel.VerifSetYieldHook(func(tag string) {
		if tag != "handler.registering" || target.Load() == 0 {
			return
		}
		arrived.Add(1)
		until := time.Now().Add(2 * time.Millisecond)
		for arrived.Load() < target.Load() && time.Now().Before(until) {
			runtime.Gosched()
		}
	})
	defer grpctunnel.VerifSetYieldHook(nil)
	go func() {
		defer close(done)
		defer func() {
			if p := recover(); p != nil {
				w.logf("PANIC stress %v", p)
			}
		}()
		for round := 0; round < 8; round++ {
			key := fmt.Sprintf("k%d", round)
			n := 2 + rng.Intn(3)
			arrived.Store(0)
			if round%2 == 0 {
				target.Store(int32(n))
			} else {
				target.Store(0)
			}
			base := len(w.tunnels)
			var wg sync.WaitGroup
			start := make(chan struct{})
			for i := 0; i < n; i++ {
				wg.Add(1)
				go func() {
					defer wg.Done()
					<-start
					w.openTunnelFree("key="+key, "p")
				}()
			}
			// queries racing with the registrations
			stopQ := make(chan struct{})
			var qwg sync.WaitGroup
			for q := 0; q < 2; q++ {
				qwg.Add(1)
				go func() {
					defer qwg.Done()
					for {
						select {
						case <-stopQ:
							return
						default:
						}
						all := w.handler.AllReverseTunnels()
						seen := map[grpctunnel.TunnelChannel]bool{}
						for _, ch := range all {
							if seen[ch] {
								w.logf("harnessfail code=1208 a=%d b=0", len(all))
							}
							seen[ch] = true
						}
						_ = w.handler.KeyAsChannel(key).Ready()
						runtime.Gosched()
					}
				}()
			}
			close(start)
			wg.Wait()
			for i := 0; i < n; i++ {
				if w.waitChannel(base+i, 5*time.Second) == nil {
					w.logf("PANIC stress tunnel %d did not come up", base+i)
					close(stopQ)
					return
				}
			}
			// a stable set of n tunnels with this key: n consecutive RPCs use each exactly once
			used := map[string]int{}
			kc := w.handler.KeyAsChannel(key)
			for i := 0; i < n; i++ {
				r := i % MaxRPC
				w.acquireR(r)
				w.mu.Lock()
				w.autoPlans[r] = &autoPlan{shape: "U", cSends: []int{10}, respSz: 10}
				w.mu.Unlock()
				var tc grpctunnel.TunnelChannel
				resp := staleMsg()
				err := kc.Invoke(context.Background(), fmt.Sprintf("/v.S/U%d", r), &Msg{Value: payloadFor(r, 'c', 0, 10)}, resp, grpctunnel.WithTunnelChannel(&tc))
				if err != nil {
					w.logf("harnessfail code=1202 a=%d b=%d", round, i)
				} else {
					used[fmt.Sprint(w.tunnelOfChannel(tc))]++
				}
				w.releaseR(r)
			}
			if len(used) != n {
				w.logf("harnessfail code=1207 a=%d b=%d", n, len(used))
			}
			// the key's last tunnels go away (while the queries go on) while waiters keep asking for it, then one more tunnel
			// with the same key comes up: every waiter must be let through (a waiter left on a set that
			// is no longer the key's set would wait for ever although Ready() is true)
			var waiters sync.WaitGroup
			stopW := make(chan struct{})
			var upAt atomic.Int64 // when the replacement tunnel was up (0: not yet)
			var late atomic.Int32 // waiters found waiting long after that (one alone may just not have been scheduled)
			for q := 0; q < 4; q++ {
				waiters.Add(1)
				go func() {
					defer waiters.Done()
					for {
						select {
						case <-stopW:
							return
						default:
						}
						wctx, wcancel := context.WithTimeout(context.Background(), 400*time.Millisecond)
						err := kc.WaitForReady(wctx)
						wcancel()
						if up := upAt.Load(); err != nil && up != 0 && time.Now().UnixNano()-up > int64(300*time.Millisecond) {
							// waited on although a tunnel with the key had been registered for 300 ms
							late.Add(1)
							return
						}
						runtime.Gosched()
					}
				}()
			}
			// (the waiters are running: now the last tunnels of the key go away ...)
			for i := 0; i < n; i++ {
				w.mu.Lock()
				ts := w.tunnels[base+i]
				w.mu.Unlock()
				if i%2 == 0 {
					ts.cancel()
				} else if ts.ch != nil {
					ts.ch.Close()
				}
			}
			// (... and one with the same key comes up)
			nb := len(w.tunnels)
			w.openTunnelFree("key="+key, "p")
			if w.waitChannel(nb, 5*time.Second) != nil {
				upAt.Store(time.Now().UnixNano())
				time.Sleep(450 * time.Millisecond)
			}
			close(stopW)
			waiters.Wait()
			if late.Load() >= 2 {
				w.logf("harnessfail code=1209 a=%d b=%d", round, late.Load())
			}
			w.mu.Lock()
			if nb < len(w.tunnels) {
				w.tunnels[nb].cancel()
			}
			w.mu.Unlock()
			time.Sleep(5 * time.Millisecond)
			close(stopQ)
			qwg.Wait()
		}
	}()
	select {
	case <-done:
	case <-time.After(40 * time.Second):
		buf := make([]byte, 1<<18)
		n := runtime.Stack(buf, true)
		stacks := strings.ReplaceAll(string(buf[:n]), "\n", " | ")
		if len(stacks) > 8000 {
			stacks = stacks[:8000]
		}
		status = "hang " + stacks
	}
	for _, e := range w.drain() {
		if strings.HasPrefix(e, "harnessfail") || strings.HasPrefix(e, "PANIC") {
			fmt.Fprintf(bw, "E 0 %s\n", e)
		}
	}
	for _, ts := range w.tunnels {
		ts.cancel()
		if ts.link != nil {
			ts.link.kill(io.ErrClosedPipe)
		}
	}
	fmt.Fprintf(bw, "X %s %s\n", name, status)
	bw.Flush()
}
