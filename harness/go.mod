module verifharness

go 1.26.8

require (
	github.com/jhump/grpctunnel v0.0.0
	github.com/fullstorydev/grpchan v1.1.1
	google.golang.org/genproto/googleapis/rpc v0.0.0-20250908214217-97024824d090
	google.golang.org/grpc v1.75.1
	google.golang.org/protobuf v1.36.9
)

require (
	golang.org/x/net v0.44.0 // indirect
	golang.org/x/sys v0.36.0 // indirect
	golang.org/x/text v0.29.0 // indirect
)

replace github.com/jhump/grpctunnel => /repo
