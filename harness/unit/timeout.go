//go:build verif

package main

import (
	"encoding/hex"
	"fmt"
	"math"
	"math/rand"
	"strconv"
	"strings"

	"github.com/jhump/grpctunnel"
	"google.golang.org/grpc/metadata"
)

// genTimeout writes M1 cases for timeoutFromHeaders:
//
//	timeout \t <values> \t <result>
//
// values: comma-separated "x<hex>" (one per header value, in order), or "-" for no header.
// result: "none" or the duration in nanoseconds.
func genTimeout(rng *rand.Rand, n int, out *caseWriter) {
	units := []byte("HMSmun")
	unitNs := map[byte]uint64{'H': 3600e9, 'M': 60e9, 'S': 1e9, 'm': 1e6, 'u': 1e3, 'n': 1}
	emit := func(class string, vals ...string) {
		md := metadata.MD{}
		if len(vals) > 0 {
			md["grpc-timeout"] = vals
		}
		d, ok := grpctunnel.VerifTimeoutFromHeaders(md)
		res := "none"
		if ok {
			res = strconv.FormatInt(int64(d), 10)
		}
		var enc []string
		for _, v := range vals {
			enc = append(enc, "x"+hex.EncodeToString([]byte(v)))
		}
		in := "-"
		if len(vals) > 0 {
			in = strings.Join(enc, ",")
		}
		out.write(class, fmt.Sprintf("timeout\t%s\t%s", in, res))
	}
	// --- structured, exhaustive part (independent of n) ---
	emit("absent")
	emit("empty", "")
	for _, u := range units {
		emit("unit-only", string(u))
		// every digit-string length 1..12 with characteristic digits
		for l := 1; l <= 12; l++ {
			for _, d := range []byte("0159") {
				emit("len-sweep", strings.Repeat(string(d), l)+string(u))
			}
			emit("len-sweep", "1"+strings.Repeat("0", l-1)+string(u))
			emit("leading-zero", strings.Repeat("0", l-1)+"7"+string(u))
		}
		// boundaries around int64 overflow for this unit
		lim := uint64(math.MaxInt64) / unitNs[u]
		for _, delta := range []int64{-2, -1, 0, 1, 2} {
			v := uint64(int64(lim) + delta)
			emit("overflow-boundary", strconv.FormatUint(v, 10)+string(u))
		}
		for _, v := range []uint64{99999999, 100000000, 2562047, 2562048, 153722867, 153722868, 9223372036, 9223372037} {
			emit("overflow-boundary", strconv.FormatUint(v, 10)+string(u))
		}
		for _, s := range []string{"-5", "+5", " 5", "5 ", "-0", "+0", "5.0", "5e3", "0x10", "1_000", "٣", "５", "\x005", "5\x00"} {
			emit("malformed", s+string(u))
		}
	}
	for _, s := range []string{"5", "55", "5s", "5h", "5U", "5N", "5 S", "S5", "5SS", "5S ", "5\n", "5µ", "5é", "HH", "--S", "++", "18446744073709551616n", "9223372036854775808n", "9223372036854775807n"} {
		emit("bad-unit-or-shape", s)
	}
	// repeated headers: last wins
	emit("repeated", "5S", "7M")
	emit("repeated", "7M", "bogus")
	emit("repeated", "bogus", "7M")
	emit("repeated", "", "1n")
	emit("repeated", "1n", "")
	emit("repeated", "99999999H", "1H", "2S")
	// --- random part ---
	alphabet := []byte("0123456789HMSmun+- _.xe\x00\xff")
	for i := 0; i < n; i++ {
		switch rng.Intn(4) {
		case 0: // well-formed
			l := 1 + rng.Intn(8)
			var sb strings.Builder
			for j := 0; j < l; j++ {
				sb.WriteByte(byte('0' + rng.Intn(10)))
			}
			sb.WriteByte(units[rng.Intn(len(units))])
			emit("random-wellformed", sb.String())
		case 1: // digits of any length + unit
			l := rng.Intn(22)
			var sb strings.Builder
			for j := 0; j < l; j++ {
				sb.WriteByte(byte('0' + rng.Intn(10)))
			}
			sb.WriteByte(units[rng.Intn(len(units))])
			emit("random-longdigits", sb.String())
		case 2: // noise over the alphabet
			l := rng.Intn(12)
			b := make([]byte, l)
			for j := range b {
				b[j] = alphabet[rng.Intn(len(alphabet))]
			}
			emit("random-noise", string(b))
		default: // mutate a well-formed value at one position
			l := 1 + rng.Intn(8)
			b := make([]byte, l+1)
			for j := 0; j < l; j++ {
				b[j] = byte('0' + rng.Intn(10))
			}
			b[l] = units[rng.Intn(len(units))]
			b[rng.Intn(len(b))] = byte(rng.Intn(256))
			vals := []string{string(b)}
			if rng.Intn(3) == 0 {
				vals = append([]string{"3S"}, vals...)
			}
			emit("random-mutated", vals...)
		}
	}
}
