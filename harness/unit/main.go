//go:build verif

// unit: M1 driver. Runs generated cases against the real internals of
// github.com/jhump/grpctunnel (exported under the verif build tag) and writes
// one line per case: the input and what the implementation did. The extracted
// Coq model is run on the same file by validator/vmodel.
//
//	unit <component> <seed> <count> <outfile>
package main

import (
	"bufio"
	"fmt"
	"math/rand"
	"os"
	"sort"
	"strconv"
)

type caseWriter struct {
	w       *bufio.Writer
	classes map[string]int
	n       int
}

func (c *caseWriter) write(class, line string) {
	c.classes[class]++
	c.n++
	c.w.WriteString(line)
	c.w.WriteByte('\n')
}

var components = map[string]func(*rand.Rand, int, *caseWriter){
	"timeout": genTimeout,
}

func main() {
	if len(os.Args) != 5 {
		fmt.Fprintln(os.Stderr, "usage: unit <component> <seed> <count> <outfile>")
		os.Exit(2)
	}
	gen, ok := components[os.Args[1]]
	if !ok {
		fmt.Fprintln(os.Stderr, "unknown component", os.Args[1])
		os.Exit(2)
	}
	seed, _ := strconv.ParseInt(os.Args[2], 10, 64)
	count, _ := strconv.Atoi(os.Args[3])
	f, err := os.Create(os.Args[4])
	if err != nil {
		fmt.Fprintln(os.Stderr, err)
		os.Exit(2)
	}
	cw := &caseWriter{w: bufio.NewWriter(f), classes: map[string]int{}}
	gen(rand.New(rand.NewSource(seed)), count, cw)
	cw.w.Flush()
	f.Close()
	// input distribution on stdout (goes into the evidence)
	var ks []string
	for k := range cw.classes {
		ks = append(ks, k)
	}
	sort.Strings(ks)
	fmt.Printf("cases %d\n", cw.n)
	for _, k := range ks {
		fmt.Printf("class %s %d\n", k, cw.classes[k])
	}
}
