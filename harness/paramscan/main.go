// paramscan: translator T1. Reads the Go sources of /repo (go/ast only, no type
// checking) and regenerates coq/gen/Params.v: the constants and small tables the
// Coq theorems mention. It also prints a hash of the normalised AST of each
// function the model transliterates (anchor drift; informational).
//
// A datum that can no longer be found is emitted as an obviously wrong value
// (and listed in a comment) so that the corresponding Params lemma fails; the
// check driver then searches for a concrete failing input.
package main

import (
	"bytes"
	"crypto/sha256"
	"fmt"
	"go/ast"
	"go/parser"
	"go/printer"
	"go/token"
	"os"
	"path/filepath"
	"sort"
	"strconv"
	"strings"
	"time"
)

var fset = token.NewFileSet()

type pkgInfo struct {
	files map[string]*ast.File
	funcs map[string]*ast.FuncDecl // "recv.name" or "name"
	cons  map[string]ast.Expr
}

func load(dir string) *pkgInfo {
	p := &pkgInfo{files: map[string]*ast.File{}, funcs: map[string]*ast.FuncDecl{}, cons: map[string]ast.Expr{}}
	ents, err := os.ReadDir(dir)
	if err != nil {
		fmt.Fprintln(os.Stderr, err)
		os.Exit(2)
	}
	for _, e := range ents {
		n := e.Name()
		if !strings.HasSuffix(n, ".go") || strings.HasSuffix(n, "_test.go") || strings.HasPrefix(n, "verif_") {
			continue
		}
		f, err := parser.ParseFile(fset, filepath.Join(dir, n), nil, 0)
		if err != nil {
			fmt.Fprintln(os.Stderr, err)
			os.Exit(2)
		}
		p.files[n] = f
		for _, d := range f.Decls {
			switch d := d.(type) {
			case *ast.FuncDecl:
				name := d.Name.Name
				if d.Recv != nil && len(d.Recv.List) == 1 {
					name = recvName(d.Recv.List[0].Type) + "." + name
				}
				p.funcs[name] = d
			case *ast.GenDecl:
				if d.Tok == token.CONST {
					for _, s := range d.Specs {
						vs := s.(*ast.ValueSpec)
						for i, nm := range vs.Names {
							if i < len(vs.Values) {
								p.cons[nm.Name] = vs.Values[i]
							}
						}
					}
				}
			}
		}
	}
	return p
}

func recvName(e ast.Expr) string {
	switch e := e.(type) {
	case *ast.StarExpr:
		return recvName(e.X)
	case *ast.Ident:
		return e.Name
	case *ast.IndexExpr:
		return recvName(e.X)
	case *ast.IndexListExpr:
		return recvName(e.X)
	}
	return "?"
}

func intLit(e ast.Expr) (int64, bool) {
	switch e := e.(type) {
	case *ast.BasicLit:
		if e.Kind == token.INT {
			v, err := strconv.ParseInt(e.Value, 0, 64)
			return v, err == nil
		}
	case *ast.UnaryExpr:
		if e.Op == token.SUB {
			v, ok := intLit(e.X)
			return -v, ok
		}
	case *ast.ParenExpr:
		return intLit(e.X)
	}
	return 0, false
}

func strLit(e ast.Expr) (string, bool) {
	if b, ok := e.(*ast.BasicLit); ok && b.Kind == token.STRING {
		s, err := strconv.Unquote(b.Value)
		return s, err == nil
	}
	return "", false
}

var missing []string

func constInt(p *pkgInfo, name string) int64 {
	if e, ok := p.cons[name]; ok {
		if v, ok := intLit(e); ok {
			return v
		}
	}
	missing = append(missing, name)
	return 0
}

func constStr(p *pkgInfo, name string) string {
	if e, ok := p.cons[name]; ok {
		if v, ok := strLit(e); ok {
			return v
		}
	}
	missing = append(missing, name)
	return ""
}

var timeUnits = map[string]time.Duration{
	"Hour": time.Hour, "Minute": time.Minute, "Second": time.Second,
	"Millisecond": time.Millisecond, "Microsecond": time.Microsecond, "Nanosecond": time.Nanosecond,
}

// unit table of timeoutFromHeaders: for each `case 'X':` clause of the switch,
// the time.<Unit> selector mentioned in its body.
func timeoutUnits(p *pkgInfo) [][2]int64 {
	fn := p.funcs["timeoutFromHeaders"]
	var out [][2]int64
	if fn == nil {
		missing = append(missing, "timeoutFromHeaders")
		return out
	}
	ast.Inspect(fn, func(n ast.Node) bool {
		cc, ok := n.(*ast.CaseClause)
		if !ok {
			return true
		}
		for _, c := range cc.List {
			lit, ok := c.(*ast.BasicLit)
			if !ok || lit.Kind != token.CHAR {
				continue
			}
			r, _, _, err := strconv.UnquoteChar(lit.Value[1:len(lit.Value)-1], '\'')
			if err != nil {
				continue
			}
			var unit time.Duration
			for _, st := range cc.Body {
				ast.Inspect(st, func(m ast.Node) bool {
					if se, ok := m.(*ast.SelectorExpr); ok {
						if x, ok := se.X.(*ast.Ident); ok && x.Name == "time" {
							if d, ok := timeUnits[se.Sel.Name]; ok {
								unit = d
							}
						}
					}
					return true
				})
			}
			if unit != 0 {
				out = append(out, [2]int64{int64(r), int64(unit)})
			}
		}
		return true
	})
	if len(out) == 0 {
		missing = append(missing, "timeoutFromHeaders.units")
	}
	return out
}

// supportedRevisions: the revision list returned when flow control is disabled
// and the default list.
func revisions(p *pkgInfo) (disabled, normal []int64) {
	fn := p.funcs["tunnelOpts.supportedRevisions"]
	if fn == nil {
		missing = append(missing, "supportedRevisions")
		return
	}
	revOf := func(e ast.Expr) (int64, bool) {
		if se, ok := e.(*ast.SelectorExpr); ok {
			switch se.Sel.Name {
			case "ProtocolRevision_REVISION_ZERO":
				return 0, true
			case "ProtocolRevision_REVISION_ONE":
				return 1, true
			}
		}
		return intLit(e)
	}
	listOf := func(r *ast.ReturnStmt) []int64 {
		var l []int64
		if len(r.Results) != 1 {
			return nil
		}
		cl, ok := r.Results[0].(*ast.CompositeLit)
		if !ok {
			return nil
		}
		for _, el := range cl.Elts {
			if v, ok := revOf(el); ok {
				l = append(l, v)
			} else {
				l = append(l, 99)
			}
		}
		return l
	}
	var inIf, top []*ast.ReturnStmt
	for _, st := range fn.Body.List {
		switch st := st.(type) {
		case *ast.IfStmt:
			ast.Inspect(st.Body, func(n ast.Node) bool {
				if r, ok := n.(*ast.ReturnStmt); ok {
					inIf = append(inIf, r)
				}
				return true
			})
		case *ast.ReturnStmt:
			top = append(top, st)
		}
	}
	if len(inIf) == 1 && len(top) == 1 {
		return listOf(inIf[0]), listOf(top[0])
	}
	missing = append(missing, "supportedRevisions.shape")
	return
}

// initial lastSeen in serveTunnel's composite literal; settings stream id.
func keyedInt(fnName, key string, p *pkgInfo) int64 {
	fn := p.funcs[fnName]
	found := false
	var v int64
	if fn != nil {
		ast.Inspect(fn, func(n ast.Node) bool {
			kv, ok := n.(*ast.KeyValueExpr)
			if !ok {
				return true
			}
			if id, ok := kv.Key.(*ast.Ident); ok && id.Name == key {
				if x, ok := intLit(kv.Value); ok && !found {
					v, found = x, true
				}
			}
			return true
		})
	}
	if !found {
		missing = append(missing, fnName+"."+key)
		return 424242
	}
	return v
}

// status codes of the stream-level rejections in createStream, in source order
func rejectionCodes(p *pkgInfo) []string {
	fn := p.funcs["tunnelServer.createStream"]
	var out []string
	if fn == nil {
		missing = append(missing, "createStream")
		return out
	}
	ast.Inspect(fn, func(n ast.Node) bool {
		r, ok := n.(*ast.ReturnStmt)
		if !ok || len(r.Results) != 2 {
			return true
		}
		if id, ok := r.Results[0].(*ast.Ident); !ok || id.Name != "true" {
			return true
		}
		ast.Inspect(r.Results[1], func(m ast.Node) bool {
			if se, ok := m.(*ast.SelectorExpr); ok {
				if x, ok := se.X.(*ast.Ident); ok && x.Name == "codes" {
					out = append(out, se.Sel.Name)
				}
			}
			return true
		})
		return true
	})
	return out
}

var codeNum = map[string]int{"OK": 0, "Canceled": 1, "Unknown": 2, "InvalidArgument": 3, "DeadlineExceeded": 4,
	"NotFound": 5, "AlreadyExists": 6, "PermissionDenied": 7, "ResourceExhausted": 8, "FailedPrecondition": 9,
	"Aborted": 10, "OutOfRange": 11, "Unimplemented": 12, "Internal": 13, "Unavailable": 14, "DataLoss": 15, "Unauthenticated": 16}

// skeleton: the synchronisation skeleton of a method in source order - every call, channel
// operation, defer and go statement whose operand is reached through the method's receiver
// (s.currentWindow.Load, st.ch.removeStream, close(st.doneSignal), <-s.ctx.Done(), ...).
// The step-level Coq models (SenderAtomic, CliFinish, Waits, Tables) assume these orders.
func exprPath(e ast.Expr) string {
	switch x := e.(type) {
	case *ast.Ident:
		return x.Name
	case *ast.SelectorExpr:
		if b := exprPath(x.X); b != "" {
			return b + "." + x.Sel.Name
		}
	case *ast.CallExpr:
		if b := exprPath(x.Fun); b != "" {
			return b + "()"
		}
	case *ast.ParenExpr:
		return exprPath(x.X)
	case *ast.StarExpr:
		return exprPath(x.X)
	case *ast.IndexExpr:
		return exprPath(x.X)
	}
	return ""
}

// skeletonGuards: also emit "if <condition>" (receiver stripped) / "else" / "fi" for if statements whose
// condition mentions the receiver, "switch" heads likewise, and "return" - used for the methods the
// per-RPC model (Rpc.v) transcribes, where which test precedes which emission is what matters.
var skeletonGuards = false

func guardText(fn *ast.FuncDecl, e ast.Expr) string {
	var sb strings.Builder
	_ = printer.Fprint(&sb, token.NewFileSet(), e)
	recv := fn.Recv.List[0].Names[0].Name + "."
	t := strings.Join(strings.Fields(sb.String()), " ")
	if !strings.Contains(t, recv) {
		return ""
	}
	return strings.ReplaceAll(t, recv, "")
}

func skeleton(fn *ast.FuncDecl) []string {
	if fn == nil || fn.Body == nil || fn.Recv == nil || len(fn.Recv.List) == 0 || len(fn.Recv.List[0].Names) == 0 {
		return nil
	}
	recv := fn.Recv.List[0].Names[0].Name
	rooted := func(p string) (string, bool) {
		if strings.HasPrefix(p, recv+".") {
			return p[len(recv)+1:], true
		}
		return "", false
	}
	var out []string
	var walk func(n ast.Node, inDefaultSelect bool)
	callTok := func(c *ast.CallExpr) string {
		if id, ok := c.Fun.(*ast.Ident); ok && id.Name == "close" && len(c.Args) == 1 {
			if p, ok := rooted(exprPath(c.Args[0])); ok {
				return "close " + p
			}
			return ""
		}
		if p, ok := rooted(exprPath(c.Fun)); ok {
			return "call " + p
		}
		return ""
	}
	walk = func(n ast.Node, inDefaultSelect bool) {
		switch x := n.(type) {
		case nil:
			return
		case *ast.DeferStmt:
			if t := callTok(x.Call); t != "" {
				out = append(out, "defer "+t)
			} else if _, ok := x.Call.Fun.(*ast.FuncLit); ok {
				out = append(out, "defer func")
			}
			return
		case *ast.GoStmt:
			if t := callTok(x.Call); t != "" {
				out = append(out, "go "+t)
			} else {
				out = append(out, "go func")
			}
			return
		case *ast.FuncLit:
			return
		case *ast.IfStmt:
			if skeletonGuards {
				if t := guardText(fn, x.Cond); t != "" {
					if x.Init != nil {
						walk(x.Init, false)
					}
					walk(x.Cond, false)
					out = append(out, "if "+t)
					walk(x.Body, false)
					if x.Else != nil {
						out = append(out, "else")
						walk(x.Else, false)
					}
					out = append(out, "fi")
					return
				}
			}
		case *ast.ReturnStmt:
			if skeletonGuards {
				for _, r := range x.Results {
					walk(r, false)
				}
				out = append(out, "return")
				return
			}
		case *ast.SelectStmt:
			hasDefault := false
			for _, c := range x.Body.List {
				if c.(*ast.CommClause).Comm == nil {
					hasDefault = true
				}
			}
			out = append(out, "select")
			for _, c := range x.Body.List {
				cc := c.(*ast.CommClause)
				walk(cc.Comm, hasDefault)
				for _, st := range cc.Body {
					walk(st, false)
				}
			}
			out = append(out, "end")
			return
		case *ast.AssignStmt:
			for _, r := range x.Rhs {
				walk(r, false)
			}
			for _, l := range x.Lhs {
				if p, ok := rooted(exprPath(l)); ok {
					out = append(out, "set "+p)
				}
			}
			return
		case *ast.IncDecStmt:
			if p, ok := rooted(exprPath(x.X)); ok {
				out = append(out, "set "+p)
			}
			return
		case *ast.SendStmt:
			if p, ok := rooted(exprPath(x.Chan)); ok {
				if inDefaultSelect {
					out = append(out, "trysend "+p)
				} else {
					out = append(out, "send "+p)
				}
			}
			return
		case *ast.UnaryExpr:
			if x.Op == token.ARROW {
				if p, ok := rooted(exprPath(x.X)); ok {
					out = append(out, "recv "+p)
				}
				return
			}
		case *ast.CallExpr:
			for _, a := range x.Args {
				walk(a, false)
			}
			if t := callTok(x); t != "" {
				out = append(out, t)
			}
			// the receiver chain itself may contain calls (s.ctx.Done()) - already in the path
			return
		}
		// generic descent in source order
		ast.Inspect(n, func(m ast.Node) bool {
			if m == n || m == nil {
				return true
			}
			switch m.(type) {
			case *ast.DeferStmt, *ast.GoStmt, *ast.FuncLit, *ast.SelectStmt, *ast.SendStmt, *ast.UnaryExpr, *ast.CallExpr, *ast.AssignStmt, *ast.IncDecStmt:
				walk(m, false)
				return false
			case *ast.IfStmt, *ast.ReturnStmt:
				if skeletonGuards {
					walk(m, false)
					return false
				}
			}
			return true
		})
	}
	walk(fn.Body, false)
	var clean []string
	for _, t := range out {
		if strings.Contains(t, "verif") {
			continue
		}
		clean = append(clean, t)
	}
	return clean
}

// callArg: source text of argument idx (negative: from the end) of the first call to callee in fn
func callArg(p *pkgInfo, fnName, callee string, idx int) string {
	fn := p.funcs[fnName]
	res := ""
	if fn == nil {
		missing = append(missing, fnName)
		return ""
	}
	ast.Inspect(fn.Body, func(n ast.Node) bool {
		c, ok := n.(*ast.CallExpr)
		if !ok || res != "" {
			return true
		}
		name := ""
		switch f := c.Fun.(type) {
		case *ast.Ident:
			name = f.Name
		case *ast.IndexExpr:
			if id, ok := f.X.(*ast.Ident); ok {
				name = id.Name
			}
		}
		if name != callee || len(c.Args) == 0 {
			return true
		}
		i := idx
		if i < 0 {
			i = len(c.Args) + i
		}
		if i >= 0 && i < len(c.Args) {
			var sb strings.Builder
			_ = printer.Fprint(&sb, fset, c.Args[i])
			res = sb.String()
		}
		return true
	})
	if res == "" {
		missing = append(missing, fnName+"->"+callee)
	}
	return res
}

// condText: source text of the n-th if-condition (n >= 0) or, for n < 0, of the first returned
// expression of fn
func condText(p *pkgInfo, fnName string, n int) string {
	fn := p.funcs[fnName]
	if fn == nil {
		missing = append(missing, fnName)
		return ""
	}
	res, k := "", 0
	ast.Inspect(fn.Body, func(m ast.Node) bool {
		if res != "" {
			return false
		}
		switch x := m.(type) {
		case *ast.IfStmt:
			if n >= 0 {
				if k == n {
					var sb strings.Builder
					_ = printer.Fprint(&sb, fset, x.Cond)
					res = sb.String()
				}
				k++
			}
		case *ast.ReturnStmt:
			if n < 0 && len(x.Results) > 0 {
				var sb strings.Builder
				_ = printer.Fprint(&sb, fset, x.Results[0])
				res = sb.String()
			}
		}
		return true
	})
	if res == "" {
		missing = append(missing, fnName+"#cond")
	}
	return res
}

// iotaBlock: the names of the const block whose first name is first, in order
func iotaBlock(p *pkgInfo, first string) []string {
	for _, f := range p.files {
		for _, d := range f.Decls {
			gd, ok := d.(*ast.GenDecl)
			if !ok || gd.Tok != token.CONST || len(gd.Specs) == 0 {
				continue
			}
			if vs := gd.Specs[0].(*ast.ValueSpec); len(vs.Names) > 0 && vs.Names[0].Name == first {
				var out []string
				for _, sp := range gd.Specs {
					for _, nm := range sp.(*ast.ValueSpec).Names {
						out = append(out, nm.Name)
					}
				}
				return out
			}
		}
	}
	missing = append(missing, first)
	return nil
}

func coqStrList(l []string) string {
	var q []string
	for _, x := range l {
		q = append(q, "\""+x+"\"")
	}
	return "[" + strings.Join(q, "; ") + "]"
}

var skeletonFuncs = []string{
	"defaultSender.send", "defaultSender.updateWindow",
	"tunnelClientStream.finishStream", "tunnelServerStream.finishStream", "tunnelServerStream.halfClose",
	"tunnelChannel.newStream", "tunnelChannel.close", "tunnelClientStream.cancelStream",
	"defaultReceiver.accept", "defaultReceiver.dequeue", "defaultReceiver.close", "defaultReceiver.cancel",
	"noFlowControlReceiver.accept", "noFlowControlReceiver.close", "noFlowControlReceiver.cancel",
	"tunnelChannel.allocateStream", "tunnelChannel.removeStream", "tunnelServer.removeStream", "tunnelClientStream.acceptServerFrame",
	"reverseChannels.add", "reverseChannels.remove",
}

// methods transcribed by the per-RPC model (coq/theories/Rpc.v), with their guards
var guardedFuncs = []string{
	"tunnelClientStream.SendMsg", "tunnelClientStream.CloseSend", "tunnelServerStream.SendMsg",
	"tunnelServerStream.setHeader", "tunnelServerStream.sendHeadersLocked", "tunnelServerStream.setTrailer",
	"tunnelServer.getStream", "tunnelChannel.getStream",
}

// stripRecv removes "<receiver>." from a rendered expression of method fnName, so that the
// regenerated text does not depend on how the receiver is called
func stripRecv(p *pkgInfo, fnName, text string) string {
	fn := p.funcs[fnName]
	if fn == nil || fn.Recv == nil || len(fn.Recv.List) == 0 || len(fn.Recv.List[0].Names) == 0 {
		return text
	}
	r := fn.Recv.List[0].Names[0].Name + "."
	var sb strings.Builder
	for i := 0; i < len(text); {
		if strings.HasPrefix(text[i:], r) && (i == 0 || !(text[i-1] == '_' || text[i-1] == '.' || (text[i-1] >= 'a' && text[i-1] <= 'z') || (text[i-1] >= 'A' && text[i-1] <= 'Z') || (text[i-1] >= '0' && text[i-1] <= '9'))) {
			i += len(r)
			continue
		}
		sb.WriteByte(text[i])
		i++
	}
	return sb.String()
}

func coqBytes(s string) string {
	var b []string
	for i := 0; i < len(s); i++ {
		b = append(b, fmt.Sprintf("%d", s[i]))
	}
	return "[" + strings.Join(b, "; ") + "]%N"
}

func coqZList(l []int64) string {
	var b []string
	for _, v := range l {
		if v < 0 {
			b = append(b, fmt.Sprintf("(%d)", v))
		} else {
			b = append(b, fmt.Sprintf("%d", v))
		}
	}
	return "[" + strings.Join(b, "; ") + "]%Z"
}

func astHash(fn *ast.FuncDecl) string {
	var buf bytes.Buffer
	cfg := printer.Config{Mode: printer.RawFormat}
	// strip comments by printing the node alone (comments are attached to the file)
	_ = cfg.Fprint(&buf, token.NewFileSet(), fn)
	h := sha256.Sum256(buf.Bytes())
	return fmt.Sprintf("%x", h[:8])
}

func main() {
	if len(os.Args) < 3 {
		fmt.Fprintln(os.Stderr, "usage: paramscan <repo dir> <out Params.v> [<out hashes>]")
		os.Exit(2)
	}
	p := load(os.Args[1])
	var b strings.Builder
	b.WriteString("(* GENERATED by harness/paramscan from the Go sources of /repo on every run. Do not edit. *)\n")
	b.WriteString("From Coq Require Import List NArith ZArith.\nImport ListNotations.\n\n")
	fmt.Fprintf(&b, "Definition chunk_max : N := %d%%N.\n", constInt(p, "chunkMax"))
	fmt.Fprintf(&b, "Definition init_window : N := %d%%N.\n", constInt(p, "initialWindowSize"))
	fmt.Fprintf(&b, "Definition negotiate_key : list N := %s.\n", coqBytes(constStr(p, "grpctunnelNegotiateKey")))
	fmt.Fprintf(&b, "Definition negotiate_val : list N := %s.\n", coqBytes(constStr(p, "grpctunnelNegotiateVal")))
	dis, nor := revisions(p)
	fmt.Fprintf(&b, "Definition revisions_fc_disabled : list Z := %s.\n", coqZList(dis))
	fmt.Fprintf(&b, "Definition revisions_default : list Z := %s.\n", coqZList(nor))
	fmt.Fprintf(&b, "Definition last_seen0 : Z := (%d)%%Z.\n", keyedInt("serveTunnel", "lastSeen", p))
	fmt.Fprintf(&b, "Definition settings_stream_id : Z := (%d)%%Z.\n", keyedInt("tunnelServer.serve", "StreamId", p))
	units := timeoutUnits(p)
	var us []string
	for _, u := range units {
		us = append(us, fmt.Sprintf("(%d%%N, %d%%Z)", u[0], u[1]))
	}
	fmt.Fprintf(&b, "Definition timeout_unit_table : list (N * Z) := [%s].\n", strings.Join(us, "; "))
	var rc []string
	for _, c := range rejectionCodes(p) {
		n, ok := codeNum[c]
		if !ok {
			n = 99
		}
		rc = append(rc, fmt.Sprintf("%d%%N", n))
	}
	fmt.Fprintf(&b, "(* status codes of createStream's stream-level rejections, in source order *)\n")
	fmt.Fprintf(&b, "Definition create_rejection_codes : list N := [%s].\n", strings.Join(rc, "; "))
	if len(missing) > 0 {
		fmt.Fprintf(&b, "(* NOT FOUND in the source: %s *)\n", strings.Join(missing, ", "))
	}
	b.WriteString("\n(* synchronisation skeletons (calls / channel operations / defer / go through the receiver, in source order) *)\n")
	b.WriteString("From Coq Require Import String.\nLocal Open Scope string_scope.\n")
	for _, fn := range skeletonFuncs {
		name := "skel_" + strings.ReplaceAll(fn, ".", "_")
		fmt.Fprintf(&b, "Definition %s : list string := %s.\n", name, coqStrList(skeleton(p.funcs[fn])))
	}
	b.WriteString("\n(* the reverse-tunnel server's shutdown state machine *)\n")
	fmt.Fprintf(&b, "Definition rs_states : list string := %s.\n", coqStrList(iotaBlock(p, "stateActive")))
	b.WriteString("\n(* the same with guards (if / else / fi / return), for the methods Rpc.v transcribes *)\n")
	skeletonGuards = true
	for _, fn := range guardedFuncs {
		if p.funcs[fn] == nil {
			missing = append(missing, fn)
		}
		name := "gskel_" + strings.ReplaceAll(fn, ".", "_")
		fmt.Fprintf(&b, "Definition %s : list string := %s.\n", name, coqStrList(skeleton(p.funcs[fn])))
	}
	skeletonGuards = false
	fmt.Fprintf(&b, "Definition rs_guards : list (string * string) := [(\"isClosing\", \"%s\"); (\"isClosed\", \"%s\"); (\"addInstance\", \"%s\"); (\"Stop\", \"%s\"); (\"GracefulStop\", \"%s\")].\n",
		stripRecv(p, "ReverseTunnelServer.isClosing", condText(p, "ReverseTunnelServer.isClosing", -1)), stripRecv(p, "ReverseTunnelServer.isClosed", condText(p, "ReverseTunnelServer.isClosed", -1)),
		stripRecv(p, "ReverseTunnelServer.addInstance", condText(p, "ReverseTunnelServer.addInstance", 0)), stripRecv(p, "ReverseTunnelServer.Stop", condText(p, "ReverseTunnelServer.Stop", 0)),
		stripRecv(p, "ReverseTunnelServer.GracefulStop", condText(p, "ReverseTunnelServer.GracefulStop", 0)))
	fmt.Fprintf(&b, "Definition skel_ReverseTunnelServer_Stop : list string := %s.\n", coqStrList(skeleton(p.funcs["ReverseTunnelServer.Stop"])))
	fmt.Fprintf(&b, "Definition skel_ReverseTunnelServer_GracefulStop : list string := %s.\n", coqStrList(skeleton(p.funcs["ReverseTunnelServer.GracefulStop"])))
	b.WriteString("\n(* which expression sizes each flow-control window *)\n")
	fmt.Fprintf(&b, "Definition window_args : list (string * string) := [(\"server.sender\", \"%s\"); (\"server.receiver\", \"%s\"); (\"client.sender\", \"%s\"); (\"client.receiver\", \"%s\")].\n",
		callArg(p, "tunnelServer.createStream", "newSender", 1), callArg(p, "tunnelServer.createStream", "newReceiver", -1),
		stripRecv(p, "tunnelChannel.allocateStream", callArg(p, "tunnelChannel.allocateStream", "newSender", 1)), callArg(p, "tunnelChannel.allocateStream", "newReceiver", -1))
	old, _ := os.ReadFile(os.Args[2])
	if string(old) != b.String() {
		if err := os.WriteFile(os.Args[2], []byte(b.String()), 0o644); err != nil {
			fmt.Fprintln(os.Stderr, err)
			os.Exit(2)
		}
	}
	if len(os.Args) > 3 {
		var names []string
		for n := range p.funcs {
			names = append(names, n)
		}
		sort.Strings(names)
		var hb strings.Builder
		for _, n := range names {
			fmt.Fprintf(&hb, "%s %s\n", astHash(p.funcs[n]), n)
		}
		_ = os.WriteFile(os.Args[3], []byte(hb.String()), 0o644)
	}
	if len(missing) > 0 {
		fmt.Println("paramscan: not found:", strings.Join(missing, ", "))
	}
}
