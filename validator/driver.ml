(* vmodel: runs the extracted Coq model (model.ml) on case files written by the
   Go harness.  Hand-written glue, part of the trusted base: parsing of the
   line format, conversion between OCaml ints/strings and Coq's binary numbers,
   printing.  No property logic lives here: model functions, specifications and
   monitors are all extracted from Coq.

   usage: vmodel <casefile>      prints one line per case:
            <model output> \t <verdicts...>                                   *)
open Model

(* ---------- numbers ---------- *)
let rec pos_of_int (i : int) : positive =
  if i = 1 then XH
  else if i land 1 = 0 then XO (pos_of_int (i lsr 1))
  else XI (pos_of_int (i lsr 1))
let n_of_int (i : int) : n = if i = 0 then N0 else Npos (pos_of_int i)
let z_of_int' (i : int) : z =
  if i = 0 then Z0 else if i > 0 then Zpos (pos_of_int i) else Zneg (pos_of_int (- i))
let rec int_of_pos = function
  | XH -> 1 | XO p -> 2 * int_of_pos p | XI p -> 2 * int_of_pos p + 1
let int_of_n = function N0 -> 0 | Npos p -> int_of_pos p
let int_of_z = function Z0 -> 0 | Zpos p -> int_of_pos p | Zneg p -> - (int_of_pos p)
let rec nat_of_int i = if i <= 0 then O else S (nat_of_int (i - 1))
let rec int_of_nat = function O -> 0 | S k -> 1 + int_of_nat k

(* decimal <-> Coq Decimal.uint (most significant digit first) *)
let uint_of_string (s : string) : uint =
  let r = ref Nil in
  for i = String.length s - 1 downto 0 do
    r := (match s.[i] with
      | '0' -> D0 !r | '1' -> D1 !r | '2' -> D2 !r | '3' -> D3 !r | '4' -> D4 !r
      | '5' -> D5 !r | '6' -> D6 !r | '7' -> D7 !r | '8' -> D8 !r | '9' -> D9 !r
      | _ -> failwith ("bad decimal: " ^ s))
  done; !r
let string_of_uint (u : uint) : string =
  let b = Buffer.create 20 in
  let rec go = function
    | Nil -> ()
    | D0 r -> Buffer.add_char b '0'; go r | D1 r -> Buffer.add_char b '1'; go r
    | D2 r -> Buffer.add_char b '2'; go r | D3 r -> Buffer.add_char b '3'; go r
    | D4 r -> Buffer.add_char b '4'; go r | D5 r -> Buffer.add_char b '5'; go r
    | D6 r -> Buffer.add_char b '6'; go r | D7 r -> Buffer.add_char b '7'; go r
    | D8 r -> Buffer.add_char b '8'; go r | D9 r -> Buffer.add_char b '9'; go r in
  go u; if Buffer.length b = 0 then "0" else Buffer.contents b
let z_of_string (s : string) : z =
  if String.length s > 0 && s.[0] = '-' then
    z_of_int (Neg (uint_of_string (String.sub s 1 (String.length s - 1))))
  else z_of_int (Pos (uint_of_string s))
let string_of_z (v : z) : string =
  match z_to_int v with
  | Pos u -> string_of_uint u
  | Neg u -> "-" ^ string_of_uint u
let n_of_string s = n_of_uint (uint_of_string s)
let string_of_n v = string_of_uint (n_to_uint v)

(* ---------- strings ---------- *)
let bytes_of_hex (h : string) : n list =
  let l = String.length h / 2 in
  List.init l (fun i -> n_of_int (int_of_string ("0x" ^ String.sub h (2 * i) 2)))
let split c s = String.split_on_char c s
let opt_z = function None -> "none" | Some v -> string_of_z v

(* ---------- component handlers: fields -> (model output, verdicts) ---------- *)
let verdict name ok detail = if ok then "ok:" ^ name else "FAIL:" ^ name ^ " " ^ detail

let h_timeout (f : string list) (impl : string) : string * string list =
  match f with
  | [vals] ->
    let vs = if vals = "-" then [] else
        List.map (fun x -> bytes_of_hex (String.sub x 1 (String.length x - 1))) (split ',' vals) in
    let m = opt_z (timeout_from_headers vs) in
    let s = opt_z (spec_from_headers vs) in
    (m, [verdict "C18.spec" (impl = s) ("implementation=" ^ impl ^ " specification=" ^ s)])
  | _ -> failwith "timeout: bad fields"

let handlers : (string * (string list -> string -> string * string list)) list = [
  "timeout", h_timeout;
]

let () =
  let ic = open_in Sys.argv.(1) in
  (try
     while true do
       let line = input_line ic in
       match split '\t' line with
       | kind :: rest ->
         (* the last field is the implementation's output: the model functions never see it,
            only the monitors (extracted predicates over observations) do *)
         let rec but_last = function [] | [_] -> [] | x :: r -> x :: but_last r in
         let h = try List.assoc kind handlers with Not_found -> failwith ("unknown kind " ^ kind) in
         let impl = List.nth rest (List.length rest - 1) in
         let (m, vs) = h (but_last rest) impl in
         print_string m; List.iter (fun v -> print_char '\t'; print_string v) vs; print_newline ()
       | [] -> print_newline ()
     done
   with End_of_file -> ());
  close_in ic
