(* vmodel: runs the extracted Coq model (model.ml) on case files written by the
   Go harness.  Hand-written glue, part of the trusted base: parsing of the
   line format, conversion between OCaml ints/strings and Coq's binary numbers,
   printing.  No property logic lives here: model functions, specifications and
   monitors are all extracted from Coq.

   usage: vmodel <casefile>      prints one line per case:
            <model output> \t <verdicts...>                                   *)
open Model

(* ---------- numbers ---------- *)
let rec pos_of_int (i : int) : positive =
  if i = 1 then XH
  else if i land 1 = 0 then XO (pos_of_int (i lsr 1))
  else XI (pos_of_int (i lsr 1))
let n_of_int (i : int) : n = if i = 0 then N0 else Npos (pos_of_int i)
let z_of_int' (i : int) : z =
  if i = 0 then Z0 else if i > 0 then Zpos (pos_of_int i) else Zneg (pos_of_int (- i))
let rec int_of_pos = function
  | XH -> 1 | XO p -> 2 * int_of_pos p | XI p -> 2 * int_of_pos p + 1
let int_of_n = function N0 -> 0 | Npos p -> int_of_pos p
let int_of_z = function Z0 -> 0 | Zpos p -> int_of_pos p | Zneg p -> - (int_of_pos p)
let rec nat_of_int i = if i <= 0 then O else S (nat_of_int (i - 1))
let rec int_of_nat = function O -> 0 | S k -> 1 + int_of_nat k

(* decimal <-> Coq Decimal.uint (most significant digit first) *)
let uint_of_string (s : string) : uint =
  let r = ref Nil in
  for i = String.length s - 1 downto 0 do
    r := (match s.[i] with
      | '0' -> D0 !r | '1' -> D1 !r | '2' -> D2 !r | '3' -> D3 !r | '4' -> D4 !r
      | '5' -> D5 !r | '6' -> D6 !r | '7' -> D7 !r | '8' -> D8 !r | '9' -> D9 !r
      | _ -> failwith ("bad decimal: " ^ s))
  done; !r
let string_of_uint (u : uint) : string =
  let b = Buffer.create 20 in
  let rec go = function
    | Nil -> ()
    | D0 r -> Buffer.add_char b '0'; go r | D1 r -> Buffer.add_char b '1'; go r
    | D2 r -> Buffer.add_char b '2'; go r | D3 r -> Buffer.add_char b '3'; go r
    | D4 r -> Buffer.add_char b '4'; go r | D5 r -> Buffer.add_char b '5'; go r
    | D6 r -> Buffer.add_char b '6'; go r | D7 r -> Buffer.add_char b '7'; go r
    | D8 r -> Buffer.add_char b '8'; go r | D9 r -> Buffer.add_char b '9'; go r in
  go u; if Buffer.length b = 0 then "0" else Buffer.contents b
let z_of_string (s : string) : z =
  if String.length s > 0 && s.[0] = '-' then
    z_of_int (Neg (uint_of_string (String.sub s 1 (String.length s - 1))))
  else z_of_int (Pos (uint_of_string s))
let string_of_z (v : z) : string =
  match z_to_int v with
  | Pos u -> string_of_uint u
  | Neg u -> "-" ^ string_of_uint u
let n_of_string s = n_of_uint (uint_of_string s)
let string_of_n v = string_of_uint (n_to_uint v)

(* ---------- strings ---------- *)
let bytes_of_hex (h : string) : n list =
  let l = String.length h / 2 in
  List.init l (fun i -> n_of_int (int_of_string ("0x" ^ String.sub h (2 * i) 2)))
let split c s = String.split_on_char c s
let opt_z = function None -> "none" | Some v -> string_of_z v

(* ---------- component handlers: fields -> (model output, verdicts) ---------- *)
let verdict name ok detail = if ok then "ok:" ^ name else "FAIL:" ^ name ^ " " ^ detail

let h_timeout (f : string list) (impl : string) : string * string list =
  match f with
  | [vals] ->
    let vs = if vals = "-" then [] else
        List.map (fun x -> bytes_of_hex (String.sub x 1 (String.length x - 1))) (split ',' vals) in
    let m = opt_z (timeout_from_headers vs) in
    let s = opt_z (spec_from_headers vs) in
    (m, [verdict "C18.spec" (impl = s) ("implementation=" ^ impl ^ " specification=" ^ s)])
  | _ -> failwith "timeout: bad fields"

(* M4: a schedule of the real sender, replayed on the set-valued model of SenderCtl.v *)
let string_of_sobs (o : ((((n * bool) * (n * bool) list) * n) * bool) * n) : string =
  let (((((w, t), out), ph), ad), ul) = o in
  Printf.sprintf "%s,%d,%s,%s,%d,%s" (string_of_n w) (if t then 1 else 0)
    (String.concat ";" (List.map (fun (c, f) -> string_of_n c ^ ":" ^ (if f then "1" else "0")) out))
    (string_of_n ph) (if ad then 1 else 0) (string_of_n ul)

let h_atomic (f : string list) (impl : string) : string * string list =
  match f with
  | [w0; msg; ups; _cancel; sched] ->
    let ups = if ups = "" then [] else List.map n_of_string (split ',' ups) in
    let start = [{ c_sa = sa_init (n_of_string w0) (n_of_string msg); c_ups = ups }] in
    let observed = if impl = "" then [] else split '|' impl in
    let acts = List.init (String.length sched) (fun i -> match sched.[i] with '0' -> CSender | '1' -> CUpdater | _ -> CCancel) in
    let rec go k states acts obs =
      match acts, obs with
      | a :: ar, o :: orest ->
        let next = List.concat_map (fun c -> ctl_step chunk_max c a) states in
        let keep = List.filter (fun c -> string_of_sobs (sobs c) = o) next in
        if keep = [] then
          Printf.sprintf "MISMATCH@%d model={%s}" k (String.concat " / " (List.map (fun c -> string_of_sobs (sobs c)) next))
        else go (k + 1) keep ar orest
      | _, _ -> impl in
    let m = go 0 start acts observed in
    (* the property itself, on what the real sender was observed to do *)
    let parse_obs (o : string) =
      (match split ',' o with
       | [w; t; out; ph; ad; ul] ->
         let outl = if out = "" then [] else List.map (fun x -> match split ':' x with
             | [c; f] -> (n_of_string c, f = "1") | _ -> (N0, false)) (split ';' out) in
         Some (((((n_of_string w, t = "1"), outl), n_of_string ph), ad = "1"), n_of_string ul)
       | _ -> None) in
    let bad = List.filter (fun o -> match parse_obs o with
        | Some po -> not (conserved_obs (n_of_string w0) ups po) | None -> false) observed in
    (m, [verdict "C05.conservation" (bad = []) (String.concat " ; " bad)])
  | _ -> failwith "atomic: bad fields"

let handlers : (string * (string list -> string -> string * string list)) list = [
  "timeout", h_timeout;
  "atomic", h_atomic;
]

(* ================= traces of the simulation harness ================= *)
let url_decode (s : string) : string =
  if s = "~" then "" else begin
    let b = Buffer.create (String.length s) in
    let i = ref 0 in
    let n = String.length s in
    while !i < n do
      (match s.[!i] with
       | '+' -> Buffer.add_char b ' '
       | '%' when !i + 2 < n + 0 && !i + 2 <= n - 1 + 0 || (!i + 2 < n + 1 && !i + 2 <= n - 0 - 0 && !i + 2 < n + 1) ->
         (try Buffer.add_char b (Char.chr (int_of_string ("0x" ^ String.sub s (!i + 1) 2))); i := !i + 2
          with _ -> Buffer.add_char b '%')
       | c -> Buffer.add_char b c);
      incr i
    done; Buffer.contents b end
let bytes_of_string (s : string) : n list = List.init (String.length s) (fun i -> n_of_int (Char.code s.[i]))
let dstr s = bytes_of_string (url_decode s)

let parse_md (s : string) : mdt option =
  if s = "-" || s = "" || s = "absent" then None
  else if s = "{}" then Some []
  else Some (List.map (fun kv ->
      let i = (try String.index kv '=' with Not_found -> String.length kv) in
      if i = String.length kv then (dstr kv, []) else
      let k = String.sub kv 0 i and vs = String.sub kv (i + 1) (String.length kv - i - 1) in
      (dstr k, if vs = "" then [] else List.map dstr (split ',' vs))) (split ';' s))

let parse_res (s : string) : res =
  if s = "ok" || s = "nil" then ROk
  else if s = "EOF" then REof
  else if s = "ctx:canceled" then RCtxCanceled
  else if s = "ctx:deadline" then RCtxDeadline
  else if String.length s > 3 && String.sub s 0 3 = "st:" then
    (match split ':' s with
     | _ :: code :: msg :: det :: _ -> RStatus (n_of_int (int_of_string code), dstr msg, dstr det)
     | _ :: code :: msg :: [] -> RStatus (n_of_int (int_of_string code), dstr msg, [])
     | _ -> RErr (bytes_of_string s))
  else RErr (bytes_of_string s)

let assoc_of (toks : string list) : (string * string) list =
  List.filter_map (fun t -> match String.index_opt t '=' with
      | Some i -> Some (String.sub t 0 i, String.sub t (i + 1) (String.length t - i - 1))
      | None -> None) toks
let get a k = try List.assoc k a with Not_found -> ""
let has a k = List.mem_assoc k a
let geti a k = try int_of_string (get a k) with _ -> 0
let getn a k = n_of_int (max 0 (geti a k))
let getz a k = z_of_string (let v = get a k in if v = "" then "0" else v)
let hexn a k = let v = get a k in if v = "" then N0 else n_of_string (Printf.sprintf "%Lu" (Int64.of_string ("0x" ^ v)))
let parse_dir s = if s = "c2s" then C2S else S2C

(* rpc number encoded in the method name /v.S/<shape><n> *)
let rpc_of_method (m : string) : n option =
  let m = if String.length m > 0 && m.[0] = '/' then String.sub m 1 (String.length m - 1) else m in
  if String.length m > 4 && String.sub m 0 4 = "v.S/" then begin
    let rest = String.sub m 4 (String.length m - 4) in
    let i = ref 0 in
    while !i < String.length rest && (rest.[!i] < '0' || rest.[!i] > '9') do incr i done;
    let pre = String.sub rest 0 !i and num = String.sub rest !i (String.length rest - !i) in
    if List.mem pre ["U"; "CS"; "SS"; "BD"] && num <> "" && String.length num < 4 then
      (try Some (n_of_int (int_of_string num)) with _ -> None) else None
  end else None

let parse_kind (a : (string * string) list) : fkind =
  match get a "kind" with
  | "new" -> let m = url_decode (get a "method") in
    KNew (rpc_of_method m, bytes_of_string m, getz a "rev", getn a "win", parse_md (get a "md"))
  | "msg" -> KMsg (getn a "size", getn a "len")
  | "more" -> KMore (getn a "len")
  | "half" -> KHalf
  | "cancel" -> KCancel
  | "wu" -> KWu (n_of_string (let v = get a "n" in if v = "" then "0" else v))
  | "settings" -> KSettings ((let r = get a "revs" in if r = "" then [] else List.map z_of_string (split ',' r)), getn a "win")
  | "hdrs" -> KHdrs (parse_md (get a "md"))
  | "close" -> KClose (parse_res (get a "status"), parse_md (get a "md"))
  | _ -> KNil

let parse_who (s : string) : who =
  if s = "ctl" then Ctl else
    let num p = n_of_int (int_of_string (String.sub s p (String.length s - p))) in
    try match String.sub s 0 2 with
      | "cw" -> Cw (num 2) | "cr" -> Cr (num 2) | "cx" -> Cx (num 2)
      | "hw" -> Hw (num 2) | "hr" -> Hr (num 2) | "hx" -> Hx (num 2) | _ -> Ctl
    with _ -> Ctl
let parse_op = function
  | "new" -> ONew | "send" -> OSend | "recv" -> ORecv | "closesend" -> OCloseSend | "header" -> OHeader
  | "trailer" -> OTrailer | "cancel" -> OCancel | "sethdr" -> OSetHdr | "sendhdr" -> OSendHdr
  | "settrl" -> OSetTrl | "return" -> OReturn | "ctx" -> OCtx | _ -> OOther
let parse_shape = function "U" -> ShU | "CS" -> ShCS | "SS" -> ShSS | _ -> ShBD

let parse_event (line : string) : ev =
  match split ' ' line with
  | [] -> Other
  | kind :: toks ->
    let a = assoc_of toks in
    (match kind with
     | "emit" -> Emit (parse_dir (get a "dir"), getn a "t", getz a "id", parse_kind a, not (has a "senderr"))
     | "deliver" -> Deliver (parse_dir (get a "dir"), getn a "t",
                             (match get a "what" with "frame" -> n_of_int 1 | "end" -> n_of_int 2 | _ -> N0))
     | "newcall" -> NewCall (getn a "r", getn a "t", parse_shape (get a "shape"), dstr (get a "method"),
                             parse_md (get a "md"), parse_md (get a "credmd"),
                             (if get a "to" = "none" || get a "to" = "" then None else Some (getz a "to")), get a "multi" = "1")
     | "call" -> Call (parse_who (get a "who"), parse_op (get a "op"), getn a "idx", getn a "len", hexn a "dg",
                       parse_md (get a "md"), parse_res (get a "status"))
     | "ret" ->
       let op = parse_op (get a "op") in
       let md, md2, has2 = (match op with
           | ORecv -> parse_md (get a "trl"), parse_md (get a "trlopt"), has a "trlopt"
           | OHeader -> parse_md (get a "md"), parse_md (get a "hdropt"), has a "hdropt"
           | ONew -> parse_md (get a "ctxtmd"), None, has a "tcopt"
           | _ -> parse_md (get a "md"), None, false) in
       let tc = if has a "ctxtc" then getz a "ctxtc" else z_of_int' (-1) in
       let idx = (match op with
           | ONew -> if has a "tcopt" then n_of_int (geti a "tcopt" + 2) else N0
           | OOther -> (match get a "op" with "stop" -> n_of_int 1 | "gracefulstop" -> n_of_int 2 | "chclose" -> n_of_int 3 | _ -> N0)
           | _ -> getn a "idx") in
       Ret (parse_who (get a "who"), op, parse_res (get a "res"), idx, getn a "len", hexn a "dg", md, md2, has2, tc)
     | "hstart" -> HStart (getn a "r", parse_shape (get a "shape"), parse_md (get a "md"),
                           (if get a "deadline" = "none" then None else Some (getz a "deadline")),
                           (if get a "tmd" = "absent" then None else Some (match parse_md (get a "tmd") with Some m -> m | None -> [])),
                           dstr (get a "peer"), dstr (get a "icpt"))
     | "hexit" -> HExit (getn a "r")
     | "startret" -> StartRet (getn a "t", parse_res (get a "err"))
     | "chandone" -> ChanDone (getn a "t", parse_res (get a "err"))
     | "serveret" -> ServeRet (getn a "t", get a "started" = "true", parse_res (get a "err"))
     | "netsrvret" -> NetSrvRet (getn a "t", parse_res (get a "err"))
     | "callback" -> Callback (List.mem "open" toks, getz a "t")
     | "probe" ->
       let full = has a "goroutines" in
       let per = List.filter (fun t -> String.length t > 1 && t.[0] = 't' && String.contains t ':') toks in
       let fields t = assoc_of (split ',' (String.sub t (String.index t ':' + 1) (String.length t - String.index t ':' - 1))) in
       let ctabs = List.map (fun t -> getz (fields t) "ctab") per in
       let pend = List.map (fun t -> (getz (fields t) "pc2s", getz (fields t) "ps2c")) per in
       let stabs = (let v = get a "stabs" in if v = "" then [] else List.map (fun x -> n_of_int (int_of_string x)) (split ',' v)) in
       let g = (let v = get a "goroutines" in if v = "" || v = "none" then 0 else
                  List.fold_left (fun acc item -> match String.rindex_opt item '*' with
                      | Some i -> acc + int_of_string (String.sub item (i + 1) (String.length item - i - 1))
                      | None -> acc) 0 (split ',' v)) in
       Probe (full, ctabs, pend, stabs, n_of_int g)
     | "stim" ->
       let k = (match get a "kind" with
           | "fail" -> StFail | "chclose" -> StChClose | "ctxend" -> StCtxEnd | "shutdown" -> StShutdown
           | "stop" -> StStop | "adv" -> StAdvance | "open" -> StOpen | _ -> StRawEnd) in
       Stim (k, getn a "t", parse_md (get a "md"), dstr (get a "peer"))
     | "route" ->
       let via = get a "via" in
       if String.length via >= 4 && String.sub via 0 4 = "key:" then
         let k = String.sub via 4 (String.length via - 4) in
         Route (getn a "r", true, (if k = "nil" then None else Some (dstr k)))
       else Route (getn a "r", false, None)
     | "readyobs" ->
       let via = get a "via" in
       let keyed, key = (if String.length via >= 4 && String.sub via 0 4 = "key:" then
                           let k = String.sub via 4 (String.length via - 4) in (true, (if k = "nil" then None else Some (dstr k)))
                         else (false, None)) in
       let all = (let v = get a "all" in if v = "" then [] else List.map (fun x -> n_of_int (int_of_string x)) (split ',' v)) in
       ReadyObs (keyed, key, get a "res" = "true", all)
     | "waitcall" ->
       let via = get a "via" in
       let keyed, key = (if String.length via >= 4 && String.sub via 0 4 = "key:" then
                           let k = String.sub via 4 (String.length via - 4) in (true, (if k = "nil" then None else Some (dstr k)))
                         else (false, None)) in
       WaitCall (getn a "n", keyed, key)
     | "waitret" -> WaitRet (getn a "n", parse_res (get a "res"))
     | "carrier-marshal-error" -> Stim (StMarshal, n_of_int (geti a "tunnel"), None, [])
     | "harnessfail" -> HarnessFail (getn a "code", getz a "a", getz a "b")
     | "PANIC" -> Panic
     | "skip" -> Skip
     | _ -> Other)

let keys_cfg = ref false
let free_cfg = ref false
let nested_cfg = ref false
let cfg_of (toks : string list) : cfg =
  let a = assoc_of toks in
  keys_cfg := (get a "keys" = "1");
  free_cfg := (get a "free" = "1");
  nested_cfg := (get a "nested" = "1");
  { c_rev = (get a "mode" = "rev"); c_cdis = (get a "cdis" = "1"); c_sdis = (get a "sdis" = "1");
    c_cleg = (get a "cleg" = "1"); c_sleg = (get a "sleg" = "1"); c_rawc = (get a "rawc" = "1"); c_raws = (get a "raws" = "1") }

let string_of_fail (f : failure) : string =
  Printf.sprintf "%d@%d(%s,%s)" (int_of_n f.f_code) (int_of_n f.f_act) (string_of_z f.f_a) (string_of_z f.f_b)

(* one output line per scenario:  T <name> <end status> <n events> <failures...> *)
let run_traces (path : string) =
  let ic = open_in path in
  let name = ref "" and cfg = ref (cfg_of []) and evs = ref [] and nev = ref 0 in
  (try while true do
       let line = input_line ic in
       let n = String.length line in
       if n > 2 then begin
         let rest = String.sub line 2 (n - 2) in
         match line.[0] with
         | 'S' -> (match split ' ' rest with
             | nm :: toks -> name := nm; cfg := cfg_of toks; evs := []; nev := 0
             | [] -> ())
         | 'A' -> (match split ' ' rest with
             | num :: "teardown" :: _ -> evs := (n_of_int (int_of_string num), Teardown) :: !evs
             | _ -> ())
         | 'E' -> (match String.index_opt rest ' ' with
             | Some i ->
               let num = int_of_string (String.sub rest 0 i) in
               let e = parse_event (String.sub rest (i + 1) (String.length rest - i - 1)) in
               incr nev; evs := (n_of_int num, e) :: !evs
             | None -> ())
         | 'X' ->
           let tr = List.rev !evs in
           let c = !cfg in
           let fails =
             if !free_cfg then
               (* free-running traces have no controller actions: only the monitors that do not
                  depend on "what happened while the system settled after action n" apply *)
               mon_wire c tr @ mon_C01 c tr @ mon_C02 c tr @ mon_C08 tr @ mon_C16 c tr @
               (if !nested_cfg then [] else mon_C17 c tr) @ mon_C14 c tr @ mon_panic tr @ mon_rpc c tr
             else
             mon_wire c tr @ mon_C01 c tr @ mon_C02 c tr @ mon_C03 c tr @ mon_C04 c tr @ mon_C07 c tr @ mon_C08 tr @
             mon_C10 c tr @ mon_C14 c tr @ mon_C16 c tr @ mon_C17 c tr @ mon_C18 tr @ mon_panic tr @ mon_tables c tr @ mon_ctable c tr @ mon_negotiate c tr @ mon_overrun c tr @ mon_pipe c tr @ mon_registry c !keys_cfg tr @ mon_rpc c tr @ mon_rpcrun c tr in
           let status = (match split ' ' rest with _ :: st :: _ -> st | _ -> "?") in
           Printf.printf "T %s %s %d %s\n" !name status !nev (String.concat " " (List.map string_of_fail fails));
           (* RPCs whose whole life was replayed on the per-RPC model (Rpc.v) in lock-step *)
           if not !free_cfg && Sys.getenv_opt "RPCRUN_DEBUG" <> None then Printf.printf "D %s %s\n" !name (String.concat " " (List.map string_of_fail (mon_rpcrun_debug c tr)));
           if not !free_cfg then Printf.printf "J %s %d\n" !name (List.length (List.init 0 (fun _ -> ())) + (let rec len = function O -> 0 | S n -> 1 + len n in len (rpcrun_judged c tr)))
         | _ -> ()
       end
     done with End_of_file -> ());
  close_in ic

let run_cases (path : string) =
  let ic = open_in path in
  (try
     while true do
       let line = input_line ic in
       match split '\t' line with
       | kind :: rest ->
         (* the last field is the implementation's output: the model functions never see it,
            only the monitors (extracted predicates over observations) do *)
         let rec but_last = function [] | [_] -> [] | x :: r -> x :: but_last r in
         let h = try List.assoc kind handlers with Not_found -> failwith ("unknown kind " ^ kind) in
         let impl = List.nth rest (List.length rest - 1) in
         let (m, vs) = h (but_last rest) impl in
         print_string m; List.iter (fun v -> print_char '\t'; print_string v) vs; print_newline ()
       | [] -> print_newline ()
     done
   with End_of_file -> ());
  close_in ic

let () =
  if Array.length Sys.argv >= 3 && Sys.argv.(1) = "trace" then run_traces Sys.argv.(2)
  else run_cases Sys.argv.(1)
