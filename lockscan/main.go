// lockscan: translator T2. Loads package github.com/jhump/grpctunnel with full type
// information and regenerates coq/gen/AccessTable.v: every read / write site of every field
// of the structs shared between goroutines, with
//   - the mutexes held at the site (intra-procedural lock scopes + locks held by every caller),
//   - whether the site is at construction time (before the object can be shared),
//   - the channels a write is followed by a close of (publication) and the channels a read is
//     preceded by a receive from (acquisition),
// plus the "acquired while holding" lock-order edges and the go statements of the package.
// Coq (Access.v) then checks that every pair of sites of a field is compatible and that the
// lock order is acyclic. The analysis is syntactic (flow-insensitive inside branches); what it
// cannot see is listed as explicit, commented exemptions in Access.v, never silently dropped.
//
//	lockscan <repo dir> <out AccessTable.v>
package main

import (
	"fmt"
	"go/ast"
	"go/token"
	"go/types"
	"os"
	"sort"
	"strings"

	"golang.org/x/tools/go/packages"
)

var tracked = map[string]bool{
	"tunnelChannel": true, "tunnelClientStream": true, "tunnelServer": true, "tunnelServerStream": true,
	"defaultSender": true, "defaultReceiver": true, "noFlowControlSender": true, "noFlowControlReceiver": true,
	"reverseChannels": true, "TunnelServiceHandler": true, "ReverseTunnelServer": true,
	"threadSafeOpenTunnelClient": true, "threadSafeOpenReverseTunnelServer": true,
	"threadSafeOpenReverseTunnelClient": true, "threadSafeOpenTunnelServer": true,
}

type site struct {
	field  string
	write  bool
	locks  map[string]bool // lock -> exclusive
	ctor   bool
	after  []string // channels received from before the access
	before []string // channels closed after the (write) access
	fn     string
	line   int
	pos    token.Pos
}

type fnInfo struct {
	acq      map[string]bool // locks this function acquires itself
	name     string
	decl     *ast.FuncDecl
	sites    []*site
	calls    []callSite
	closes   []chanEvt
	isCtor   map[string]bool // local variable names holding a freshly constructed tracked object
	entry    map[string]bool // locks held by every caller (nil = not yet known / no callers)
	hasEntry bool
	goroot   bool // started by a go statement / exported API / called from outside: entry = {}
}

type callSite struct {
	callee string
	held   map[string]bool
}
type chanEvt struct {
	ch  string
	pos token.Pos
}

var (
	fset  *token.FileSet
	info  *types.Info
	funcs = map[string]*fnInfo{}
	edges = map[[2]string]bool{} // lock order: held -> acquired
	gos   []string
)

func (f *fnInfo) noteAcq(l string) {
	if f.acq == nil {
		f.acq = map[string]bool{}
	}
	f.acq[l] = true
}

func namedOf(t types.Type) string {
	for {
		switch x := t.(type) {
		case *types.Pointer:
			t = x.Elem()
			continue
		case *types.Named:
			return x.Obj().Name()
		case *types.Alias:
			t = types.Unalias(x)
			continue
		}
		return ""
	}
}

func isSyncType(t types.Type) string {
	s := t.String()
	switch {
	case strings.HasPrefix(s, "sync/atomic."):
		return "atomic"
	case s == "sync.Mutex" || s == "sync.RWMutex":
		return "mutex"
	case s == "sync.Cond" || s == "sync.Once" || s == "sync.WaitGroup":
		return "sync"
	}
	return ""
}

// fieldPath returns "Struct.field" if e selects a field of a tracked struct.
func fieldPath(e ast.Expr) (string, *types.Var, ast.Expr) {
	se, ok := e.(*ast.SelectorExpr)
	if !ok {
		return "", nil, nil
	}
	sel, ok := info.Selections[se]
	if !ok || sel.Kind() != types.FieldVal {
		return "", nil, nil
	}
	v, _ := sel.Obj().(*types.Var)
	if v == nil {
		return "", nil, nil
	}
	owner := namedOf(sel.Recv())
	// embedded promotion: find the struct that really declares the field
	if len(sel.Index()) > 1 {
		return "", nil, nil
	}
	if !tracked[owner] {
		return "", nil, nil
	}
	return owner + "." + v.Name(), v, se.X
}

func copyLocks(m map[string]bool) map[string]bool {
	c := map[string]bool{}
	for k, v := range m {
		c[k] = v
	}
	return c
}

type walker struct {
	fn    *fnInfo
	held  map[string]bool
	after []string
	// local variable -> tracked slice/map field it aliases (l := x.f): indexing or ranging over
	// the local touches the same backing store as x.f
	alias map[string]string
	// range value variable -> field whose elements it takes (for _, p := range x.f): a write
	// through *p is a write of the pseudo-field "x.f.*"
	elem map[string]string
}

func (w *walker) recordNamed(field string, write bool, pos token.Pos) {
	s := &site{field: field, write: write, locks: copyLocks(w.held), fn: w.fn.name, line: fset.Position(pos).Line, pos: pos,
		after: append([]string(nil), w.after...)}
	w.fn.sites = append(w.fn.sites, s)
}

func isRefContainer(t types.Type) bool {
	switch t.Underlying().(type) {
	case *types.Slice, *types.Map:
		return true
	}
	return false
}

func rootIdent(e ast.Expr) string {
	for {
		switch x := e.(type) {
		case *ast.Ident:
			return x.Name
		case *ast.SelectorExpr:
			e = x.X
		case *ast.StarExpr:
			e = x.X
		case *ast.ParenExpr:
			e = x.X
		case *ast.IndexExpr:
			e = x.X
		default:
			return ""
		}
	}
}

func (w *walker) record(e ast.Expr, write bool) {
	fp, v, base := fieldPath(e)
	if fp == "" {
		return
	}
	if isSyncType(v.Type()) != "" {
		return
	}
	s := &site{field: fp, write: write, locks: copyLocks(w.held), fn: w.fn.name, line: fset.Position(e.Pos()).Line, pos: e.Pos(),
		after: append([]string(nil), w.after...)}
	if id := rootIdent(base); id != "" && w.fn.isCtor[id] {
		s.ctor = true
	}
	w.fn.sites = append(w.fn.sites, s)
}

// lockCall recognises x.mu.Lock() etc. on mutex fields of tracked structs.
func lockCall(c *ast.CallExpr) (lock string, op string) {
	se, ok := c.Fun.(*ast.SelectorExpr)
	if !ok {
		return "", ""
	}
	switch se.Sel.Name {
	case "Lock", "Unlock", "RLock", "RUnlock":
	default:
		return "", ""
	}
	fp, v, _ := fieldPath(se.X)
	if fp == "" || isSyncType(v.Type()) != "mutex" {
		return "", ""
	}
	return fp, se.Sel.Name
}

// calleeNames: the package functions a call may reach: the static callee, or, for a call
// through an interface declared in the package, the method of every package type implementing it
func calleeNames(c *ast.CallExpr) []string {
	n := calleeName(c)
	if n == "" {
		return nil
	}
	if se, ok := c.Fun.(*ast.SelectorExpr); ok {
		if sel, ok := info.Selections[se]; ok && sel.Kind() == types.MethodVal {
			if it, ok := sel.Recv().Underlying().(*types.Interface); ok {
				var out []string
				scope := pkgTypes.Scope()
				for _, nm := range scope.Names() {
					tn, ok := scope.Lookup(nm).(*types.TypeName)
					if !ok {
						continue
					}
					if _, isIface := tn.Type().Underlying().(*types.Interface); isIface {
						continue
					}
					t := tn.Type()
					if named, ok := t.(*types.Named); ok && named.TypeParams().Len() > 0 {
						// generic: compare by method name only
						for i := 0; i < named.NumMethods(); i++ {
							if named.Method(i).Name() == se.Sel.Name {
								out = append(out, tn.Name()+"."+se.Sel.Name)
							}
						}
						continue
					}
					if types.Implements(t, it) || types.Implements(types.NewPointer(t), it) {
						out = append(out, tn.Name()+"."+se.Sel.Name)
					}
				}
				return out
			}
		}
	}
	return []string{n}
}

var pkgTypes *types.Package

func calleeName(c *ast.CallExpr) string {
	var obj types.Object
	switch f := c.Fun.(type) {
	case *ast.Ident:
		obj = info.Uses[f]
	case *ast.SelectorExpr:
		obj = info.Uses[f.Sel]
	case *ast.IndexExpr: // generic instantiation
		if id, ok := f.X.(*ast.Ident); ok {
			obj = info.Uses[id]
		}
	}
	fn, ok := obj.(*types.Func)
	if !ok || fn.Pkg() == nil || fn.Pkg().Name() != "grpctunnel" {
		return ""
	}
	sig := fn.Type().(*types.Signature)
	if r := sig.Recv(); r != nil {
		return namedOf(r.Type()) + "." + fn.Name()
	}
	return fn.Name()
}

func (w *walker) expr(e ast.Expr, write bool) {
	if e == nil {
		return
	}
	switch x := e.(type) {
	case *ast.SelectorExpr:
		w.record(x, write)
		w.expr(x.X, false)
	case *ast.CallExpr:
		if l, op := lockCall(x); l != "" {
			switch op {
			case "Lock":
				for h := range w.held {
					if h != l {
						edges[[2]string{h, l}] = true
					}
				}
				w.held[l] = true
				w.fn.noteAcq(l)
			case "RLock":
				w.fn.noteAcq(l)
				for h := range w.held {
					if h != l {
						edges[[2]string{h, l}] = true
					}
				}
				w.held[l] = false
			case "Unlock", "RUnlock":
				delete(w.held, l)
			}
			return
		}
		if id, ok := x.Fun.(*ast.Ident); ok && id.Name == "close" && len(x.Args) == 1 {
			if fp, _, _ := fieldPath(x.Args[0]); fp != "" {
				w.fn.closes = append(w.fn.closes, chanEvt{fp, x.Pos()})
			}
			w.expr(x.Args[0], false)
			return
		}
		if id, ok := x.Fun.(*ast.Ident); ok && id.Name == "delete" && len(x.Args) == 2 {
			w.expr(x.Args[0], true)
			w.expr(x.Args[1], false)
			return
		}
		for _, cn := range calleeNames(x) {
			w.fn.calls = append(w.fn.calls, callSite{cn, copyLocks(w.held)})
		}
		w.expr(x.Fun, false)
		for _, a := range x.Args {
			// &x.f passed to a callee counts as a read of x.f here (the pointee's own
			// accesses are recorded where they happen, if it is a tracked struct)
			w.expr(a, false)
		}
	case *ast.UnaryExpr:
		if x.Op == token.ARROW {
			if fp, _, _ := fieldPath(x.X); fp != "" {
				w.after = append(w.after, fp)
			}
		}
		w.expr(x.X, false)
	case *ast.BinaryExpr:
		w.expr(x.X, false)
		w.expr(x.Y, false)
	case *ast.StarExpr:
		if id, ok := x.X.(*ast.Ident); ok && write && w.elem[id.Name] != "" {
			w.recordNamed(w.elem[id.Name]+".*", true, x.Pos())
		}
		w.expr(x.X, write)
	case *ast.ParenExpr:
		w.expr(x.X, write)
	case *ast.IndexExpr:
		if id, ok := x.X.(*ast.Ident); ok && w.alias[id.Name] != "" {
			w.recordNamed(w.alias[id.Name], write, x.Pos())
		}
		w.expr(x.X, write)
		w.expr(x.Index, false)
	case *ast.SliceExpr:
		w.expr(x.X, false)
		w.expr(x.Low, false)
		w.expr(x.High, false)
	case *ast.TypeAssertExpr:
		w.expr(x.X, false)
	case *ast.CompositeLit:
		for _, el := range x.Elts {
			if kv, ok := el.(*ast.KeyValueExpr); ok {
				w.expr(kv.Value, false)
			} else {
				w.expr(el, false)
			}
		}
	case *ast.KeyValueExpr:
		w.expr(x.Value, false)
	case *ast.FuncLit:
		// a closure: analysed as its own function (it may run on another goroutine or later),
		// with the locks held where it is defined only if it is called in place (defer / direct)
		sub := &fnInfo{name: fmt.Sprintf("%s$%d", w.fn.name, fset.Position(x.Pos()).Line), isCtor: w.fn.isCtor, goroot: true}
		funcs[sub.name] = sub
		sw := &walker{fn: sub, held: map[string]bool{}}
		sw.block(x.Body)
	}
}

func (w *walker) stmt(s ast.Stmt) {
	switch x := s.(type) {
	case nil:
	case *ast.ExprStmt:
		w.expr(x.X, false)
	case *ast.AssignStmt:
		for _, r := range x.Rhs {
			w.expr(r, false)
		}
		if len(x.Lhs) == len(x.Rhs) {
			for i, r := range x.Rhs {
				id, ok := x.Lhs[i].(*ast.Ident)
				if !ok {
					continue
				}
				if fp, v, _ := fieldPath(r); fp != "" && isRefContainer(v.Type()) {
					if w.alias == nil {
						w.alias = map[string]string{}
					}
					w.alias[id.Name] = fp
				} else if w.alias != nil {
					delete(w.alias, id.Name)
				}
			}
		}
		for _, l := range x.Lhs {
			w.expr(l, true)
		}
	case *ast.IncDecStmt:
		w.expr(x.X, true)
	case *ast.DeferStmt:
		if l, op := lockCall(x.Call); l != "" && (op == "Unlock" || op == "RUnlock") {
			return // held until the function returns
		}
		if fl, ok := x.Call.Fun.(*ast.FuncLit); ok {
			// deferred closure: runs at return, before the unlocks deferred earlier (LIFO), so it
			// holds what is held here and not explicitly unlocked later in the body, plus
			// whatever every caller of the enclosing function holds
			sub := &fnInfo{name: fmt.Sprintf("%s$defer%d", w.fn.name, fset.Position(fl.Pos()).Line), isCtor: w.fn.isCtor}
			funcs[sub.name] = sub
			h := copyLocks(w.held)
			for l := range h {
				if w.fn.decl != nil && explicitlyUnlocked(w.fn.decl.Body, l, x.Pos()) {
					delete(h, l)
				}
			}
			w.fn.calls = append(w.fn.calls, callSite{sub.name, h})
			sw := &walker{fn: sub, held: map[string]bool{}}
			sw.block(fl.Body)
			return
		}
		w.expr(x.Call, false)
	case *ast.GoStmt:
		gos = append(gos, fmt.Sprintf("%s:%d", w.fn.name, fset.Position(x.Pos()).Line))
		if fl, ok := x.Call.Fun.(*ast.FuncLit); ok {
			sub := &fnInfo{name: fmt.Sprintf("%s$go%d", w.fn.name, fset.Position(fl.Pos()).Line), isCtor: map[string]bool{}, goroot: true}
			funcs[sub.name] = sub
			sw := &walker{fn: sub, held: map[string]bool{}}
			sw.block(fl.Body)
			for _, a := range x.Call.Args {
				w.expr(a, false)
			}
			return
		}
		if cn := calleeName(x.Call); cn != "" {
			if f := funcs[cn]; f != nil {
				f.goroot = true
			}
			pendingGoroots[cn] = true
			if se, ok := x.Call.Fun.(*ast.SelectorExpr); ok {
				if id := rootIdent(se.X); id != "" && w.fn.isCtor[id] {
					goCount[cn]++
					singletonGo[cn] = true
				} else {
					goCount[cn] += 2
				}
			}
		}
		for _, a := range x.Call.Args {
			w.expr(a, false)
		}
	case *ast.ReturnStmt:
		for _, r := range x.Results {
			w.expr(r, false)
		}
	case *ast.BlockStmt:
		w.block(x)
	case *ast.IfStmt:
		w.stmt(x.Init)
		w.expr(x.Cond, false)
		h, a := copyLocks(w.held), append([]string(nil), w.after...)
		w.block(x.Body)
		w.held, w.after = copyLocks(h), append([]string(nil), a...)
		w.stmt(x.Else)
		w.held, w.after = h, a
	case *ast.ForStmt:
		w.stmt(x.Init)
		w.expr(x.Cond, false)
		h, a := copyLocks(w.held), append([]string(nil), w.after...)
		w.block(x.Body)
		w.stmt(x.Post)
		w.held, w.after = h, a
	case *ast.RangeStmt:
		w.expr(x.X, false)
		if id, ok := x.X.(*ast.Ident); ok && w.alias[id.Name] != "" {
			w.recordNamed(w.alias[id.Name], false, x.Pos())
		}
		if fp, _, _ := fieldPath(x.X); fp != "" {
			if vid, ok := x.Value.(*ast.Ident); ok && vid != nil {
				if w.elem == nil {
					w.elem = map[string]string{}
				}
				w.elem[vid.Name] = fp
			}
		}
		h, a := copyLocks(w.held), append([]string(nil), w.after...)
		w.block(x.Body)
		w.held, w.after = h, a
	case *ast.SwitchStmt:
		w.stmt(x.Init)
		w.expr(x.Tag, false)
		for _, c := range x.Body.List {
			cc := c.(*ast.CaseClause)
			h, a := copyLocks(w.held), append([]string(nil), w.after...)
			for _, e := range cc.List {
				w.expr(e, false)
			}
			for _, st := range cc.Body {
				w.stmt(st)
			}
			w.held, w.after = h, a
		}
	case *ast.TypeSwitchStmt:
		w.stmt(x.Init)
		w.stmt(x.Assign)
		for _, c := range x.Body.List {
			cc := c.(*ast.CaseClause)
			h, a := copyLocks(w.held), append([]string(nil), w.after...)
			for _, st := range cc.Body {
				w.stmt(st)
			}
			w.held, w.after = h, a
		}
	case *ast.SelectStmt:
		for _, c := range x.Body.List {
			cc := c.(*ast.CommClause)
			h, a := copyLocks(w.held), append([]string(nil), w.after...)
			w.stmt(cc.Comm) // a receive here adds to w.after for the clause body only
			for _, st := range cc.Body {
				w.stmt(st)
			}
			w.held, w.after = h, a
		}
	case *ast.SendStmt:
		w.expr(x.Chan, false)
		w.expr(x.Value, false)
	case *ast.DeclStmt:
		if gd, ok := x.Decl.(*ast.GenDecl); ok {
			for _, sp := range gd.Specs {
				if vs, ok := sp.(*ast.ValueSpec); ok {
					for _, v := range vs.Values {
						w.expr(v, false)
					}
				}
			}
		}
	case *ast.LabeledStmt:
		w.stmt(x.Stmt)
	}
}

var pendingGoroots = map[string]bool{}
var selfDeadlock []string
var singletonGo = map[string]bool{}
var goCount = map[string]int{}

// explicitlyUnlocked: is there a non-deferred Unlock/RUnlock of lock l after pos in body?
func explicitlyUnlocked(body *ast.BlockStmt, l string, pos token.Pos) bool {
	found := false
	ast.Inspect(body, func(n ast.Node) bool {
		switch x := n.(type) {
		case *ast.DeferStmt:
			return false
		case *ast.FuncLit:
			return false
		case *ast.CallExpr:
			if x.Pos() > pos {
				if ll, op := lockCall(x); ll == l && (op == "Unlock" || op == "RUnlock") {
					found = true
				}
			}
		}
		return true
	})
	return found
}

func (w *walker) block(b *ast.BlockStmt) {
	if b == nil {
		return
	}
	for _, s := range b.List {
		w.stmt(s)
	}
}

// local variables initialised with a composite literal (or &literal) of a tracked struct: the
// object is under construction in this function until it is published
func ctorVars(fd *ast.FuncDecl) map[string]bool {
	m := map[string]bool{}
	if fd.Body == nil {
		return m
	}
	ast.Inspect(fd.Body, func(n ast.Node) bool {
		as, ok := n.(*ast.AssignStmt)
		if !ok || as.Tok != token.DEFINE {
			return true
		}
		for i, r := range as.Rhs {
			e := r
			if u, ok := e.(*ast.UnaryExpr); ok && u.Op == token.AND {
				e = u.X
			}
			if cl, ok := e.(*ast.CompositeLit); ok && i < len(as.Lhs) {
				if tv, ok := info.Types[cl]; ok && tracked[namedOf(tv.Type)] {
					if id, ok := as.Lhs[i].(*ast.Ident); ok {
						m[id.Name] = true
					}
				}
			}
		}
		return true
	})
	return m
}

func main() {
	if len(os.Args) < 3 {
		fmt.Fprintln(os.Stderr, "usage: lockscan <repo dir> <out AccessTable.v>")
		os.Exit(2)
	}
	cfg := &packages.Config{Mode: packages.NeedName | packages.NeedSyntax | packages.NeedTypes | packages.NeedTypesInfo | packages.NeedFiles, Dir: os.Args[1]}
	pkgs, err := packages.Load(cfg, ".")
	if err != nil || len(pkgs) == 0 {
		fmt.Fprintln(os.Stderr, "load error", err)
		os.Exit(2)
	}
	p := pkgs[0]
	if len(p.Errors) > 0 {
		fmt.Fprintln(os.Stderr, "package errors:", p.Errors)
	}
	fset, info, pkgTypes = p.Fset, p.TypesInfo, p.Types
	var decls []*ast.FuncDecl
	for _, f := range p.Syntax {
		fname := fset.Position(f.Pos()).Filename
		if strings.Contains(fname, "verif_") || strings.HasSuffix(fname, "_test.go") {
			continue
		}
		for _, d := range f.Decls {
			if fd, ok := d.(*ast.FuncDecl); ok && fd.Body != nil {
				decls = append(decls, fd)
			}
		}
	}
	for _, fd := range decls {
		name := fd.Name.Name
		if fd.Recv != nil && len(fd.Recv.List) == 1 {
			if tv, ok := info.Types[fd.Recv.List[0].Type]; ok {
				name = namedOf(tv.Type) + "." + name
			}
		}
		funcs[name] = &fnInfo{name: name, decl: fd, isCtor: ctorVars(fd), goroot: ast.IsExported(fd.Name.Name)}
	}
	for _, fd := range decls {
		name := fd.Name.Name
		if fd.Recv != nil && len(fd.Recv.List) == 1 {
			if tv, ok := info.Types[fd.Recv.List[0].Type]; ok {
				name = namedOf(tv.Type) + "." + name
			}
		}
		w := &walker{fn: funcs[name], held: map[string]bool{}}
		w.block(fd.Body)
	}
	for n := range pendingGoroots {
		if f := funcs[n]; f != nil {
			f.goroot = true
		}
	}
	// caller-held locks: greatest fixpoint of "intersection over call sites of (caller entry + held at site)"
	callers := map[string][]struct {
		from string
		held map[string]bool
	}{}
	for _, f := range funcs {
		for _, c := range f.calls {
			callers[c.callee] = append(callers[c.callee], struct {
				from string
				held map[string]bool
			}{f.name, c.held})
		}
	}
	for _, f := range funcs {
		if f.goroot || len(callers[f.name]) == 0 {
			f.entry, f.hasEntry = map[string]bool{}, true
		}
	}
	for changed := true; changed; {
		changed = false
		for _, f := range funcs {
			if f.goroot || len(callers[f.name]) == 0 {
				continue
			}
			var inter map[string]bool
			ok := true
			for _, c := range callers[f.name] {
				cf := funcs[c.from]
				if cf == nil || !cf.hasEntry {
					continue
				}
				tot := copyLocks(cf.entry)
				for k, v := range c.held {
					tot[k] = v
				}
				if inter == nil {
					inter = tot
				} else {
					for k := range inter {
						if _, in := tot[k]; !in {
							delete(inter, k)
						} else if !tot[k] {
							inter[k] = false
						}
					}
				}
			}
			if inter == nil {
				ok = false
			}
			if ok {
				if !f.hasEntry || len(inter) != len(f.entry) {
					f.entry, f.hasEntry = inter, true
					changed = true
				}
			}
		}
	}
	// inter-procedural lock order: a call made while holding H to a function that (transitively)
	// acquires A adds H x A
	trans := map[string]map[string]bool{}
	for n, f := range funcs {
		trans[n] = copyLocks(f.acq)
	}
	for changed := true; changed; {
		changed = false
		for n, f := range funcs {
			for _, c := range f.calls {
				for l := range trans[c.callee] {
					if !trans[n][l] {
						trans[n][l] = true
						changed = true
					}
				}
			}
		}
	}
	for _, f := range funcs {
		for _, c := range f.calls {
			tot := copyLocks(c.held)
			if f.hasEntry {
				for k, v := range f.entry {
					tot[k] = v
				}
			}
			for h := range tot {
				for l := range trans[c.callee] {
					if h != l {
						edges[[2]string{h, l}] = true
					} else {
						selfDeadlock = append(selfDeadlock, fmt.Sprintf("%s calls %s holding %s", f.name, c.callee, h))
					}
				}
			}
		}
	}
	// goroutine confinement: a method started by exactly one go statement, on an object under
	// construction, and called from nowhere else runs on one goroutine per object; so does
	// everything only ever called from it
	thread := map[string]string{}
	for n := range singletonGo {
		if len(callers[n]) == 0 && goCount[n] == 1 {
			thread[n] = n
		}
	}
	for changed := true; changed; {
		changed = false
		for _, f := range funcs {
			if thread[f.name] != "" || len(callers[f.name]) == 0 || f.goroot {
				continue
			}
			th := ""
			ok := true
			for _, c := range callers[f.name] {
				if thread[c.from] == "" || (th != "" && thread[c.from] != th) {
					ok = false
					break
				}
				th = thread[c.from]
			}
			if ok && th != "" {
				thread[f.name] = th
				changed = true
			}
		}
	}
	// collect sites
	var all []*site
	for _, f := range funcs {
		for _, s := range f.sites {
			if f.hasEntry {
				for k, v := range f.entry {
					if _, in := s.locks[k]; !in {
						s.locks[k] = v
					}
				}
			}
			if s.write {
				for _, c := range f.closes {
					if c.pos > s.pos {
						s.before = append(s.before, c.ch)
					}
				}
			}
			all = append(all, s)
		}
	}
	sort.Slice(all, func(i, j int) bool {
		if all[i].field != all[j].field {
			return all[i].field < all[j].field
		}
		if all[i].fn != all[j].fn {
			return all[i].fn < all[j].fn
		}
		return all[i].line < all[j].line
	})
	q := func(x string) string { return "\"" + x + "\"" }
	ql := func(l []string) string {
		var o []string
		seen := map[string]bool{}
		for _, x := range l {
			if !seen[x] {
				seen[x] = true
				o = append(o, q(x))
			}
		}
		return "[" + strings.Join(o, "; ") + "]"
	}
	var b strings.Builder
	b.WriteString("(* GENERATED by lockscan from the Go sources of /repo on every run. Do not edit. *)\n")
	b.WriteString("From Coq Require Import List NArith Bool String.\nFrom GT Require Import Access.\nImport ListNotations.\nLocal Open Scope string_scope.\nLocal Open Scope N_scope.\n\n")
	b.WriteString("Definition access_table : list site := [\n")
	for i, s := range all {
		var ls []string
		var lk []string
		for k := range s.locks {
			lk = append(lk, k)
		}
		sort.Strings(lk)
		for _, k := range lk {
			ex := "false"
			if s.locks[k] {
				ex = "true"
			}
			ls = append(ls, fmt.Sprintf("(%s, %s)", q(k), ex))
		}
		sep := ";"
		if i == len(all)-1 {
			sep = ""
		}
		fmt.Fprintf(&b, "  mkSite %s %v [%s] %v %s %s %s %s %d%s\n", q(s.field), s.write, strings.Join(ls, "; "), s.ctor,
			ql(s.after), ql(s.before), q(thread[s.fn]), q(s.fn), s.line, sep)
	}
	b.WriteString("].\n\n")
	b.WriteString("Definition lock_order : list (string * string) := [\n")
	var es []string
	for e := range edges {
		es = append(es, fmt.Sprintf("  (%s, %s)", q(e[0]), q(e[1])))
	}
	sort.Strings(es)
	b.WriteString(strings.Join(es, ";\n"))
	b.WriteString("\n].\n\n")
	sort.Strings(selfDeadlock)
	fmt.Fprintf(&b, "Definition reacquire_count : N := %d. (* calls that re-acquire a held, non-reentrant mutex: %s *)\n", len(selfDeadlock), strings.Join(selfDeadlock, "; "))
	sort.Strings(gos)
	fmt.Fprintf(&b, "(* go statements: %s *)\n", strings.Join(gos, ", "))
	old, _ := os.ReadFile(os.Args[2])
	if string(old) != b.String() {
		if err := os.WriteFile(os.Args[2], []byte(b.String()), 0o644); err != nil {
			fmt.Fprintln(os.Stderr, err)
			os.Exit(2)
		}
	}
	fmt.Printf("lockscan: %d sites, %d lock-order edges, %d go statements\n", len(all), len(edges), len(gos))
}
