#!/bin/sh
# Builds everything the checks need from files on disk only (offline):
# translators, the Coq development (full .vo build), the extracted validator
# and the Go harness binaries (warms the Go build cache).
set -e
cd "$(dirname "$0")"
exec python3 - <<'PY'
import sys, os
sys.path.insert(0, os.getcwd())
import vlib
need = ['unit', 'sim.test', 'sim_race.test']
info = vlib.prepare(need_go=tuple(need))
print({k: info.get(k) for k in ('coq_ok', 'go_ok', 'coq_s', 'prepare_s', 'failed_vo', 'paramscan')})
if not info['coq_ok']:
    print(info['coq_log'])
if not info['go_ok']:
    print(info['go_log'])
sys.exit(0 if info['coq_ok'] and info['go_ok'] else 1)
PY
