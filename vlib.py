# Common machinery of the check driver (see ./check and DESIGN.md section 2.5).
import fcntl, hashlib, json, os, re, subprocess, sys, time

VERIF = os.path.dirname(os.path.abspath(__file__))
REPO = os.environ.get('VERIF_REPO', '/repo')
COQ = os.path.join(VERIF, 'coq')
BIN = os.path.join(VERIF, 'bin')
WORK = os.path.join(VERIF, 'work')
HARNESS = os.path.join(VERIF, 'harness')
VALIDATOR = os.path.join(VERIF, 'validator')
GO = 'go1.26.8'

GOENV = dict(os.environ, GOFLAGS='-mod=mod', GOPROXY='off', GOTOOLCHAIN='local', GOSUMDB='off',
             CGO_ENABLED=os.environ.get('CGO_ENABLED', '1'))

TRUSTED_BASE = [
    'Coq 8.16.1 kernel (coqc, full .vo build; vm_compute; no native_compute); coqchk in the thorough tier',
    'Coq standard library, std++ 1.8.0 and coq-record-update (RecordUpdate: record setters used by Rpc.v; definitions only) as compiled on this image; no axioms declared by this development',
    'finite invariants (CliFinish, CtorGate, Rpc components: 2 457 600 client and 2 x 1 638 400 server control states) are evaluated with vm_compute on every state and lifted by forallb_forall lemmas; coqchk re-checks these computations with its own virtual machine',
    'extraction: ExtrOcamlBasic only (bool, option, unit, list, prod, sumbool, sumor, andb, orb); N/Z/positive/nat stay Coq datatypes; OCaml 4.13.1',
    'validator/driver.ml (hand-written OCaml glue: line parsing, number/string conversion, printing)',
    'Go harness under /verif/harness (generators, drivers, in-memory carrier, probes), testing/synctest, the Go race detector',
    'translators harness/paramscan (constants, synchronisation skeletons with and without guards -> gen/Params.v) and lockscan (go/packages + go/types: field access sites, held mutexes, channel publication -> gen/AccessTable.v)',
    'the Go code itself is modelled, not verified: the model is tied to it by the correspondence checks on sampled inputs',
]


def log(*a):
    print(*a, file=sys.stderr, flush=True)


def run(cmd, cwd=None, env=None, timeout=None, check=False, stdin=None):
    t0 = time.time()
    try:
        p = subprocess.run(cmd, cwd=cwd, env=env, timeout=timeout, stdout=subprocess.PIPE,
                           stderr=subprocess.STDOUT, text=True, input=stdin, errors='replace')
    except subprocess.TimeoutExpired as e:
        # a step that does not finish is a result (reported by the caller), not a crash of the check
        out = e.stdout if isinstance(e.stdout, str) else (e.stdout or b'').decode(errors='replace')
        if check:
            raise RuntimeError('command timed out: %s' % (cmd,))
        return 124, (out or '') + '\n[timed out after %ss]' % timeout, time.time() - t0
    dt = time.time() - t0
    if check and p.returncode != 0:
        log(p.stdout[-4000:])
        raise RuntimeError('command failed: %s' % (cmd,))
    return p.returncode, p.stdout, dt


class Lock:
    def __init__(self, name):
        os.makedirs(WORK, exist_ok=True)
        self.path = os.path.join(WORK, name + '.lock')

    def __enter__(self):
        self.f = open(self.path, 'w')
        fcntl.flock(self.f, fcntl.LOCK_EX)
        return self

    def __exit__(self, *a):
        fcntl.flock(self.f, fcntl.LOCK_UN)
        self.f.close()


def newer(src_paths, target):
    if not os.path.exists(target):
        return True
    t = os.path.getmtime(target)
    return any(os.path.getmtime(s) > t for s in src_paths if os.path.exists(s))


def tree_files(root, exts):
    out = []
    for d, _, fs in os.walk(root):
        for f in fs:
            if f.endswith(exts):
                out.append(os.path.join(d, f))
    return sorted(out)


def repo_hash():
    h = hashlib.sha256()
    for p in tree_files(REPO, ('.go', '.mod', '.sum')):
        if '/.git/' in p:
            continue
        h.update(p.encode())
        with open(p, 'rb') as f:
            h.update(f.read())
    return h.hexdigest()[:16]


# ---------------------------------------------------------------------------
# build steps (serialised by a lock: several checks may run at once)
# ---------------------------------------------------------------------------

def build_go(target, pkg, tags='verif', race=False):
    out = os.path.join(BIN, target)
    if target.endswith('.test'):
        cmd = [GO, 'test', '-c', '-tags', tags, '-o', out, './' + target[:-5].replace('_race', '')]
        if race:
            cmd.insert(3, '-race')
        return run(cmd, cwd=HARNESS, env=GOENV, timeout=1500)
    cmd = [GO, 'build', '-tags', tags]
    if race:
        cmd.append('-race')
    cmd += ['-o', out, pkg]
    rc, o, dt = run(cmd, cwd=HARNESS, env=GOENV, timeout=1500)
    return rc, o, dt


def prepare(need_go=('unit',), quiet=False):
    """Regenerate Params.v from /repo, (re)build the Coq development, the
    extracted validator and the Go harness binaries from /repo's working tree.
    Returns a dict describing what happened; never raises on a proof failure."""
    info = {'coq_ok': True, 'coq_log': '', 'go_ok': True, 'go_log': '', 'failed_vo': []}
    os.makedirs(BIN, exist_ok=True)
    os.makedirs(WORK, exist_ok=True)
    with Lock('build'):
        t0 = time.time()
        # the harness module replaces the library by the tree under test (VERIF_REPO, default /repo)
        try:
            gm = os.path.join(HARNESS, 'go.mod')
            txt = open(gm).read()
            new = re.sub(r'(replace github.com/jhump/grpctunnel => )\S+', lambda m: m.group(1) + REPO, txt)
            if new != txt:
                open(gm, 'w').write(new)
        except OSError:
            pass
        # harness go.sum follows the repo's
        try:
            with open(os.path.join(REPO, 'go.sum')) as f:
                want = f.read()
            p = os.path.join(HARNESS, 'go.sum')
            have = open(p).read() if os.path.exists(p) else ''
            if not have.startswith(want[:200]):
                open(p, 'w').write(want)
        except OSError:
            pass
        # translators first (they do not depend on the package compiling with hooks)
        for tool in ('paramscan',):
            src = tree_files(os.path.join(HARNESS, tool), ('.go',))
            if newer(src, os.path.join(BIN, tool)):
                rc, o, _ = build_go(tool, './' + tool, tags='')
                if rc != 0:
                    info['go_ok'] = False
                    info['go_log'] += o
        rc, o, _ = run([os.path.join(BIN, 'paramscan'), REPO, os.path.join(COQ, 'gen', 'Params.v'),
                        os.path.join(COQ, 'gen', 'hashes.txt')])
        info['paramscan'] = o.strip()
        # T2: lock-discipline table
        LS = os.path.join(VERIF, 'lockscan')
        if newer(tree_files(LS, ('.go', '.mod', '.sum')), os.path.join(BIN, 'lockscan')):
            rc, o, _ = run([GO, 'build', '-o', os.path.join(BIN, 'lockscan'), '.'], cwd=LS, env=GOENV, timeout=900)
            if rc != 0:
                info['go_ok'] = False
                info['go_log'] += o
        lsenv = dict(GOENV, PATH='/opt/veriftools/go1.26.8/bin:' + os.environ.get('PATH', ''))
        rc, o, _ = run([os.path.join(BIN, 'lockscan'), REPO, os.path.join(COQ, 'gen', 'AccessTable.v')], cwd=REPO, env=lsenv, timeout=600)
        info['lockscan'] = o.strip()[-400:]
        if rc != 0:
            info['go_ok'] = False
            info['go_log'] += '[lockscan] ' + o[-2000:]
        # Coq: full .vo build, keep going so that independent files still compile
        if not os.path.exists(os.path.join(COQ, 'Makefile')) or newer([os.path.join(COQ, '_CoqProject')], os.path.join(COQ, 'Makefile')):
            run(['coq_makefile', '-f', '_CoqProject', '-o', 'Makefile'], cwd=COQ, check=True)
        rc, o, dt = run(['make', '-k', '-j16'], cwd=COQ, timeout=3000)
        info['coq_s'] = round(dt, 1)
        if rc != 0:
            info['coq_ok'] = False
            info['coq_log'] = o[-6000:]
            info['failed_vo'] = re.findall(r'\[Makefile:\d+: ([^\]]+\.vo)\] Error', o)
        # extraction + OCaml validator
        vos = tree_files(os.path.join(COQ, 'theories'), ('.vo',)) + tree_files(os.path.join(COQ, 'gen'), ('.vo',))
        model = os.path.join(VALIDATOR, 'model.ml')
        vm = os.path.join(BIN, 'vmodel')
        if newer(vos + [os.path.join(COQ, 'theories', 'Extract.v')], model):
            rc, o, _ = run(['coqc', '-Q', '../coq/theories', 'GT', '-Q', '../coq/gen', 'GTgen',
                            '../coq/theories/Extract.v'], cwd=VALIDATOR, timeout=900)
            if rc != 0:
                info['extract_ok'] = False
                info['coq_log'] += '\n[extraction]\n' + o[-3000:]
            else:
                # Extract.vo/.glob land next to the source; keep the tree tidy
                pass
        if newer([model, os.path.join(VALIDATOR, 'driver.ml')], vm) and os.path.exists(model):
            rc, o, _ = run(['ocamlfind', 'ocamlopt', '-w', '-a', 'model.mli', 'model.ml', 'driver.ml', '-o', vm],
                           cwd=VALIDATOR, timeout=900)
            if rc != 0:
                info['coq_log'] += '\n[ocaml]\n' + o[-3000:]
                info['extract_ok'] = False
        # Go harness binaries against /repo's working tree, hooks on
        for target in need_go:
            race = '_race' in target
            pkg = './' + target.replace('_race', '')
            rc, o, dt = build_go(target, pkg, race=race)
            if rc != 0:
                info['go_ok'] = False
                info['go_log'] += o[-4000:]
        info['prepare_s'] = round(time.time() - t0, 1)
    return info


def coq_props(pid):
    """Compile props/<pid>.v on its own, return (theorems, closed, axioms, log)."""
    src = os.path.join(COQ, 'props', pid + '.v')
    text = open(src).read()
    theorems = re.findall(r'^\s*Theorem\s+(\w+)', text, re.M)
    rc, o, dt = run(['coqc', '-Q', 'theories', 'GT', '-Q', 'gen', 'GTgen', '-Q', 'props', 'GTprops',
                     'props/' + pid + '.v'], cwd=COQ, timeout=1800)
    closed = o.count('Closed under the global context')
    axioms = []
    for m in re.finditer(r'Axioms:\n((?:.+\n)+?)(?=\S|\Z)', o):
        axioms.append(m.group(1).strip())
    ok = (rc == 0)
    return {'theorems': theorems, 'compiled': ok, 'closed': closed if ok else 0, 'axioms': axioms,
            'log': o[-3000:] if not ok else '', 'wall_s': round(dt, 1)}


def access_report():
    """When the access-table theorem no longer checks: the site pairs that are not separated
    by any recorded reason, printed by Coq from the regenerated table."""
    q = os.path.join(WORK, 'access_query.v')
    open(q, 'w').write('''From Coq Require Import List NArith String Bool.
From GT Require Import Access.
From GTgen Require Import AccessTable.
Import ListNotations.
Local Open Scope string_scope.
Definition show (p : site * site) :=
  (s_field (fst p), (s_fn (fst p), s_line (fst p), s_write (fst p)), (s_fn (snd p), s_line (snd p), s_write (snd p))).
Eval vm_compute in map show (filter (fun p => N.leb (s_line (fst p)) (s_line (snd p))) (bad_pairs exemptions (access_table ++ user_sites))).
Eval vm_compute in (acyclic lock_order, reacquire_count, lock_order).
''')
    rc, o, _ = run(['coqc', '-Q', 'theories', 'GT', '-Q', 'gen', 'GTgen', q], cwd=COQ, timeout=600)
    for ext in ('.vo', '.glob', '.vok', '.vos'):
        try:
            os.remove(q[:-2] + ext)
        except OSError:
            pass
    return ' '.join(o.split())[:3000]


def lockscan_selftest():
    """Translator T2 on copies of the current source carrying known lock-discipline defects
    (seeded/C15a: publication after the signal; seeded/C15b: slice read outside its mutex):
    the regenerated table must show unseparated pairs for each. Returns a list of results."""
    import shutil, tempfile
    out = []
    lsenv = dict(GOENV, PATH='/opt/veriftools/go1.26.8/bin:' + os.environ.get('PATH', ''))
    for name in ('C15a', 'C15b'):
        patch = os.path.join(VERIF, 'seeded', name, 'patch.diff')
        d = tempfile.mkdtemp(prefix='ls-selftest-', dir=WORK)
        try:
            src = os.path.join(d, 'src')
            shutil.copytree(REPO, src, ignore=shutil.ignore_patterns('.git'))
            rc, o, _ = run(['patch', '-p1', '-s', '--fuzz=3', '-i', patch], cwd=src)
            if rc != 0:
                out.append({'case': name, 'result': 'skipped (patch does not apply to the current tree)'})
                continue
            os.makedirs(os.path.join(d, 'gen')); os.makedirs(os.path.join(d, 'theories'))
            rc, o, _ = run([os.path.join(BIN, 'lockscan'), src, os.path.join(d, 'gen', 'AccessTable.v')], cwd=src, env=lsenv, timeout=600)
            if rc != 0:
                out.append({'case': name, 'result': 'lockscan failed: ' + o[-300:]})
                continue
            shutil.copy(os.path.join(COQ, 'theories', 'Access.v'), os.path.join(d, 'theories'))
            open(os.path.join(d, 'q.v'), 'w').write('''From Coq Require Import List NArith String Bool.
From GT Require Import Access.
From GTgen Require Import AccessTable.
Eval vm_compute in (race_free exemptions (access_table ++ user_sites)).
''')
            ok = True
            for f in ('theories/Access.v', 'gen/AccessTable.v', 'q.v'):
                rc, o, _ = run(['coqc', '-Q', 'theories', 'GT', '-Q', 'gen', 'GTgen', f], cwd=d, timeout=600)
                ok = ok and rc == 0
            flagged = ok and '= false' in o
            out.append({'case': name, 'result': 'flagged' if flagged else ('NOT flagged: ' + ' '.join(o.split())[-200:])})
        finally:
            shutil.rmtree(d, ignore_errors=True)
    return out


def coqchk(pid):
    """thorough tier: re-check the compiled property file and everything it depends on with the
    independent checker; returns (ok, axioms summary)."""
    rc, o, dt = run(['coqchk', '-silent', '-o', '-Q', 'theories', 'GT', '-Q', 'gen', 'GTgen', '-Q', 'props', 'GTprops', 'GTprops.' + pid],
                    cwd=COQ, timeout=3000)
    m = re.search(r'\* Axioms:\s*(.*?)\n\s*\n', o, re.S)
    axioms = m.group(1).strip() if m else '?'
    return rc == 0 and axioms == '<none>', axioms, round(dt, 1), o[-1500:]


def statements(pid, limit=6):
    """theorem statements of props/<pid>.v (for the evidence samples)."""
    text = open(os.path.join(COQ, 'props', pid + '.v')).read()
    out = []
    for m in re.finditer(r'Theorem\s+(\w+)\s*:(.*?)\nProof\.', text, re.S):
        out.append('Theorem %s : %s' % (m.group(1), ' '.join(m.group(2).split())))
    return out[:limit]


# ---------------------------------------------------------------------------
# M1: unit differential
# ---------------------------------------------------------------------------

def run_atomic(tier):
    """M4: all interleavings of the real sender's atomic steps for small parameters (depth-first
    replay inside synctest bubbles), each replayed on the Coq model of SenderCtl.v."""
    os.makedirs(os.path.join(VERIF, '.cache'), exist_ok=True)
    key = sim_cache_key('atomic', 0, 0, tier)
    cpath = os.path.join(VERIF, '.cache', 'sim-%s.json' % key)
    if os.path.exists(cpath):
        try:
            r = json.load(open(cpath)); r['cached'] = True
            return r
        except Exception:
            pass
    cases = os.path.join(WORK, 'atomic.%d.cases' % os.getpid())
    env = dict(os.environ, ATOM_OUT=cases, ATOM_MAXDEPTH='12' if tier == 'thorough' else '10', ATOM_LEVEL=tier)
    rc, o, dt = run([os.path.join(BIN, 'sim.test'), '-test.run', 'TestAtomic', '-test.timeout', '3000s'], env=env, timeout=3300)
    res = {'component': 'atomic-sender', 'seed': 0, 'cases': 0, 'classes': {}, 'mismatches': [], 'failures': [],
           'samples': [], 'go_s': round(dt, 1), 'error': None, 'distinct': 0}
    if rc != 0 or not os.path.exists(cases):
        res['error'] = 'atomic driver failed (exit %d): %s' % (rc, o[-2000:])
        return res
    rc, mo, dt = run([os.path.join(BIN, 'vmodel'), cases], timeout=3300)
    if rc != 0:
        res['error'] = 'model driver failed (exit %d): %s' % (rc, mo[-2000:])
        return res
    clines = [l for l in open(cases).read().split('\n') if l]
    mlines = [l for l in mo.split('\n') if l]
    if len(clines) != len(mlines):
        res['error'] = 'model produced %d lines for %d cases' % (len(mlines), len(clines))
        return res
    depth = {}
    for i, (c, m) in enumerate(zip(clines, mlines)):
        cf = c.split('\t'); mf = m.split('\t')
        d = len(cf[5]) if len(cf) > 5 else 0
        depth['depth%02d' % d] = depth.get('depth%02d' % d, 0) + 1
        if mf[0] != cf[-1]:
            res['mismatches'].append({'line': i + 1, 'case': c[:600], 'model': mf[0][:400]})
        for v in mf[1:]:
            if v.startswith('FAIL'):
                res['failures'].append({'line': i + 1, 'case': c[:600], 'monitor': v[:400]})
    res['cases'] = len(clines); res['distinct'] = len(set(clines)); res['classes'] = depth
    res['samples'] = [clines[i][:260] for i in range(0, len(clines), max(1, len(clines) // 3))][:3]
    os.remove(cases)
    json.dump(res, open(cpath, 'w'))
    return res


def run_unit(component, seed, count, tag=''):
    """Run the Go unit driver and the extracted model on the same cases.
    Returns dict: cases, classes, mismatches (correspondence), failures (monitor)."""
    cases = os.path.join(WORK, '%s%s.%d.cases' % (component, tag, os.getpid()))
    rc, o, dt = run([os.path.join(BIN, 'unit'), component, str(seed), str(count), cases], timeout=3000)
    res = {'component': component, 'seed': seed, 'cases': 0, 'classes': {}, 'mismatches': [], 'failures': [],
           'samples': [], 'go_s': round(dt, 1), 'error': None, 'distinct': 0}
    if rc != 0:
        res['error'] = 'unit driver failed (exit %d): %s' % (rc, o[-2000:])
        return res
    for line in o.splitlines():
        f = line.split()
        if f and f[0] == 'class':
            res['classes'][f[1]] = int(f[2])
    rc, mo, dt = run([os.path.join(BIN, 'vmodel'), cases], timeout=3000)
    res['model_s'] = round(dt, 1)
    if rc != 0:
        res['error'] = 'model driver failed (exit %d): %s' % (rc, mo[-2000:])
        return res
    clines = open(cases).read().split('\n')
    if clines and clines[-1] == '':
        clines.pop()
    mlines = mo.split('\n')
    if mlines and mlines[-1] == '':
        mlines.pop()
    if len(clines) != len(mlines):
        res['error'] = 'model produced %d lines for %d cases' % (len(mlines), len(clines))
        return res
    seen = set()
    for i, (c, m) in enumerate(zip(clines, mlines)):
        cf = c.split('\t')
        mf = m.split('\t')
        impl_out = cf[-1]
        seen.add('\t'.join(cf[:-1]))
        if mf[0] != impl_out:
            res['mismatches'].append({'line': i + 1, 'case': c[:600], 'model': mf[0][:300]})
        for v in mf[1:]:
            if v.startswith('FAIL'):
                res['failures'].append({'line': i + 1, 'case': c[:600], 'monitor': v[:300]})
    res['cases'] = len(clines)
    res['distinct'] = len(seen)
    step = max(1, len(clines) // 5)
    res['samples'] = [clines[i][:300] + '  ||  model: ' + mlines[i][:200] for i in range(0, len(clines), step)][:6]
    try:
        os.remove(cases)
    except OSError:
        pass
    return res


# ---------------------------------------------------------------------------
# M2: step-controlled simulation + monitors
# ---------------------------------------------------------------------------

# monitor failure code -> properties it speaks about (see coq/theories/MonWire.v, MonApp.v)
def failure_props(f):
    """properties a monitor failure speaks about: by code, plus C07 when a caller was handed a
    success it should not have got in a scenario whose disturbance was a cancellation / deadline"""
    props = list(code_props(f['code']))
    if f['code'] in (211, 1606, 202, 301) and 'cancel' in f.get('sig', '') and 'C07' not in props:
        # (301: the cancellation of one RPC ended the whole tunnel - C07 says it ends that RPC)
        props.append('C07')
    if f['code'] == 401 and f.get('b') in (1, 7) and '/fc/' in f.get('sig', '') and 'C05' not in props:
        # with flow control, a writer (caller's or handler's SendMsg) still blocked after the tunnel ended: a stranded sender
        props.append('C05')
    if f['code'] == 901 and f.get('family', '') in ('registry', 'regraw', 'stress:registry') and 'C12' not in props:
        props.append('C12')
    if f['code'] == 401 and f.get('b') in (7, 11) and 'C14' not in props:
        # a handler-side call still pending after the tunnel ended: a goroutine of the ended tunnel stays
        props.append('C14')
    return props


def code_props(code):
    table = {1330: ['C13', 'C07', 'C08'], 1331: ['C13', 'C02'], 1332: ['C14'], 1333: ['C14'], 1334: ['C13', 'C06'], 212: ['C02', 'C10', 'C03'], 1607: ['C16', 'C04', 'C07'], 1320: ['C13', 'C07'], 1321: ['C13', 'C02'], 1803: ['C18', 'C07', 'C14'], 903: ['C09', 'C04', 'C14'], 209: ['C02', 'C17'], 1302: ['C13', 'C08'], 1307: ['C13', 'C06'], 1313: ['C13', 'C11'], 1315: ['C13', 'C11'], 1103: ['C11', 'C13'],
             602: ['C06', 'C05'], 603: ['C06', 'C05'], 901: ['C09', 'C15'], 1104: ['C11'], 1105: ['C11'],
             1203: ['C12', 'C14'], 1204: ['C12', 'C14'],
             611: ['C06', 'C09'], 612: ['C06', 'C05'], 631: ['C06', 'C05', 'C13'], 632: ['C06', 'C05'], 633: ['C05', 'C06'],
             811: ['C08', 'C09'], 812: ['C09', 'C10', 'C03', 'C08'], 813: ['C08', 'C10'], 814: ['C08'], 815: ['C08', 'C09'], 816: ['C09', 'C03', 'C08'],
             821: ['C09'], 822: ['C09', 'C07']}
    if code in table:
        return table[code]
    return ['C%02d' % (code // 100)]

CODE_TEXT = {
    101: 'delivered messages are not a prefix of the submitted ones', 102: 'end-of-stream reported although the message sequence is incomplete',
    103: 'more messages delivered than submitted', 201: 'caller outcome differs from the status the handler returned',
    202: 'caller got success although the handler never returned OK', 203: 'Trailer() differs from the handler trailers at the terminal result',
    204: 'grpc.Trailer target differs from the handler trailers', 206: 'Header() differs from the handler headers', 207: 'grpc.Header target differs',
    208: 'Header() blocked although a response message had been received', 209: 'handler saw request metadata different from what the caller attached',
    210: 'a later terminal result differs from the first', 211: 'caller got a successful (final) response although the handler did not return OK', 301: 'tunnel ended / failed to start without any tunnel-level cause',
    401: 'a call is still pending after the tunnel ended', 402: 'Done() not closed after the tunnel ended', 403: 'Err() not nil after a clean close',
    404: 'Err() nil after a failure', 405: 'RPC started on a finished tunnel did not fail immediately', 406: 'Serve did not return after the tunnel ended',
    602: 'sender has more un-credited bytes outstanding than the window', 603: 'credit granted exceeds data delivered',
    701: 'caller observed success after cancel without handler OK', 703: 'caller operation did not return when its context was cancelled',
    704: 'handler operation still pending after the cancel notice was delivered', 802: 'handler invoked twice for one RPC', 803: 'wrong handler invoked',
    901: 'panic', 1001: 'handler started for an RPC begun after shutdown', 1002: 'RPC begun after shutdown was not refused with Unavailable',
    1803: 'a handler read was still pending after the clock had been moved past the deadline the handler got from grpc-timeout',
    1209: 'WaitForReady kept waiting although a tunnel with the key had been registered for 300 ms (waiter left on a set that is no longer the key\'s)',
    903: 'a handler found its context still live after the Serve call of its (reverse) tunnel had returned',
    302: 'a nested tunnel ended (or its next RPC failed) after one RPC with unencodable metadata, although its carrier survives the encode error',
    1502: 'two goroutines were inside Send / CloseSend of the carrier stream at the same time (the thread-safe wrapper was bypassed)',
    501: 'flow-controlled sender left parked although its whole window had been credited back (lost wake-up)', 902: 'live heap grew by more than 200 MiB under a hostile peer announcing huge sizes (MiB in a)',
    1003: 'tunnel ended after graceful shutdown was initiated', 1004: 'Stop returned before every Serve call had returned',
    1005: 'GracefulStop did not return although the RPCs in flight had finished', 1103: 'settings frame present/absent contrary to advertisement',
    1201: 'RPC routed to a different tunnel than the round-robin model picks', 1202: 'routing failed / succeeded contrary to the registry model',
    1203: 'Ready() differs from the registry model', 1204: 'AllReverseTunnels() differs from the registry model', 1205: 'open/close callback not exactly once, in order', 1206: 'WaitForReady still blocked although a matching tunnel is registered', 1207: 'n RPCs over n keyed tunnels did not use each tunnel once',
    1208: 'AllReverseTunnels returned the same tunnel twice',
    212: 'an RPC the server refused ended at the caller with a result other than the status of the close frame handed to its endpoint',
    1404: 'the client stream table still holds an entry for an RPC whose caller has been given a status as its terminal result (raw tunnel server)',
    1607: 'the caller of a method with a non-streaming response was told success although no close_stream had been handed to its endpoint',
    1330: 'replay of the per-RPC model (Rpc.v) on the operations of the trace: the frames the tunnel client emitted on the stream differ from the model history h_c',
    1331: 'replay of the per-RPC model: the frames the tunnel server emitted on the stream differ from the model history h_s',
    1332: 'replay of the per-RPC model: the client stream table size differs from the model (a = model, b = observed)',
    1333: 'replay of the per-RPC model: the server stream table size differs from the model (a = model, b = observed)',
    1334: 'a window update was emitted by an endpoint whose per-RPC model forbids it (the stream was finished there)',
    1320: 'the frames the tunnel client emitted on a stream leave the grammar of the per-RPC model (Rpc.v gc_step): frame before new_stream, second new_stream, request data after half-close, second half-close or second cancel',
    1321: 'the frames the tunnel server emitted on a stream leave the grammar of the per-RPC model (Rpc.v gs_step): message before headers, headers twice, second close_stream or a frame other than a late window update after close_stream',
    1301: 'settings not first / wrong stream id', 1302: 'frame before new_stream or stream ids not increasing', 1303: 'headers twice or after a message',
    1304: 'envelope before previous message finished', 1305: 'continuation without envelope', 1306: 'continuation exceeds announced size',
    1307: 'data frame larger than 16 KiB', 1308: 'frame after close_stream', 1309: 'second close_stream', 1310: 'request data after half-close',
    1311: 'second half-close', 1312: 'second cancel', 1313: 'window_update on a revision-zero stream', 1314: 'unknown frame emitted',
    1315: 'new_stream revision differs from the negotiated one', 1401: 'goroutines left after everything ended',
    1402: 'client stream table differs from the RPCs in flight', 1403: 'server stream table differs from the RPCs in flight',
    1601: 'second request message delivered to a non-streaming handler', 1602: 'second send accepted on a non-streaming side',
    1604: 'handler got a message although several were sent', 1605: 'caller got success on a bad number of response messages',
    1606: 'caller got success although the handler did not return OK', 1701: 'tunnel metadata differs', 1702: 'peer differs',
    1703: 'interceptor context value differs', 1704: 'wrong tunnel channel identified', 1801: 'handler deadline differs from the grpc-timeout header',
    1802: 'handler deadline present/absent contrary to the grpc-timeout header',
}


def sim_cache_key(family, seed, count, extra=''):
    h = hashlib.sha256()
    h.update(repo_hash().encode())
    for p in tree_files(os.path.join(HARNESS, 'sim'), ('.go',)) + tree_files(os.path.join(COQ, 'theories'), ('.v',)) + \
            [os.path.join(VALIDATOR, 'driver.ml'), os.path.join(COQ, 'gen', 'Params.v')]:
        h.update(open(p, 'rb').read())
    h.update(('%s|%s|%s|%s' % (family, seed, count, extra)).encode())
    return h.hexdigest()[:24]


def run_sim(family, seed, count, scenario_file=None, keep_trace=False):
    """Run a scenario family (or a scenario file) through the real library in the simulation
    harness and evaluate the extracted monitors on every trace.  Results are cached under
    .cache keyed by the content of /repo, the harness and the model (DESIGN.md section 5)."""
    os.makedirs(os.path.join(VERIF, '.cache'), exist_ok=True)
    extra = ''
    if scenario_file:
        extra = hashlib.sha256(open(scenario_file, 'rb').read()).hexdigest()
    key = sim_cache_key(family, seed, count, extra)
    cpath = os.path.join(VERIF, '.cache', 'sim-%s.json' % key)
    if os.path.exists(cpath) and not keep_trace:
        try:
            r = json.load(open(cpath))
            r['cached'] = True
            return r
        except Exception:
            pass
    trace = os.path.join(WORK, 'sim-%s-%d-%d.trace' % (family, seed, os.getpid()))
    env = dict(os.environ, SIM_OUT=trace, SIM_SEED=str(seed), SIM_COUNT=str(count))
    if scenario_file:
        env['SIM_IN'] = scenario_file
        env.pop('SIM_FAMILY', None)
    else:
        env['SIM_FAMILY'] = family
    t0 = time.time()
    # the simulator leaves with exit 3 when its watchdog sees a scenario that never settles (a
    # lock-level deadlock keeps the bubble spinning); resume after it, a few times at most
    parts, skip, hangs, o, dt = [], 0, 0, '', 0.0
    while True:
        env['SIM_SKIP'] = str(skip)
        rc, o, dt1 = run([os.path.join(BIN, 'sim.test'), '-test.run', 'TestSim', '-test.timeout', '3000s'], env=env, timeout=3300)
        dt += dt1
        if os.path.exists(trace):
            txt = open(trace, errors='replace').read()
            ns = sum(1 for l in txt.split('\n') if l.startswith('S '))
            nx = sum(1 for l in txt.split('\n') if l.startswith('X '))
            if ns > nx:
                # the process died inside a scenario (e.g. the bubble panicked on exit because library
                # goroutines were left blocked, or a panic on a library goroutine): close it by hand
                last = [l for l in txt.split('\n') if l.startswith('S ')][-1].split(' ')[1]
                why = 'panic' if 'panic: ' in o and 'deadlock: all goroutines in bubble are blocked' not in o else 'leak'
                tail = ' | '.join(x.strip() for x in o.split('\n') if 'grpctunnel' in x)[:1500]
                try:   # keep the whole crash output: the trace line only has room for a summary
                    os.makedirs(os.path.join(WORK, 'replay'), exist_ok=True)
                    open(os.path.join(WORK, 'replay', 'crash-%s-%d-%s.log' % (family.replace(':', '_'), seed, last)), 'w').write(o[-200000:])
                except OSError:
                    pass
                if not txt.endswith('\n'):
                    txt += '\n'
                txt += 'X %s %s %s\n' % (last, why, tail)
                nx += 1
            parts.append(txt)
            skip += nx
            if ns > nx - 0 and False:
                pass
        if (rc == 3 or (rc != 0 and os.path.exists(trace))) and hangs < 6:
            died = rc != 0
            hangs += 1
            if died and skip < (count if not scenario_file else 10 ** 6):
                continue
        break
    if parts:
        open(trace, 'w').write(''.join(parts))
    res = {'family': family, 'seed': seed, 'count': count, 'scenarios': 0, 'events': 0, 'failures': [], 'abnormal': [],
           'go_s': round(dt, 1), 'error': None, 'cached': False, 'samples': [], 'actions': {}, 'configs': {}, 'hangs': hangs}
    if not os.path.exists(trace):
        res['error'] = 'simulation produced no trace (exit %d): %s' % (rc, o[-1500:])
        return res
    rc2, mo, dt2 = run(['bash', '-c', 'ulimit -s unlimited 2>/dev/null; exec "$0" "$@"', os.path.join(BIN, 'vmodel'), 'trace', trace], timeout=3300)
    res['model_s'] = round(dt2, 1)
    if rc2 != 0:
        res['error'] = 'validator failed (exit %d): %s' % (rc2, mo[-1500:])
        return res
    for line in mo.splitlines():
        f = line.split(' ')
        if len(f) == 3 and f[0] == 'J':
            res['rpcs_replayed_on_model'] = res.get('rpcs_replayed_on_model', 0) + int(f[2])
            continue
        if len(f) < 4 or f[0] != 'T':
            continue
        res['scenarios'] += 1
        res['events'] += int(f[3])
        if f[2] != 'ok':
            res['abnormal'].append({'scenario': f[1], 'status': f[2]})
        for tok in f[4:]:
            m = re.match(r'(\d+)@(\d+)\((-?\d+),(-?\d+)\)', tok)
            if m:
                res['failures'].append({'scenario': f[1], 'code': int(m.group(1)), 'act': int(m.group(2)),
                                        'a': int(m.group(3)), 'b': int(m.group(4))})
    # input distribution: action kinds and configurations, a few sample lines
    acts, cfgs = {}, {}
    nsample = 0
    ended = {}
    sigs = {}
    cur = None
    with open(trace, errors='replace') as fh:
        for line in fh:
            if line.startswith('S '):
                cur = line.split(' ', 2)[1]
                kvs = dict(x.split('=') for x in line.split(' ')[2:] if '=' in x)
                raw = ('rawc' if kvs.get('rawc', '0').strip() == '1' else '') + ('raws' if kvs.get('raws', '0').strip() == '1' else '')
                sigs[cur] = [kvs.get('mode', '?').strip(), 'rev0' if (kvs.get('cdis') == '1' or kvs.get('sdis') == '1' or kvs.get('cleg') == '1' or kvs.get('sleg') == '1') else 'fc', raw or 'real', set()]
            elif line.startswith('E ') and ' op=cancel ' in line and cur in sigs:
                sigs[cur][3].add('cancel')
            elif line.startswith('E ') and ' carrier-marshal-error ' in line and cur in sigs:
                sigs[cur][3].add('marshalerr')
                ended[cur] = True
            elif line.startswith('E ') and ' stim kind=' in line:
                m = re.search(r'stim kind=(\w+)', line)
                if m and m.group(1) in ('fail', 'chclose', 'ctxend', 'stop', 'rawend', 'shutdown'):
                    if m.group(1) != 'shutdown':
                        ended[cur] = True
                    if cur in sigs:
                        sigs[cur][3].add(m.group(1))
            if line.startswith('A '):
                k = line.split(' ', 3)[2].strip()
                acts[k] = acts.get(k, 0) + 1
            elif line.startswith('S '):
                c = line.split(' ', 2)[2].strip()
                cfgs[c] = cfgs.get(c, 0) + 1
            if nsample < 12 and (line.startswith('E ') and ('emit' in line or 'ret who' in line)) and 'probe' not in line:
                if nsample % 3 == 0 or len(res['samples']) < 4:
                    res['samples'].append(line.strip()[:220])
                nsample += 1
    res['actions'], res['configs'] = acts, cfgs
    def sig_of(name):
        g = sigs.get(name)
        return '%s/%s/%s/%s' % (g[0], g[1], g[2], '+'.join(sorted(g[3])) or 'none') if g else '?'
    for a in res['abnormal']:
        a['after_tunnel_end'] = bool(ended.get(a['scenario']))
        a['sig'] = sig_of(a['scenario'])
    for f in res['failures']:
        f['sig'] = sig_of(f['scenario'])
    res['samples'] = res['samples'][:4]
    if 'FAIL' in o and 'panic' in o:
        res['abnormal'].append({'scenario': '?', 'status': 'test binary reported: ' + o[-600:]})
    if res['failures'] or res['abnormal'] or keep_trace:
        keep = os.path.join(WORK, 'replay', 'trace-%s-%d.trace' % (family, seed))
        os.makedirs(os.path.dirname(keep), exist_ok=True)
        os.replace(trace, keep)
        res['trace'] = keep
    else:
        os.remove(trace)
    json.dump(res, open(cpath, 'w'))
    return res


# ---------------------------------------------------------------------------
# M3: free-running stress under the race detector
# ---------------------------------------------------------------------------

def trim_abnormal(trace, keep=3000):
    """A free-running scenario that ended abnormally (hang, panic, crash) is decided by that
    status; a runaway endpoint can have logged millions of events meanwhile. Keep the first
    [keep] events of such scenarios only, so that the monitors (which are not linear) finish."""
    try:
        lines = open(trace, errors='replace').read().split('\n')
    except OSError:
        return
    status = {}
    for l in lines:
        if l.startswith('X '):
            f = l.split(' ')
            status[f[1]] = f[2] if len(f) > 2 else 'ok'
    out, cur, n, changed = [], None, 0, False
    for l in lines:
        if l.startswith('S '):
            cur, n = l.split(' ')[1], 0
        if l.startswith('E ') and cur is not None and status.get(cur, 'ok') != 'ok':
            n += 1
            if n > keep:
                changed = True
                continue
        out.append(l)
    if changed:
        open(trace, 'w').write('\n'.join(out))


def run_stress(family, seed, count):
    os.makedirs(os.path.join(VERIF, '.cache'), exist_ok=True)
    key = sim_cache_key('stress:' + family, seed, count)
    cpath = os.path.join(VERIF, '.cache', 'sim-%s.json' % key)
    if os.path.exists(cpath):
        try:
            r = json.load(open(cpath))
            r['cached'] = True
            return r
        except Exception:
            pass
    trace = os.path.join(WORK, 'stress-%s-%d-%d.trace' % (family, seed, os.getpid()))
    racelog = trace + '.race'
    env = dict(os.environ, SIM_OUT=trace, SIM_SEED=str(seed), SIM_COUNT=str(count), SIM_STRESS=family,
               GORACE='halt_on_error=0 history_size=2')
    env.pop('SIM_FAMILY', None)
    env.pop('SIM_IN', None)
    rc, o, dt = run([os.path.join(BIN, 'sim_race.test'), '-test.run', 'TestStress', '-test.timeout', '1500s'], env=env, timeout=1800)
    res = {'family': 'stress:' + family, 'seed': seed, 'count': count, 'scenarios': 0, 'events': 0, 'failures': [], 'abnormal': [],
           'go_s': round(dt, 1), 'error': None, 'cached': False, 'samples': [], 'actions': {'stress': count}, 'configs': {}, 'races': 0}
    if not os.path.exists(trace):
        res['error'] = 'stress run produced no trace (exit %d): %s' % (rc, o[-1500:])
        return res
    txt = open(trace, errors='replace').read()
    if txt.count('\nS ') + (1 if txt.startswith('S ') else 0) > txt.count('\nX '):
        last = [l for l in txt.split('\n') if l.startswith('S ')][-1].split(' ')[1]
        why = 'panic' if 'panic: ' in o else 'crash'
        tail = ' | '.join(x.strip() for x in o.split('\n') if 'grpctunnel' in x)[:1500]
        open(trace, 'a').write('X %s %s %s\n' % (last, why, tail))
    trim_abnormal(trace)
    rc2, mo, dt2 = run(['bash', '-c', 'ulimit -s unlimited 2>/dev/null; exec "$0" "$@"', os.path.join(BIN, 'vmodel'), 'trace', trace], timeout=1800)
    if rc2 != 0:
        res['error'] = 'validator failed (exit %d): %s' % (rc2, mo[-1500:])
        return res
    for line in mo.splitlines():
        f = line.split(' ')
        if len(f) < 4 or f[0] != 'T':
            continue
        res['scenarios'] += 1
        res['events'] += int(f[3])
        if f[2] != 'ok':
            res['abnormal'].append({'scenario': f[1], 'status': f[2], 'sig': 'stress'})
        for tok in f[4:]:
            m = re.match(r'(\d+)@(\d+)\((-?\d+),(-?\d+)\)', tok)
            if m:
                res['failures'].append({'scenario': f[1], 'code': int(m.group(1)), 'act': int(m.group(2)),
                                        'a': int(m.group(3)), 'b': int(m.group(4)), 'sig': 'stress'})
    for line in open(trace, errors='replace'):
        if line.startswith('S '):
            c = line.split(' ', 2)[2].strip()
            res['configs'][c] = res['configs'].get(c, 0) + 1
        elif line.startswith('X ') and ' hang' in line[:80]:
            for a in res['abnormal']:
                if a['scenario'] == line.split(' ')[1]:
                    a['status'] = 'hang ' + line[:2500]
    # data races reported by the detector that involve the library (races inside the harness alone do not count)
    blocks = o.split('WARNING: DATA RACE')[1:]
    for b in blocks:
        b = b.split('==================')[0]
        fns = sorted(set(re.findall(r'github.com/jhump/grpctunnel\.([\w\(\)\*\.]+)', b)))
        if fns:
            res['races'] += 1
            res['abnormal'].append({'scenario': 'race', 'status': 'race ' + ', '.join(fns)[:400], 'sig': 'stress', 'report': b[:2500]})
    res['samples'] = [l.strip()[:200] for l in txt.split('\n')[2:2000:400]][:3]
    if res['failures'] or res['abnormal']:
        keep = os.path.join(WORK, 'replay', 'trace-stress-%s-%d.trace' % (family, seed))
        os.makedirs(os.path.dirname(keep), exist_ok=True)
        os.replace(trace, keep)
        res['trace'] = keep
        open(keep + '.stderr', 'w').write(o[-200000:])
    else:
        os.remove(trace)
    json.dump(res, open(cpath, 'w'))
    return res


# ---------------------------------------------------------------------------
# known findings
# ---------------------------------------------------------------------------

def known_findings():
    out = []
    p = os.path.join(VERIF, 'known_findings.txt')
    if os.path.exists(p):
        for line in open(p):
            line = line.strip()
            m = re.match(r'finding:\s+property=(\w+)\s+key=(\S+)\s+(.*)', line)
            if m:
                out.append({'property': m.group(1), 'key': m.group(2), 'text': m.group(3)})
    return out


# ---------------------------------------------------------------------------
# verdict + evidence
# ---------------------------------------------------------------------------

class Verdict:
    def __init__(self, pid, tier, seed):
        self.pid, self.tier, self.seed = pid, tier, seed
        self.t0 = time.time()
        self.concrete = []      # monitor failures on the implementation: dicts with 'key'
        self.broken = []        # proof obligations / correspondences that no longer check
        self.known_hit = []
        self.cov = {'samples': [], 'distribution': {}, 'correspondence': {}}
        self.evaluations = 0
        self.distinct = 0
        self.obligations = 0
        self.discharged = 0
        self.traces = 0
        self.assumptions = []
        self.notes = []

    def add_coqchk(self):
        ok, axioms, dt, log = coqchk(self.pid)
        self.cov['coqchk'] = {'ok': ok, 'axioms': axioms, 'wall_s': dt}
        if not ok:
            self.broken.append({'kind': 'proof', 'what': 'coqchk does not accept props/%s.vo and its dependencies (or reports axioms)' % self.pid,
                                'detail': log})

    def add_proofs(self, pr, extra_obligations=0):
        self.obligations += len(pr['theorems']) + extra_obligations
        if pr['compiled'] and not pr['axioms'] and pr['closed'] == len(pr['theorems']):
            self.discharged += len(pr['theorems']) + extra_obligations
        elif pr['compiled'] and pr['closed'] + len(pr['axioms']) >= len(pr['theorems']):
            # compiled, but some theorem depends on axioms: list them, count only closed ones
            self.discharged += pr['closed']
            self.broken.append({'kind': 'axioms', 'what': 'props/%s.v depends on axioms' % self.pid, 'detail': pr['axioms']})
        else:
            b = {'kind': 'proof', 'what': 'props/%s.v no longer compiles' % self.pid,
                 'theorems': pr['theorems'], 'detail': pr['log'][-2500:]}
            if self.pid == 'C15' and 'Access' in pr['log']:
                b['unseparated_access_pairs'] = access_report()
            self.broken.append(b)
        self.cov['print_assumptions'] = ('Closed under the global context x%d' % pr['closed']) if not pr['axioms'] else pr['axioms']
        self.cov['theorems'] = pr['theorems']

    def add_sim(self, r, codes=None):
        """codes: predicate on failure codes relevant to this property (None: by code_props)."""
        self.evaluations += r['scenarios']
        self.traces += r['scenarios']
        self.distinct += r['scenarios']
        d = self.cov['distribution'].setdefault('sim:' + r['family'], {'scenarios': 0, 'events': 0, 'actions': {}, 'configs': {}})
        d['scenarios'] += r['scenarios']
        d['events'] += r['events']
        if r.get('rpcs_replayed_on_model'):
            # RPCs whose whole life was replayed in lock-step on the per-RPC model (Rpc.v) by mon_rpcrun
            d['rpcs_replayed_on_model'] = d.get('rpcs_replayed_on_model', 0) + r['rpcs_replayed_on_model']
            self.cov['rpcs_replayed_on_model'] = self.cov.get('rpcs_replayed_on_model', 0) + r['rpcs_replayed_on_model']
        for k, n in r.get('actions', {}).items():
            d['actions'][k] = d['actions'].get(k, 0) + n
        for k, n in r.get('configs', {}).items():
            d['configs'][k] = d['configs'].get(k, 0) + n
        self.cov['samples'] += r.get('samples', [])[:2]
        if r['error']:
            self.broken.append({'kind': 'correspondence', 'what': 'M2 %s could not run' % r['family'], 'detail': r['error']})
            return
        for f in r['failures']:
            f.setdefault('family', r['family'])
            if (codes(f['code']) if codes else (self.pid in failure_props(f))):
                self.concrete.append({'key': 'M2:%s:%d' % (r['family'], f['code']), 'kfkey': 'code%d/%s' % (f['code'], f.get('sig', '?')), 'where': 'M2 ' + r['family'],
                                      'scenario': f['scenario'], 'code': f['code'], 'meaning': CODE_TEXT.get(f['code'], '?'),
                                      'action': f['act'], 'a': f['a'], 'b': f['b'], 'seed': r['seed'], 'trace': r.get('trace')})
        for a in r['abnormal']:
            if a['status'].startswith('race'):
                rel = ['C15']
            else:
              rel = (['C09', 'C15'] + (['C12'] if ('registry' in r['family'] or 'regraw' in r['family']) else [])) if a['status'].startswith('panic') else \
                  ((['C03', 'C05', 'C15'] + (['C04'] if a.get('after_tunnel_end') else []) + (['C07'] if ('cancel' in a.get('sig', '') or r['family'] in ('stress:mix', 'stress:bounded', 'stress:nested')) else []) + (['C09', 'C06'] if ('/rawc/' in a.get('sig', '') or '/raws/' in a.get('sig', '')) else []) + (['C10'] if 'shutdown' in a.get('sig', '') else [])) if a['status'].startswith('hang')
                   else (['C14'] + (['C04'] if a.get('after_tunnel_end') else [])))
            if self.pid not in rel:
                continue
            self.concrete.append({'key': 'M2:%s:abnormal' % r['family'], 'kfkey': '%s/%s' % (a['status'].split(' ')[0], a.get('sig', '?')), 'where': 'M2 ' + r['family'],
                                  'scenario': a['scenario'], 'meaning': 'scenario ended abnormally (panic, or goroutines of the bubble left blocked): ' + a['status'][:300],
                                  'seed': r['seed'], 'trace': r.get('trace')})

    def add_unit(self, r):
        self.evaluations += r['cases']
        self.distinct += r['distinct']
        self.cov['distribution'][r['component']] = r['classes']
        self.cov['correspondence'][r['component']] = {'cases': r['cases'], 'mismatches': len(r['mismatches']),
                                                      'monitor_failures': len(r['failures'])}
        self.cov['samples'] += r['samples'][:3]
        if r['error']:
            self.broken.append({'kind': 'correspondence', 'what': 'M1 %s could not run' % r['component'], 'detail': r['error']})
        for f in r['failures'][:20]:
            self.concrete.append({'key': 'M1:%s:%s' % (r['component'], f['monitor'][:80]), 'where': 'M1 ' + r['component'],
                                  'case': f['case'], 'monitor': f['monitor'], 'seed': r['seed']})
        if r['mismatches']:
            self.broken.append({'kind': 'correspondence', 'what': 'M1 %s: implementation and model differ' % r['component'],
                                'first': r['mismatches'][0], 'count': len(r['mismatches']), 'seed': r['seed']})

    def finish(self, level='proof'):
        pid = self.pid
        os.makedirs(os.path.join(VERIF, 'evidence'), exist_ok=True)
        kf = [k for k in known_findings() if k['property'] == pid]
        new_concrete = []
        for c in self.concrete:
            hit = [k for k in kf if k['key'] == c.get('kfkey', c['key'])]
            if hit:
                if hit[0] not in self.known_hit:
                    self.known_hit.append(hit[0])
            else:
                new_concrete.append(c)
        violations = 0
        lines = []
        for k in self.known_hit:
            lines.append('KNOWN-FINDING: property=%s %s' % (pid, k['text']))
        replay = None
        if new_concrete:
            violations = len(new_concrete)
            replay = os.path.join(WORK, 'replay', '%s-%d.json' % (pid, int(time.time())))
            os.makedirs(os.path.dirname(replay), exist_ok=True)
            json.dump({'property': pid, 'kind': 'concrete', 'tier': self.tier, 'seed': self.seed,
                       'failures': new_concrete[:10], 'also_broken': self.broken[:5],
                       'how_to_replay': './check %s --replay %s' % (pid, replay)}, open(replay, 'w'), indent=1)
            lines.append('VIOLATION property=%s replay=%s' % (pid, replay))
        elif self.broken:
            violations = len(self.broken)
            replay = os.path.join(WORK, 'replay', '%s-%d.json' % (pid, int(time.time())))
            os.makedirs(os.path.dirname(replay), exist_ok=True)
            json.dump({'property': pid, 'kind': 'no-failing-input-found', 'tier': self.tier, 'seed': self.seed,
                       'no_longer_checks': self.broken[:10],
                       'how_to_replay': './check %s --replay %s' % (pid, replay)}, open(replay, 'w'), indent=1)
            lines.append('VIOLATION property=%s replay=%s no-failing-input-found' % (pid, replay))
        cov = dict(self.cov)
        cov.update({
            'obligations': self.obligations,
            'discharged': self.discharged,
            'checker_cmd': 'cd /verif/coq && make -k -j16 && coqc -Q theories GT -Q gen GTgen -Q props GTprops props/%s.v' % pid,
            'trusted_base': TRUSTED_BASE,
            'evaluations': self.evaluations,
            'distinct_nontrivial': self.distinct,
            'traces_validated_against_impl': self.traces,
            'rule': self.cov.get('rule', 'cases are generated deterministically from the seed; distinct = distinct input lines; every case exercises the real code and the extracted model'),
            'known_findings_hit': [k['key'] for k in self.known_hit],
        })
        cov['samples'] = (statements(pid) + cov['samples'])[:14] or ['(none)']
        ev = {'property_id': pid, 'tier': self.tier, 'seed': self.seed, 'level': level, 'coverage': cov,
              'assumptions': self.assumptions or ['see coverage.trusted_base'], 'wall_s': round(time.time() - self.t0, 1),
              'violations': violations}
        json.dump(ev, open(os.path.join(VERIF, 'evidence', pid + '.json'), 'w'), indent=1)
        for l in lines:
            print(l)
        sys.stdout.flush()
        return 1 if violations else 0
