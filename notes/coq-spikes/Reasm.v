From Coq Require Import List Arith NArith Lia Bool ZifyN ZifyNat ZifyBool.
Import ListNotations.
Set Implicit Arguments.

Lemma list_sum_cons c cs : list_sum (c :: cs) = c + list_sum cs.
Proof. reflexivity. Qed.

Section Reasm.
Variable A : Type.

Inductive dframe := Env (size : N) (data : list A) | More (data : list A).
Inductive rstate := Idle | Part (len : N) (buf : list A) | Failed.
Inductive rout := Got (m : list A) | Need | Bad.

Definition lenN (l : list A) : N := N.of_nat (length l).

Definition fill (sz : N) (b : list A) : rstate * rout :=
  if (sz <? lenN b)%N then (Failed, Bad)
  else if (lenN b =? sz)%N then (Idle, Got b) else (Part sz b, Need).

Definition rstep (s : rstate) (f : dframe) : rstate * rout :=
  match s, f with
  | Idle, Env sz d => fill sz d
  | Part sz b, More d => fill sz (b ++ d)
  | _, _ => (Failed, Bad)
  end.

Fixpoint run (s : rstate) (fs : list dframe) : rstate * list rout :=
  match fs with
  | [] => (s, [])
  | f :: fs' => let '(s', o) := rstep s f in let '(s'', os) := run s' fs' in (s'', o :: os)
  end.

(* the sender: cut [m] according to a list of chunk sizes *)
Fixpoint cut (cs : list nat) (m : list A) : list (list A) :=
  match cs with
  | [] => []
  | c :: cs' => firstn c m :: cut cs' (skipn c m)
  end.

Definition frames_of (m : list A) (cs : list nat) : list dframe :=
  match cut cs m with
  | [] => []
  | d :: ds => Env (lenN m) d :: map More ds
  end.

(* legal chunkings: what either sender can produce *)
Definition legal (cmax : nat) (cs : list nat) (m : list A) : Prop :=
  cs <> [] /\ list_sum cs = length m /\ Forall (fun c => c <= cmax) cs /\
  (m <> [] -> Forall (fun c => 0 < c) cs) /\ (m = [] -> length cs = 1).

Lemma run_more sz b cs rest :
  Forall (fun c => 0 < c) cs -> list_sum cs = length rest ->
  (lenN b + lenN rest = sz)%N -> cs <> [] ->
  run (Part sz b) (map More (cut cs rest)) =
    (Idle, repeat Need (length cs - 1) ++ [Got (b ++ rest)]).
Proof.
  revert b rest. induction cs as [|c cs IH]; intros b rest Hpos Hsum Hsz Hne; [congruence|].
  cbn [cut map run rstep]. apply Forall_cons_iff in Hpos as [Hc Hpos'].
  rewrite list_sum_cons in Hsum.
  assert (Hlen : length (firstn c rest) = c) by (rewrite firstn_length; lia).
  assert (Hlen' : length (skipn c rest) = list_sum cs) by (rewrite skipn_length; lia).
  unfold fill, lenN in *. rewrite app_length, Hlen.
  destruct cs as [|c' cs'].
  - rewrite ?list_sum_cons in *. change (list_sum []) with 0 in *. assert (c = length rest) by lia. subst c.
    rewrite firstn_all.
    replace (sz <? N.of_nat (length b + length rest))%N with false by lia.
    replace (N.of_nat (length b + length rest) =? sz)%N with true by lia.
    reflexivity.
  - assert (0 < c') by (apply Forall_cons_iff in Hpos' as [? _]; assumption). rewrite ?list_sum_cons in *. change (list_sum []) with 0 in *.
    replace (sz <? N.of_nat (length b + c))%N with false by lia.
    replace (N.of_nat (length b + c) =? sz)%N with false by lia.
    rewrite (IH (b ++ firstn c rest) (skipn c rest)); try assumption; try congruence.
    + rewrite <- app_assoc, firstn_skipn. cbn [length Nat.sub]. rewrite Nat.sub_0_r. reflexivity.
    + rewrite app_length, Hlen. lia.
Qed.

Theorem reasm_roundtrip cmax m cs :
  legal cmax cs m ->
  run Idle (frames_of m cs) = (Idle, repeat Need (length cs - 1) ++ [Got m]).
Proof.
  intros (Hne & Hsum & _ & Hpos & Hemp). unfold frames_of.
  destruct cs as [|c cs]; [congruence|]. cbn [cut run rstep]. unfold fill.
  rewrite list_sum_cons in Hsum.
  destruct m as [|a m'].
  - specialize (Hemp eq_refl). destruct cs; [|discriminate]. cbn in *.
    assert (c = 0) by lia. subst c. reflexivity.
  - specialize (Hpos ltac:(discriminate)). apply Forall_cons_iff in Hpos as [Hc Hpos].
    set (m := a :: m') in *.
    assert (Hlen : length (firstn c m) = c) by (rewrite firstn_length; lia).
    unfold lenN. rewrite Hlen.
    destruct cs as [|c' cs'].
    + change (list_sum []) with 0 in Hsum. assert (c = length m) by lia. subst c.
      rewrite firstn_all.
      replace (N.of_nat (length m) <? N.of_nat (length m))%N with false by lia.
      replace (N.of_nat (length m) =? N.of_nat (length m))%N with true by lia.
      reflexivity.
    + assert (0 < c') by (apply Forall_cons_iff in Hpos as [? _]; assumption).
      rewrite list_sum_cons in Hsum.
      replace (N.of_nat (length m) <? N.of_nat c)%N with false by lia.
      replace (N.of_nat c =? N.of_nat (length m))%N with false by lia.
      rewrite (@run_more (N.of_nat (length m)) (firstn c m) (c' :: cs') (skipn c m)); try assumption; try congruence.
      * rewrite firstn_skipn. cbn [length Nat.sub]. rewrite Nat.sub_0_r. reflexivity.
      * rewrite skipn_length, list_sum_cons. lia.
      * unfold lenN. rewrite Hlen, skipn_length. lia.
Qed.
Print Assumptions reasm_roundtrip.
End Reasm.
