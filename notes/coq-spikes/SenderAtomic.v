From Coq Require Import List Arith NArith ZArith Lia Bool ZifyN ZifyNat ZifyBool.
Import ListNotations.
Local Open Scope N_scope.
Ltac Zify.zify_post_hook ::= Z.div_mod_to_equations.

(* thread-level model of defaultSender.send / updateWindow (flow_control.go:60-117) *)
Definition M32 : N := 2^32.
Section S.
Variable cmax : N.
Hypothesis cmax_pos : 0 < cmax.

Inductive spc := SLoad | SWait | SCas (w : N) | SEmit (c : N) | SRet (ok : bool).
Inductive upc := UIdle | UAdded (prev : N).

Record st := { win : N; tok : bool; sp : spc; up : upc; rem : N; first : bool;
               cancelled : bool; out : list (N * bool) (* chunk len, first *) }.

Inductive lbl := LLoad | LWaitTok | LWaitCtx | LCas | LEmit | UAdd (a : N) | USignal | Cancel.

Definition step (s : st) (l : lbl) : option st :=
  match l, sp s, up s with
  | LLoad, SLoad, _ =>
      Some (if win s =? 0 then {| win := win s; tok := tok s; sp := SWait; up := up s; rem := rem s; first := first s; cancelled := cancelled s; out := out s |}
            else {| win := win s; tok := tok s; sp := SCas (win s); up := up s; rem := rem s; first := first s; cancelled := cancelled s; out := out s |})
  | LWaitTok, SWait, _ =>
      if tok s then Some {| win := win s; tok := false; sp := SLoad; up := up s; rem := rem s; first := first s; cancelled := cancelled s; out := out s |} else None
  | LWaitCtx, SWait, _ =>
      if cancelled s then Some {| win := win s; tok := tok s; sp := SRet false; up := up s; rem := rem s; first := first s; cancelled := cancelled s; out := out s |} else None
  | LCas, SCas w, _ =>
      let c := N.min w (N.min (rem s) cmax) in
      Some (if win s =? w then {| win := w - c; tok := tok s; sp := SEmit c; up := up s; rem := rem s; first := first s; cancelled := cancelled s; out := out s |}
            else {| win := win s; tok := tok s; sp := SLoad; up := up s; rem := rem s; first := first s; cancelled := cancelled s; out := out s |})
  | LEmit, SEmit c, _ =>
      Some {| win := win s; tok := tok s; sp := (if c =? rem s then SRet true else SLoad); up := up s; rem := rem s - c; first := false; cancelled := cancelled s; out := out s ++ [(c, first s)] |}
  | UAdd a, _, UIdle =>
      if a =? 0 then Some s else
      Some {| win := (win s + a) mod M32; tok := tok s; sp := sp s; up := UAdded (win s); rem := rem s; first := first s; cancelled := cancelled s; out := out s |}
  | USignal, _, UAdded p =>
      Some {| win := win s; tok := (if p =? 0 then true else tok s); sp := sp s; up := UIdle; rem := rem s; first := first s; cancelled := cancelled s; out := out s |}
  | Cancel, _, _ =>
      Some {| win := win s; tok := tok s; sp := sp s; up := up s; rem := rem s; first := first s; cancelled := true; out := out s |}
  | _, _, _ => None
  end.

(* no lost wake-up *)
Definition Inv (s : st) : Prop :=
  win s < M32 /\ (sp s = SWait -> 0 < win s -> tok s = true \/ up s = UAdded 0).

Lemma step_inv s l s' : Inv s -> step s l = Some s' -> Inv s'.
Proof.
  unfold Inv, step. intros [Hb H] E.
  destruct l, (sp s) eqn:Esp, (up s) eqn:Eup; try discriminate;
    repeat match type of E with
    | context [if ?b then _ else _] => destruct b eqn:?
    end; inversion E; subst; clear E; cbn [win tok sp up] in *;
    (split; [ try lia; try (apply N.mod_upper_bound; discriminate) | ]);
    intros Hsp Hpos; try discriminate; try (rewrite Esp in Hsp; discriminate).
  (* remaining: the sender is (still) parked in Wait *)
  all: try (exfalso; lia).
  all: try (rewrite Esp in *; solve [auto]).
  all: try (specialize (H eq_refl)).
  all: try (destruct (N.eq_dec (win s) 0) as [Hz|Hz];
            [ solve [right; f_equal; lia | lia | auto]
            | destruct H as [Ht|Hu]; [lia| | ]; solve [auto | congruence | left; reflexivity] ]).
  all: try (destruct (H Hpos) as [?|?]; [left; assumption| congruence]).
  destruct (H Hpos) as [?|Hu]; [left; assumption|]. injection Hu as Hu. exfalso; lia.
Qed.

(* consequence: a sender parked in Wait while credit is available is always woken once the
   updater has finished its call *)
Theorem never_stranded s : Inv s -> sp s = SWait -> 0 < win s -> up s = UIdle ->
  exists s', step s LWaitTok = Some s'.
Proof.
  intros [_ H] Hw Hp Hu. destruct (H Hw Hp) as [Ht|Hc]; [|congruence].
  unfold step. rewrite Hw, Ht. eauto.
Qed.
End S.
Print Assumptions never_stranded.
