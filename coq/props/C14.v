(* C14 — finished RPCs and finished tunnels leave nothing behind. *)
From Coq Require Import List ZArith Bool Arith.
From GT Require Import Tables TablesProofs Waits WaitsProofs.
Import ListNotations.

(* finishing removes the table entry and nothing else *)
Theorem C14_server_entry_removed : forall s id y, In y (s_active (st_remove s id)) <-> In y (s_active s) /\ y <> id.
Proof. intros s id y. exact (zremove_In id y (s_active s)). Qed.
Print Assumptions C14_server_entry_removed.

Theorem C14_client_entry_removed : forall c id y, In y (c_active (ct_remove c id)) <-> In y (c_active c) /\ y <> id.
Proof. intros c id y. exact (zremove_In id y (c_active c)). Qed.
Print Assumptions C14_client_entry_removed.

(* the per-stream goroutines (context watcher, blocked reader / sender / Header caller) can all
   leave once the stream's context has ended, and the internal activity terminates *)
Theorem C14_goroutines_can_exit : forall client ls s,
  wrun client st0 ls = Some s -> ctx_done s = true -> internal_enabled client s = false -> all_exits s = true.
Proof. exact nothing_hangs_after_context_end. Qed.
Print Assumptions C14_goroutines_can_exit.

Theorem C14_activity_terminates : forall client ls s l s',
  wrun client st0 ls = Some s -> (l = WatcherStep \/ l = FinishStep) -> wstep client s l = Some s' ->
  wmeasure s' < wmeasure s.
Proof. exact internal_activity_terminates. Qed.
Print Assumptions C14_activity_terminates.

(* ---- one RPC end to end (Rpc.v), every interleaving: finished means removed from both tables ---- *)
From GT Require Import Rpc RpcProofs RpcSystem.
Theorem C14_rpc_tables_clean : forall strict ls s, rrun strict r_init ls = Some s ->
  (k_done (r_k s) <> None -> c_quiet (r_k s) = true -> k_tab (r_k s) = false) /\
  (v_h (r_v s) = HRet -> v_hf (r_v s) = S0 -> v_tab (r_v s) = false) /\
  (v_h (r_v s) = HRej \/ v_h (r_v s) = HNone -> v_tab (r_v s) = false) /\
  (v_closed (r_v s) = true -> v_tab (r_v s) = false).
Proof. exact rpc_tables_clean. Qed.
Print Assumptions C14_rpc_tables_clean.
(* the goroutines spawned for a stream (finishers, the close / refusal goroutine, a pending window
   update) run out of work: each of their steps strictly decreases a measure *)
From GT Require Import RpcInv RpcProgress.
Theorem C14_rpc_server_internal_steps_terminate : forall strict v l v' em,
  vinv0 strict v = true -> In l v_internal -> vstep strict v l = Some (v', em) -> v_measure v' < v_measure v.
Proof. exact rpc_server_internal_steps_terminate. Qed.
Print Assumptions C14_rpc_server_internal_steps_terminate.
From GT Require Import MultiRpc MultiRpcProofs.
Theorem C14_multi_tables_clean : forall strict n ls m i,
  mrun strict (m_init n) ls = Some m -> i < n ->
  (k_done (p_k (get m i)) <> None -> c_quiet (p_k (get m i)) = true -> k_tab (p_k (get m i)) = false) /\
  (v_closed (p_v (get m i)) = true -> v_tab (p_v (get m i)) = false).
Proof. exact multi_tables_clean. Qed.
Print Assumptions C14_multi_tables_clean.
