(* C03 — RPCs sharing a tunnel are independent. Safety core: with two conforming endpoints,
   whatever RPCs are started, refused (server shutting down, unsupported revision, malformed or
   unknown method), finished, cancelled or failed at either end, and in whatever order frames
   are emitted and processed, no receive loop ever reports a tunnel-level error. *)
From Coq Require Import List ZArith NArith.
From GT Require Import Tables TablesProofs Recvq RecvqProofs.
Import ListNotations.

Theorem C03_no_rpc_event_kills_the_tunnel : forall ls t, trun tun0 ls = Some t -> t_err t = false.
Proof. exact no_rpc_event_kills_the_tunnel. Qed.
Print Assumptions C03_no_rpc_event_kills_the_tunnel.

(* a refused RPC's id is recorded, so the frames its caller already sent are ignored *)
Theorem C03_refused_id_is_recorded : forall s id rev m, (s_last s < id)%Z -> ~ In id (s_active s) ->
  st_create s id true rev m = (mkStab id (s_active s), CReject (nth 0 GTgen.Params.create_rejection_codes 0%N)).
Proof. exact closing_refuses. Qed.
Print Assumptions C03_refused_id_is_recorded.

Theorem C03_recorded_id_never_kills : forall s id cl rev m,
  snd (st_create s id cl rev m) <> CTunnelErr -> forall s', (s_last s' >= id)%Z -> st_get s' id <> GTunnelErr.
Proof. exact recorded_id_never_kills. Qed.
Print Assumptions C03_recorded_id_never_kills.

(* no head-of-line blocking with flow control: the receive loop's hand-off never blocks - accept
   either enqueues, drops (closed) or refuses (overrun), for every frame size *)
Theorem C03_accept_never_blocks : forall (T : Type) (measure : T -> N) (q : rq T) x,
  (rq_closed q = true /\ rq_accept measure q x = (q, AccDropped)) \/
  (rq_closed q = false /\ (rq_win q < measure x)%N /\ rq_accept measure q x = (q, AccOverrun)) \/
  (rq_closed q = false /\ (measure x <= rq_win q)%N /\
   rq_accept measure q x = (mkRq (rq_items q ++ [x]) (rq_win q - measure x) (rq_closed q) (rq_cancelled q), AccOk)).
Proof. exact accept_cases. Qed.
Print Assumptions C03_accept_never_blocks.

(* many streams on one carrier of bounded capacity (MultiPipe.v): the frame at the head of the
   carrier can always be taken by the receive loop, whatever the applications of the streams do -
   no stream's unread data holds up another stream's frames *)
From GT Require Import Frames Pipe MultiPipe MultiPipeProofs.
Theorem C03_no_head_of_line_blocking : forall (A : Type) cmax W K, 0 < K ->
  forall n ls (m : mst A), mrun cmax K (m_init A W n) ls = Some m ->
  m_wire m <> [] -> exists m', mstep cmax K m MDeliver = Some m'.
Proof. exact multi_head_always_deliverable. Qed.
Print Assumptions C03_no_head_of_line_blocking.

(* ---- one RPC end to end (Rpc.v): no interleaving of its sends, half-close, cancellation, refusal,
   completion and late frames makes either receive loop end the tunnel ---- *)
From GT Require Import Rpc RpcProofs RpcSystem.
Theorem C03_rpc_never_ends_the_tunnel : forall strict ls s, rrun strict r_init ls = Some s ->
  k_err (r_k s) = false /\ v_err (r_v s) = false.
Proof. exact rpc_tunnel_survives. Qed.
Print Assumptions C03_rpc_never_ends_the_tunnel.

(* ---- many RPCs on one tunnel (MultiRpc.v): n instances of the per-RPC components on two shared
   queues; every stream of every run is a run of Rpc.v, so RPCs are independent at the control level ---- *)
From GT Require Import MultiRpc MultiRpcProofs.
Theorem C03_every_stream_runs_as_if_alone : forall strict n ls m i,
  mrun strict (m_init n) ls = Some m -> i < n -> exists ls', rrun strict r_init ls' = Some (proj_state i m).
Proof. exact multi_rpc_refines. Qed.
Print Assumptions C03_every_stream_runs_as_if_alone.
Theorem C03_no_rpc_of_many_ends_the_tunnel : forall strict n ls m i,
  mrun strict (m_init n) ls = Some m -> i < n -> k_err (p_k (get m i)) = false /\ v_err (p_v (get m i)) = false.
Proof. exact multi_no_rpc_ends_the_tunnel. Qed.
Print Assumptions C03_no_rpc_of_many_ends_the_tunnel.
