(* C18 — a grpc-timeout request header becomes exactly that handler deadline.
   Statements only; every proof is [exact <lemma>]. *)
From Coq Require Import List NArith ZArith Bool.
From GT Require Import Timeout TimeoutProofs.
Import ListNotations.
Local Open Scope Z_scope.

(* The parser (model of timeoutFromHeaders, tied to the code by M1) computes
   exactly the duration the gRPC wire specification assigns, on every byte
   string: 1..8 ASCII digits and a unit H M S m u n, value times unit in
   nanoseconds, saturated at 2^63-1; everything else yields no deadline. *)
Theorem C18_exact : forall s : list N, impl_timeout s = spec_timeout s.
Proof. exact impl_timeout_is_spec. Qed.
Print Assumptions C18_exact.

(* explicit form for well-formed values *)
Theorem C18_wellformed : forall ds u k,
  (1 <= length ds <= 8)%nat -> forallb is_digit ds = true -> spec_unit u = Some k ->
  impl_timeout (ds ++ [u]) = Some (Z.min (digits_value ds * k) max_int64).
Proof. exact wellformed_exact. Qed.
Print Assumptions C18_wellformed.

(* saturation, never wrap-around: every deadline is in [0, 2^63-1] *)
Theorem C18_no_wrap : forall s d, impl_timeout s = Some d -> 0 <= d <= max_int64.
Proof. exact timeout_in_range. Qed.
Print Assumptions C18_no_wrap.

(* a malformed header never shortens the deadline (it yields none) *)
Theorem C18_malformed : forall s, malformed s -> impl_timeout s = None.
Proof. exact malformed_never_shortens. Qed.
Print Assumptions C18_malformed.

(* repeated headers: the last value decides, and it is decided by the spec *)
Theorem C18_headers : forall vals, timeout_from_headers vals = spec_from_headers vals.
Proof. exact headers_last_wins. Qed.
Print Assumptions C18_headers.

(* the unit table read from the source on this run is the specification's *)
Theorem C18_unit_table : forall u, lookup_unit u GTgen.Params.timeout_unit_table = spec_unit u.
Proof. exact unit_table_is_spec. Qed.
Print Assumptions C18_unit_table.

(* regression witness: the parser before the repair violates the property *)
Theorem C18_v0_refuted :
  (exists s, malformed s /\ exists d, impl_timeout_v0 s = Some d /\ d < 0) /\
  (exists s d, spec_timeout s = Some d /\ exists d', impl_timeout_v0 s = Some d' /\ d' < 0).
Proof. exact v0_refuted. Qed.
Print Assumptions C18_v0_refuted.
