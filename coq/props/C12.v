(* C12 — reverse-tunnel registry matches the open tunnels. *)
From Coq Require Import List NArith Permutation.
From GT Require Import Registry RegistryProofs.
Import ListNotations.

Theorem C12_ready_iff_nonempty : forall ops : list rc_op,
  let c := fold_left rc_apply ops rc_new in
  avail_closed c = rc_ready c /\ (rc_ready c = true <-> rc_all c <> []).
Proof. exact latch_always. Qed.
Print Assumptions C12_ready_iff_nonempty.

Theorem C12_pick_is_member : forall c c' p, rc_pick c = (c', p) ->
  chans c' = chans c /\ match p with Some t => In t (rc_all c) | None => chans c = [] end.
Proof. exact pick_member. Qed.
Print Assumptions C12_pick_is_member.

(* any n consecutive picks over a stable set of n tunnels use each exactly once, from every
   cursor position *)
Theorem C12_round_robin : forall c, chans c <> [] ->
  Permutation (snd (rc_picks (length (chans c)) c)) (map Some (rc_all c)).
Proof. exact round_robin. Qed.
Print Assumptions C12_round_robin.

(* the two-level registry after every history of tunnels opening (any, colliding or nil keys),
   closing and RPC routing: AllReverseTunnels / AsChannel see exactly the open tunnels, and
   KeyAsChannel(k) exactly those whose key is k; Ready(k) iff that set is non-empty *)
Theorem C12_registry_matches_open_tunnels : forall ops, wf_history [] ops ->
  let r := fold_left reg_apply ops reg_new in
  let o := fold_left open_apply ops [] in
  rc_all (glob r) = map fst o /\
  forall k, reg_key_all r k = map fst (keyed k o) /\ (reg_key_ready r k = true <-> keyed k o <> []).
Proof. exact registry_matches_open_tunnels. Qed.
Print Assumptions C12_registry_matches_open_tunnels.

(* code shape, regenerated from the source on every run (see theories/SkelClose.v) *)
From Coq Require Import String.
From GT Require Import SkelClose.
From GTgen Require Import Params.
Local Open Scope string_scope.
Theorem C12_registry_add_shape : skel_reverseChannels_add =
  ["call mu.Lock"; "defer call mu.Unlock"; "set chans"; "close avail"].
Proof. exact reverseChannels_add_shape. Qed.
Print Assumptions C12_registry_add_shape.
Theorem C12_registry_remove_shape : skel_reverseChannels_remove =
  ["call mu.Lock"; "defer call mu.Unlock"; "set chans"; "set avail"].
Proof. exact reverseChannels_remove_shape. Qed.
Print Assumptions C12_registry_remove_shape.
