(* C12 — reverse-tunnel registry matches the open tunnels. *)
From Coq Require Import List NArith Permutation.
From GT Require Import Registry RegistryProofs.
Import ListNotations.

Theorem C12_ready_iff_nonempty : forall ops : list rc_op,
  let c := fold_left rc_apply ops rc_new in
  avail_closed c = rc_ready c /\ (rc_ready c = true <-> rc_all c <> []).
Proof. exact latch_always. Qed.
Print Assumptions C12_ready_iff_nonempty.

Theorem C12_pick_is_member : forall c c' p, rc_pick c = (c', p) ->
  chans c' = chans c /\ match p with Some t => In t (rc_all c) | None => chans c = [] end.
Proof. exact pick_member. Qed.
Print Assumptions C12_pick_is_member.

(* any n consecutive picks over a stable set of n tunnels use each exactly once, from every
   cursor position *)
Theorem C12_round_robin : forall c, chans c <> [] ->
  Permutation (snd (rc_picks (length (chans c)) c)) (map Some (rc_all c)).
Proof. exact round_robin. Qed.
Print Assumptions C12_round_robin.
