(* C11 — revision negotiation and revision-zero interoperability. *)
From Coq Require Import List ZArith Bool.
From GT Require Import Negotiate NegotiateProofs.
From GTgen Require Import Params.
Import ListNotations.
Local Open Scope Z_scope.

Theorem C11_highest_common : forall mine theirs, Forall (fun r => 0 <= r) mine ->
  let theirs' := match theirs with [] => [0] | _ => theirs end in
  match choose_rev mine theirs with
  | Some r => is_highest_common mine theirs' r
  | None => forall r, In r mine -> In r theirs' -> False
  end.
Proof. exact choose_rev_spec. Qed.
Print Assumptions C11_highest_common.

Theorem C11_empty_list_is_revision_zero : forall mine, In 0 mine -> Forall (fun r => 0 <= r) mine ->
  choose_rev mine [] = Some 0.
Proof. exact empty_means_zero. Qed.
Print Assumptions C11_empty_list_is_revision_zero.

Theorem C11_no_common_revision_fails : forall mine theirs, theirs <> [] ->
  (forall r, In r mine -> In r theirs -> False) -> choose_rev mine theirs = None.
Proof. exact no_common_fails. Qed.
Print Assumptions C11_no_common_revision_fails.

Theorem C11_matrix : forall c_adv s_adv c_dis s_dis,
  let m := tunnel_mode c_adv s_adv c_dis s_dis in
  flow_control_used m = (c_adv && s_adv && negb c_dis && negb s_dis)%bool /\
  (match m with ModeRev _ se => se = (c_adv && s_adv)%bool | ModeFail => False end) /\
  (match m with ModeRev r _ => r = if (c_adv && s_adv && negb c_dis && negb s_dis)%bool then 1 else 0 | ModeFail => False end).
Proof. exact mode_matrix. Qed.
Print Assumptions C11_matrix.

Theorem C11_revision_lists : revisions_default = [0; 1] /\ revisions_fc_disabled = [0].
Proof. exact revisions_facts. Qed.
Print Assumptions C11_revision_lists.
