(* C04 — tunnel termination ends every RPC; nothing hangs (safety form: every blocking point
   has an enabled exit in every quiescent state after the stream's context ended - which the
   tunnel's tear-down does for every stream - plus termination of the internal activity). *)
From Coq Require Import List Bool Arith.
From GT Require Import Waits WaitsProofs SenderAtomic SenderAtomicProofs Tables TablesProofs.
Import ListNotations.

Theorem C04_nothing_hangs : forall client ls s,
  wrun client st0 ls = Some s -> ctx_done s = true -> internal_enabled client s = false -> all_exits s = true.
Proof. exact nothing_hangs_after_context_end. Qed.
Print Assumptions C04_nothing_hangs.

Theorem C04_internal_activity_terminates : forall client ls s l s',
  wrun client st0 ls = Some s -> (l = WatcherStep \/ l = FinishStep) -> wstep client s l = Some s' ->
  wmeasure s' < wmeasure s.
Proof. exact internal_activity_terminates. Qed.
Print Assumptions C04_internal_activity_terminates.

(* a sender blocked on its window leaves as soon as its context is done *)
Theorem C04_blocked_sender_released : forall cmax s, sp s = SWait -> cancelled s = true ->
  exists s', step cmax s LWaitCtx = Some s'.
Proof. exact cancel_releases. Qed.
Print Assumptions C04_blocked_sender_released.

(* RPCs started on a finished channel fail at once *)
Theorem C04_start_on_finished_channel_fails : forall c, c_finished c = true -> ct_alloc c = (c, None).
Proof. exact alloc_fails_when_finished. Qed.
Print Assumptions C04_start_on_finished_channel_fails.

(* Stop of a reverse-tunnel server ends every tunnel it still tracks, also after a GracefulStop
   (the guards of the state machine are regenerated from the source: theories/RevServer.v) *)
From GT Require Import RevServer.
Theorem C04_stop_ends_every_tracked_tunnel : forall s, rs_state s <> Closed ->
  rs_open (rs_step s OStop) = [] /\ forall t, In t (rs_open s) -> In t (rs_told (rs_step s OStop)).
Proof. exact stop_ends_every_tracked_tunnel. Qed.
Print Assumptions C04_stop_ends_every_tracked_tunnel.

(* ---- one RPC end to end (Rpc.v) when the tunnel ends at the calling end (Close, the tunnel's context,
   a failure of the carrier), in every interleaving ---- *)
From GT Require Import Rpc RpcInv RpcProofs RpcSystem RpcProgress RpcEnd.
(* RPCs started on that tunnel afterwards fail immediately instead of hanging: nothing is sent, no stream *)
Theorem C04_rpc_started_after_the_end_fails_at_once : forall strict ls s,
  rrun strict r_init ls = Some s -> k_chend (r_k s) = true -> k_new (r_k s) = false ->
  exists s', rstep strict s (LK CNew) = Some s' /\ k_new (r_k s') = false /\ h_c s' = h_c s /\ q_c s' = q_c s.
Proof. exact rpc_started_after_the_end_fails_at_once. Qed.
Print Assumptions C04_rpc_started_after_the_end_fails_at_once.
(* every in-flight call is released: its table entry is gone, its context cancelled, and its terminal result is
   reached by steps of the client's own goroutines *)
Theorem C04_rpc_in_flight_call_is_released : forall strict ls s,
  rrun strict r_init ls = Some s -> k_chend (r_k s) = true -> k_new (r_k s) = true -> k_sig (r_k s) = false ->
  k_tab (r_k s) = false /\ exists l, In l [CWatch; CRemove; CPublish] /\ exists s', rstep strict s (LK l) = Some s'.
Proof. exact rpc_in_flight_call_is_released. Qed.
Print Assumptions C04_rpc_in_flight_call_is_released.
(* ... and that result is non-OK: an unfinished call can no longer be finished by the peer's close *)
Theorem C04_rpc_unfinished_call_cannot_succeed_after_the_end : forall strict s l s',
  kinv (r_k s) = true -> k_chend (r_k s) = true -> k_done (r_k s) = None -> rstep strict s l = Some s' ->
  k_done (r_k s') = None \/ k_done (r_k s') = Some ByCtx \/ k_done (r_k s') = Some ByReader.
Proof. exact rpc_unfinished_call_cannot_succeed_after_the_end. Qed.
Print Assumptions C04_rpc_unfinished_call_cannot_succeed_after_the_end.
