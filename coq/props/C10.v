(* C10 — graceful shutdown refuses new RPCs and lets in-flight ones finish. *)
From Coq Require Import List ZArith NArith.
From GT Require Import Tables TablesProofs ParamsFacts.
Import ListNotations.

(* a new_stream arriving while closing is refused (first rejection code = Unavailable) and
   neither inserts an entry nor touches the existing ones *)
Theorem C10_refused_while_closing : forall s id rev m, (s_last s < id)%Z -> ~ In id (s_active s) ->
  st_create s id true rev m = (mkStab id (s_active s), CReject (nth 0 GTgen.Params.create_rejection_codes 0%N)).
Proof. exact closing_refuses. Qed.
Print Assumptions C10_refused_while_closing.

Theorem C10_code_is_unavailable : GTgen.Params.create_rejection_codes = [14; 14; 3; 12]%N.
Proof. exact rejection_codes. Qed.
Print Assumptions C10_code_is_unavailable.

(* the tunnel stays up for the RPCs in flight: refusals (the [closing_then] flag of new_stream
   labels is arbitrary) never produce a tunnel error under any interleaving *)
Theorem C10_tunnel_stays_up : forall ls t, trun tun0 ls = Some t -> t_err t = false.
Proof. exact no_rpc_event_kills_the_tunnel. Qed.
Print Assumptions C10_tunnel_stays_up.

(* the reverse-tunnel server's shutdown state machine, with the guards regenerated from the source:
   once GracefulStop or Stop has been called the server is closing for ever (whatever operations
   follow), and a Stop that was not preceded by a Stop ends every tunnel still tracked *)
From Coq Require Import String.
From GT Require Import RevServer.
From GTgen Require Import Params.
Local Open Scope string_scope.
Theorem C10_reverse_server_guards : 
  rs_states = ["stateActive"; "stateClosing"; "stateClosed"] /\
  rs_guards = [("isClosing", "state >= stateClosing"); ("isClosed", "state >= stateClosed");
               ("addInstance", "state >= stateClosing"); ("Stop", "state == stateClosed");
               ("GracefulStop", "state != stateActive")].
Proof. exact rs_shape. Qed.
Print Assumptions C10_reverse_server_guards.

Theorem C10_reverse_server_closing_forever : forall s o ops,
  (o = OStop \/ o = OGraceful) -> is_closing (rs_run (rs_step s o) ops) = true.
Proof. exact after_shutdown_always_closing. Qed.
Print Assumptions C10_reverse_server_closing_forever.

Theorem C10_stop_after_graceful_ends_tunnels : forall s, rs_state s <> Closed ->
  rs_open (rs_step s OStop) = [] /\ forall t, In t (rs_open s) -> In t (rs_told (rs_step s OStop)).
Proof. exact stop_ends_every_tracked_tunnel. Qed.
Print Assumptions C10_stop_after_graceful_ends_tunnels.
