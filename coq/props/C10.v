(* C10 — graceful shutdown refuses new RPCs and lets in-flight ones finish. *)
From Coq Require Import List ZArith NArith.
From GT Require Import Tables TablesProofs ParamsFacts.
Import ListNotations.

(* a new_stream arriving while closing is refused (first rejection code = Unavailable) and
   neither inserts an entry nor touches the existing ones *)
Theorem C10_refused_while_closing : forall s id rev m, (s_last s < id)%Z -> ~ In id (s_active s) ->
  st_create s id true rev m = (mkStab id (s_active s), CReject (nth 0 GTgen.Params.create_rejection_codes 0%N)).
Proof. exact closing_refuses. Qed.
Print Assumptions C10_refused_while_closing.

Theorem C10_code_is_unavailable : GTgen.Params.create_rejection_codes = [14; 14; 3; 12]%N.
Proof. exact rejection_codes. Qed.
Print Assumptions C10_code_is_unavailable.

(* the tunnel stays up for the RPCs in flight: refusals (the [closing_then] flag of new_stream
   labels is arbitrary) never produce a tunnel error under any interleaving *)
Theorem C10_tunnel_stays_up : forall ls t, trun tun0 ls = Some t -> t_err t = false.
Proof. exact no_rpc_event_kills_the_tunnel. Qed.
Print Assumptions C10_tunnel_stays_up.
