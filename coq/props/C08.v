(* C08 — stream ids unique and increasing; one RPC, one handler invocation. *)
From Coq Require Import List ZArith NArith.
From GT Require Import Tables TablesProofs ParamsFacts.
Import ListNotations.
Local Open Scope Z_scope.

(* every allocation yields the next id: distinct, increasing *)
Theorem C08_alloc_fresh_increasing : forall c c' id, ct_alloc c = (c', Some id) ->
  id = c_last c + 1 /\ c_last c' = id /\ c_created c' = true /\ c_active c' = id :: c_active c.
Proof. exact alloc_fresh_increasing. Qed.
Print Assumptions C08_alloc_fresh_increasing.

(* on the wire, under every interleaving: new_stream ids strictly increase and every other
   frame follows the new_stream of its id *)
Theorem C08_wire_order : forall ls t, trun tun0 ls = Some t -> wfq (s_last (t_s t)) (t_seen t) (t_c2s t).
Proof. exact ids_increase_on_the_wire. Qed.
Print Assumptions C08_wire_order.

(* the server refuses an id that is not greater than all it has seen ... *)
Theorem C08_old_id_is_tunnel_error : forall s id cl rev m, id <= s_last s -> snd (st_create s id cl rev m) = CTunnelErr.
Proof. exact create_refuses_old_ids. Qed.
Print Assumptions C08_old_id_is_tunnel_error.

(* ... ignores further frames for ids it has finished with, and treats never-seen ids as an error *)
Theorem C08_finished_id_ignored : forall s id, In id (s_active s) -> id <= s_last s -> st_get (st_remove s id) id = GIgnore.
Proof. exact finished_id_is_ignored. Qed.
Print Assumptions C08_finished_id_ignored.

Theorem C08_never_seen_id_is_error : forall s id, s_last s < id -> ~ In id (s_active s) -> st_get s id = GTunnelErr.
Proof. exact never_seen_id_is_tunnel_error. Qed.
Print Assumptions C08_never_seen_id_is_error.

(* an accepted stream is inserted exactly once (a second new_stream for it is a tunnel error) *)
Theorem C08_accept_once : forall s id cl rev m,
  let '(s', r) := st_create s id cl rev m in
  match r with
  | CTunnelErr => s' = s /\ (In id (s_active s) \/ id <= s_last s)
  | CReject _ => s_last s < id /\ ~ In id (s_active s) /\ s_last s' = id /\ s_active s' = s_active s
  | CAccept => s_last s < id /\ ~ In id (s_active s) /\ s_last s' = id /\ s_active s' = id :: s_active s /\
               cl = false /\ (rev = 0 \/ rev = 1) /\ m = MOk
  end.
Proof. exact create_cases. Qed.
Print Assumptions C08_accept_once.

Theorem C08_initial_last_seen : GTgen.Params.last_seen0 = -1.
Proof. exact last_seen_starts_below_zero. Qed.
Print Assumptions C08_initial_last_seen.

(* code shape, regenerated from the source on every run (see theories/SkelNewStream.v) *)
From Coq Require Import String.
From GT Require Import SkelNewStream.
From GTgen Require Import Params.
Local Open Scope string_scope.
Theorem C08_new_stream_shape : skel_tunnelChannel_newStream =
  ["call streamCreation.Lock"; "defer call streamCreation.Unlock"; "call allocateStream"; "call stream.Send"; "call removeStream"; "go func"].
Proof. exact tunnelChannel_newStream_shape. Qed.
Print Assumptions C08_new_stream_shape.

(* ---- one RPC end to end (Rpc.v), every interleaving ---- *)
From GT Require Import Rpc RpcProofs RpcSystem.
(* each started RPC results in at most one handler invocation; exactly one once the stream was accepted *)
Theorem C08_rpc_at_most_one_invocation : forall strict ls s, rrun strict r_init ls = Some s ->
  (n_inv s <= 1)%nat /\ (n_inv s = 1%nat <-> h_live (r_v s) = true).
Proof. exact rpc_at_most_one_invocation. Qed.
Print Assumptions C08_rpc_at_most_one_invocation.
(* each RPC begins with its new-stream frame; the id is never reused, never unknown to the server *)
Theorem C08_rpc_id_accepted_once : forall strict ls s, rrun strict r_init ls = Some s ->
  k_err (r_k s) = false /\ v_err (r_v s) = false.
Proof. exact rpc_tunnel_survives. Qed.
Print Assumptions C08_rpc_id_accepted_once.

(* ---- many RPCs on one tunnel (MultiRpc.v): ids under the creation lock ---- *)
From GT Require Import MultiRpc MultiRpcProofs MultiRpcIds.
(* the new_stream frames are on the wire in strictly increasing id order, one per started RPC *)
Theorem C08_multi_ids_increase_on_the_wire : forall n strict ls m,
  mrun strict (m_init n) ls = Some m -> exists c, (c <= n)%nat /\ newsof (mh_c m) = seq 0 c.
Proof. exact multi_ids_increase_on_the_wire. Qed.
Print Assumptions C08_multi_ids_increase_on_the_wire.
(* the serve loop's test "id <= lastSeen" is exactly "this stream's new_stream was seen": ids are never
   refused although fresh, never accepted although used *)
Theorem C08_multi_lastseen_exact : forall n strict ls m j,
  mrun strict (m_init n) ls = Some m -> (j < n)%nat -> seen (p_v (get m j)) = Nat.ltb j (m_last m).
Proof. exact multi_lastseen_exact. Qed.
Print Assumptions C08_multi_lastseen_exact.
Theorem C08_multi_one_invocation_each : forall strict n ls m i,
  mrun strict (m_init n) ls = Some m -> (i < n)%nat -> (p_n (get m i) <= 1)%nat.
Proof. exact multi_one_invocation_each. Qed.
Print Assumptions C08_multi_one_invocation_each.

(* code shape of the table look-ups the models transcribe (theories/SkelRpc.v) *)
From Coq Require Import String.
From GT Require Import SkelRpc.
From GTgen Require Import Params.
Local Open Scope string_scope.
Theorem C08_server_getStream_shape : gskel_tunnelServer_getStream =
  ["call mu.RLock"; "defer call mu.RUnlock"; "if streamID <= lastSeen"; "return"; "fi"; "return"; "return"].
Proof. exact tunnelServer_getStream_shape. Qed.
Print Assumptions C08_server_getStream_shape.
Theorem C08_client_getStream_shape : gskel_tunnelChannel_getStream =
  ["call mu.RLock"; "defer call mu.RUnlock"; "if streamCreated && streamID <= lastStreamID"; "return"; "fi"; "return"; "return"].
Proof. exact tunnelChannel_getStream_shape. Qed.
Print Assumptions C08_client_getStream_shape.
