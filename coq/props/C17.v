(* C17 — handlers and callers can identify the tunnel; accessor results are private copies. *)
From Coq Require Import List NArith Bool Arith.
From GT Require Import Trace CtxCopy.
Import ListNotations.

Theorem C17_accessor_returns_equal_copy : forall s c s' l, store_wf s -> get_tunnel_md s c = (s', Some l) ->
  exists l0, tmd_loc c = Some l0 /\ read s' l = read s l0 /\ l <> l0 /\ store_wf s'.
Proof. exact accessor_returns_equal_copy. Qed.
Print Assumptions C17_accessor_returns_equal_copy.

Theorem C17_mutation_is_private : forall s c s' l m', store_wf s -> get_tunnel_md s c = (s', Some l) ->
  forall k, k <> l -> read (write s' l m') k = read s' k.
Proof. exact mutation_is_private. Qed.
Print Assumptions C17_mutation_is_private.

Theorem C17_two_copies_independent : forall s c s1 l1 s2 l2 m', store_wf s ->
  get_tunnel_md s c = (s1, Some l1) -> get_tunnel_md s1 c = (s2, Some l2) ->
  l1 <> l2 /\ read (write s2 l1 m') l2 = read s2 l2.
Proof. exact two_copies_are_independent. Qed.
Print Assumptions C17_two_copies_independent.
