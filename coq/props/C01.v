(* C01 — messages arrive exactly once, in order, intact, on the right RPC.
   Data-path theorems (for every payload alphabet A, every message, every legal
   chunking, every chunk limit); the per-RPC end-to-end statement is evaluated on
   every implementation trace by the extracted monitor mon_C01 (MonApp.v). *)
From Coq Require Import List Arith NArith.
From GT Require Import Frames FramesProofs Recvq RecvqProofs.
Import ListNotations.

(* whatever prefix of the frame stream has been consumed, the messages delivered are a
   prefix of the messages submitted: nothing duplicated, reordered, truncated, merged or
   fabricated; with the whole stream consumed the sequence is complete *)
Theorem C01_prefix : forall (A : Type) cmax (mcs : list (list A * list nat)) k,
  Forall (fun mc => legal cmax (snd mc) (fst mc)) mcs ->
  prefix (delivered_of (firstn k (frames_all mcs))) (map fst mcs).
Proof. exact delivered_prefix. Qed.
Print Assumptions C01_prefix.

Theorem C01_complete : forall (A : Type) cmax (mcs : list (list A * list nat)),
  Forall (fun mc => legal cmax (snd mc) (fst mc)) mcs ->
  fst (rrun RIdle (frames_all mcs)) = RIdle /\ delivered_of (frames_all mcs) = map fst mcs.
Proof. exact stream_roundtrip. Qed.
Print Assumptions C01_complete.

(* one message, any legal chunking: byte-for-byte identical *)
Theorem C01_roundtrip : forall (A : Type) cmax (m : list A) cs, legal cmax cs m ->
  rrun RIdle (frames_of m cs) = (RIdle, repeat Need (length cs - 1) ++ [Got m]).
Proof. exact reasm_roundtrip. Qed.
Print Assumptions C01_roundtrip.

(* both senders only ever produce legal chunkings *)
Theorem C01_nofc_sender_legal : forall (A : Type) cmax (m : list A), 0 < cmax -> legal cmax (chunks_nofc cmax m) m.
Proof. exact chunks_nofc_legal. Qed.
Print Assumptions C01_nofc_sender_legal.

Theorem C01_fc_sender_legal : forall (A : Type) cmax ws (m : list A), 0 < cmax ->
  Forall (fun w => 0 < w) ws ->
  list_sum (chunks_fc cmax ws (length m)) = length m -> chunks_fc cmax ws (length m) <> [] ->
  legal cmax (chunks_fc cmax ws (length m)) m.
Proof. exact chunks_fc_legal. Qed.
Print Assumptions C01_fc_sender_legal.

(* no fabrication: a message is only produced by a frame that completes an announced length *)
Theorem C01_no_fabrication : forall (A : Type) (s : rstate A) f s' (m : list A), rstep s f = (s', Got m) ->
  s' = RIdle /\
  ((exists sz d, s = RIdle /\ f = Env sz d /\ m = d /\ lenN m = sz) \/
   (exists sz b d, s = RPart sz b /\ f = More d /\ m = b ++ d /\ lenN m = sz)).
Proof. exact rstep_got. Qed.
Print Assumptions C01_no_fabrication.

(* FIFO hand-off from the receive loop to the reader: the queue returns what was accepted, in
   order (flow control), and a buffered item survives close (revision zero) *)
Theorem C01_queue_fifo : forall (T : Type) (measure : T -> N) (q q' : rq T) x c,
  rq_dequeue measure q = (q', DeqItem x c) ->
  c = measure x /\ rq_items q = x :: rq_items q' /\ rq_win q' = (rq_win q + c)%N /\ rq_cancelled q = false.
Proof. exact dequeue_item. Qed.
Print Assumptions C01_queue_fifo.

Theorem C01_rev0_item_survives_close : forall (T : Type) (r : r0 T) x, r0_slot r = Some x ->
  r0_dequeue (r0_close r) = (mkR0 None true, DeqItem x 0%N) /\
  snd (r0_dequeue (fst (r0_dequeue (r0_close r)))) = DeqNone.
Proof. exact r0_item_survives_close. Qed.
Print Assumptions C01_rev0_item_survives_close.

(* system level: one stream direction end to end (application, chunking sender and its window,
   carrier, receive loop, receiver queue and its window, reading application, credit frames),
   every interleaving of these parties, every message sequence, chunk limit and window *)
From GT Require Import Pipe PipeProofs.
Theorem C01_system_prefix : forall (A : Type) cmax W ls (s : pst A),
  prun cmax (p_init A W) ls = Some s -> prefix (p_delivered s) (p_submitted s).
Proof. exact system_delivered_prefix. Qed.
Print Assumptions C01_system_prefix.

Theorem C01_system_complete : forall (A : Type) cmax W ls (s : pst A),
  prun cmax (p_init A W) ls = Some s -> p_cur s = None -> p_wire s = [] -> p_rq s = [] -> p_delivered s = p_submitted s.
Proof. exact system_complete_when_drained. Qed.
Print Assumptions C01_system_complete.

(* nested tunnels: an inner stream whose carrier is a stream of an outer tunnel (any framing of
   inner frames as outer messages that can be decoded again, any chunk limits and windows at both
   levels, any interleaving of all parties of both levels) delivers exactly what a stream on a
   plain carrier delivers *)
From GT Require Import Nested NestedProofs.
Theorem C01_nested_prefix : forall (A B : Type) (enc : dframe A -> list B) (dec : list B -> option (dframe A)),
  (forall f, dec (enc f) = Some f) ->
  forall cmaxI WI cmaxO WO ls (n : nst A B), nrun enc dec cmaxI cmaxO (n_init A B WI WO) ls = Some n ->
  prefix (p_delivered (n_in n)) (p_submitted (n_in n)).
Proof. exact nested_delivered_prefix. Qed.
Print Assumptions C01_nested_prefix.

Theorem C01_nested_complete : forall (A B : Type) (enc : dframe A -> list B) (dec : list B -> option (dframe A)),
  (forall f, dec (enc f) = Some f) ->
  forall cmaxI WI cmaxO WO ls (n : nst A B), nrun enc dec cmaxI cmaxO (n_init A B WI WO) ls = Some n ->
  p_cur (n_in n) = None -> n_fl n = [] -> p_rq (n_in n) = [] -> p_delivered (n_in n) = p_submitted (n_in n).
Proof. exact nested_complete_when_drained. Qed.
Print Assumptions C01_nested_complete.

(* end of stream: the reader is told "end of stream" only once it has obtained every message
   that was submitted, and never while a data frame is still ahead of the marker - under every
   interleaving of sender, carrier, receive loop, reader and credit flow *)
From GT Require Import PipeEof.
Theorem C01_eof_only_after_everything : forall (A : Type) cmax W ls (s : est A),
  erun cmax (e_init A W) ls = Some s -> e_half s = ESeen -> p_delivered (e_p s) = p_submitted (e_p s).
Proof. exact eof_only_after_everything. Qed.
Print Assumptions C01_eof_only_after_everything.

Theorem C01_eof_never_overtakes_data : forall (A : Type) cmax W ls (s : est A),
  erun cmax (e_init A W) ls = Some s -> (p_wire (e_p s) <> [] \/ p_rq (e_p s) <> []) -> estep cmax s EReadEof = None.
Proof. exact eof_not_before_queued_data. Qed.
Print Assumptions C01_eof_never_overtakes_data.

(* concurrent RPCs on one tunnel: each stream obtains a prefix of what was submitted on that same
   stream, however the streams' frames interleave on the shared carrier *)
From GT Require Import MultiPipe MultiPipeProofs.
Theorem C01_streams_do_not_mix : forall (A : Type) cmax W K, 0 < K ->
  forall n ls (m : mst A) i (s : pst A), mrun cmax K (m_init A W n) ls = Some m ->
  nth_error (m_streams m) i = Some s -> prefix (p_delivered s) (p_submitted s).
Proof. exact multi_delivered_prefix. Qed.
Print Assumptions C01_streams_do_not_mix.
