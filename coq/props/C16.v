(* C16 — unary and single-message call shapes are enforced on both ends. *)
From Coq Require Import List NArith Bool.
From GT Require Import Frames Lookahead SrvStream SrvStreamProofs.
Import ListNotations.

(* a non-streaming reader yields a message only if the frames it received carry exactly one
   complete message; several never yield success; none yields end-of-stream *)
Theorem C16_ok_means_exactly_one : forall (A : Type) (fs : list (dframe A)) m,
  unary_read fs = UOk m -> delivered_of fs = [m].
Proof. exact unary_ok_exactly_one. Qed.
Print Assumptions C16_ok_means_exactly_one.

Theorem C16_two_messages_fail : forall (A : Type) (fs : list (dframe A)) m1 m2 rest,
  delivered_of fs = m1 :: m2 :: rest -> forall m, unary_read fs <> UOk m.
Proof. exact unary_two_fails. Qed.
Print Assumptions C16_two_messages_fail.

Theorem C16_no_message_is_eof : forall (A : Type) (fs : list (dframe A)),
  snd (rrun RIdle fs) = [] -> unary_read fs = UEof.
Proof. exact unary_none_is_eof. Qed.
Print Assumptions C16_no_message_is_eof.

(* an application's second send on a non-streaming side is refused and emits nothing *)
Theorem C16_second_send_refused : forall s tag, sw_nsent s = 1%N -> sw_sent_hdrs s = true -> sw_closed s = false ->
  sw_step false s (WSend tag) = (s, [], false).
Proof. exact second_send_refused. Qed.
Print Assumptions C16_second_send_refused.

(* the monitor that judges "several request messages were delivered" counts exactly the messages
   the model's reassembly completes on the same frames *)
From GT Require Import Frames FramesProofs MonApp MonFacts.
Theorem C16_monitor_counts_like_the_model : forall (A : Type) (fs : list (dframe A)),
  count_complete (map (@size_image A) fs) = length (gots (snd (rrun RIdle fs))).
Proof. exact count_complete_is_reassembly. Qed.
Print Assumptions C16_monitor_counts_like_the_model.
