(* C13 — emitted frames conform to the documented protocol (framing part; the full grammar is
   the executable monitor mon_wire of MonWire.v, evaluated on every trace). *)
From Coq Require Import List Arith NArith.
From GT Require Import Frames FramesProofs ParamsFacts.
From GTgen Require Import Params.
Import ListNotations.

(* one message = one envelope stating the total size, then continuations; a conforming reader
   reassembles exactly the message from it, for every legal chunking *)
Theorem C13_message_framing : forall (A : Type) cmax (m : list A) cs, legal cmax cs m ->
  rrun RIdle (frames_of m cs) = (RIdle, repeat Need (length cs - 1) ++ [Got m]).
Proof. exact reasm_roundtrip. Qed.
Print Assumptions C13_message_framing.

Theorem C13_chunks_at_most_16KiB : forall (A : Type) cmax (m : list A) cs, legal cmax cs m ->
  Forall (fun f => (dsize f <= N.of_nat cmax)%N) (frames_of m cs).
Proof. exact frames_bounded. Qed.
Print Assumptions C13_chunks_at_most_16KiB.

Theorem C13_nofc_sender_legal : forall (A : Type) cmax (m : list A), 0 < cmax -> legal cmax (chunks_nofc cmax m) m.
Proof. exact chunks_nofc_legal. Qed.
Print Assumptions C13_nofc_sender_legal.

Theorem C13_fc_sender_legal : forall (A : Type) cmax ws (m : list A), 0 < cmax ->
  Forall (fun w => 0 < w) ws ->
  list_sum (chunks_fc cmax ws (length m)) = length m -> chunks_fc cmax ws (length m) <> [] ->
  legal cmax (chunks_fc cmax ws (length m)) m.
Proof. exact chunks_fc_legal. Qed.
Print Assumptions C13_fc_sender_legal.

Theorem C13_constants : chunk_max = 16384%N /\ settings_stream_id = Zneg 1.
Proof. exact (conj chunk_max_is_16KiB settings_id_is_minus_one). Qed.
Print Assumptions C13_constants.

(* system level, all interleavings of sends, reads, frame and credit delivery: the data frames a
   sender has emitted always form a well-formed message stream (one envelope with the total size,
   continuations adding up to it, contiguous) *)
From GT Require Import Pipe PipeProofs.
Theorem C13_system_emitted_stream_wellformed : forall (A : Type) cmax W ls (s : pst A),
  prun cmax (p_init A W) ls = Some s ->
  fst (rrun RIdle (p_sent s)) <> RFailed /\ existsb (@is_bad A) (snd (rrun RIdle (p_sent s))) = false.
Proof. exact system_emitted_stream_wellformed. Qed.
Print Assumptions C13_system_emitted_stream_wellformed.

(* nested tunnels: what the inner receive loop reads from the outer stream is always one of the
   inner sender's frames, whole and in order: the read step is defined whenever the outer stream
   has something queued *)
From GT Require Import Frames Pipe Nested NestedProofs.
Theorem C13_nested_carrier_hands_over_frames : forall (A B : Type) (enc : dframe A -> list B) (dec : list B -> option (dframe A)),
  (forall f, dec (enc f) = Some f) ->
  forall cmaxI WI cmaxO WO ls (n : nst A B), nrun enc dec cmaxI cmaxO (n_init A B WI WO) ls = Some n ->
  p_rq (n_out n) <> [] -> exists n', nstep enc dec cmaxI cmaxO n NCarrierRecv = Some n'.
Proof. exact nested_carrier_recv_enabled. Qed.
Print Assumptions C13_nested_carrier_hands_over_frames.

(* ---- one RPC end to end (Rpc.v): both endpoints' stream state machines, the goroutines they spawn,
   both receive loops and both carrier directions composed; every interleaving, runs of any length ---- *)
From GT Require Import Rpc RpcProofs RpcSystem.
(* what the tunnel client emits on a stream is accepted by the automaton of a conforming peer ... *)
Theorem C13_rpc_client_frames_conform : forall strict ls s, rrun strict r_init ls = Some s -> gc_run (h_c s) <> GcBad.
Proof. exact rpc_client_frames_conform. Qed.
Print Assumptions C13_rpc_client_frames_conform.
(* ... which means: new_stream first and only once, *)
Theorem C13_new_stream_first : forall h, gc_run h <> GcBad -> h = [] \/ exists r, h = FNew :: r /\ ~ In FNew r.
Proof. exact conforming_new_stream_first. Qed.
Print Assumptions C13_new_stream_first.
(* half-close at most once and no request data after it, *)
Theorem C13_no_request_data_after_half_close : forall h pre post,
  gc_run h <> GcBad -> h = pre ++ FHalf :: post -> ~ In FReq post /\ ~ In FHalf post.
Proof. exact conforming_no_data_after_half_close. Qed.
Print Assumptions C13_no_request_data_after_half_close.
(* cancel at most once *)
Theorem C13_cancel_at_most_once : forall h pre post, gc_run h <> GcBad -> h = pre ++ FCancel :: post -> ~ In FCancel post.
Proof. exact conforming_cancel_once. Qed.
Print Assumptions C13_cancel_at_most_once.
(* what the tunnel server emits on a stream: headers at most once and before any message, nothing but a
   late window update after the close, at most one close *)
Theorem C13_rpc_server_frames_conform : forall strict ls s, rrun strict r_init ls = Some s -> gs_run (h_s s) <> GsBad.
Proof. exact rpc_server_frames_conform. Qed.
Print Assumptions C13_rpc_server_frames_conform.
Theorem C13_rpc_at_most_one_close : forall strict ls s, rrun strict r_init ls = Some s -> count_close (h_s s) <= 1.
Proof. exact rpc_at_most_one_close. Qed.
Print Assumptions C13_rpc_at_most_one_close.
(* every stream a server accepts or rejects receives exactly one close frame: once the handler has
   returned (or the stream was refused) and the goroutines spawned for it have run *)
Theorem C13_rpc_exactly_one_close : forall strict ls s, rrun strict r_init ls = Some s ->
  (v_h (r_v s) = HRet \/ v_h (r_v s) = HRej) -> s_quiet (r_v s) = true -> count_close (h_s s) = 1.
Proof. exact rpc_exactly_one_close_when_settled. Qed.
Print Assumptions C13_rpc_exactly_one_close.
(* ... which is the last frame of a stream the handler ended (reads confined to the handler's goroutine) *)
Theorem C13_rpc_close_is_last : forall ls s pre post,
  rrun true r_init ls = Some s -> v_fin (r_v s) = Some SHandler -> h_s s = pre ++ FClose :: post -> post = [].
Proof. exact rpc_close_is_last_when_handler_ended. Qed.
Print Assumptions C13_rpc_close_is_last.
(* without that confinement it is not: the premise is needed *)
Theorem C13_rpc_close_is_last_needs_confinement :
  exists s, rrun false r_init wu_after_close_run = Some s /\ v_fin (r_v s) = Some SHandler /\ h_s s = [FHdr; FClose; FSwu].
Proof. exact rpc_close_is_last_needs_confinement. Qed.
Print Assumptions C13_rpc_close_is_last_needs_confinement.
(* ... and that close frame is always reachable: while it is not on the wire, one of the server's own
   goroutines has an enabled step towards it, and those steps terminate *)
From GT Require Import RpcInv RpcProgress.
Theorem C13_rpc_close_frame_always_reachable : forall strict ls s, rrun strict r_init ls = Some s ->
  (v_h (r_v s) = HRet \/ v_h (r_v s) = HRej) -> count_close (h_s s) = 0 ->
  exists l, In l [SFinH; SCloseGo; SRejGo] /\ exists s', rstep strict s (LV l) = Some s'.
Proof. exact rpc_close_frame_always_reachable. Qed.
Print Assumptions C13_rpc_close_frame_always_reachable.
(* many RPCs on one tunnel: each stream's frames, picked out of the shared carrier by id, conform *)
From GT Require Import MultiRpc MultiRpcProofs.
Theorem C13_multi_streams_conform : forall strict n ls m i,
  mrun strict (m_init n) ls = Some m -> i < n ->
  gc_run (proj i (mh_c m)) <> GcBad /\ gs_run (proj i (mh_s m)) <> GsBad /\ count_close (proj i (mh_s m)) <= 1.
Proof. exact multi_streams_conform. Qed.
Print Assumptions C13_multi_streams_conform.

(* code shape behind the per-RPC model, regenerated from the source on every run (theories/SkelRpc.v) *)
From Coq Require Import String.
From GT Require Import SkelRpc.
From GTgen Require Import Params.
Local Open Scope string_scope.
Theorem C13_client_SendMsg_refuses_after_half_close : gskel_tunnelClientStream_SendMsg =
  ["call writeMu.Lock"; "defer call writeMu.Unlock"; "if halfClosed"; "return"; "fi";
   "if !isClientStream && numSent == 1"; "return"; "fi"; "set numSent"; "return"; "return";
   "call sender.send"; "call loadDone"; "return"; "return"; "return"].
Proof. exact tunnelClientStream_SendMsg_shape. Qed.
Print Assumptions C13_client_SendMsg_refuses_after_half_close.
Theorem C13_client_CloseSend_shape : gskel_tunnelClientStream_CloseSend =
  ["call writeMu.Lock"; "defer call writeMu.Unlock"; "select"; "recv doneSignal"; "call loadDone"; "return"; "end";
   "if halfClosed"; "return"; "fi"; "set halfClosed"; "call stream.Send"; "return"].
Proof. exact tunnelClientStream_CloseSend_shape. Qed.
Print Assumptions C13_client_CloseSend_shape.
Theorem C13_server_SendMsg_shape : gskel_tunnelServerStream_SendMsg =
  ["call writeMu.Lock"; "defer call writeMu.Unlock"; "if closed"; "call ctx.Err"; "return"; "return"; "fi";
   "if !sentHeaders"; "call sendHeadersLocked"; "return"; "fi";
   "if !isServerStream && numSent == 1"; "return"; "fi"; "set numSent"; "return"; "return"; "call sender.send"; "return"].
Proof. exact tunnelServerStream_SendMsg_shape. Qed.
Print Assumptions C13_server_SendMsg_shape.
Theorem C13_server_setHeader_shape : gskel_tunnelServerStream_setHeader =
  ["call writeMu.Lock"; "defer call writeMu.Unlock"; "if sentHeaders"; "return"; "fi"; "set headers";
   "call sendHeadersLocked"; "return"; "return"].
Proof. exact tunnelServerStream_setHeader_shape. Qed.
Print Assumptions C13_server_setHeader_shape.
