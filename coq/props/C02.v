(* C02 — status, headers, trailers and request metadata are delivered exactly.
   Server write side over every sequence of handler operations; client termination over every
   interleaving of the finishing goroutines with the reader.  The end-to-end equalities
   (status, headers, trailers, request metadata incl. per-RPC credentials) are the monitor
   mon_C02 (MonApp.v) evaluated on every implementation trace. *)
From Coq Require Import List NArith Bool.
From GT Require Import Trace SrvStream SrvStreamProofs CliFinish CliFinishProofs.
Import ListNotations.

(* the headers frame carries exactly the headers set before it went out *)
Theorem C02_headers_exact : forall ss ops,
  match filter (fun f => match f with SHdrs _ => true | _ => false end) (snd (sw_run ss sw0 ops)) with
  | SHdrs md :: _ => md = wanted_headers [] ops
  | _ => True
  end.
Proof. exact headers_exact. Qed.
Print Assumptions C02_headers_exact.

(* the close frame carries exactly the trailers set before the stream finished *)
Theorem C02_trailers_exact : forall ss ops,
  match filter (fun f => match f with SClose _ _ => true | _ => false end) (snd (sw_run ss sw0 ops)) with
  | SClose _ md :: _ => md = wanted_trailers [] ops
  | _ => True
  end.
Proof. exact trailers_exact. Qed.
Print Assumptions C02_trailers_exact.

(* headers precede every response message; exactly-once framing of the outcome *)
Theorem C02_headers_before_messages : forall ss ops, g_run (snd (sw_run ss sw0 ops)) <> GBad.
Proof. exact emitted_grammar. Qed.
Print Assumptions C02_headers_before_messages.

(* the caller completes exactly once: the first recorded outcome stays *)
Theorem C02_completes_once : forall ls s w, cf_done s = Some w ->
  forall s', cf_run false s ls = Some s' -> cf_done s' = Some w.
Proof. exact first_writer_wins. Qed.
Print Assumptions C02_completes_once.

(* trailers are available as soon as the terminal result has been returned, under every
   interleaving of the finishing goroutines and the reader, and they belong to the outcome
   that was returned *)
Theorem C02_trailers_with_terminal_result : forall ls s, cf_run false cf_init ls = Some s -> read_ok s = true.
Proof. exact terminal_result_and_trailers_agree. Qed.
Print Assumptions C02_trailers_with_terminal_result.

(* regression witness: with the receiver closed before the trailers are stored (the order
   before the repair) the property fails *)
Theorem C02_close_first_refuted : exists ls s, cf_run true cf_init ls = Some s /\ read_ok s = false.
Proof. exact close_first_refuted. Qed.
Print Assumptions C02_close_first_refuted.

(* code shape, regenerated from the source on every run (see theories/SkelFinish.v) *)
From Coq Require Import String.
From GT Require Import SkelFinish.
From GTgen Require Import Params.
Local Open Scope string_scope.
Theorem C02_client_finish_shape : skel_tunnelClientStream_finishStream =
  ["call done.CompareAndSwap"; "defer call cancel"; "call ch.removeStream"; "defer call receiver.close"; "call metaMu.Lock"; "defer call metaMu.Unlock"; "set trailers"; "set gotHeaders"; "close gotHeadersSignal"; "close doneSignal"].
Proof. exact tunnelClientStream_finishStream_shape. Qed.
Print Assumptions C02_client_finish_shape.

(* ---- one RPC end to end (Rpc.v), every interleaving: headers are available no later than the first
   response message, and at the latest with the terminal result ---- *)
From GT Require Import Rpc RpcInv RpcProofs RpcSystem RpcEnd.
Theorem C02_rpc_headers_no_later_than_first_message : forall strict ls s,
  rrun strict r_init ls = Some s ->
  (k_gotmsg (r_k s) = true -> k_hdrs (r_k s) = true) /\ (k_sig (r_k s) = true -> k_hdrs (r_k s) = true).
Proof. exact rpc_headers_no_later_than_first_message. Qed.
Print Assumptions C02_rpc_headers_no_later_than_first_message.
(* what the client's receive loop is handed for the stream is always a prefix of a conforming server history *)
Theorem C02_rpc_client_is_handed_conforming_frames : forall strict ls s,
  rrun strict r_init ls = Some s -> exists d, h_s s = (d ++ q_s s)%list /\ gs_run d <> GsBad.
Proof. exact rpc_client_is_handed_conforming_frames. Qed.
Print Assumptions C02_rpc_client_is_handed_conforming_frames.
