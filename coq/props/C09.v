(* C09 — no peer input can crash, wedge or bloat an endpoint. The model's step functions are
   total (every frame is classified), buffering is bounded for arbitrary frame sizes, and a
   stream-level violation is separated from a tunnel-level one. Panic-freedom of the Go code
   itself is tied by the raw-peer runs with panic capture (partial: see DESIGN.md section 10). *)
From Coq Require Import List ZArith NArith.
From GT Require Import Frames FramesProofs Recvq RecvqProofs Tables TablesProofs Lookahead ParamsFacts.
Import ListNotations.

(* any frame sequence whatsoever: the queue never holds more than the advertised window *)
Theorem C09_bounded_buffering : forall (T : Type) (measure : T -> N) W (ops : list (rq_op T)),
  let q := fold_left (rq_apply measure) ops (rq_init T W) in
  RecvqProofs.Inv measure W q /\ (rq_queued measure q <= W)%N.
Proof. exact bounded_always. Qed.
Print Assumptions C09_bounded_buffering.

(* an overrun fails that stream only: the receiver state is untouched *)
Theorem C09_overrun_refused : forall (T : Type) (measure : T -> N) (q q' : rq T) x,
  rq_accept measure q x = (q', AccOverrun) -> q' = q /\ (rq_win q < measure x)%N /\ rq_closed q = false.
Proof. exact overrun_unchanged. Qed.
Print Assumptions C09_overrun_refused.

(* reassembly classifies every frame; after a violation it stays failed and yields no message *)
Theorem C09_reassembly_failure_is_sticky : forall (A : Type) (fs : list (dframe A)),
  fst (rrun RFailed fs) = RFailed /\ gots (snd (rrun RFailed fs)) = [].
Proof. exact rrun_failed. Qed.
Print Assumptions C09_reassembly_failure_is_sticky.

(* ids: old or duplicate => tunnel error; finished => ignored; never seen => tunnel error *)
Theorem C09_id_classification_old : forall s id cl rev m, (id <= s_last s)%Z -> snd (st_create s id cl rev m) = CTunnelErr.
Proof. exact create_refuses_old_ids. Qed.
Print Assumptions C09_id_classification_old.

Theorem C09_never_seen_is_tunnel_error : forall s id, (s_last s < id)%Z -> ~ In id (s_active s) -> st_get s id = GTunnelErr.
Proof. exact never_seen_id_is_tunnel_error. Qed.
Print Assumptions C09_never_seen_is_tunnel_error.

(* documented status codes of the stream-level rejections, as read from the source *)
Theorem C09_rejection_codes : GTgen.Params.create_rejection_codes = [14; 14; 3; 12]%N.
Proof. exact rejection_codes. Qed.
Print Assumptions C09_rejection_codes.

(* code shape, regenerated from the source on every run (see theories/SkelReceiver.v) *)
From Coq Require Import String.
From GT Require Import SkelReceiver.
From GTgen Require Import Params.
Local Open Scope string_scope.
Theorem C09_rev0_accept_shape : skel_noFlowControlReceiver_accept =
  ["call ingestMu.Lock"; "defer call ingestMu.Unlock"; "select"; "recv closed"; "end"; "select"; "send ch"; "recv closed"; "end"].
Proof. exact noFlowControlReceiver_accept_shape. Qed.
Print Assumptions C09_rev0_accept_shape.

(* ---- the server's side of one stream against ANY peer (Rpc.v): whatever frames the serve loop is
   handed for the id, in whatever order, what the server emits for it conforms, with at most one close ---- *)
From GT Require Import Rpc RpcProofs RpcSystem.
Theorem C09_server_stream_conforms_against_any_peer : forall strict ls v em,
  vrun strict v_init ls = Some (v, em) -> gs_run em <> GsBad /\ count_close em <= 1.
Proof. exact server_stream_conforms_against_any_peer. Qed.
Print Assumptions C09_server_stream_conforms_against_any_peer.
