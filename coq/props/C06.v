(* C06 — windows respected by senders, enforced by receivers. *)
From Coq Require Import List Arith NArith.
From GT Require Import SenderAtomic SenderAtomicProofs Recvq RecvqProofs Frames FramesProofs ParamsFacts.
From GTgen Require Import Params.
Import ListNotations.
Local Open Scope N_scope.

(* sender, every interleaving with a conforming peer: un-credited bytes never exceed the
   window; every chunk handed to the wire is at most cmax *)
Theorem C06_sender_respects_window : forall cmax, 0 < cmax -> forall w0 msg ls s, w0 < M32 ->
  run_conf cmax (sa_init w0 msg) ls = Some s ->
  emitted s - credits s <= w0 /\ emitted s - credits s + win s + reserved s = w0 /\
  Forall (fun cf => fst cf <= cmax) (out s).
Proof. exact window_respected. Qed.
Print Assumptions C06_sender_respects_window.

Theorem C06_frames_at_most_chunk_max : forall (A : Type) cmax (m : list A) cs, legal cmax cs m ->
  Forall (fun f => dsize f <= N.of_nat cmax) (frames_of m cs).
Proof. exact frames_bounded. Qed.
Print Assumptions C06_frames_at_most_chunk_max.

(* receiver, every history with arbitrary (hostile) frame sizes: never more than the window
   is buffered; an overrun is refused with the state unchanged *)
Theorem C06_receiver_bounded : forall (T : Type) (measure : T -> N) W (ops : list (rq_op T)),
  let q := fold_left (rq_apply measure) ops (rq_init T W) in
  RecvqProofs.Inv measure W q /\ rq_queued measure q <= W.
Proof. exact bounded_always. Qed.
Print Assumptions C06_receiver_bounded.

Theorem C06_overrun_refused : forall (T : Type) (measure : T -> N) (q q' : rq T) x,
  rq_accept measure q x = (q', AccOverrun) -> q' = q /\ rq_win q < measure x /\ rq_closed q = false.
Proof. exact overrun_unchanged. Qed.
Print Assumptions C06_overrun_refused.

(* credit ledger, every history: credit never exceeds accepted data, un-credited data never
   exceeds the window, window = advertised - un-credited *)
Theorem C06_ledger : forall (T : Type) (measure : T -> N) W (ops : list (rq_op T)),
  let '(q, acc, cred) := fold_left (ledger_step measure) ops (rq_init T W, 0, 0) in
  cred <= acc /\ acc - cred <= W /\ rq_win q = W - (acc - cred).
Proof. exact ledger_always. Qed.
Print Assumptions C06_ledger.

Theorem C06_constants : chunk_max = 16384 /\ init_window = 65536.
Proof. exact (conj chunk_max_is_16KiB init_window_is_64KiB). Qed.
Print Assumptions C06_constants.

(* system level, all interleavings: the receiver is never overrun by a conforming sender, never
   buffers more than its window, credit is conserved, every frame is at most cmax bytes *)
From GT Require Import Pipe PipeProofs.
Theorem C06_system_window_discipline : forall (A : Type) cmax W ls (s : pst A),
  prun cmax (p_init A W) ls = Some s ->
  p_overrun s = false /\ (bytes (p_rq s) <= W)%nat /\ (p_swin s <= W)%nat /\
  (p_swin s + bytes (p_wire s) + bytes (p_rq s) + PipeProofs.sum (p_credits s) = W)%nat /\
  Forall (fun f => (flen f <= cmax)%nat) (p_sent s).
Proof. exact system_window_discipline. Qed.
Print Assumptions C06_system_window_discipline.

(* nested tunnels: both levels keep their window discipline under every interleaving *)
From GT Require Import Nested NestedProofs.
Theorem C06_nested_window_discipline : forall (A B : Type) (enc : dframe A -> list B) (dec : list B -> option (dframe A)),
  (forall f, dec (enc f) = Some f) ->
  forall cmaxI WI cmaxO WO ls (n : nst A B), nrun enc dec cmaxI cmaxO (n_init A B WI WO) ls = Some n ->
  p_overrun (n_in n) = false /\ (bytes (p_rq (n_in n)) <= WI)%nat /\
  (p_swin (n_in n) + bytes (n_fl n) + bytes (p_rq (n_in n)) + PipeProofs.sum (p_credits (n_in n)) = WI)%nat /\
  p_overrun (n_out n) = false /\ (bytes (p_rq (n_out n)) <= WO)%nat.
Proof. exact nested_window_discipline. Qed.
Print Assumptions C06_nested_window_discipline.

(* code shape, regenerated from the source on every run (see theories/SkelReceiver.v) *)
From Coq Require Import String.
From GT Require Import SkelReceiver.
From GTgen Require Import Params.
Local Open Scope string_scope.
Theorem C06_receiver_accept_shape : skel_defaultReceiver_accept =
  ["call measure"; "call mu.Lock"; "defer call mu.Unlock"; "set currentWindow"; "call items.Len"; "call items.PushBack"; "call cond.Signal"].
Proof. exact defaultReceiver_accept_shape. Qed.
Print Assumptions C06_receiver_accept_shape.

(* which expression sizes each window in the source (see theories/SkelWindows.v) *)
From GT Require Import SkelWindows.
Theorem C06_windows_as_advertised : window_args =
  [("server.sender", "frame.InitialWindowSize"); ("server.receiver", "initialWindowSize");
   ("client.sender", "settings.InitialWindowSize"); ("client.receiver", "initialWindowSize")].
Proof. exact windows_as_advertised. Qed.
Print Assumptions C06_windows_as_advertised.
