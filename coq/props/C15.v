(* C15 — the API is data-race free and thread-safe under concurrent use.
   Partial by nature (DESIGN.md section 10): the Go memory model and the race detector are
   outside Coq. What is proved are the synchronisation protocols themselves, at the level of
   individual atomic steps and for every interleaving: the publication order that makes
   Trailer() / grpc.Trailer targets safe to read after the completion signal, the write-once
   outcome, the sender's wake-up protocol (no lost wake-up, hence no protocol-level deadlock),
   and the exits of every blocking point; and the lock discipline of the source itself, on the
   table of every field access that translator T2 (lockscan) regenerates on each run: any two
   accesses to one field, one of them a write, are separated by construction time, a common
   mutex (which no reachable lock state lets two goroutines hold), a channel-close publication,
   confinement to one goroutine, or a listed exemption; the lock order has no cycle.
   Data races proper are searched for by the free-running stress harness under the race detector
   (M3) on every run. *)
From Coq Require Import List NArith Bool Arith.
From GT Require Import CliFinish CliFinishProofs SenderAtomic SenderAtomicProofs Waits WaitsProofs Access AccessProofs.
From GTgen Require Import AccessTable.
Import ListNotations.

(* read-after-signal: whenever the reader has been released, what it reads was published before,
   by the goroutine that won - under every interleaving of the finishing goroutines and the reader *)
Theorem C15_publication_before_release : forall ls s, cf_run false cf_init ls = Some s -> read_ok s = true.
Proof. exact terminal_result_and_trailers_agree. Qed.
Print Assumptions C15_publication_before_release.

Theorem C15_outcome_written_once : forall ls s w, cf_done s = Some w ->
  forall s', cf_run false s ls = Some s' -> cf_done s' = Some w.
Proof. exact first_writer_wins. Qed.
Print Assumptions C15_outcome_written_once.

(* the lock-free window protocol: no interleaving of load / CAS / wait with add / signal loses a wake-up *)
Theorem C15_no_lost_wakeup : forall cmax, (0 < cmax)%N -> forall w0 msg ls s, (w0 < M32)%N ->
  run cmax (sa_init w0 msg) ls = Some s ->
  sp s = SWait -> (0 < win s)%N -> up s = UIdle -> exists s', step cmax s LWaitTok = Some s'.
Proof. exact never_stranded. Qed.
Print Assumptions C15_no_lost_wakeup.

(* no blocking point without an exit once the stream's context has ended *)
Theorem C15_no_stuck_goroutine : forall client ls s,
  wrun client st0 ls = Some s -> ctx_done s = true -> internal_enabled client s = false -> all_exits s = true.
Proof. exact nothing_hangs_after_context_end. Qed.
Print Assumptions C15_no_stuck_goroutine.

(* regression witness: with the receiver closed before the trailers are stored a reader can be
   released before the write it then races with *)
Theorem C15_close_first_refuted : exists ls s, cf_run true cf_init ls = Some s /\ read_ok s = false.
Proof. exact close_first_refuted. Qed.
Print Assumptions C15_close_first_refuted.

(* the lock discipline of the current source (table regenerated from /repo on every run) *)
Theorem C15_access_discipline :
  (forall a b, In a full_table -> In b full_table ->
     s_field a = s_field b -> (s_write a = true \/ s_write b = true) ->
     s_ctor a = true \/ s_ctor b = true
     \/ (common_lock a b = true /\
         forall ls t1 t2, lreach ls -> t1 <> t2 -> stands_at ls t1 a -> stands_at ls t2 b -> False)
     \/ published a b = true \/ published b a = true
     \/ same_thread a b = true
     \/ exempt exemptions a b = true)
  /\ (forall first ws, ws <> [] -> ~ wait_chain lock_order first first ws) /\ reacquire_count = 0%N.
Proof. exact access_discipline. Qed.
Print Assumptions C15_access_discipline.

(* code shape, regenerated from the source on every run (see theories/SkelFinish.v) *)
From Coq Require Import String.
From GT Require Import SkelFinish.
From GTgen Require Import Params.
Local Open Scope string_scope.
Theorem C15_client_finish_shape : skel_tunnelClientStream_finishStream =
  ["call done.CompareAndSwap"; "defer call cancel"; "call ch.removeStream"; "defer call receiver.close"; "call metaMu.Lock"; "defer call metaMu.Unlock"; "set trailers"; "set gotHeaders"; "close gotHeadersSignal"; "close doneSignal"].
Proof. exact tunnelClientStream_finishStream_shape. Qed.
Print Assumptions C15_client_finish_shape.

(* the ordering behind the three exemptions of the access table: under every interleaving of the
   receive loop, the constructor, any closer, the context and a caller, useRevision / settings are
   never read before they are published; the constructor before repair F15 is refuted *)
From GT Require Import CtorGate.
Theorem C15_settings_never_read_before_published : forall ls s, grun true g_init ls = Some s -> g_bad s = false.
Proof. exact settings_never_read_before_published. Qed.
Print Assumptions C15_settings_never_read_before_published.

Theorem C15_unrepaired_constructor_refuted : exists ls s, grun false g_init ls = Some s /\ g_bad s = true.
Proof. exact unrepaired_constructor_races. Qed.
Print Assumptions C15_unrepaired_constructor_refuted.
