(* C05 — flow control never strands a sender. *)
From Coq Require Import List NArith.
From GT Require Import SenderAtomic SenderAtomicProofs Recvq RecvqProofs ParamsFacts.
From GTgen Require Import Params.
Import ListNotations.
Local Open Scope N_scope.

(* atomic level, every interleaving of load / wait / CAS / emit with updateWindow's add and
   signal steps and with cancellation: a sender parked in the wait while its window is
   positive and no update is in progress can always take the wake-up token *)
Theorem C05_no_lost_wakeup : forall cmax, 0 < cmax -> forall w0 msg ls s, w0 < M32 ->
  run cmax (sa_init w0 msg) ls = Some s ->
  sp s = SWait -> 0 < win s -> up s = UIdle -> exists s', step cmax s LWaitTok = Some s'.
Proof. exact never_stranded. Qed.
Print Assumptions C05_no_lost_wakeup.

Theorem C05_woken_sender_proceeds : forall cmax, 0 < cmax -> forall s s1, step cmax s LWaitTok = Some s1 -> 0 < win s ->
  exists s2, step cmax s1 LLoad = Some s2 /\ sp s2 = SCas (win s).
Proof. exact woken_sender_progresses. Qed.
Print Assumptions C05_woken_sender_proceeds.

Theorem C05_cancel_releases : forall cmax s, sp s = SWait -> cancelled s = true ->
  exists s', step cmax s LWaitCtx = Some s'.
Proof. exact cancel_releases. Qed.
Print Assumptions C05_cancel_releases.

(* no credit leak on the sender: once everything emitted has been credited, the whole window
   is available again *)
Theorem C05_sender_window_restored : forall cmax, 0 < cmax -> forall w0 msg ls s, w0 < M32 ->
  run_conf cmax (sa_init w0 msg) ls = Some s -> credits s = emitted s -> reserved s = 0 -> win s = w0.
Proof. exact window_restored. Qed.
Print Assumptions C05_sender_window_restored.

(* receiver: credit returned is exactly what the application dequeued; without cancellation
   queued + window = advertised window, so an empty queue means a full window *)
Theorem C05_credit_exact : forall (T : Type) (measure : T -> N) (q q' : rq T) x c,
  rq_dequeue measure q = (q', DeqItem x c) ->
  c = measure x /\ rq_items q = x :: rq_items q' /\ rq_win q' = rq_win q + c /\ rq_cancelled q = false.
Proof. exact dequeue_item. Qed.
Print Assumptions C05_credit_exact.

Theorem C05_receiver_window_exact : forall (T : Type) (measure : T -> N) W (ops : list (rq_op T)),
  forallb (@no_cancel T) ops = true ->
  let q := fold_left (rq_apply measure) ops (rq_init T W) in
  rq_queued measure q + rq_win q = W /\ (rq_items q = [] -> rq_win q = W).
Proof. exact window_exact. Qed.
Print Assumptions C05_receiver_window_exact.

(* the window the code uses is the one the property names, and it fits the uint32 arithmetic *)
Theorem C05_window_constant : init_window = 65536 /\ init_window < M32.
Proof. exact (conj init_window_is_64KiB window_fits_uint32). Qed.
Print Assumptions C05_window_constant.

(* system level, all interleavings of sends, reads, frame delivery and credit delivery *)
From GT Require Import Pipe PipeProofs.
Theorem C05_system_blocked_only_by_full_unread_window : forall (A : Type) cmax W ls (s : pst A),
  prun cmax (p_init A W) ls = Some s -> p_cur s <> None -> Pipe.internal_enabled cmax s = false -> bytes (p_rq s) = W :> nat.
Proof. exact system_blocked_means_full_window_unread. Qed.
Print Assumptions C05_system_blocked_only_by_full_unread_window.

Theorem C05_system_window_restored : forall (A : Type) cmax W ls (s : pst A),
  prun cmax (p_init A W) ls = Some s -> p_wire s = [] -> p_rq s = [] -> p_credits s = [] -> p_swin s = W.
Proof. exact system_window_restored. Qed.
Print Assumptions C05_system_window_restored.

(* nested tunnels: once everything has been read and credited the inner sender has its whole window *)
From GT Require Import Frames Nested NestedProofs.
Theorem C05_nested_window_restored : forall (A B : Type) (enc : dframe A -> list B) (dec : list B -> option (dframe A)),
  (forall f, dec (enc f) = Some f) ->
  forall cmaxI WI cmaxO WO ls (n : nst A B), nrun enc dec cmaxI cmaxO (n_init A B WI WO) ls = Some n ->
  n_fl n = [] -> p_rq (n_in n) = [] -> p_credits (n_in n) = [] -> p_swin (n_in n) = WI.
Proof. exact nested_window_restored. Qed.
Print Assumptions C05_nested_window_restored.

(* code shape, regenerated from the source on every run (see theories/SkelSender.v) *)
From Coq Require Import String.
From GT Require Import SkelSender.
From GTgen Require Import Params.
Local Open Scope string_scope.
Theorem C05_sender_send_shape : skel_defaultSender_send =
  ["call mu.Lock"; "defer call mu.Unlock"; "call currentWindow.Load"; "select"; "recv windowUpdates"; "recv ctx.Done()"; "call ctx.Err"; "end"; "call currentWindow.CompareAndSwap"; "call sendFunc"].
Proof. exact defaultSender_send_shape. Qed.
Print Assumptions C05_sender_send_shape.
Theorem C05_sender_update_shape : skel_defaultSender_updateWindow =
  ["call currentWindow.Add"; "select"; "trysend windowUpdates"; "end"].
Proof. exact defaultSender_updateWindow_shape. Qed.
Print Assumptions C05_sender_update_shape.

(* stalled streams and a bounded transport buffer cannot deadlock a tunnel: whenever a sender of
   any stream still has something to send, some internal step of the tunnel is enabled, or that
   stream's own receiving application sits on a full window of unread data *)
From GT Require Import Pipe MultiPipe MultiPipeProofs.
Theorem C05_bounded_carrier_no_deadlock : forall (A : Type) (cmax W K : nat), (0 < K)%nat ->
  forall n ls (m : mst A) i (s : pst A), mrun cmax K (m_init A W n) ls = Some m ->
  nth_error (m_streams m) i = Some s -> p_cur s <> None ->
  m_internal_enabled cmax K m = true \/ bytes (p_rq s) = W.
Proof. exact multi_no_deadlock. Qed.
Print Assumptions C05_bounded_carrier_no_deadlock.
