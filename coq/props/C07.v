(* C07 — cancelling or timing out one RPC ends exactly that RPC on both ends. *)
From Coq Require Import List ZArith Bool Arith.
From GT Require Import CliFinish CliFinishProofs Waits WaitsProofs Tables TablesProofs.
Import ListNotations.

(* the race between cancellation and normal completion has exactly one winner, and what the
   caller observes - outcome and trailers - is entirely the winner's: never a mixture *)
Theorem C07_one_outcome_no_mixture : forall ls s, cf_run false cf_init ls = Some s -> read_ok s = true.
Proof. exact terminal_result_and_trailers_agree. Qed.
Print Assumptions C07_one_outcome_no_mixture.

Theorem C07_first_writer_wins : forall ls s w, cf_done s = Some w ->
  forall s', cf_run false s ls = Some s' -> cf_done s' = Some w.
Proof. exact first_writer_wins. Qed.
Print Assumptions C07_first_writer_wins.

(* once the context has ended, blocked reads, writes and Header() of that RPC can all return *)
Theorem C07_blocked_calls_released : forall client ls s,
  wrun client st0 ls = Some s -> ctx_done s = true -> internal_enabled client s = false -> all_exits s = true.
Proof. exact nothing_hangs_after_context_end. Qed.
Print Assumptions C07_blocked_calls_released.

(* frames that arrive for an RPC the endpoint has finished with are discarded *)
Theorem C07_late_frames_ignored : forall s id, In id (s_active s) -> (id <= s_last s)%Z ->
  st_get (st_remove s id) id = GIgnore.
Proof. exact finished_id_is_ignored. Qed.
Print Assumptions C07_late_frames_ignored.

(* ... and the tunnel stays up whatever the order of cancel / close / data / window frames *)
Theorem C07_tunnel_survives : forall ls t, trun tun0 ls = Some t -> t_err t = false.
Proof. exact no_rpc_event_kills_the_tunnel. Qed.
Print Assumptions C07_tunnel_survives.

(* code shape, regenerated from the source on every run (see theories/SkelFinish.v) *)
From Coq Require Import String.
From GT Require Import SkelFinish.
From GTgen Require Import Params.
Local Open Scope string_scope.
Theorem C07_client_finish_shape : skel_tunnelClientStream_finishStream =
  ["call done.CompareAndSwap"; "defer call cancel"; "call ch.removeStream"; "defer call receiver.close"; "call metaMu.Lock"; "defer call metaMu.Unlock"; "set trailers"; "set gotHeaders"; "close gotHeadersSignal"; "close doneSignal"].
Proof. exact tunnelClientStream_finishStream_shape. Qed.
Print Assumptions C07_client_finish_shape.
Theorem C07_client_cancel_shape : skel_tunnelClientStream_cancelStream =
  ["call finishStream"; "call receiver.cancel"; "go func"].
Proof. exact tunnelClientStream_cancelStream_shape. Qed.
Print Assumptions C07_client_cancel_shape.
Theorem C07_server_finish_shape : skel_tunnelServerStream_finishStream =
  ["call finishErr.CompareAndSwap"; "call finishErr.Load"; "call cancel"; "call svr.removeStream"; "call halfClose"; "call writeMu.Lock"; "defer call writeMu.Unlock"; "set sentHeaders"; "set headers"; "go func"; "set sentHeaders"; "set headers"; "set closed"; "set trailers"].
Proof. exact tunnelServerStream_finishStream_shape. Qed.
Print Assumptions C07_server_finish_shape.

(* ---- one RPC end to end (Rpc.v), every interleaving of cancellation, completion and late frames ---- *)
From GT Require Import Rpc RpcProofs RpcSystem.
Theorem C07_rpc_outcome_write_once : forall strict ls s s', rrun strict s ls = Some s' ->
  (forall c, k_done (r_k s) = Some c -> k_done (r_k s') = Some c) /\
  (forall c, v_fin (r_v s) = Some c -> v_fin (r_v s') = Some c).
Proof. exact rpc_outcome_write_once. Qed.
Print Assumptions C07_rpc_outcome_write_once.
(* frames that arrive for the finished RPC are discarded: neither loop ever ends the tunnel *)
Theorem C07_rpc_late_frames_harmless : forall strict ls s, rrun strict r_init ls = Some s ->
  k_err (r_k s) = false /\ v_err (r_v s) = false.
Proof. exact rpc_tunnel_survives. Qed.
Print Assumptions C07_rpc_late_frames_harmless.
(* the cancel frame is sent at most once, and only by a cancelStream that won *)
Theorem C07_rpc_cancel_frame_once : forall strict ls s, rrun strict r_init ls = Some s -> gc_run (h_c s) <> GcBad.
Proof. exact rpc_client_frames_conform. Qed.
Print Assumptions C07_rpc_cancel_frame_once.
(* ends that RPC at the caller without waiting for the peer: once the context has ended and until the
   caller has its terminal result, a step of the client's own goroutines is enabled (no frame delivery,
   no server step), and that internal activity terminates *)
From GT Require Import RpcInv RpcProgress.
Theorem C07_rpc_cancel_never_waits_for_the_peer : forall strict ls s, rrun strict r_init ls = Some s ->
  k_new (r_k s) = true -> k_ctx (r_k s) = true -> k_sig (r_k s) = false ->
  exists l, In l [CWatch; CRemove; CPublish] /\ exists s', rstep strict s (LK l) = Some s'.
Proof. exact rpc_cancel_never_waits_for_the_peer. Qed.
Print Assumptions C07_rpc_cancel_never_waits_for_the_peer.
Theorem C07_rpc_client_internal_steps_terminate : forall k l k' em,
  kinv k = true -> In l k_internal -> kstep k l = Some (k', em) -> k_measure k' < k_measure k.
Proof. exact rpc_client_internal_steps_terminate. Qed.
Print Assumptions C07_rpc_client_internal_steps_terminate.
(* once the tunnel has delivered the notice, the handler's context is cancelled; and it is cancelled only
   when the stream has been finished *)
Theorem C07_rpc_cancel_notice_cancels_the_handler : forall strict v m v' em,
  vinv strict v = true -> v_tab v = true -> vstep strict v (SLoop FCancel m) = Some (v', em) -> v_ctx v' = true.
Proof. exact rpc_cancel_notice_cancels_the_handler. Qed.
Print Assumptions C07_rpc_cancel_notice_cancels_the_handler.
Theorem C07_rpc_handler_context_cancelled_iff_finished : forall strict ls s,
  rrun strict r_init ls = Some s -> (v_ctx (r_v s) = true <-> v_fin (r_v s) <> None).
Proof. exact rpc_handler_context_cancelled_iff_finished. Qed.
Print Assumptions C07_rpc_handler_context_cancelled_iff_finished.
