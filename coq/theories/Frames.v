(* Data framing: chunking senders (flow_control.go send loops) and reassembly
   (readMsgLocked in tunnel_client.go / tunnel_server.go).  Model only. *)
From Coq Require Import List Arith NArith Bool.
Import ListNotations.
Set Implicit Arguments.

Section Frames.
Variable A : Type.             (* payload alphabet: theorems hold for every A *)

(* a data frame: the envelope (message frame: total size + first bytes) or a continuation *)
Inductive dframe := Env (size : N) (data : list A) | More (data : list A).

Definition lenN (l : list A) : N := N.of_nat (length l).
Definition dsize (f : dframe) : N := match f with Env _ d => lenN d | More d => lenN d end.

(* ---------- reassembly: one call of readMsgLocked consumes frames until a message completes ---------- *)
Inductive rstate := RIdle | RPart (len : N) (buf : list A) | RFailed.
Inductive rerr := EEnvelopeEarly | EMoreThanEnvelope | ENoEnvelope.
Inductive rout := Got (m : list A) | Need | Bad (e : rerr).

Definition fill (sz : N) (b : list A) : rstate * rout :=
  if (sz <? lenN b)%N then (RFailed, Bad EMoreThanEnvelope)
  else if (lenN b =? sz)%N then (RIdle, Got b) else (RPart sz b, Need).

Definition rstep (s : rstate) (f : dframe) : rstate * rout :=
  match s, f with
  | RIdle, Env sz d => fill sz d
  | RPart sz b, More d => fill sz (b ++ d)
  | RPart _ _, Env _ _ => (RFailed, Bad EEnvelopeEarly)
  | RIdle, More _ => (RFailed, Bad ENoEnvelope)
  | RFailed, _ => (RFailed, Bad ENoEnvelope)
  end.

Fixpoint rrun (s : rstate) (fs : list dframe) : rstate * list rout :=
  match fs with
  | [] => (s, [])
  | f :: fs' => let '(s', o) := rstep s f in let '(s'', os) := rrun s' fs' in (s'', o :: os)
  end.

Fixpoint gots (os : list rout) : list (list A) :=
  match os with
  | [] => []
  | Got m :: r => m :: gots r
  | _ :: r => gots r
  end.

(* messages obtained by reading the frame sequence [fs] from a fresh reader *)
Definition delivered_of (fs : list dframe) : list (list A) := gots (snd (rrun RIdle fs)).

(* ---------- senders: cut a message according to a list of chunk sizes ---------- *)
Fixpoint cut (cs : list nat) (m : list A) : list (list A) :=
  match cs with
  | [] => []
  | c :: cs' => firstn c m :: cut cs' (skipn c m)
  end.

Definition frames_of (m : list A) (cs : list nat) : list dframe :=
  match cut cs m with
  | [] => []
  | d :: ds => Env (lenN m) d :: map More ds
  end.

(* what either sender may produce: non-empty list of chunk sizes, each at most cmax,
   summing to the message length, all positive unless the message is empty (then
   exactly one empty chunk) *)
Definition legal (cmax : nat) (cs : list nat) (m : list A) : Prop :=
  cs <> [] /\ list_sum cs = length m /\ Forall (fun c => c <= cmax) cs /\
  (m <> [] -> Forall (fun c => 0 < c) cs) /\ (m = [] -> length cs = 1).

(* noFlowControlSender.send: chunks of min(cmax, remaining); fuel = message length + 1 *)
Fixpoint chunks_nofc_fuel (fuel : nat) (cmax rem : nat) : list nat :=
  match fuel with
  | O => []
  | S k => let c := Nat.min cmax rem in
           if Nat.eqb c rem then [c] else c :: chunks_nofc_fuel k cmax (rem - c)
  end.
Definition chunks_nofc (cmax : nat) (m : list A) : list nat :=
  chunks_nofc_fuel (S (length m)) cmax (length m).

(* defaultSender.send, sequential view: before each chunk the window holds w_i > 0 and the
   chunk is min(w_i, remaining, cmax).  [ws] is the list of window values observed by the
   successful compare-and-swap of each iteration. *)
Fixpoint chunks_fc (cmax : nat) (ws : list nat) (rem : nat) : list nat :=
  match ws with
  | [] => []
  | w :: ws' => let c := Nat.min w (Nat.min rem cmax) in
                if Nat.eqb c rem then [c] else c :: chunks_fc cmax ws' (rem - c)
  end.

End Frames.

Arguments RIdle {A}.
Arguments RFailed {A}.
Arguments Need {A}.
Arguments Bad {A} e.
