From Coq Require Import List Bool Arith Lia.
From GT Require Import Waits.
Import ListNotations.

Lemma wclosed : forall client, forallb (fun s => implb (winv client s)
  (forallb (fun l => match wstep client s l with Some s' => winv client s' | None => true end) all_wl)) all_ws = true.
Proof. intros [|]; vm_compute; reflexivity. Qed.

(* in every quiescent state reached after the stream's context ended (cancel, deadline, or the
   tunnel's tear-down), every blocking point of that stream end has an enabled exit *)
Lemma wquiescent_exits : forall client, forallb (fun s =>
  implb (winv client s && ctx_done s && negb (internal_enabled client s)) (all_exits s)) all_ws = true.
Proof. intros [|]; vm_compute; reflexivity. Qed.

(* the internal activity of a stream end terminates: each internal step strictly decreases this measure *)
Definition wmeasure (s : sstate) : nat := (if watcher_ran s then 0 else 1) + (5 - finisher_pc s).
Lemma wmeasure_decreases : forall client, forallb (fun s => implb (winv client s)
  (forallb (fun l => match wstep client s l with
                     | Some s' => Nat.ltb (wmeasure s') (wmeasure s)
                     | None => true end) [WatcherStep; FinishStep])) all_ws = true.
Proof. intros [|]; vm_compute; reflexivity. Qed.

Lemma winv_pc_small client s : winv client s = true -> finisher_pc s <= 4.
Proof.
  unfold winv. intro H. repeat (apply andb_prop in H as [H ?]). apply Nat.leb_le. assumption.
Qed.

Lemma in_all_ws s : finisher_pc s <= 5 -> In s all_ws.
Proof.
  destruct s as [a b c d e f p]. cbn [finisher_pc]. intro Hp. unfold all_ws.
  assert (Hb : forall x : bool, In x all_b) by (intros [|]; cbn; auto).
  apply in_flat_map. exists a. split; [apply Hb|].
  apply in_flat_map. exists b. split; [apply Hb|].
  apply in_flat_map. exists c. split; [apply Hb|].
  apply in_flat_map. exists d. split; [apply Hb|].
  apply in_flat_map. exists e. split; [apply Hb|].
  apply in_flat_map. exists f. split; [apply Hb|].
  apply in_map. unfold all_pc.
  destruct p as [|[|[|[|[|[|p]]]]]]; cbn; auto 10. lia.
Qed.

Lemma wstep_inv client s l s' : winv client s = true -> wstep client s l = Some s' -> winv client s' = true.
Proof.
  intros Hi Hs. pose proof (wclosed client) as C. rewrite forallb_forall in C.
  assert (Hin : In s all_ws) by (apply in_all_ws; apply winv_pc_small in Hi; lia).
  specialize (C s Hin). rewrite Hi in C. cbn [implb] in C. rewrite forallb_forall in C.
  assert (Hl : In l all_wl) by (destruct l; cbn; auto). specialize (C l Hl). rewrite Hs in C. exact C.
Qed.

Theorem nothing_hangs_after_context_end client ls s :
  wrun client st0 ls = Some s -> ctx_done s = true -> internal_enabled client s = false -> all_exits s = true.
Proof.
  assert (G : forall ls s0 s1, winv client s0 = true -> wrun client s0 ls = Some s1 -> winv client s1 = true).
  { induction ls0 as [|l r IH]; intros s0 s1 H0 H; cbn [wrun] in H.
    - inversion H; subst; assumption.
    - destruct (wstep client s0 l) as [s2|] eqn:E; [|discriminate]. eapply IH; [eapply wstep_inv; eassumption|eassumption]. }
  intros H Hc Hq. assert (I0 : winv client st0 = true) by (destruct client; reflexivity).
  specialize (G ls st0 s I0 H).
  pose proof (wquiescent_exits client) as Q. rewrite forallb_forall in Q.
  assert (Hin : In s all_ws) by (apply in_all_ws; apply winv_pc_small in G; lia).
  specialize (Q s Hin). rewrite G, Hc, Hq in Q. exact Q.
Qed.

Theorem internal_activity_terminates client ls s l s' :
  wrun client st0 ls = Some s -> (l = WatcherStep \/ l = FinishStep) -> wstep client s l = Some s' ->
  wmeasure s' < wmeasure s.
Proof.
  assert (G : forall ls s0 s1, winv client s0 = true -> wrun client s0 ls = Some s1 -> winv client s1 = true).
  { induction ls0 as [|l0 r IH]; intros s0 s1 H0 H; cbn [wrun] in H.
    - inversion H; subst; assumption.
    - destruct (wstep client s0 l0) as [s2|] eqn:E; [|discriminate]. eapply IH; [eapply wstep_inv; eassumption|eassumption]. }
  intros H Hl Hs. assert (I0 : winv client st0 = true) by (destruct client; reflexivity).
  specialize (G ls st0 s I0 H).
  pose proof (wmeasure_decreases client) as M. rewrite forallb_forall in M.
  assert (Hin : In s all_ws) by (apply in_all_ws; apply winv_pc_small in G; lia).
  specialize (M s Hin). rewrite G in M. cbn [implb] in M. rewrite forallb_forall in M.
  assert (Hl' : In l [WatcherStep; FinishStep]) by (destruct Hl; subst; cbn; auto).
  specialize (M l Hl'). rewrite Hs in M. apply Nat.ltb_lt. exact M.
Qed.
