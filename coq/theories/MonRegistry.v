(* C12: the registry model (Registry.v) in lock step with the real handler: tunnels opening
   and closing, RPCs routed through AsChannel / KeyAsChannel, Ready and AllReverseTunnels.
     1201 RPC routed to a different tunnel than the model's round-robin pick
     1202 routing failed / succeeded contrary to the model (no tunnel with that key => Unavailable)
     1203 Ready() differs from the model       1204 AllReverseTunnels() differs from the model
     1205 open / close callbacks not exactly once each, in order
     1206 WaitForReady still blocked although a matching tunnel is registered / returned although none was *)
From Coq Require Import List NArith ZArith Bool.
From GT Require Import Trace Registry.
Import ListNotations.
Local Open Scope N_scope.

Definition flr (code act : N) (a b : Z) : list failure := [mkFail code act a b].

(* affinity keys are mapped to numbers: nil -> 0, others by first appearance *)
Fixpoint key_index (k : str) (ks : list str) (i : N) : option N :=
  match ks with [] => None | k' :: r => if str_eqb k k' then Some i else key_index k r (i + 1) end.

Record gst := mkG {
  g_reg : reg; g_keys : list str;
  g_tkeys : list (N * option str);      (* key of each tunnel, from its opening metadata *)
  g_open : list N; g_closed : list N;
  g_pending : list (N * bool * option str);   (* routed RPCs whose NewStream result is awaited *)
  g_waits : list (N * bool * N);               (* parked WaitForReady calls: number, keyed?, key number *)
  g_fails : list failure
}.

Definition key_num (g : gst) (k : option str) : gst * N :=
  match k with
  | None => (g, 0)
  | Some s => match key_index s (g_keys g) 1 with
              | Some i => (g, i)
              | None => (mkG (g_reg g) (g_keys g ++ [s]) (g_tkeys g) (g_open g) (g_closed g) (g_pending g) (g_waits g) (g_fails g),
                         N.of_nat (length (g_keys g)) + 1)
              end
  end.

Definition key_str : str := [107; 101; 121].
Definition md_key (md : option mdt) : option str :=
  match find (fun kv => str_eqb (fst kv) key_str) (omd md) with
  | Some (_, v :: _) => Some v
  | _ => None
  end.

Definition gfail (g : gst) (f : list failure) : gst :=
  mkG (g_reg g) (g_keys g) (g_tkeys g) (g_open g) (g_closed g) (g_pending g) (g_waits g) (g_fails g ++ f).

Definition tkey (g : gst) (t : N) : option str :=
  match find (fun x => N.eqb (fst x) t) (g_tkeys g) with Some (_, k) => k | None => None end.

Definition close_tunnel (g : gst) (t : N) : gst :=
  mkG (reg_close (g_reg g) t) (g_keys g) (g_tkeys g) (g_open g) (g_closed g) (g_pending g) (g_waits g) (g_fails g).

Definition reg_step (keys_enabled : bool) (g : gst) (e : N * ev) : gst :=
  let '(act, e) := e in
  match e with
  | Stim StOpen t md _ =>
      mkG (g_reg g) (g_keys g) ((t, if keys_enabled then md_key md else None) :: g_tkeys g) (g_open g) (g_closed g) (g_pending g) (g_waits g) (g_fails g)
  | Callback true t =>
      let t := Z.to_N t in
      let '(g, k) := key_num g (tkey g t) in
      let g := if existsb (N.eqb t) (g_open g) then gfail g (flr 1205 act (Z.of_N t) 0) else g in
      mkG (reg_open (g_reg g) t k) (g_keys g) (g_tkeys g) (t :: g_open g) (g_closed g) (g_pending g) (g_waits g) (g_fails g)
  | Callback false t =>
      let t := Z.to_N t in
      let g := if existsb (N.eqb t) (g_closed g) || negb (existsb (N.eqb t) (g_open g)) then gfail g (flr 1205 act (Z.of_N t) 1) else g in
      let g := close_tunnel g t in
      mkG (g_reg g) (g_keys g) (g_tkeys g) (g_open g) (t :: g_closed g) (g_pending g) (g_waits g) (g_fails g)
  | ChanDone t _ => close_tunnel g t          (* tear-down deregisters before the channel is marked done *)
  | Route r keyed key =>
      mkG (g_reg g) (g_keys g) (g_tkeys g) (g_open g) (g_closed g) (g_pending g ++ [(r, keyed, key)]) (g_waits g) (g_fails g)
  | Ret (Cw r) ONew res _ _ _ _ _ _ tc =>
      match find (fun x => match x with (r', _, _) => N.eqb r r' end) (g_pending g) with
      | None => g
      | Some (_, keyed, key) =>
          let g := mkG (g_reg g) (g_keys g) (g_tkeys g) (g_open g) (g_closed g)
                       (filter (fun x => match x with (r', _, _) => negb (N.eqb r r') end) (g_pending g)) (g_waits g) (g_fails g) in
          let '(g, kn) := key_num g key in
          let '(reg', p) := if keyed then reg_pick_key (g_reg g) kn else reg_pick (g_reg g) in
          let g := mkG reg' (g_keys g) (g_tkeys g) (g_open g) (g_closed g) (g_pending g) (g_waits g) (g_fails g) in
          match p, res with
          | Some t, ROk => if Z.eqb tc (Z.of_N t) then g else gfail g (flr 1201 act (Z.of_N t) tc)
          | Some t, _ => g      (* the tunnel picked may just have ended: the error is that tunnel's *)
          | None, ROk => gfail g (flr 1202 act (Z.of_N r) tc)
          | None, _ => if is_code res 14 then g else gfail g (flr 1202 act (Z.of_N r) (-1))
          end
      end
  | ReadyObs keyed key ready all =>
      let '(g, kn) := key_num g key in
      let exp := if keyed then reg_key_ready (g_reg g) kn else rc_ready (glob (g_reg g)) in
      let g := if Bool.eqb exp ready then g else gfail g (flr 1203 act (Z.of_N kn) 0) in
      let exp_all := rc_all (glob (g_reg g)) in
      if (length exp_all =? length all)%nat && forallb (fun p => N.eqb (fst p) (snd p)) (combine exp_all all)
      then g else gfail g (flr 1204 act (Z.of_nat (length exp_all)) (Z.of_nat (length all)))
  | WaitCall n keyed key =>
      let '(g, kn) := key_num g key in
      mkG (g_reg g) (g_keys g) (g_tkeys g) (g_open g) (g_closed g) (g_pending g) (g_waits g ++ [(n, keyed, kn)]) (g_fails g)
  | WaitRet n r =>
      match find (fun x => match x with (n', _, _) => N.eqb n n' end) (g_waits g) with
      | None => g
      | Some (_, keyed, kn) =>
          let g := mkG (g_reg g) (g_keys g) (g_tkeys g) (g_open g) (g_closed g) (g_pending g)
                       (filter (fun x => match x with (n', _, _) => negb (N.eqb n n') end) (g_waits g)) (g_fails g) in
          g
      end
  | _ => g
  end.

(* at the end of every action: a parked waiter whose set is non-empty must have returned *)
Definition waits_check (act : N) (g : gst) : gst :=
  fold_left (fun (g : gst) (w : N * bool * N) => match w with (n, keyed, kn) =>
      let ready := if keyed then reg_key_ready (g_reg g) kn else rc_ready (glob (g_reg g)) in
      if ready then gfail g (flr 1206 act (Z.of_N n) 0) else g end) (g_waits g) g.

Fixpoint reg_run (keys_enabled : bool) (g : gst) (cur : N) (tr : trace) : gst :=
  match tr with
  | [] => g
  | (a, e) :: r =>
      let g := if N.eqb a cur then g else waits_check cur g in
      (* a failing waiter is reported once *)
      let g := if N.eqb a cur then g else
                 mkG (g_reg g) (g_keys g) (g_tkeys g) (g_open g) (g_closed g) (g_pending g)
                     (filter (fun w : N * bool * N => match w with (n, keyed, kn) =>
                         negb (if keyed then reg_key_ready (g_reg g) kn else rc_ready (glob (g_reg g))) end) (g_waits g)) (g_fails g) in
      match e with
      | Teardown => g
      | _ => reg_run keys_enabled (reg_step keys_enabled g (a, e)) a r
      end
  end.

Definition mon_registry (c : cfg) (keys_enabled : bool) (tr : trace) : list failure :=
  if negb (c_rev c) || c_rawc c then []
  else g_fails (reg_run keys_enabled (mkG reg_new [] [] [] [] [] [] []) 0 tr).
