(* The composed system of Rpc.v: global invariant (components + unbounded queues and histories),
   runs of any length, and the statements the properties use. *)
From Coq Require Import List Bool Arith Lia.
From RecordUpdate Require Import RecordUpdate.
From GT Require Import Rpc RpcProofs.
Import ListNotations.

#[global] Arguments gc_run : simpl never.
#[global] Arguments gs_run : simpl never.
Lemma gc_run_app h em : gc_run (h ++ em) = fold_left gc_step em (gc_run h).
Proof. unfold gc_run. apply fold_left_app. Qed.
Lemma gs_run_app h em : gs_run (h ++ em) = fold_left gs_step em (gs_run h).
Proof. unfold gs_run. apply fold_left_app. Qed.

Lemma gs_bad_absorbing fs : fold_left gs_step fs GsBad = GsBad.
Proof. induction fs as [|f fs IH]; cbn; auto. Qed.
Lemma gs_prefix_ok a b : gs_run (a ++ b) <> GsBad -> gs_run a <> GsBad.
Proof. rewrite gs_run_app. intros H E. rewrite E, gs_bad_absorbing in H. congruence. Qed.

Record ginv (strict : bool) (s : rst) : Prop := mkGinv {
  gi_k : kinv (r_k s) = true;
  gi_v : vinv strict (r_v s) = true;
  gi_gc : k_g (r_k s) = gc_run (h_c s);
  gi_gs : v_g (r_v s) = gs_run (h_s s);
  (* the carrier: new_stream travels first and once; the server emits nothing before it has seen it *)
  gi_q : if seen (r_v s)
         then no_new (q_c s) = true /\ k_new (r_k s) = true
         else q_s s = [] /\ h_s s = [] /\
              (if k_new (r_k s) then exists r, q_c s = FNew :: r /\ no_new r = true else q_c s = []);
  gi_n : n_inv s = if h_live (r_v s) then 1 else 0;
  (* what the client's receive loop has taken so far is the part of the server's emissions that is no longer queued *)
  gi_d : exists d, h_s s = d ++ q_s s /\ k_gin (r_k s) = gs_run d
}.

Lemma ginv_init strict : ginv strict r_init.
Proof. constructor; try reflexivity. destruct strict; reflexivity. cbn. auto. exists []. split; reflexivity. Qed.

Lemma no_new_app a b : no_new (a ++ b) = no_new a && no_new b.
Proof. unfold no_new. apply forallb_app. Qed.

Lemma seen_live v : h_live v = true -> seen v = true.
Proof. unfold h_live, seen. destruct (v_h v); auto. Qed.

(* a client step that is not the receive loop's *)
Lemma ginv_step_k strict s l k' em :
  ginv strict s -> kenv (r_k s) l = true -> kstep (r_k s) l = Some (k', em) ->
  forall qs', (seen (r_v s) = false -> qs' = q_s s) ->
  (exists d', h_s s = d' ++ qs' /\ k_gin k' = gs_run d') ->
  ginv strict (mkRst k' (r_v s) (q_c s ++ em) qs' (h_c s ++ em) (h_s s) (n_inv s)).
Proof.
  intros [Hk Hv Hgc Hgs Hq Hn Hd] He Hs qs' Hqs Hd'.
  destruct (kstep_ok _ _ _ _ Hk He Hs) as (Hk' & Hem & Hg & _).
  constructor; cbn; auto.
  - rewrite gc_run_app, <- Hgc. exact Hg.
  - unfold kem_ok in Hem. destruct (seen (r_v s)) eqn:Es.
    + destruct Hq as [Hq1 Hq2]. rewrite Hq2 in Hem. apply andb_true_iff in Hem. destruct Hem as [Hem1 Hem2].
      split; auto. rewrite no_new_app, Hq1, Hem1. reflexivity.
    + destruct Hq as (Hq1 & Hq2 & Hq3). rewrite (Hqs eq_refl). split; [auto|split; [auto|]].
      destruct (k_new (r_k s)) eqn:En.
      * apply andb_true_iff in Hem. destruct Hem as [Hem1 Hem2]. rewrite Hem2.
        destruct Hq3 as (r & Hr1 & Hr2). exists (r ++ em). rewrite Hr1. split; [reflexivity|].
        rewrite no_new_app, Hr2, Hem1. reflexivity.
      * rewrite Hq3. destruct em as [|[] [|? ?]]; try discriminate.
        -- apply negb_true_iff in Hem. rewrite Hem. reflexivity.
        -- rewrite Hem. exists []. split; reflexivity.
Qed.

(* a server step *)
Lemma ginv_step_v strict s l v' em :
  ginv strict s -> venv (r_v s) l = true -> vstep strict (r_v s) l = Some (v', em) ->
  forall qc', (match l with
               | SLoop f _ => q_c s = f :: qc'
               | _ => qc' = q_c s end) ->
  ginv strict (mkRst (r_k s) v' qc' (q_s s ++ em) (h_c s) (h_s s ++ em) (n_inv s + invoked (r_v s) v')).
Proof.
  intros [Hk Hv Hgc Hgs Hq Hn Hd] He Hs qc' Hqc.
  destruct (vstep_ok _ _ _ _ _ Hv He Hs) as (Hv' & Hem & Hg).
  unfold vem_ok in Hem. apply andb_true_iff in Hem. destruct Hem as [Hem Hem3].
  apply andb_true_iff in Hem. destruct Hem as [Hem1 Hem2].
  constructor; cbn; auto.
  - rewrite gs_run_app, <- Hgs. exact Hg.
  - destruct (seen (r_v s)) eqn:Es.
    + (* already seen: stays seen; the queue only loses frames *)
      destruct Hq as [Hq1 Hq2].
      assert (Es' : seen v' = true).
      { destruct l as [[] ?| | | | | | | | | |]; cbn in He, Hem2; try (rewrite Es in He; discriminate);
          apply eqb_prop in Hem2; congruence. }
      rewrite Es'. split; auto.
      destruct l as [f m| | | | | | | | | |]; try (subst qc'; exact Hq1).
      rewrite Hqc in Hq1. cbn in Hq1. apply andb_true_iff in Hq1. tauto.
    + destruct Hq as (Hq1 & Hq2 & Hq3).
      destruct em as [|e em]; [|discriminate]. rewrite !app_nil_r.
      destruct l as [f m| | | | | | | | | |];
        try (subst qc'; cbn in Hem2; apply eqb_prop in Hem2; rewrite Hem2, ?Es; auto).
      (* the serve loop takes a frame while the id is unseen: it is new_stream *)
      destruct (k_new (r_k s)) eqn:En; [|rewrite Hq3 in Hqc; discriminate].
      destruct Hq3 as (r & Hr1 & Hr2). rewrite Hr1 in Hqc. inversion Hqc; subst f qc'.
      rewrite Hem2. auto.
  - (* invocations *)
    rewrite Hn. unfold invoked, h_live.
    destruct (v_h (r_v s)), (v_h v'); try discriminate; reflexivity.
  - destruct Hd as (d & Hd1 & Hd2). exists d. split; [rewrite Hd1, app_assoc; reflexivity | exact Hd2].
Qed.

Lemma ginv_step strict s l s' : ginv strict s -> rstep strict s l = Some s' -> ginv strict s'.
Proof.
  intros I H. destruct l as [l|bad|l|m]; cbn in H.
  - (* LK *)
    destruct l; try discriminate;
      match type of H with context [kstep ?k ?l] => destruct (kstep k l) as [[k' em]|] eqn:Hs; [|discriminate] end;
      inversion H; subst s'; clear H;
      (refine (ginv_step_k strict s _ k' em I _ Hs (q_s s) _ _); [reflexivity | auto |]);
      (destruct I as [Hk0 _ _ _ _ _ (d & Hd1 & Hd2)]; exists d; split; [exact Hd1|];
       match goal with Hs : kstep _ ?l = _ |- _ => destruct (kstep_ok _ l _ _ Hk0 eq_refl Hs) as (_ & _ & _ & Hgin) end;
       cbn in Hgin; rewrite Hgin; exact Hd2).
  - (* LKLoop *)
    destruct (q_s s) as [|f r] eqn:Eq; [discriminate|].
    destruct (kstep (r_k s) (CLoop f bad)) as [[k' em]|] eqn:Hs; [|discriminate].
    inversion H; subst s'; clear H.
    assert (Hseen : seen (r_v s) = true).
    { destruct I as [_ _ _ _ Hq _]. destruct (seen (r_v s)); auto. destruct Hq as [Hq _]. congruence. }
    assert (He : kenv (r_k s) (CLoop f bad) = true).
    { cbn. pose proof I as [_ Hv0 _ Hgs0 Hq _ (d & Hd1 & Hd2)]. rewrite Hseen in Hq. destruct Hq as [_ Hq]. rewrite Hq. cbn.
      (* the frame at the head of the queue extends what was taken to a prefix of the server's conforming history *)
      apply negb_true_iff. destruct (gs_eqb (gs_step (k_gin (r_k s)) f) GsBad) eqn:E; [|reflexivity]. exfalso.
      apply gs_eqb_eq in E.
      assert (Hnb : gs_run (h_s s) <> GsBad).
      { rewrite <- Hgs0. intros Eb.
        assert (Hx : negb (gs_eqb (v_g (r_v s)) GsBad) = true) by (apply (vP_notbad strict); exact Hv0).
        rewrite Eb in Hx. discriminate. }
      rewrite Hd1, Eq in Hnb. change (d ++ f :: r) with (d ++ [f] ++ r) in Hnb. rewrite app_assoc in Hnb.
      apply gs_prefix_ok in Hnb. apply Hnb. rewrite gs_run_app. cbn. rewrite <- Hd2. exact E. }
    refine (ginv_step_k strict s _ k' em I He Hs r _ _); [congruence|].
    destruct I as [Hk0 _ _ _ _ _ (d & Hd1 & Hd2)]. exists (d ++ [f]). split.
    + rewrite Hd1, Eq, <- app_assoc. reflexivity.
    + destruct (kstep_ok _ _ _ _ Hk0 He Hs) as (_ & _ & _ & Hgin). rewrite Hgin, gs_run_app, <- Hd2. reflexivity.
  - (* LV *)
    destruct l; try discriminate;
      match type of H with context [vstep ?st ?v ?l] => destruct (vstep st v l) as [[v' em]|] eqn:Hs; [|discriminate] end;
      inversion H; subst s'; clear H.
    all: match goal with
         | |- ginv _ (mkRst ?k ?v' ?qc ?qs ?hc ?hs ?n) =>
             replace n with (n + invoked (r_v s) v')
         end.
    all: try (refine (ginv_step_v strict s _ v' em I _ Hs (q_c s) _); reflexivity).
    all: (* the handler state cannot go from "unseen" to running without the serve loop *)
      destruct I as [_ Hv _ _ _ _];
      match goal with Hs : vstep _ _ ?l = _ |- _ =>
        destruct (vstep_ok _ _ l _ _ Hv eq_refl Hs) as (_ & Hem & _) end;
      unfold vem_ok in Hem; apply andb_true_iff in Hem; destruct Hem as [Hem _];
      apply andb_true_iff in Hem; destruct Hem as [_ Hem]; apply eqb_prop in Hem;
      unfold invoked, seen in *; destruct (v_h (r_v s)), (v_h v'); try discriminate; lia.
  - (* LVLoop *)
    destruct (q_c s) as [|f r] eqn:Eq; [discriminate|].
    destruct (vstep strict (r_v s) (SLoop f m)) as [[v' em]|] eqn:Hs; [|discriminate].
    inversion H; subst s'; clear H.
    assert (He : venv (r_v s) (SLoop f m) = true).
    { destruct I as [_ _ _ _ Hq _]. destruct (seen (r_v s)) eqn:Es.
      - destruct Hq as [Hq _]. rewrite Eq in Hq. cbn in Hq. apply andb_true_iff in Hq. destruct Hq as [Hq _].
        destruct f; cbn in *; try discriminate; rewrite Es; reflexivity.
      - destruct Hq as (_ & _ & Hq). destruct (k_new (r_k s)).
        + destruct Hq as (r0 & Hr & _). rewrite Eq in Hr. inversion Hr; subst. cbn. rewrite Es. reflexivity.
        + rewrite Eq in Hq. discriminate. }
    apply (ginv_step_v strict s _ v' em I He Hs r). exact Eq.
Qed.

Lemma rpc_run_from strict ls s0 s : ginv strict s0 -> rrun strict s0 ls = Some s -> ginv strict s.
Proof.
  revert s0. induction ls as [|l ls IH]; cbn; intros s0 I H.
  - inversion H; subst; exact I.
  - destruct (rstep strict s0 l) as [s1|] eqn:E; [|discriminate]. eauto using ginv_step.
Qed.
Theorem rpc_run_inv strict ls s : rrun strict r_init ls = Some s -> ginv strict s.
Proof. apply rpc_run_from, ginv_init. Qed.

(* ---------- the two grammars, read on histories ---------- *)
Lemma gc_bad_absorbing fs : fold_left gc_step fs GcBad = GcBad.
Proof. induction fs as [|f fs IH]; cbn; auto. Qed.
Lemma gc_prefix_ok a b : gc_run (a ++ b) <> GcBad -> gc_run a <> GcBad.
Proof. rewrite gc_run_app. intros H E. rewrite E, gc_bad_absorbing in H. congruence. Qed.

(* after a half-close any request data, or a second half-close, is a violation *)
Lemma gc_after_half post : forall c, In FReq post \/ In FHalf post -> fold_left gc_step post (GcOpen true c) = GcBad.
Proof.
  induction post as [|f post IH]; intros c [H|H]; try (destruct H; fail).
  - destruct H as [->|H]; cbn; [apply gc_bad_absorbing|].
    destruct f; cbn; try apply gc_bad_absorbing; try (apply IH; auto). destruct c; [apply gc_bad_absorbing | apply IH; auto].
  - destruct H as [->|H]; cbn; [apply gc_bad_absorbing|].
    destruct f; cbn; try apply gc_bad_absorbing; try (apply IH; auto). destruct c; [apply gc_bad_absorbing | apply IH; auto].
Qed.
Theorem conforming_no_data_after_half_close h pre post :
  gc_run h <> GcBad -> h = pre ++ FHalf :: post -> ~ In FReq post /\ ~ In FHalf post.
Proof.
  intros Hok ->. assert (H : ~ (In FReq post \/ In FHalf post)); [|tauto].
  intros Hin. apply Hok. rewrite gc_run_app. cbn [fold_left].
  destruct (gc_run pre) as [|hh c|] eqn:E; cbn; try apply gc_bad_absorbing.
  destruct hh; [apply gc_bad_absorbing | apply gc_after_half; exact Hin].
Qed.
(* after a cancel a second cancel is a violation *)
Lemma gc_after_cancel post : forall hh, In FCancel post -> fold_left gc_step post (GcOpen hh true) = GcBad.
Proof.
  induction post as [|f post IH]; intros hh H; [destruct H|].
  destruct H as [->|H]; cbn; [apply gc_bad_absorbing|].
  destruct f; cbn; try apply gc_bad_absorbing; try (apply IH; auto);
    destruct hh; try apply gc_bad_absorbing; apply IH; auto.
Qed.
Theorem conforming_cancel_once h pre post :
  gc_run h <> GcBad -> h = pre ++ FCancel :: post -> ~ In FCancel post.
Proof.
  intros Hok -> Hin. apply Hok. rewrite gc_run_app. cbn [fold_left].
  destruct (gc_run pre) as [|hh c|] eqn:E; cbn; try apply gc_bad_absorbing.
  destruct c; [apply gc_bad_absorbing | apply gc_after_cancel; exact Hin].
Qed.
(* every stream begins with its new_stream frame, and has only one *)
Theorem conforming_new_stream_first h :
  gc_run h <> GcBad -> h = [] \/ exists r, h = FNew :: r /\ ~ In FNew r.
Proof.
  destruct h as [|f r]; [auto|]. intros Hok. right.
  destruct f; try (exfalso; apply Hok; unfold gc_run; cbn; apply gc_bad_absorbing).
  exists r. split; [reflexivity|]. intros Hin. apply Hok. unfold gc_run. cbn.
  clear Hok. generalize false at 1, false at 1. induction r as [|f r IH]; intros a b; [destruct Hin|].
  destruct Hin as [->|Hin]; cbn; [apply gc_bad_absorbing|].
  destruct f; cbn; try apply gc_bad_absorbing; try (apply IH; exact Hin);
    destruct a; try destruct b; try apply gc_bad_absorbing; apply IH; exact Hin.
Qed.

Lemma count_close_app a b : count_close (a ++ b) = count_close a + count_close b.
Proof. induction a as [|x a IH]; cbn; [reflexivity|]. destruct x; cbn; rewrite IH; reflexivity. Qed.
Lemma gs_close_count h :
  match gs_run h with
  | GsStart | GsHdr => count_close h = 0
  | GsClosed | GsClosedWu => count_close h = 1
  | GsBad => True
  end.
Proof.
  induction h as [|f h IH] using rev_ind; [reflexivity|].
  rewrite gs_run_app, count_close_app. cbn [fold_left].
  destruct (gs_run h), f; cbn; try exact I; lia.
Qed.
Lemma count_close_in h : count_close h = 0 -> ~ In FClose h.
Proof. induction h as [|f h IH]; cbn; [tauto|]. destruct f; try discriminate; intros H [E|Hin]; try discriminate; tauto. Qed.
(* when the automaton sits in GsClosed, the close frame is the last frame and the only one *)
Theorem conforming_close_is_last h pre post :
  gs_run h = GsClosed -> h = pre ++ FClose :: post -> post = [].
Proof.
  intros Hg E. destruct h as [|f0 h0] using rev_ind; [discriminate|]. clear IHh0.
  rewrite gs_run_app in Hg. cbn [fold_left] in Hg.
  pose proof (gs_close_count h0) as Hc.
  assert (f0 = FClose /\ count_close h0 = 0) as [-> Hc0].
  { destruct (gs_run h0), f0; cbn in Hg; try discriminate; auto. }
  destruct post as [|p post] using rev_ind; [reflexivity|]. clear IHpost. exfalso.
  change (pre ++ FClose :: post ++ [p]) with (pre ++ (FClose :: post) ++ [p]) in E.
  rewrite app_assoc in E. apply app_inj_tail in E. destruct E as [E _].
  apply (count_close_in _ Hc0). rewrite E. apply in_or_app. right. left. reflexivity.
Qed.

(* ---------- the statements ---------- *)
Section Statements.
Variable strict : bool.
Variables (ls : list rlbl) (s : rst).
Hypothesis Hrun : rrun strict r_init ls = Some s.

(* C13: the frames a tunnel client emits on a stream conform *)
Theorem rpc_client_frames_conform : gc_run (h_c s) <> GcBad.
Proof.
  destruct (rpc_run_inv _ _ _ Hrun) as [Hk _ Hgc _ _ _]. rewrite <- Hgc.
  pose proof (kP_notbad _ Hk) as H. unfold P_k_notbad in H.
  intros E. rewrite E in H. discriminate.
Qed.

(* C13: the frames a tunnel server emits on a stream conform *)
Theorem rpc_server_frames_conform : gs_run (h_s s) <> GsBad.
Proof.
  destruct (rpc_run_inv _ _ _ Hrun) as [_ Hv _ Hgs _ _]. rewrite <- Hgs.
  pose proof (vP_notbad _ _ Hv) as H. unfold P_v_notbad in H.
  intros E. rewrite E in H. discriminate.
Qed.

Theorem rpc_at_most_one_close : count_close (h_s s) <= 1.
Proof.
  pose proof rpc_server_frames_conform as H. pose proof (gs_close_count (h_s s)) as Hc.
  destruct (gs_run (h_s s)); try lia. congruence.
Qed.

(* C13 / C14: once the handler has returned (or the stream was refused) and the server's goroutines
   for the stream have run, exactly one close frame has been emitted *)
Theorem rpc_exactly_one_close_when_settled :
  (v_h (r_v s) = HRet \/ v_h (r_v s) = HRej) -> s_quiet (r_v s) = true -> count_close (h_s s) = 1.
Proof.
  intros Hh Hq. destruct (rpc_run_inv _ _ _ Hrun) as [_ Hv _ Hgs _ _].
  pose proof (vP_settled _ _ Hv) as H. unfold P_v_settled in H.
  rewrite Hq in H. pose proof (gs_close_count (h_s s)) as Hc. rewrite <- Hgs in Hc.
  destruct Hh as [Hh|Hh]; rewrite Hh in H; cbn in H; destruct (v_g (r_v s)); try discriminate; exact Hc.
Qed.

(* C08: one RPC, at most one handler invocation, and exactly one once the stream was accepted *)
Theorem rpc_at_most_one_invocation : n_inv s <= 1 /\ (n_inv s = 1 <-> h_live (r_v s) = true).
Proof.
  destruct (rpc_run_inv _ _ _ Hrun) as [_ _ _ _ _ Hn]. rewrite Hn.
  destruct (h_live (r_v s)); split; try lia; split; intros; try discriminate; auto.
Qed.

(* C03 / C07 / C08: whatever the order of sends, half-close, cancellation, completion, refusal and
   late frames, neither receive loop ever meets a frame it treats as a tunnel-level violation *)
Theorem rpc_tunnel_survives : k_err (r_k s) = false /\ v_err (r_v s) = false.
Proof.
  destruct (rpc_run_inv _ _ _ Hrun) as [Hk Hv _ _ _ _]. split.
  - pose proof (kP_noerr _ Hk) as H. unfold P_k_noerr in H.
    destruct (k_err (r_k s)); [discriminate|reflexivity].
  - pose proof (vP_noerr _ _ Hv) as H. unfold P_v_noerr in H.
    destruct (v_err (r_v s)); [discriminate|reflexivity].
Qed.

(* C14: finished means removed from the tables *)
Theorem rpc_tables_clean :
  (k_done (r_k s) <> None -> c_quiet (r_k s) = true -> k_tab (r_k s) = false) /\
  (v_h (r_v s) = HRet -> v_hf (r_v s) = S0 -> v_tab (r_v s) = false) /\
  (v_h (r_v s) = HRej \/ v_h (r_v s) = HNone -> v_tab (r_v s) = false) /\
  (v_closed (r_v s) = true -> v_tab (r_v s) = false).
Proof.
  destruct (rpc_run_inv _ _ _ Hrun) as [Hk Hv _ _ _ _]. repeat split.
  - intros Hd Hq.
    pose proof (kP_tab _ Hk) as H. unfold P_k_tab in H.
    rewrite Hq in H. destruct (k_done (r_k s)); [|congruence]. cbn in H. destruct (k_tab (r_k s)); [discriminate|reflexivity].
  - intros Hh Hf.
    pose proof (vP_tab1 _ _ Hv) as H. unfold P_v_tab1 in H.
    rewrite Hh, Hf in H. cbn in H. destruct (v_tab (r_v s)); [discriminate|reflexivity].
  - intros Hh.
    pose proof (vP_tab2 _ _ Hv) as H. unfold P_v_tab2 in H.
    unfold h_live in H. destruct Hh as [Hh|Hh]; rewrite Hh in H; destruct (v_tab (r_v s)); try discriminate; reflexivity.
  - intros Hc.
    pose proof (vP_tab3 _ _ Hv) as H. unfold P_v_tab3 in H.
    rewrite Hc in H. destruct (v_tab (r_v s)); [discriminate|reflexivity].
Qed.
End Statements.

(* C13: with the handler's reads confined to its own goroutine, the close frame is the last frame
   of a stream the handler ended *)
Theorem rpc_close_is_last_when_handler_ended ls s pre post :
  rrun true r_init ls = Some s -> v_fin (r_v s) = Some SHandler ->
  h_s s = pre ++ FClose :: post -> post = [].
Proof.
  intros Hrun Hf E. destruct (rpc_run_inv _ _ _ Hrun) as [_ Hv _ Hgs _ _].
  pose proof (vP_last _ Hv) as H. unfold P_v_last in H.
  rewrite Hf in H. cbn [scause_o_eqb] in H. rewrite Hgs in H.
  pose proof (gs_close_count (h_s s)) as Hc.
  destruct (gs_run (h_s s)) eqn:Eg; try discriminate.
  - exfalso. apply (count_close_in _ Hc). rewrite E. apply in_or_app. right. left. reflexivity.
  - exfalso. apply (count_close_in _ Hc). rewrite E. apply in_or_app. right. left. reflexivity.
  - eapply conforming_close_is_last; eauto.
Qed.

(* ... and without that confinement it is not: a read that is between its half-close check and its
   Send when the handler returns puts a window update after the close frame *)
Definition wu_after_close_run : list rlbl :=
  [LK CNew; LVLoop LNormal; LV SWuCheck; LV HReturn; LV SFinH; LV SFinH; LV SFinH; LV SCloseGo; LV SCloseGo; LV SWuSend].
Theorem rpc_close_is_last_needs_confinement :
  exists s, rrun false r_init wu_after_close_run = Some s /\ v_fin (r_v s) = Some SHandler /\
            h_s s = [FHdr; FClose; FSwu].
Proof. eexists. vm_compute. repeat split. Qed.

(* C07: the first cause wins on both ends, from any state, along any run *)
Theorem rpc_outcome_write_once strict ls : forall s s',
  rrun strict s ls = Some s' ->
  (forall c, k_done (r_k s) = Some c -> k_done (r_k s') = Some c) /\
  (forall c, v_fin (r_v s) = Some c -> v_fin (r_v s') = Some c).
Proof.
  induction ls as [|l ls IH]; cbn; intros s s' H.
  - inversion H; subst; auto.
  - destruct (rstep strict s l) as [s1|] eqn:E; [|discriminate].
    destruct (IH _ _ H) as [IH1 IH2].
    assert (forall c, k_done (r_k s) = Some c -> k_done (r_k s1) = Some c) as K1.
    { intros c Hc. destruct l as [l|bad|l|m]; cbn in E.
      - destruct l; try discriminate;
          match type of E with context [kstep ?k ?l] => destruct (kstep k l) as [[k' em]|] eqn:Hs; [|discriminate] end;
          inversion E; subst s1; cbn; eauto using kstep_done_write_once.
      - destruct (q_s s); [discriminate|]. destruct (kstep _ _) as [[k' em]|] eqn:Hs; [|discriminate].
        inversion E; subst s1; cbn; eauto using kstep_done_write_once.
      - destruct l; try discriminate;
          match type of E with context [vstep ?st ?v ?l] => destruct (vstep st v l) as [[v' em]|]; [|discriminate] end;
          inversion E; subst s1; cbn; auto.
      - destruct (q_c s); [discriminate|]. destruct (vstep _ _ _) as [[v' em]|]; [|discriminate].
        inversion E; subst s1; cbn; auto. }
    assert (forall c, v_fin (r_v s) = Some c -> v_fin (r_v s1) = Some c) as K2.
    { intros c Hc. destruct l as [l|bad|l|m]; cbn in E.
      - destruct l; try discriminate;
          match type of E with context [kstep ?k ?l] => destruct (kstep k l) as [[k' em]|]; [|discriminate] end;
          inversion E; subst s1; cbn; auto.
      - destruct (q_s s); [discriminate|]. destruct (kstep _ _) as [[k' em]|]; [|discriminate].
        inversion E; subst s1; cbn; auto.
      - destruct l; try discriminate;
          match type of E with context [vstep ?st ?v ?l] => destruct (vstep st v l) as [[v' em]|] eqn:Hs; [|discriminate] end;
          inversion E; subst s1; cbn; eauto using vstep_fin_write_once.
      - destruct (q_c s); [discriminate|]. destruct (vstep _ _ _) as [[v' em]|] eqn:Hs; [|discriminate].
        inversion E; subst s1; cbn; eauto using vstep_fin_write_once. }
    split; intros c Hc; auto.
Qed.

(* C09: the server's side of a stream against ANY peer: whatever frames the serve loop is handed for
   the id, in whatever order (new_stream late, twice, never; data after half-close; ...), what the
   server emits for the stream conforms and carries at most one close *)
Fixpoint vrun (strict : bool) (v : sv) (ls : list vlbl) : option (sv * list sframe) :=
  match ls with
  | [] => Some (v, [])
  | l :: r => match vstep strict v l with
              | Some (v1, em) => match vrun strict v1 r with Some (v2, em2) => Some (v2, em ++ em2) | None => None end
              | None => None
              end
  end.
Lemma vinv0_init strict : vinv0 strict v_init = true. Proof. destruct strict; reflexivity. Qed.
Lemma vrun_hostile strict ls : forall v v' h em,
  vinv0 strict v = true -> v_g v = gs_run h -> vrun strict v ls = Some (v', em) ->
  vinv0 strict v' = true /\ v_g v' = gs_run (h ++ em).
Proof.
  induction ls as [|l ls IH]; cbn; intros v v' h em Hi Hg H.
  - inversion H; subst. rewrite app_nil_r. auto.
  - destruct (vstep strict v l) as [[v1 em1]|] eqn:E; [|discriminate].
    destruct (vrun strict v1 ls) as [[v2 em2]|] eqn:E2; [|discriminate]. inversion H; subst v' em.
    destruct (vstep_ok_hostile _ _ _ _ _ Hi E) as [Hi1 Hg1].
    rewrite app_assoc. apply (IH v1 v2 (h ++ em1) em2); auto.
    rewrite gs_run_app, <- Hg. exact Hg1.
Qed.
Theorem server_stream_conforms_against_any_peer strict ls v em :
  vrun strict v_init ls = Some (v, em) -> gs_run em <> GsBad /\ count_close em <= 1.
Proof.
  intros H. destruct (vrun_hostile strict ls v_init v [] em (vinv0_init strict) eq_refl H) as [Hi Hg].
  cbn in Hg.
  pose proof (vP_notbad0 _ _ Hi) as Hb. unfold P_v_notbad in Hb.
  rewrite Hg in Hb. split.
  - intros E. rewrite E in Hb. discriminate.
  - pose proof (gs_close_count em) as Hc. destruct (gs_run em); try lia. discriminate.
Qed.

(* non-vacuity: a unary exchange, a cancellation racing the close, a refusal *)
Definition unary_run : list rlbl :=
  [LK CNew; LK CSend; LK CHalf; LVLoop LNormal; LVLoop LNormal; LVLoop LNormal; LV HSend; LV HReturn;
   LV SFinH; LV SFinH; LV SFinH; LV SCloseGo; LKLoop false; LKLoop false; LKLoop false; LK CRemove; LK CPublish; LK CWatch].
Example unary_run_ok :
  exists s, rrun true r_init unary_run = Some s /\ h_c s = [FNew; FReq; FHalf] /\ h_s s = [FHdr; FResp; FClose] /\
            n_inv s = 1 /\ k_done (r_k s) = Some LoopClose /\ k_tab (r_k s) = false /\ v_tab (r_v s) = false /\
            s_quiet (r_v s) = true /\ c_quiet (r_k s) = true.
Proof. eexists. vm_compute. repeat split. Qed.
Definition cancel_race_run : list rlbl :=
  [LK CNew; LVLoop LNormal; LV HReturn; LV SFinH; LV SFinH; LV SFinH; LV SCloseGo; LV SCloseGo;
   LK CCtxEnd; LK CWatch; LKLoop false; LKLoop false; LK CRemove; LK CPublish; LK CGoCancel; LVLoop LNormal].
Example cancel_race_run_ok :
  exists s, rrun true r_init cancel_race_run = Some s /\ k_done (r_k s) = Some ByCtx /\
            h_c s = [FNew; FCancel] /\ h_s s = [FHdr; FClose] /\ q_c s = [] /\ q_s s = [] /\
            k_err (r_k s) = false /\ v_err (r_v s) = false.
Proof. eexists. vm_compute. repeat split. Qed.
Example refusal_run_ok :
  exists s, rrun true r_init [LK CNew; LK CSend; LVLoop LReject; LVLoop LNormal; LV SRejGo; LKLoop false] = Some s /\
            h_s s = [FClose] /\ n_inv s = 0 /\ k_done (r_k s) = Some LoopClose /\ v_err (r_v s) = false.
Proof. eexists. vm_compute. repeat split. Qed.
