(* Invariants of the two endpoint components of Rpc.v (definitions; the checks are in RpcCheck*.v)
   Theorems about the composed per-RPC system of Rpc.v: for every interleaving of the
   application's calls, the goroutines both endpoints spawn and the two receive loops.

   Method: each endpoint component has a finite control state.  Its invariant is a boolean
   function; "every step from every control state that satisfies the invariant (and the
   component's assumption about the frames it is handed) leads to a state that satisfies it"
   is checked by evaluating it on ALL control states (vm_compute) and lifted to a universally
   quantified lemma.  The global invariant adds the facts about the unbounded queues and
   histories; runs of any length follow by induction. *)
From Coq Require Import List Bool Arith Lia.
From RecordUpdate Require Import RecordUpdate.
From GT Require Import Rpc.
Import ListNotations.

(* ---------- finite enumeration ---------- *)
Definition all_bool := [true; false].
Definition all_ccause_o := [None; Some LoopClose; Some LoopProto; Some ByCtx; Some ByReader].
Definition all_cstage := [F0; FWon; FRemoved; FPub].
Definition all_gc := [GcStart; GcOpen false false; GcOpen false true; GcOpen true false; GcOpen true true; GcBad].
Definition all_hstate := [HNone; HRun; HRet; HRej].
Definition all_scause_o := [None; Some SHandler; Some SCancelF; Some SProtoL; Some SReader].
Definition all_sstage := [S0; SRem; SHalfSt; SWr].
Definition all_cgo := [CGNone; CGHdr; CGClose; CGDone].
Definition all_gs := [GsStart; GsHdr; GsClosed; GsClosedWu; GsBad].
Definition all_sframe := [FHdr; FResp; FClose; FSwu].
Definition all_cframe := [FNew; FReq; FHalf; FCancel; FCwu].
Definition all_lmode := [LNormal; LReject; LBad].

Lemma all_bool_ok : forall x, In x all_bool. Proof. intros []; cbn; tauto. Qed.
Lemma all_ccause_o_ok : forall x, In x all_ccause_o. Proof. intros [[]|]; cbn; tauto. Qed.
Lemma all_cstage_ok : forall x, In x all_cstage. Proof. intros []; cbn; tauto. Qed.
Lemma all_gc_ok : forall x, In x all_gc. Proof. intros [|[] []|]; cbn; tauto. Qed.
Lemma all_hstate_ok : forall x, In x all_hstate. Proof. intros []; cbn; tauto. Qed.
Lemma all_scause_o_ok : forall x, In x all_scause_o. Proof. intros [[]|]; cbn; tauto. Qed.
Lemma all_sstage_ok : forall x, In x all_sstage. Proof. intros []; cbn; tauto. Qed.
Lemma all_cgo_ok : forall x, In x all_cgo. Proof. intros []; cbn; tauto. Qed.
Lemma all_gs_ok : forall x, In x all_gs. Proof. intros []; cbn; tauto. Qed.
Lemma all_sframe_ok : forall x, In x all_sframe. Proof. intros []; cbn; tauto. Qed.
Lemma all_cframe_ok : forall x, In x all_cframe. Proof. intros []; cbn; tauto. Qed.
Lemma all_lmode_ok : forall x, In x all_lmode. Proof. intros []; cbn; tauto. Qed.

Ltac peel H x okl :=
  let H' := fresh in
  pose proof (proj1 (forallb_forall _ _) H x (okl x)) as H'; cbv beta in H'; clear H; rename H' into H.

Definition forall_ck (P : ck -> bool) : bool :=
  forallb (fun a => forallb (fun b => forallb (fun c => forallb (fun d => forallb (fun e =>
  forallb (fun f => forallb (fun g => forallb (fun h => forallb (fun i => forallb (fun j =>
  forallb (fun k => forallb (fun k2 => forallb (fun k3 => forallb (fun k4 => forallb (fun k5 => forallb (fun l => P (mkCk a b c d e f g h i j k k2 k3 k4 k5 l))
  all_gc) all_gs) all_bool) all_bool) all_bool) all_bool) all_bool) all_bool) all_bool) all_bool) all_bool) all_bool) all_cstage) all_ccause_o) all_bool) all_bool.
Lemma forall_ck_ok P : forall_ck P = true -> forall k, P k = true.
Proof.
  intros H [a b c d e f g h i j k k2 k3 k4 k5 l]. unfold forall_ck in H.
  peel H a all_bool_ok. peel H b all_bool_ok. peel H c all_ccause_o_ok. peel H d all_cstage_ok.
  peel H e all_bool_ok. peel H f all_bool_ok. peel H g all_bool_ok. peel H h all_bool_ok.
  peel H i all_bool_ok. peel H j all_bool_ok. peel H k all_bool_ok. peel H k2 all_bool_ok. peel H k3 all_bool_ok. peel H k4 all_bool_ok. peel H k5 all_gs_ok. peel H l all_gc_ok. exact H.
Qed.

Definition forall_sv (P : sv -> bool) : bool :=
  forallb (fun a => forallb (fun b => forallb (fun c => forallb (fun d => forallb (fun e =>
  forallb (fun f => forallb (fun g => forallb (fun h => forallb (fun i => forallb (fun j =>
  forallb (fun k => forallb (fun l => forallb (fun l2 => forallb (fun m => P (mkSv a b c d e f g h i j k l l2 m))
  all_gs) all_bool) all_bool) all_bool) all_bool) all_cgo) all_bool) all_bool) all_bool) all_sstage) all_sstage) all_scause_o) all_hstate) all_bool.
Lemma forall_sv_ok P : forall_sv P = true -> forall v, P v = true.
Proof.
  intros H [a b c d e f g h i j k l l2 m]. unfold forall_sv in H.
  peel H a all_bool_ok. peel H b all_hstate_ok. peel H c all_scause_o_ok. peel H d all_sstage_ok.
  peel H e all_sstage_ok. peel H f all_bool_ok. peel H g all_bool_ok. peel H h all_bool_ok.
  peel H i all_cgo_ok. peel H j all_bool_ok. peel H k all_bool_ok. peel H l all_bool_ok. peel H l2 all_bool_ok.
  peel H m all_gs_ok. exact H.
Qed.

(* ---------- decidable equalities used by the boolean invariants ---------- *)
Definition gc_eqb (a b : gc) : bool :=
  match a, b with
  | GcStart, GcStart | GcBad, GcBad => true
  | GcOpen h c, GcOpen h' c' => Bool.eqb h h' && Bool.eqb c c'
  | _, _ => false
  end.
Lemma gc_eqb_eq a b : gc_eqb a b = true -> a = b.
Proof. destruct a as [|[] []|], b as [|[] []|]; cbn; intros; try discriminate; reflexivity. Qed.
Definition gs_eqb (a b : gs) : bool :=
  match a, b with
  | GsStart, GsStart | GsHdr, GsHdr | GsClosed, GsClosed | GsClosedWu, GsClosedWu | GsBad, GsBad => true
  | _, _ => false
  end.
Lemma gs_eqb_eq a b : gs_eqb a b = true -> a = b.
Proof. destruct a, b; cbn; intros; try discriminate; reflexivity. Qed.
Definition cstage_eqb (a b : cstage) : bool :=
  match a, b with F0, F0 | FWon, FWon | FRemoved, FRemoved | FPub, FPub => true | _, _ => false end.
Definition sstage_eqb (a b : sstage) : bool :=
  match a, b with S0, S0 | SRem, SRem | SHalfSt, SHalfSt | SWr, SWr => true | _, _ => false end.
Definition cgo_eqb (a b : cgo) : bool :=
  match a, b with CGNone, CGNone | CGHdr, CGHdr | CGClose, CGClose | CGDone, CGDone => true | _, _ => false end.
Definition hstate_eqb (a b : hstate) : bool :=
  match a, b with HNone, HNone | HRun, HRun | HRet, HRet | HRej, HRej => true | _, _ => false end.
Definition is_none {A} (o : option A) : bool := match o with None => true | Some _ => false end.
Definition ccause_o_eqb (a b : option ccause) : bool :=
  match a, b with
  | None, None | Some LoopClose, Some LoopClose | Some LoopProto, Some LoopProto
  | Some ByCtx, Some ByCtx | Some ByReader, Some ByReader => true
  | _, _ => false
  end.
Definition scause_o_eqb (a b : option scause) : bool :=
  match a, b with
  | None, None | Some SHandler, Some SHandler | Some SCancelF, Some SCancelF
  | Some SProtoL, Some SProtoL | Some SReader, Some SReader => true
  | _, _ => false
  end.
Definition no_new (fs : list cframe) : bool := forallb (fun f => negb (is_new f)) fs.

(* ====================== the client component ====================== *)

(* the cancel frame is on the wire exactly when the winner was a cancelStream that has got as far
   as spawning its goroutine, and that goroutine has run *)
Definition cancel_emitted (k : ck) : bool :=
  match k_stage k, k_done k with
  | FPub, Some c => negb (by_loop c) && negb (k_cancel_go k)
  | _, _ => false
  end.

Definition kinv (k : ck) : bool :=
  negb (k_err k) &&
  (* everything emitted so far, as a function of the control state *)
  gc_eqb (k_g k) (if k_new k then GcOpen (k_half k) (cancel_emitted k) else GcStart) &&
  (* before newStream nothing exists *)
  (k_new k || (negb (k_tab k) && is_none (k_done k) && negb (k_cancel_go k) && negb (k_wu k) &&
               negb (k_half k) && negb (k_sig k) && negb (k_watched k))) &&
  Bool.eqb (cstage_eqb (k_stage k) F0) (is_none (k_done k)) &&
  (* the table entry lives from newStream to the winner's removeStream *)
  Bool.eqb (k_tab k) (k_new k && negb (k_chend k) && (cstage_eqb (k_stage k) F0 || cstage_eqb (k_stage k) FWon)) &&
  (* the end of the channel cancels every stream it had *)
  implb (k_chend k && k_new k) (k_ctx k) &&
  Bool.eqb (k_sig k) (cstage_eqb (k_stage k) FPub) &&
  implb (k_cancel_go k)
        (cstage_eqb (k_stage k) FPub && match k_done k with Some c => negb (by_loop c) | None => false end) &&
  (* the watcher's compare-and-swap leaves done set, whoever won *)
  implb (k_watched k) (negb (is_none (k_done k))) &&
  (* headers: recorded when the headers frame is taken while the stream is in the table; a message is only
     accepted after that (the frames taken conform to the server grammar: headers precede messages) *)
  negb (gs_eqb (k_gin k) GsBad) &&
  implb (k_tab k && gs_eqb (k_gin k) GsHdr) (k_hdrs k) &&
  implb (k_gotmsg k) (k_hdrs k) &&
  implb (k_sig k) (k_hdrs k) &&                      (* at the latest they are published together with the result *)
  (k_new k || (gs_eqb (k_gin k) GsStart && negb (k_hdrs k) && negb (k_gotmsg k))).

(* what the component assumes about its environment: a frame can only arrive once the stream
   exists (the server emits nothing for an id before it has seen new_stream) *)
Definition kenv (k : ck) (l : klbl) : bool :=
  match l with
  | CLoop f _ => k_new k && negb (gs_eqb (gs_step (k_gin k) f) GsBad)   (* ... and what it emits for the id conforms *)
  | _ => true
  end.

(* what a step may emit: new_stream exactly when the stream comes into being, never again *)
Definition kem_ok (k k' : ck) (em : list cframe) : bool :=
  if k_new k then no_new em && k_new k'
  else match em with [] => negb (k_new k') | [FNew] => k_new k' | _ => false end.

Definition all_klbl : list klbl :=
  [CNew; CSend; CHalf; CCtxEnd; CReadBad; CWuCheck; CWuSend; CWatch; CRemove; CPublish; CGoCancel; CChanEnd] ++
  flat_map (fun f => [CLoop f true; CLoop f false]) all_sframe.
Lemma all_klbl_ok : forall l, In l all_klbl.
Proof. intros [| | | | | | | | | | | |[] []]; cbn; tauto. Qed.

Definition kcheck (k : ck) : bool :=
  if negb (kinv k) then true else
    (forallb (fun l =>
       implb (kenv k l)
         match kstep k l with
         | None => true
         | Some (k', em) => kinv k' && kem_ok k k' em && gc_eqb (k_g k') (fold_left gc_step em (k_g k)) &&
                            gs_eqb (k_gin k') (match l with CLoop f _ => gs_step (k_gin k) f | _ => k_gin k end)
         end) all_klbl).


(* done is write-once: from every control state *)
Definition kwo_check (k : ck) : bool :=
  forallb (fun l => match kstep k l with
                    | None => true
                    | Some (k', _) => is_none (k_done k) || ccause_o_eqb (k_done k) (k_done k')
                    end) all_klbl.

(* ====================== the server component ====================== *)

Definition g_okb (v : sv) : bool :=
  match v_h v with
  | HNone => gs_eqb (v_g v) GsStart
  | HRej => gs_eqb (v_g v) (if v_rej_go v then GsStart else GsClosed)
  | HRun | HRet =>
      match v_cg v with
      | CGDone => gs_eqb (v_g v) GsClosed || gs_eqb (v_g v) GsClosedWu
      | CGHdr => gs_eqb (v_g v) GsStart
      | CGClose => gs_eqb (v_g v) GsHdr
      | CGNone => gs_eqb (v_g v) (if v_hdr v then GsHdr else GsStart)
      end
  end.

(* everything but "the tunnel was not ended": holds against any peer *)
Definition vinv0 (strict : bool) (v : sv) : bool :=
  g_okb v &&
  (h_live v || (negb (v_tab v) && sstage_eqb (v_lf v) S0 && sstage_eqb (v_hf v) S0 && cgo_eqb (v_cg v) CGNone &&
                negb (v_wu v) && is_none (v_fin v) && negb (v_closed v) && negb (v_hdr v))) &&
  implb (v_rej_go v) (hstate_eqb (v_h v) HRej) &&
  Bool.eqb (v_closed v) (negb (cgo_eqb (v_cg v) CGNone)) &&
  implb (negb (cgo_eqb (v_cg v) CGNone)) (v_hdr v) &&
  (* the table entry is gone once any finisher is past removeStream *)
  implb (v_tab v)
        (negb (v_closed v) && (sstage_eqb (v_lf v) S0 || sstage_eqb (v_lf v) SRem) &&
         (sstage_eqb (v_hf v) S0 || sstage_eqb (v_hf v) SRem) &&
         implb (hstate_eqb (v_h v) HRet) (sstage_eqb (v_hf v) SRem)) &&
  (* the handler's return does not finish before the stream is closed *)
  implb (hstate_eqb (v_h v) HRet && sstage_eqb (v_hf v) S0) (v_closed v) &&
  implb (is_none (v_fin v))
        (sstage_eqb (v_lf v) S0 && sstage_eqb (v_hf v) S0 && negb (v_closed v) && negb (hstate_eqb (v_h v) HRet)) &&
  (* the handler's context is cancelled exactly when the stream has been finished (by anyone) *)
  Bool.eqb (v_ctx v) (negb (is_none (v_fin v))) &&
  (* with reads confined to the handler's goroutine, a stream the handler ended has nothing
     after its close frame *)
  implb strict
        (implb (hstate_eqb (v_h v) HRet) (negb (v_wu v)) &&
         implb (scause_o_eqb (v_fin v) (Some SHandler))
               (hstate_eqb (v_h v) HRet && negb (gs_eqb (v_g v) GsClosedWu))).
Definition vinv (strict : bool) (v : sv) : bool := negb (v_err v) && vinv0 strict v.

(* a conforming client: new_stream is the first frame the serve loop takes for the id, and the only one *)
Definition venv (v : sv) (l : vlbl) : bool :=
  match l with
  | SLoop FNew _ => negb (seen v)
  | SLoop _ _ => seen v
  | _ => true
  end.

(* nothing is emitted for an id before its new_stream was seen; the handler state only moves forward *)
Definition vem_ok (v v' : sv) (l : vlbl) (em : list sframe) : bool :=
  (match em with [] => true | _ => seen v end) &&
  (match l with SLoop FNew _ => seen v' | _ => Bool.eqb (seen v') (seen v) end) &&
  (match v_h v, v_h v' with
   | HNone, (HNone | HRun | HRej) | HRun, (HRun | HRet) | HRet, HRet | HRej, HRej => true
   | _, _ => false
   end).

Definition all_vlbl : list vlbl :=
  [HSendHdr; HSend; HReadBad; HReturn; SWuCheck; SWuSend; SFinL; SFinH; SCloseGo; SRejGo] ++
  flat_map (fun f => map (SLoop f) all_lmode) all_cframe.
Lemma all_vlbl_ok : forall l, In l all_vlbl.
Proof. intros [[] []| | | | | | | | | |]; cbn; tauto. Qed.

Definition vcheck (strict : bool) (v : sv) : bool :=
  if negb (vinv strict v) then true else
    (forallb (fun l =>
       implb (venv v l)
         match vstep strict v l with
         | None => true
         | Some (v', em) => vinv strict v' && vem_ok v v' l em && gs_eqb (v_g v') (fold_left gs_step em (v_g v))
         end) all_vlbl).


(* against ANY peer (no assumption on the frames the serve loop is handed): what the server has
   emitted for the stream still conforms, tables are still cleaned, at most one close *)
Definition vcheck0 (strict : bool) (v : sv) : bool :=
  if negb (vinv0 strict v) then true else
    (forallb (fun l =>
         match vstep strict v l with
         | None => true
         | Some (v', em) => vinv0 strict v' && gs_eqb (v_g v') (fold_left gs_step em (v_g v))
         end) all_vlbl).

(* finishErr is write-once: from every control state *)
Definition vwo_check (strict : bool) (v : sv) : bool :=
  forallb (fun l => match vstep strict v l with
                    | None => true
                    | Some (v', _) => is_none (v_fin v) || scause_o_eqb (v_fin v) (v_fin v')
                    end) all_vlbl.

(* ---------- consequences of the component invariants, by evaluation on all control states ---------- *)
Lemma kinv_implies (P : ck -> bool) :
  forall_ck (fun k => if negb (kinv k) then true else P k) = true -> forall k, kinv k = true -> P k = true.
Proof. intros H k Hk. pose proof (forall_ck_ok _ H k) as H1. cbv beta in H1. rewrite Hk in H1. exact H1. Qed.
Lemma vinv_implies strict (P : sv -> bool) :
  forall_sv (fun v => if negb (vinv strict v) then true else P v) = true -> forall v, vinv strict v = true -> P v = true.
Proof. intros H v Hv. pose proof (forall_sv_ok _ H v) as H1. cbv beta in H1. rewrite Hv in H1. exact H1. Qed.
Lemma vinv0_implies strict (P : sv -> bool) :
  forall_sv (fun v => if negb (vinv0 strict v) then true else P v) = true -> forall v, vinv0 strict v = true -> P v = true.
Proof. intros H v Hv. pose proof (forall_sv_ok _ H v) as H1. cbv beta in H1. rewrite Hv in H1. exact H1. Qed.


Definition P_k_notbad (k : ck) := negb (gc_eqb (k_g k) GcBad).
Definition P_k_noerr (k : ck) := negb (k_err k).
Definition P_k_tab (k : ck) := if negb (is_none (k_done k)) && c_quiet k then negb (k_tab k) else true.
Definition P_v_notbad (v : sv) := negb (gs_eqb (v_g v) GsBad).
Definition P_v_noerr (v : sv) := negb (v_err v).
Definition P_v_settled (v : sv) :=
  if (hstate_eqb (v_h v) HRet || hstate_eqb (v_h v) HRej) && s_quiet v
  then gs_eqb (v_g v) GsClosed || gs_eqb (v_g v) GsClosedWu else true.
Definition P_v_tab1 (v : sv) := if hstate_eqb (v_h v) HRet && sstage_eqb (v_hf v) S0 then negb (v_tab v) else true.
Definition P_v_tab2 (v : sv) := if h_live v then true else negb (v_tab v).
Definition P_v_tab3 (v : sv) := if v_closed v then negb (v_tab v) else true.
Definition P_v_last (v : sv) :=
  if scause_o_eqb (v_fin v) (Some SHandler) then negb (gs_eqb (v_g v) GsClosedWu) && negb (gs_eqb (v_g v) GsBad) else true.
