(* One RPC end to end: both endpoints' per-stream state machines, the goroutines they spawn,
   and the two carrier directions, composed in one labelled transition system.

   tunnel_client.go : newStream, SendMsg, CloseSend, the context watcher, cancelStream,
                      finishStream (compare-and-swap on done, removeStream, publication),
                      the receive loop (getStream + acceptServerFrame), the window-update
                      callback of the receiver                              -> component [ck]
   tunnel_server.go : the serve loop (createStream / getStream + acceptClientFrame),
                      finishStream (compare-and-swap on finishErr, cancel, removeStream,
                      halfClose, the write-locked part that spawns the close goroutine),
                      SendHeader, SendMsg, the handler's return, the rejection goroutine,
                      the window-update callback                            -> component [sv]
   the carrier      : two FIFO queues                                       -> [rst]

   One label = one step of one goroutine, at the granularity of the synchronisation
   skeletons pinned by Skel*.v (one atomic operation / one critical section per step).
   Payloads, metadata and byte counts are abstracted away (Frames/Pipe/SrvStream cover
   them): a frame is its kind.  The tunnel stays healthy here (its end is Waits/Tables).
   Each component's control state is finite; its invariant is checked on every control
   state and lifted (RpcProofs.v).  Model only. *)
From Coq Require Import List Bool Arith.
From RecordUpdate Require Import RecordUpdate.
Import ListNotations.

Inductive cframe := FNew | FReq | FHalf | FCancel | FCwu.
Inductive sframe := FHdr | FResp | FClose | FSwu.

(* what a conforming peer accepts from a tunnel client on one stream *)
Inductive gc := GcStart | GcOpen (half cancel : bool) | GcBad.
Definition gc_step (g : gc) (f : cframe) : gc :=
  match g, f with
  | GcStart, FNew => GcOpen false false
  | GcOpen h c, FReq => if h then GcBad else GcOpen h c        (* no request data after half-close *)
  | GcOpen h c, FHalf => if h then GcBad else GcOpen true c    (* half-close at most once *)
  | GcOpen h c, FCancel => if c then GcBad else GcOpen h true  (* cancel at most once *)
  | GcOpen h c, FCwu => GcOpen h c
  | _, _ => GcBad                                              (* anything before new_stream, a second new_stream *)
  end.
Definition gc_run (fs : list cframe) : gc := fold_left gc_step fs GcStart.

(* ... and from a tunnel server *)
Inductive gs := GsStart | GsHdr | GsClosed | GsClosedWu | GsBad.
Definition gs_step (g : gs) (f : sframe) : gs :=
  match g, f with
  | GsStart, FHdr => GsHdr
  | GsStart, FClose => GsClosed            (* a rejected stream: close only *)
  | GsHdr, FResp => GsHdr
  | GsHdr, FClose => GsClosed
  | (GsStart | GsHdr), FSwu => g
  | (GsClosed | GsClosedWu), FSwu => GsClosedWu   (* a reader that was mid-dequeue returns its credit late *)
  | _, _ => GsBad                          (* message before headers, headers twice, anything else after close *)
  end.
Definition gs_run (fs : list sframe) : gs := fold_left gs_step fs GsStart.

(* ====================== the tunnel client's side of one stream ====================== *)

(* who finished the client stream (first compare-and-swap on [done] wins) *)
Inductive ccause :=
| LoopClose     (* the receive loop processed close_stream *)
| LoopProto     (* the receive loop refused a frame (overrun, nil, settings): finishStream, no cancel frame *)
| ByCtx         (* the context watcher: cancelStream *)
| ByReader.     (* RecvMsg found a framing violation: cancelStream *)
Definition by_loop (c : ccause) : bool := match c with LoopClose | LoopProto => true | _ => false end.

(* where the winner of the compare-and-swap is inside finishStream *)
Inductive cstage := F0 | FWon | FRemoved | FPub.

Record ck := mkCk {
  k_new : bool;                (* newStream returned: table entry made, new_stream emitted, watcher started *)
  k_tab : bool;                (* entry in tunnelChannel.streams *)
  k_done : option ccause;      (* done: write-once *)
  k_stage : cstage;
  k_half : bool;               (* halfClosed, under writeMu *)
  k_ctx : bool;                (* the stream's context has ended *)
  k_watched : bool;            (* the watcher has run *)
  k_sig : bool;                (* doneSignal closed *)
  k_cancel_go : bool;          (* goroutine that will emit the cancel frame *)
  k_wu : bool;                 (* window-update callback past its done check, before its Send *)
  k_err : bool;                (* the receive loop met a frame for a stream that was never created *)
  k_chend : bool;              (* the channel has ended (tunnelChannel.close ran: finished, every stream cancelled, table dropped) *)
  k_hdrs : bool;               (* gotHeaders: Header() and the grpc.Header targets are available *)
  k_gotmsg : bool;             (* ghost: a response message frame has been accepted for the caller *)
  k_gin : gs;                  (* ghost: the server grammar run on every frame the receive loop has taken for the id *)
  k_g : gc                     (* ghost: the grammar automaton run on everything emitted so far *)
}.
#[export] Instance eta_ck : Settable _ := settable! mkCk
  <k_new; k_tab; k_done; k_stage; k_half; k_ctx; k_watched; k_sig; k_cancel_go; k_wu; k_err; k_chend; k_hdrs; k_gotmsg; k_gin; k_g>.
Definition k_init : ck := mkCk false false None F0 false false false false false false false false false false GsStart GcStart.

Inductive klbl :=
| CNew | CSend | CHalf | CCtxEnd | CReadBad | CWuCheck | CWuSend
| CWatch | CRemove | CPublish | CGoCancel
| CChanEnd                             (* the tunnel ends at this end: Close, the tunnel context, a failure of the carrier *)
| CLoop (f : sframe) (bad : bool).     (* the receive loop takes [f]; [bad]: the stream refuses it (overrun, nil) *)

(* the compare-and-swap at the head of finishStream *)
Definition c_cas (k : ck) (c : ccause) : ck :=
  match k_done k with
  | None => k <| k_done := Some c |> <| k_stage := FWon |>
  | Some _ => k
  end.
(* the receive loop is inside finishStream *)
Definition c_loop_busy (k : ck) : bool :=
  match k_done k, k_stage k with
  | Some c, (FWon | FRemoved) => by_loop c
  | _, _ => false
  end.

Definition kstep0 (k : ck) (l : klbl) : option (ck * list cframe) :=
  match l with
  | CNew => if k_new k then None
            else if k_chend k then Some (k, [])                 (* "channel is closed": fails at once, nothing is sent *)
            else Some (k <| k_new := true |> <| k_tab := true |>, [FNew])
  | CChanEnd =>
      (* close(): finished, every stream's context cancelled, the table dropped *)
      if k_chend k then None
      else if k_new k then Some (k <| k_chend := true |> <| k_ctx := true |> <| k_tab := false |>, [])
      else Some (k <| k_chend := true |>, [])
  | CSend => if k_new k then
               if k_half k then Some (k, [])                    (* refused: nothing reaches the wire *)
               else Some (k, [FReq])
             else None
  | CHalf => if k_new k then
               if k_sig k then Some (k, [])                     (* returns the recorded result *)
               else if k_half k then Some (k, [])               (* "already half-closed" *)
               else Some (k <| k_half := true |>, [FHalf])
             else None
  | CCtxEnd => Some (k <| k_ctx := true |>, [])
  | CWatch => if k_new k && k_ctx k && negb (k_watched k)
              then Some (c_cas (k <| k_watched := true |>) ByCtx, []) else None
  | CReadBad => if k_new k then Some (c_cas k ByReader, []) else None
  | CRemove => match k_stage k with
               | FWon => Some (k <| k_tab := false |> <| k_stage := FRemoved |>, [])
               | _ => None end
  | CPublish =>
      match k_stage k, k_done k with
      | FRemoved, Some c =>
          (* trailers, signals, (deferred) receiver.close and cancel; cancelStream then spawns the
             goroutine that tells the server *)
          Some (k <| k_sig := true |> <| k_ctx := true |> <| k_stage := FPub |> <| k_hdrs := true |>
                  <| k_cancel_go := negb (by_loop c) |>, [])
      | _, _ => None
      end
  | CGoCancel => if k_cancel_go k then Some (k <| k_cancel_go := false |>, [FCancel]) else None
  | CWuCheck => if k_new k && negb (k_wu k) then
                  match k_done k with None => Some (k <| k_wu := true |>, []) | Some _ => Some (k, []) end
                else None
  | CWuSend => if k_wu k then Some (k <| k_wu := false |>, [FCwu]) else None
  | CLoop f bad =>
      if c_loop_busy k then None
      else
      let k := k <| k_gin := gs_step (k_gin k) f |> in
      if k_tab k then
        if bad then match f with FResp => Some (c_cas k LoopProto, []) | _ => None end
        else match f with
             | FClose => Some (c_cas k LoopClose, [])
             | FHdr => Some (k <| k_hdrs := true |>, [])        (* headers recorded, targets filled, gotHeadersSignal closed *)
             | FResp => Some (k <| k_gotmsg := true |>, [])     (* queued for the caller's RecvMsg *)
             | _ => Some (k, [])
             end
      else if k_new k then Some (k, [])                        (* used and disposed of: ignored *)
      else Some (k <| k_err := true |>, [])
  end.
Definition kstep (k : ck) (l : klbl) : option (ck * list cframe) :=
  match kstep0 k l with
  | Some (k', em) => Some (k' <| k_g := fold_left gc_step em (k_g k') |>, em)
  | None => None
  end.

(* ====================== the tunnel server's side of one stream ====================== *)

(* who finished the server stream (first compare-and-swap on [finishErr] wins) *)
Inductive scause := SHandler | SCancelF | SProtoL | SReader.
(* program counter of a server-side finisher after its compare-and-swap + cancel *)
Inductive sstage := S0 | SRem | SHalfSt | SWr.
(* the goroutine finishStream spawns: headers (if none were sent), then close_stream *)
Inductive cgo := CGNone | CGHdr | CGClose | CGDone.
Inductive hstate := HNone | HRun | HRet | HRej.

Record sv := mkSv {
  v_tab : bool;                (* entry in tunnelServer.streams *)
  v_h : hstate;                (* HNone: new_stream not seen yet (lastSeen < id) *)
  v_fin : option scause;       (* finishErr: write-once *)
  v_lf : sstage; v_hf : sstage;  (* finishStream running on the serve loop / on the handler's goroutine *)
  v_half : bool;               (* halfClosed recorded *)
  v_hdr : bool; v_closed : bool;   (* sentHeaders, closed (under writeMu) *)
  v_cg : cgo;
  v_rej_go : bool;             (* goroutine that will emit the close of a refused stream *)
  v_wu : bool;                 (* window-update callback past its half-close check, before its Send *)
  v_err : bool;                (* the serve loop ended the tunnel (id reused / never created) *)
  v_ctx : bool;                (* the handler's context has been cancelled by finishStream *)
  v_g : gs                     (* ghost *)
}.
#[export] Instance eta_sv : Settable _ := settable! mkSv
  <v_tab; v_h; v_fin; v_lf; v_hf; v_half; v_hdr; v_closed; v_cg; v_rej_go; v_wu; v_err; v_ctx; v_g>.
Definition v_init : sv := mkSv false HNone None S0 S0 false false false CGNone false false false false GsStart.

(* how the serve loop judges the frame it takes *)
Inductive lmode := LNormal | LReject (* new_stream refused: shutting down, revision, method *) | LBad (* frame refused by the stream *).
Inductive vlbl :=
| SLoop (f : cframe) (m : lmode)
| HSendHdr | HSend | HReadBad | HReturn | SWuCheck | SWuSend
| SFinL | SFinH | SCloseGo | SRejGo.

(* compare-and-swap on finishErr, then cancel; the finisher goes on from SRem *)
Definition s_cas (v : sv) (c : scause) : sv :=
  match v_fin v with None => v <| v_fin := Some c |> <| v_ctx := true |> | Some _ => v <| v_ctx := true |> end.

(* one step of a finisher standing at [pc] *)
Definition s_fin (v : sv) (pc : sstage) : option (sv * sstage) :=
  match pc with
  | S0 => None
  | SRem => Some (v <| v_tab := false |>, SHalfSt)
  | SHalfSt => Some (v <| v_half := true |>, SWr)
  | SWr =>
      if v_closed v then Some (v, S0)
      else Some (v <| v_closed := true |> <| v_cg := if v_hdr v then CGClose else CGHdr |> <| v_hdr := true |>, S0)
  end.

Definition seen (v : sv) : bool := match v_h v with HNone => false | _ => true end.
Definition h_live (v : sv) : bool := match v_h v with HRun | HRet => true | _ => false end.

(* [strict]: the handler returns only when none of its reads is inside the window-update
   callback, and nothing reads for it afterwards (reads happen on the handler's goroutine) *)
Definition vstep0 (strict : bool) (v : sv) (l : vlbl) : option (sv * list sframe) :=
  match l with
  | SLoop f m =>
      match v_lf v with
      | S0 =>
          match f with
          | FNew =>
              if seen v then Some (v <| v_err := true |>, [])      (* id not greater than lastSeen *)
              else match m with
                   | LNormal => Some (v <| v_tab := true |> <| v_h := HRun |>, [])
                   | _ => Some (v <| v_h := HRej |> <| v_rej_go := true |>, [])
                   end
          | _ =>
              if v_tab v then
                match m, f with
                | LBad, FReq => Some (s_cas v SProtoL <| v_lf := SRem |>, [])
                | LBad, _ => None
                | _, FHalf => Some (v <| v_half := true |>, [])
                | _, FCancel => Some (s_cas v SCancelF <| v_lf := SRem |>, [])
                | _, _ => Some (v, [])
                end
              else if seen v then Some (v, [])                     (* used and disposed of: ignored *)
              else Some (v <| v_err := true |>, [])                (* never created *)
          end
      | _ => None
      end
  | SFinL => match s_fin v (v_lf v) with Some (v', pc) => Some (v' <| v_lf := pc |>, []) | None => None end
  | SFinH => match s_fin v (v_hf v) with Some (v', pc) => Some (v' <| v_hf := pc |>, []) | None => None end
  | HSendHdr =>
      if h_live v then
        if v_hdr v then Some (v, []) else Some (v <| v_hdr := true |>, [FHdr])
      else None
  | HSend =>
      if h_live v then
        if v_closed v then Some (v, [])
        else if v_hdr v then Some (v, [FResp])
        else Some (v <| v_hdr := true |>, [FHdr; FResp])
      else None
  | HReadBad =>
      match v_h v, v_hf v with
      | HRun, S0 => Some (s_cas v SReader <| v_hf := SRem |>, [])
      | _, _ => None
      end
  | HReturn =>
      match v_h v, v_hf v with
      | HRun, S0 => if strict && v_wu v then None
                    else Some (s_cas v SHandler <| v_hf := SRem |> <| v_h := HRet |>, [])
      | _, _ => None
      end
  | SWuCheck =>
      if h_live v then
        if v_wu v then None
        else if strict && negb (match v_h v, v_hf v with HRun, S0 => true | _, _ => false end) then None
        else if v_half v then Some (v, []) else Some (v <| v_wu := true |>, [])
      else None
  | SWuSend => if v_wu v then Some (v <| v_wu := false |>, [FSwu]) else None
  | SCloseGo =>
      match v_cg v with
      | CGHdr => Some (v <| v_cg := CGClose |>, [FHdr])
      | CGClose => Some (v <| v_cg := CGDone |>, [FClose])
      | _ => None
      end
  | SRejGo => if v_rej_go v then Some (v <| v_rej_go := false |>, [FClose]) else None
  end.
Definition vstep (strict : bool) (v : sv) (l : vlbl) : option (sv * list sframe) :=
  match vstep0 strict v l with
  | Some (v', em) => Some (v' <| v_g := fold_left gs_step em (v_g v') |>, em)
  | None => None
  end.

(* ====================== the composition ====================== *)
Record rst := mkRst {
  r_k : ck; r_v : sv;
  q_c : list cframe; q_s : list sframe;       (* emitted, not yet handed to the peer's loop *)
  h_c : list cframe; h_s : list sframe;       (* everything emitted so far (ghost) *)
  n_inv : nat                                  (* handler invocations (ghost) *)
}.
Definition r_init : rst := mkRst k_init v_init [] [] [] [] 0.

Inductive rlbl :=
| LK (l : klbl)            (* a client step other than the receive loop's *)
| LKLoop (bad : bool)      (* the client's receive loop takes the head of the server-to-client queue *)
| LV (l : vlbl)            (* a server step other than the serve loop's *)
| LVLoop (m : lmode).      (* the serve loop takes the head of the client-to-server queue *)

Definition invoked (v v' : sv) : nat :=
  match v_h v, v_h v' with HNone, HRun => 1 | _, _ => 0 end.

Definition rstep (strict : bool) (s : rst) (l : rlbl) : option rst :=
  match l with
  | LK (CLoop _ _) | LV (SLoop _ _) => None
  | LK l =>
      match kstep (r_k s) l with
      | Some (k', em) => Some (mkRst k' (r_v s) (q_c s ++ em) (q_s s) (h_c s ++ em) (h_s s) (n_inv s))
      | None => None
      end
  | LKLoop bad =>
      match q_s s with
      | [] => None
      | f :: r =>
          match kstep (r_k s) (CLoop f bad) with
          | Some (k', em) => Some (mkRst k' (r_v s) (q_c s ++ em) r (h_c s ++ em) (h_s s) (n_inv s))
          | None => None
          end
      end
  | LV l =>
      match vstep strict (r_v s) l with
      | Some (v', em) => Some (mkRst (r_k s) v' (q_c s) (q_s s ++ em) (h_c s) (h_s s ++ em) (n_inv s))
      | None => None
      end
  | LVLoop m =>
      match q_c s with
      | [] => None
      | f :: r =>
          match vstep strict (r_v s) (SLoop f m) with
          | Some (v', em) =>
              Some (mkRst (r_k s) v' r (q_s s ++ em) (h_c s) (h_s s ++ em) (n_inv s + invoked (r_v s) v'))
          | None => None
          end
      end
  end.

Fixpoint rrun (strict : bool) (s : rst) (ls : list rlbl) : option rst :=
  match ls with
  | [] => Some s
  | l :: r => match rstep strict s l with Some s' => rrun strict s' r | None => None end
  end.

(* nothing internal is left to do on the server side *)
Definition s_quiet (v : sv) : bool :=
  match v_lf v, v_hf v, v_cg v with
  | S0, S0, (CGNone | CGDone) => negb (v_rej_go v) && negb (v_wu v)
  | _, _, _ => false
  end.
(* ... on the client side *)
Definition c_quiet (k : ck) : bool :=
  match k_stage k with
  | F0 | FPub => negb (k_cancel_go k) && negb (k_wu k) && (negb (k_ctx k && k_new k) || k_watched k)
  | _ => false
  end.

Fixpoint count_close (fs : list sframe) : nat :=
  match fs with [] => 0 | FClose :: r => S (count_close r) | _ :: r => count_close r end.
Definition is_new (f : cframe) : bool := match f with FNew => true | _ => false end.
