(* Receivers (flow_control.go): the flow-controlled queue guarded by a window
   (defaultReceiver) and the one-slot revision-zero receiver
   (noFlowControlReceiver).  Model only. *)
From Coq Require Import List NArith Bool.
Import ListNotations.
Set Implicit Arguments.

Section Recvq.
Variable T : Type.
Variable measure : T -> N.

(* ---------- defaultReceiver ---------- *)
Record rq := mkRq { rq_items : list T; rq_win : N; rq_closed : bool; rq_cancelled : bool }.

Definition rq_init (w : N) : rq := mkRq [] w false false.

Inductive acc_res := AccOk | AccDropped | AccOverrun.

(* accept: closed -> dropped silently; larger than the remaining window -> error, state
   unchanged; else enqueue and reserve window *)
Definition rq_accept (q : rq) (x : T) : rq * acc_res :=
  if rq_closed q then (q, AccDropped)
  else if (rq_win q <? measure x)%N then (q, AccOverrun)
  else (mkRq (rq_items q ++ [x]) (rq_win q - measure x) (rq_closed q) (rq_cancelled q), AccOk).

Inductive deq_res := DeqItem (x : T) (credit : N) | DeqNone | DeqBlock.

(* dequeue: cancelled -> none; head item -> return it, give its size back to the window and
   report exactly that size as credit; empty and closed -> none; else the caller parks *)
Definition rq_dequeue (q : rq) : rq * deq_res :=
  if rq_cancelled q then (q, DeqNone)
  else match rq_items q with
       | x :: r => (mkRq r (rq_win q + measure x) (rq_closed q) (rq_cancelled q), DeqItem x (measure x))
       | [] => if rq_closed q then (q, DeqNone) else (q, DeqBlock)
       end.

Definition rq_close (q : rq) : rq := mkRq (rq_items q) (rq_win q) true (rq_cancelled q).
Definition rq_cancel (q : rq) : rq := mkRq [] (rq_win q) (rq_closed q) true.

Definition sizes (l : list T) : N := fold_right (fun x a => (measure x + a)%N) 0%N l.
Definition rq_queued (q : rq) : N := sizes (rq_items q).

(* operation sequences, for the theorems over all histories *)
Inductive rq_op := OpAccept (x : T) | OpDequeue | OpClose | OpCancel.

Definition rq_apply (q : rq) (o : rq_op) : rq :=
  match o with
  | OpAccept x => fst (rq_accept q x)
  | OpDequeue => fst (rq_dequeue q)
  | OpClose => rq_close q
  | OpCancel => rq_cancel q
  end.

(* ---------- noFlowControlReceiver: a channel of capacity one ---------- *)
Record r0 := mkR0 { r0_slot : option T; r0_closed : bool }.
Definition r0_init : r0 := mkR0 None false.

Inductive acc0_res := Acc0Ok | Acc0Dropped | Acc0Block.
(* accept parks the receive loop while the slot is full (head-of-line blocking by design in
   revision zero) and drops the frame once closed *)
Definition r0_accept (r : r0) (x : T) : r0 * acc0_res :=
  if r0_closed r then (r, Acc0Dropped)
  else match r0_slot r with
       | None => (mkR0 (Some x) false, Acc0Ok)
       | Some _ => (r, Acc0Block)
       end.
(* a buffered item is still delivered after close (Go channel semantics) *)
Definition r0_dequeue (r : r0) : r0 * deq_res :=
  match r0_slot r with
  | Some x => (mkR0 None (r0_closed r), DeqItem x 0%N)
  | None => if r0_closed r then (r, DeqNone) else (r, DeqBlock)
  end.
Definition r0_close (r : r0) : r0 := mkR0 (r0_slot r) true.

End Recvq.

Arguments OpDequeue {T}.
Arguments OpClose {T}.
Arguments OpCancel {T}.
Arguments DeqNone {T}.
Arguments DeqBlock {T}.
