(* Wire monitor: the documented protocol as an executable predicate over the tap of
   the carrier (C13), window discipline (C06), stream-id order (C08) and the
   revision-dependent frame vocabulary (C11).  Failure codes:
     1301 settings not first / wrong id / unexpected     1302 frame before new_stream / id not increasing (C08: 801)
     1303 headers twice or after a message               1304 envelope before previous message finished
     1305 continuation without envelope                  1306 continuation exceeds announced size
     1307 data frame larger than chunk_max (C06: 601)    1308 frame after close_stream
     1309 second close_stream                            1310 request data after half-close
     1311 second half-close                              1312 second cancel
     1313 window_update on a revision-zero stream (C11: 1101)   1314 unknown frame kind emitted
     1315 new_stream revision differs from negotiated (C11: 1102)
     602 sender exceeds window                           603 credit exceeds consumed data
     1103 settings sent although the client did not advertise / missing although it did *)
From Coq Require Import List NArith ZArith Bool.
From GTgen Require Import Params.
From GT Require Import Trace.
Import ListNotations.
Local Open Scope N_scope.

Record dstate := mkD {
  d_inmsg : option (N * N);     (* message in progress: announced size, bytes so far *)
  d_msgs : N;                   (* complete messages emitted *)
  d_bytes : N;                  (* data bytes emitted *)
  d_cred : N;                   (* credit delivered to this direction's sender *)
  d_wu : N;                     (* credit emitted by this direction's sender (for the opposite data) *)
  d_deliv : N                   (* data bytes of this direction delivered to the receiving endpoint *)
}.
Definition d0 : dstate := mkD None 0 0 0 0 0.

Record sstate := mkS {
  s_rev : Z; s_rpc : option N;
  s_cwin : N;                   (* window advertised to the client's sender (settings) *)
  s_swin : N;                   (* window advertised to the server's sender (new_stream) *)
  s_half : bool; s_cancel : bool; s_hdrs : bool; s_close : bool;
  s_c : dstate; s_s : dstate
}.
Definition s0 (rev : Z) (rpc : option N) (cwin swin : N) : sstate := mkS rev rpc cwin swin false false false false d0 d0.

Definition get_d (s : sstate) (d : dir) : dstate := match d with C2S => s_c s | S2C => s_s s end.
Definition set_d (s : sstate) (d : dir) (x : dstate) : sstate :=
  match d with
  | C2S => mkS (s_rev s) (s_rpc s) (s_cwin s) (s_swin s) (s_half s) (s_cancel s) (s_hdrs s) (s_close s) x (s_s s)
  | S2C => mkS (s_rev s) (s_rpc s) (s_cwin s) (s_swin s) (s_half s) (s_cancel s) (s_hdrs s) (s_close s) (s_c s) x
  end.

Definition key := (N * Z)%type.
Definition key_eqb (a b : key) : bool := N.eqb (fst a) (fst b) && Z.eqb (snd a) (snd b).

Fixpoint aget {V} (k : key) (m : list (key * V)) : option V :=
  match m with [] => None | (k', v) :: r => if key_eqb k k' then Some v else aget k r end.
Fixpoint aset {V} (k : key) (v : V) (m : list (key * V)) : list (key * V) :=
  match m with
  | [] => [(k, v)]
  | (k', v') :: r => if key_eqb k k' then (k, v) :: r else (k', v') :: aset k v r
  end.

Record wstate := mkW {
  w_streams : list (key * sstate);
  w_q : list ((N * dir) * list (Z * fkind));     (* emitted, not yet delivered, per tunnel and direction *)
  w_lastnew : list (N * Z);                      (* per tunnel: last new_stream id *)
  w_s2c_seen : list N;                           (* tunnels on which a server frame has been emitted *)
  w_cwin : list (N * Z);                         (* per tunnel: window announced in the settings frame *)
  w_fails : list failure
}.
Definition w0 : wstate := mkW [] [] [] [] [] [].

Definition qkey_eqb (a b : N * dir) : bool := N.eqb (fst a) (fst b) && dir_eqb (snd a) (snd b).
Fixpoint qget (k : N * dir) (m : list ((N * dir) * list (Z * fkind))) : list (Z * fkind) :=
  match m with [] => [] | (k', v) :: r => if qkey_eqb k k' then v else qget k r end.
Fixpoint qset (k : N * dir) (v : list (Z * fkind)) (m : list ((N * dir) * list (Z * fkind))) :=
  match m with
  | [] => [(k, v)]
  | (k', v') :: r => if qkey_eqb k k' then (k, v) :: r else (k', v') :: qset k v r
  end.
Fixpoint nget (k : N) (m : list (N * Z)) : option Z :=
  match m with [] => None | (k', v) :: r => if N.eqb k k' then Some v else nget k r end.
Fixpoint nset (k : N) (v : Z) (m : list (N * Z)) : list (N * Z) :=
  match m with [] => [(k, v)] | (k', v') :: r => if N.eqb k k' then (k, v) :: r else (k', v') :: nset k v r end.

Definition cwin_of (w : wstate) (t : N) : N := match nget t (w_cwin w) with Some z => Z.to_N z | None => init_window end.

Definition fail (w : wstate) (code act : N) (a b : Z) : wstate :=
  mkW (w_streams w) (w_q w) (w_lastnew w) (w_s2c_seen w) (w_cwin w) (w_fails w ++ [mkFail code act a b]).
Definition set_stream (w : wstate) (k : key) (s : sstate) : wstate :=
  mkW (aset k s (w_streams w)) (w_q w) (w_lastnew w) (w_s2c_seen w) (w_cwin w) (w_fails w).

Definition failif (c : bool) (w : wstate) (code act : N) (a b : Z) : wstate :=
  if c then fail w code act a b else w.

(* a data frame (envelope or continuation) in direction d on stream state s *)
Definition data_step (w : wstate) (act t : N) (id : Z) (d : dir) (s : sstate) (env : option N) (len : N) : wstate :=
  let ds := get_d s d in
  let w := failif (chunk_max <? len) w 1307 act id (Z.of_N len) in
  let '(w, inmsg, msgs) :=
    match env, d_inmsg ds with
    | Some size, None =>
        if size <? len then (fail w 1306 act id (Z.of_N len), None, d_msgs ds)
        else if len =? size then (w, None, d_msgs ds + 1) else (w, Some (size, len), d_msgs ds)
    | Some size, Some _ => (fail w 1304 act id (Z.of_N size), None, d_msgs ds)
    | None, Some (size, got) =>
        if size <? got + len then (fail w 1306 act id (Z.of_N (got + len)), None, d_msgs ds)
        else if got + len =? size then (w, None, d_msgs ds + 1) else (w, Some (size, got + len), d_msgs ds)
    | None, None => (fail w 1305 act id (Z.of_N len), None, d_msgs ds)
    end in
  let bytes := d_bytes ds + len in
  (* un-credited bytes never exceed the advertised window (only meaningful with flow control) *)
  let adv := match d with C2S => s_cwin s | S2C => s_swin s end in
  let w := failif (negb (s_rev s =? 0)%Z && (adv <? bytes - d_cred ds)) w 602 act id (Z.of_N (bytes - d_cred ds)) in
  set_stream w (t, id) (set_d s d (mkD inmsg msgs bytes (d_cred ds) (d_wu ds) (d_deliv ds))).

Definition emit_step (c : cfg) (w : wstate) (act : N) (d : dir) (t : N) (id : Z) (k : fkind) : wstate :=
  let checked := match d with C2S => negb (c_rawc c) | S2C => negb (c_raws c) end in
  (* every emitted frame joins the undelivered queue, checked or not *)
  let w := mkW (w_streams w) (qset (t, d) (qget (t, d) (w_q w) ++ [(id, k)]) (w_q w)) (w_lastnew w) (w_s2c_seen w) (w_cwin w) (w_fails w) in
  if negb checked then
    (* still track streams announced by a raw client so that the server side can be checked *)
    match k with
    | KSettings _ swin => mkW (w_streams w) (w_q w) (w_lastnew w) (w_s2c_seen w) (nset t (Z.of_N swin) (w_cwin w)) (w_fails w)
    | KNew rpc _ rev win _ => match aget (t, id) (w_streams w) with None => set_stream w (t, id) (s0 rev rpc (cwin_of w t) win) | Some _ => w end
    | _ => w
    end
  else
  match d, k with
  | S2C, KSettings _ swin =>
      let w := mkW (w_streams w) (w_q w) (w_lastnew w) (w_s2c_seen w) (nset t (Z.of_N swin) (w_cwin w)) (w_fails w) in
      let first := negb (existsb (N.eqb t) (w_s2c_seen w)) in
      let w := failif (negb first || negb (id =? -1)%Z) w 1301 act id 0 in
      let w := failif (negb (expect_settings c)) w 1103 act id 0 in
      mkW (w_streams w) (w_q w) (w_lastnew w) (t :: w_s2c_seen w) (w_cwin w) (w_fails w)
  | C2S, KSettings _ _ => fail w 1314 act id 0
  | _, _ =>
    let w :=
      match d with
      | S2C =>
          let first := negb (existsb (N.eqb t) (w_s2c_seen w)) in
          let w := failif (first && expect_settings c) w 1103 act id 1 in
          mkW (w_streams w) (w_q w) (w_lastnew w) (if first then t :: w_s2c_seen w else w_s2c_seen w) (w_cwin w) (w_fails w)
      | C2S => w
      end in
    match d, k with
    | C2S, KNew rpc _ rev win _ =>
        let w := match nget t (w_lastnew w) with
                 | Some l => failif (id <=? l)%Z w 1302 act id l
                 | None => w
                 end in
        let w := failif (negb (c_raws c) && negb (rev =? (if expect_fc c then 1 else 0))%Z) w 1315 act id rev in
        let w := mkW (w_streams w) (w_q w) (nset t id (w_lastnew w)) (w_s2c_seen w) (w_cwin w) (w_fails w) in
        match aget (t, id) (w_streams w) with
        | Some _ => fail w 1302 act id id
        | None => set_stream w (t, id) (s0 rev rpc (cwin_of w t) win)
        end
    | _, _ =>
      match aget (t, id) (w_streams w) with
      | None => fail w 1302 act id 0        (* frame for a stream that never began *)
      | Some s =>
        match d, k with
        | C2S, KMsg size len =>
            let w := failif (s_half s) w 1310 act id 0 in data_step w act t id C2S s (Some size) len
        | C2S, KMore len =>
            let w := failif (s_half s) w 1310 act id 0 in data_step w act t id C2S s None len
        | C2S, KHalf =>
            let w := failif (s_half s) w 1311 act id 0 in
            set_stream w (t, id) (mkS (s_rev s) (s_rpc s) (s_cwin s) (s_swin s) true (s_cancel s) (s_hdrs s) (s_close s) (s_c s) (s_s s))
        | C2S, KCancel =>
            let w := failif (s_cancel s) w 1312 act id 0 in
            set_stream w (t, id) (mkS (s_rev s) (s_rpc s) (s_cwin s) (s_swin s) (s_half s) true (s_hdrs s) (s_close s) (s_c s) (s_s s))
        | C2S, KWu n =>
            let w := failif (s_rev s =? 0)%Z w 1313 act id 0 in
            let ds := s_c s in
            (* credit for response data: never more than what was delivered to this endpoint *)
            let w := failif (d_deliv (s_s s) <? d_wu ds + n) w 603 act id (Z.of_N (d_wu ds + n)) in
            set_stream w (t, id) (set_d s C2S (mkD (d_inmsg ds) (d_msgs ds) (d_bytes ds) (d_cred ds) (d_wu ds + n) (d_deliv ds)))
        | S2C, KHdrs _ =>
            let w := failif (s_close s) w 1308 act id 0 in
            let w := failif (s_hdrs s || negb (d_bytes (s_s s) =? 0) || (0 <? d_msgs (s_s s))
                             || match d_inmsg (s_s s) with Some _ => true | None => false end) w 1303 act id 0 in
            set_stream w (t, id) (mkS (s_rev s) (s_rpc s) (s_cwin s) (s_swin s) (s_half s) (s_cancel s) true (s_close s) (s_c s) (s_s s))
        | S2C, KMsg size len =>
            let w := failif (s_close s) w 1308 act id 0 in
            let w := failif (negb (s_hdrs s)) w 1303 act id 1 in
            data_step w act t id S2C s (Some size) len
        | S2C, KMore len =>
            let w := failif (s_close s) w 1308 act id 0 in data_step w act t id S2C s None len
        | S2C, KClose _ _ =>
            let w := failif (s_close s) w 1309 act id 0 in
            set_stream w (t, id) (mkS (s_rev s) (s_rpc s) (s_cwin s) (s_swin s) (s_half s) (s_cancel s) (s_hdrs s) true (s_c s) (s_s s))
        | S2C, KWu n =>
            (* after a close that answers a cancel, a reader that was mid-dequeue may still return
               its credit: the close is only required to be last on a stream the handler ended *)
            let w := failif (s_close s && negb (s_cancel s)) w 1308 act id 0 in
            let w := failif (s_rev s =? 0)%Z w 1313 act id 0 in
            let ds := s_s s in
            let w := failif (d_deliv (s_c s) <? d_wu ds + n) w 603 act id (Z.of_N (d_wu ds + n)) in
            set_stream w (t, id) (set_d s S2C (mkD (d_inmsg ds) (d_msgs ds) (d_bytes ds) (d_cred ds) (d_wu ds + n) (d_deliv ds)))
        | _, _ => fail w 1314 act id 0
        end
      end
    end
  end.

(* the carrier hands the next frame of (t, d) to the receiving endpoint *)
Definition deliver_step (w : wstate) (d : dir) (t : N) : wstate :=
  match qget (t, d) (w_q w) with
  | [] => w
  | (id, k) :: rest =>
      let w := mkW (w_streams w) (qset (t, d) rest (w_q w)) (w_lastnew w) (w_s2c_seen w) (w_cwin w) (w_fails w) in
      match aget (t, id) (w_streams w) with
      | None => w
      | Some s =>
          match k with
          | KWu n =>
              let o := opp d in let ds := get_d s o in
              set_stream w (t, id) (set_d s o (mkD (d_inmsg ds) (d_msgs ds) (d_bytes ds) (d_cred ds + n) (d_wu ds) (d_deliv ds)))
          | KMsg _ len | KMore len =>
              let ds := get_d s d in
              set_stream w (t, id) (set_d s d (mkD (d_inmsg ds) (d_msgs ds) (d_bytes ds) (d_cred ds) (d_wu ds) (d_deliv ds + len)))
          | _ => w
          end
      end
  end.

Definition drop_tunnel (w : wstate) (t : N) : wstate :=
  mkW (w_streams w) (qset (t, C2S) [] (qset (t, S2C) [] (w_q w))) (w_lastnew w) (w_s2c_seen w) (w_cwin w) (w_fails w).

Definition wire_step (c : cfg) (w : wstate) (e : N * ev) : wstate :=
  let '(act, e) := e in
  match e with
  | Emit d t id k true => emit_step c w act d t id k
  | Deliver d t 1 => deliver_step w d t
  | Stim StFail t _ _ | Stim StCtxEnd t _ _ | Stim StMarshal t _ _ => drop_tunnel w t
  | _ => w
  end.

Definition mon_wire (c : cfg) (tr : trace) : list failure := w_fails (fold_left (wire_step c) tr w0).

(* the final per-stream states, for monitors that relate the wire to application calls *)
Definition wire_final (c : cfg) (tr : trace) : wstate := fold_left (wire_step c) tr w0.
