(* Observable events (DESIGN.md Appendix B) shared by the system model and by the
   implementation traces recorded by the Go harness. *)
From Coq Require Import List NArith ZArith Bool.
Import ListNotations.

Definition str := list N.                       (* byte strings *)
Definition mdt := list (str * list str).        (* metadata: keys sorted, values in order *)

Inductive dir := C2S | S2C.
Definition dir_eqb (a b : dir) : bool := match a, b with C2S, C2S | S2C, S2C => true | _, _ => false end.
Definition opp (d : dir) : dir := match d with C2S => S2C | S2C => C2S end.

(* result of an application-level call *)
Inductive res :=
| ROk | REof | RCtxCanceled | RCtxDeadline
| RStatus (code : N) (msg det : str)
| RErr (text : str).

(* frames as seen on the carrier *)
Inductive fkind :=
| KNew (rpc : option N) (method : str) (rev : Z) (win : N) (md : option mdt)
| KMsg (size len : N) | KMore (len : N) | KHalf | KCancel | KWu (n : N)
| KSettings (revs : list Z) (win : N) | KHdrs (md : option mdt) | KClose (st : res) (md : option mdt)
| KNil.

Inductive who := Cw (r : N) | Cr (r : N) | Cx (r : N) | Hw (r : N) | Hr (r : N) | Hx (r : N) | Ctl.
Inductive opn :=
| ONew | OSend | ORecv | OCloseSend | OHeader | OTrailer | OCancel
| OSetHdr | OSendHdr | OSetTrl | OReturn | OCtx | OOther.

Inductive shape := ShU | ShCS | ShSS | ShBD.
Definition client_streams (s : shape) : bool := match s with ShCS | ShBD => true | _ => false end.
Definition server_streams (s : shape) : bool := match s with ShSS | ShBD => true | _ => false end.

Inductive stim := StFail | StChClose | StCtxEnd | StShutdown | StStop | StAdvance | StOpen | StRawEnd
  | StMarshal.   (* the carrier refused to encode a frame (e.g. a string field that is not valid UTF-8) and ended *)

Inductive ev :=
| Emit (d : dir) (t : N) (id : Z) (k : fkind) (ok : bool)
| Deliver (d : dir) (t : N) (what : N)                   (* 0 nothing, 1 frame, 2 end of stream *)
| NewCall (r t : N) (sh : shape) (method : str) (md credmd : option mdt) (timeout : option Z) (multi : bool)
| Call (w : who) (o : opn) (idx len dg : N) (md : option mdt) (st : res)
| Ret (w : who) (o : opn) (r : res) (idx len dg : N) (md md2 : option mdt) (has2 : bool) (tc : Z)
| HStart (r : N) (sh : shape) (md : option mdt) (deadline : option Z) (tmd : option mdt) (peer icpt : str)
| HExit (r : N)
| StartRet (t : N) (r : res)
| ChanDone (t : N) (r : res)
| ServeRet (t : N) (started : bool) (r : res)
| NetSrvRet (t : N) (r : res)
| Callback (opened : bool) (t : Z)
| Probe (full : bool) (ctabs : list Z) (pend : list (Z * Z)) (stabs : list N) (goroutines : N)
| Stim (s : stim) (t : N) (md : option mdt) (peer : str)
| Route (r : N) (keyed : bool) (key : option str)       (* an RPC issued through AsChannel / KeyAsChannel(key) *)
| ReadyObs (keyed : bool) (key : option str) (ready : bool) (all : list N)
| WaitCall (n : N) (keyed : bool) (key : option str)
| WaitRet (n : N) (r : res)
| HarnessFail (code : N) (a b : Z)                       (* a check made by the Go harness itself (free-running mode) *)
| Teardown
| Panic
| Skip
| Other.

(* a trace: events tagged with the index of the controller action after which they were observed *)
Definition trace := list (N * ev).

(* world configuration of a scenario *)
Record cfg := mkCfg {
  c_rev : bool;          (* reverse tunnel *)
  c_cdis : bool; c_sdis : bool;       (* flow control disabled by tunnel client / server *)
  c_cleg : bool; c_sleg : bool;       (* legacy (non-advertising) tunnel client / server *)
  c_rawc : bool; c_raws : bool        (* harness plays the tunnel client / server with raw frames *)
}.

Definition expect_settings (c : cfg) : bool := negb (c_cleg c).     (* server sends settings iff client advertises *)
Definition expect_fc (c : cfg) : bool :=
  negb (c_cleg c) && negb (c_sleg c) && negb (c_cdis c) && negb (c_sdis c).

(* ---------- small utilities ---------- *)
Fixpoint str_eqb (a b : str) : bool :=
  match a, b with
  | [], [] => true
  | x :: a', y :: b' => N.eqb x y && str_eqb a' b'
  | _, _ => false
  end.
Fixpoint strs_eqb (a b : list str) : bool :=
  match a, b with
  | [], [] => true
  | x :: a', y :: b' => str_eqb x y && strs_eqb a' b'
  | _, _ => false
  end.
Fixpoint md_eqb (a b : mdt) : bool :=
  match a, b with
  | [], [] => true
  | (k, v) :: a', (k', v') :: b' => str_eqb k k' && strs_eqb v v' && md_eqb a' b'
  | _, _ => false
  end.
(* nil and empty metadata are the same observable *)
Definition omd (m : option mdt) : mdt := match m with Some x => x | None => [] end.
Definition omd_eqb (a b : option mdt) : bool := md_eqb (omd a) (omd b).

Fixpoint str_ltb (a b : str) : bool :=
  match a, b with
  | [], [] => false
  | [], _ => true
  | _, [] => false
  | x :: a', y :: b' => if N.ltb x y then true else if N.ltb y x then false else str_ltb a' b'
  end.

(* metadata.Join: append values per key; keys kept sorted *)
Fixpoint md_add (k : str) (vs : list str) (m : mdt) : mdt :=
  match m with
  | [] => [(k, vs)]
  | (k', vs') :: r =>
      if str_eqb k k' then (k', vs' ++ vs) :: r
      else if str_ltb k k' then (k, vs) :: m
      else (k', vs') :: md_add k vs r
  end.
Definition md_join (a b : mdt) : mdt := fold_left (fun acc kv => md_add (fst kv) (snd kv) acc) b a.

Definition res_eqb (a b : res) : bool :=
  match a, b with
  | ROk, ROk | REof, REof | RCtxCanceled, RCtxCanceled | RCtxDeadline, RCtxDeadline => true
  | RStatus c m d, RStatus c' m' d' => N.eqb c c' && str_eqb m m' && str_eqb d d'
  | RErr t, RErr t' => str_eqb t t'
  | _, _ => false
  end.
Definition res_code (r : res) : option N :=
  match r with RStatus c _ _ => Some c | ROk | REof => Some 0%N | _ => None end.
Definition is_code (r : res) (c : N) : bool :=
  match r with RStatus c' _ _ => N.eqb c c' | _ => false end.
Definition res_is_ok (r : res) : bool := match r with ROk => true | _ => false end.

Definition who_eqb (a b : who) : bool :=
  match a, b with
  | Cw x, Cw y | Cr x, Cr y | Cx x, Cx y | Hw x, Hw y | Hr x, Hr y | Hx x, Hx y => N.eqb x y
  | Ctl, Ctl => true
  | _, _ => false
  end.
Definition opn_code (o : opn) : N :=
  match o with
  | ONew => 0 | OSend => 1 | ORecv => 2 | OCloseSend => 3 | OHeader => 4 | OTrailer => 5 | OCancel => 6
  | OSetHdr => 7 | OSendHdr => 8 | OSetTrl => 9 | OReturn => 10 | OCtx => 11 | OOther => 12
  end%N.
Definition opn_eqb (a b : opn) : bool := N.eqb (opn_code a) (opn_code b).

(* a monitor failure: which clause, at which controller action, about which rpc / stream *)
Record failure := mkFail { f_code : N; f_act : N; f_a : Z; f_b : Z }.
