(* Composition: a tunnel carried by a stream of another tunnel behaves, stream by stream, like a
   tunnel on a plain FIFO carrier.  Every run of the nested system (any interleaving of the inner
   and outer parties, any chunk limits and windows at either level, any injective framing of the
   inner frames as outer messages) maps to a run of the flat Pipe.v system, so every theorem of
   PipeProofs.v holds of the inner stream: exactly-once in-order delivery, the window discipline,
   no stranding. *)
From Coq Require Import List Arith NArith Lia Bool.
From GT Require Import Frames FramesProofs Pipe PipeProofs Nested.
Import ListNotations.
Set Implicit Arguments.

Section N.
Variables A B : Type.
Variable enc : dframe A -> list B.
Variable dec : list B -> option (dframe A).
Hypothesis dec_enc : forall f, dec (enc f) = Some f.
Variables cmaxI WI cmaxO WO : nat.

Notation nst := (nst A B).
Notation nstep := (@nstep A B enc dec cmaxI cmaxO).
Notation nrun := (@nrun A B enc dec cmaxI cmaxO).
Notation n_init := (n_init A B WI WO).

Record NInv (n : nst) : Prop := {
  ni_wire : p_wire (n_in n) = [];
  ni_out : exists lsO, prun cmaxO (p_init B WO) lsO = Some (n_out n);
  ni_fl : p_submitted (n_out n) = p_delivered (n_out n) ++ map enc (n_fl n)
}.

Lemma ninv_init : NInv n_init.
Proof. constructor; cbn; [reflexivity | exists []; reflexivity | reflexivity]. Qed.

Lemma prun_snoc X cm (s : pst X) ls l s1 s2 :
  prun cm s ls = Some s1 -> pstep cm s1 l = Some s2 -> prun cm s (ls ++ [l]) = Some s2.
Proof.
  revert s. induction ls as [|x r IH]; intros s H1 H2; cbn in *.
  - inversion H1; subst. rewrite H2. reflexivity.
  - destruct (pstep cm s x) as [s'|]; [|discriminate]. apply IH; assumption.
Qed.

(* steps that neither read nor write the carrier commute with replacing the carrier content *)
Lemma pstep_set_wire_other (s : pst A) w l s' :
  (match l with PChunk | PDeliver => False | _ => True end) ->
  pstep cmaxI s l = Some s' ->
  pstep cmaxI (set_wire s w) l = Some (set_wire s' w) /\ p_wire s' = p_wire s.
Proof.
  intros Hl H. destruct l; try contradiction; cbn [pstep] in *; unfold set_wire; cbn.
  - destruct (p_cur s); [discriminate|]. inversion H; subst; cbn. split; reflexivity.
  - destruct (p_rq s) as [|f r]; [discriminate|]. destruct (rstep (p_reader s) f) as [r' o].
    inversion H; subst; cbn. split; reflexivity.
  - destruct (p_credits s) as [|c r]; [discriminate|]. inversion H; subst; cbn. split; reflexivity.
Qed.

Lemma pstep_chunk_wire (s : pst A) w s' f :
  p_wire s = [] -> pstep cmaxI s PChunk = Some s' -> p_wire s' = [f] ->
  pstep cmaxI (set_wire s w) PChunk = Some (set_wire s' (w ++ [f])).
Proof.
  intros Hw H Hf. cbn [pstep] in *. unfold set_wire at 1; cbn.
  destruct (p_cur s) as [[[m rest] first]|]; [|discriminate].
  destruct (Nat.eqb (p_swin s) 0); [discriminate|].
  inversion H; subst; clear H. cbn in *. rewrite Hw in Hf. cbn in Hf. inversion Hf; subst.
  unfold set_wire; cbn. reflexivity.
Qed.

Lemma pstep_chunk_emits_one (s : pst A) s' :
  p_wire s = [] -> pstep cmaxI s PChunk = Some s' -> exists f, p_wire s' = [f].
Proof.
  intros Hw H. cbn [pstep] in H.
  destruct (p_cur s) as [[[m rest] first]|]; [|discriminate].
  destruct (Nat.eqb (p_swin s) 0); [discriminate|].
  inversion H; subst; cbn. rewrite Hw. eexists; reflexivity.
Qed.

Lemma pstep_deliver_single (s : pst A) f fl :
  exists s', pstep cmaxI (set_wire s [f]) PDeliver = Some s' /\ p_wire s' = [] /\
             pstep cmaxI (set_wire s (f :: fl)) PDeliver = Some (set_wire s' fl).
Proof.
  unfold pstep, set_wire. cbn [p_wire p_rwin p_submitted p_cur p_swin p_rq p_reader p_delivered p_credits p_overrun p_sent p_consumed].
  destruct (Nat.ltb (p_rwin s) (flen f)); eexists; (split; [reflexivity|]); split; reflexivity.
Qed.

(* the outer stream's internal steps do not change what was submitted / delivered *)
Lemma outer_internal_keeps (o o' : pst B) l :
  (match l with PChunk | PDeliver | PCredit => True | _ => False end) ->
  pstep cmaxO o l = Some o' -> p_submitted o' = p_submitted o /\ p_delivered o' = p_delivered o.
Proof.
  intros Hl H. destruct l; try contradiction; cbn [pstep] in H.
  - destruct (p_cur o) as [[[m rest] first]|]; [|discriminate].
    destruct (Nat.eqb (p_swin o) 0); [discriminate|]. inversion H; subst; cbn. split; reflexivity.
  - destruct (p_wire o) as [|f r]; [discriminate|].
    destruct (Nat.ltb (p_rwin o) (flen f)); inversion H; subst; cbn; split; reflexivity.
  - destruct (p_credits o) as [|c r]; [discriminate|]. inversion H; subst; cbn. split; reflexivity.
Qed.

Lemma outer_dequeue (o o' : pst B) fo r :
  p_rq o = fo :: r -> pstep cmaxO o PDequeue = Some o' ->
  p_submitted o' = p_submitted o /\
  p_delivered o' = match snd (rstep (p_reader o) fo) with Got m => p_delivered o ++ [m] | _ => p_delivered o end.
Proof.
  intros Hq H. cbn [pstep] in H. rewrite Hq in H.
  destruct (rstep (p_reader o) fo) as [r' out] eqn:E. inversion H; subst; cbn. split; reflexivity.
Qed.

Lemma app_inv_prefix_one X (d : list X) m rest l :
  d ++ l = (d ++ [m]) ++ rest -> l = m :: rest.
Proof. rewrite <- app_assoc. intros H. apply app_inv_head in H. exact H. Qed.

(* one nested step is a flat step or leaves the flat state unchanged, and keeps the invariant *)
Lemma nstep_refines n l n' :
  NInv n -> nstep n l = Some n' ->
  NInv n' /\ (flat n' = flat n \/ exists fl, pstep cmaxI (flat n) fl = Some (flat n')).
Proof.
  intros [Hw [lsO HO] Hfl] H. destruct l; cbn [Nested.nstep] in H.
  - (* NSubmit *)
    destruct (pstep cmaxI (n_in n) (PSubmit m)) as [s'|] eqn:E; [|discriminate]. inversion H; subst; clear H.
    destruct (@pstep_set_wire_other (n_in n) (n_fl n) (PSubmit m) s' I E) as [E' Hw'].
    split; [constructor; cbn; [congruence | exists lsO; exact HO | exact Hfl]|].
    right. exists (PSubmit m). exact E'.
  - (* NChunk *)
    destruct (pstep cmaxI (n_in n) PChunk) as [s'|] eqn:E; [|discriminate].
    destruct (p_wire s') as [|f [|f2 r]] eqn:Ew; try discriminate.
    destruct (pstep cmaxO (n_out n) (PSubmit (enc f))) as [o'|] eqn:EO; [|discriminate].
    inversion H; subst; clear H.
    split.
    + constructor; cbn.
      * reflexivity.
      * exists (lsO ++ [PSubmit (enc f)]). eapply prun_snoc; eassumption.
      * cbn [pstep] in EO. destruct (p_cur (n_out n)); [discriminate|]. inversion EO; subst; cbn.
        rewrite Hfl, map_app, app_assoc. reflexivity.
    + right. exists PChunk. unfold flat; cbn [n_in n_fl].
      rewrite (@pstep_chunk_wire (n_in n) (n_fl n) s' f Hw E Ew).
      unfold set_wire; cbn. reflexivity.
  - (* NOuterChunk *)
    destruct (pstep cmaxO (n_out n) PChunk) as [o'|] eqn:EO; [|discriminate]. inversion H; subst; clear H.
    destruct (@outer_internal_keeps _ _ PChunk I EO) as [Hs Hd].
    split; [|left; reflexivity].
    constructor; cbn; [exact Hw | exists (lsO ++ [PChunk]); eapply prun_snoc; eassumption | rewrite Hs, Hd; exact Hfl].
  - (* NOuterDeliver *)
    destruct (pstep cmaxO (n_out n) PDeliver) as [o'|] eqn:EO; [|discriminate]. inversion H; subst; clear H.
    destruct (@outer_internal_keeps _ _ PDeliver I EO) as [Hs Hd].
    split; [|left; reflexivity].
    constructor; cbn; [exact Hw | exists (lsO ++ [PDeliver]); eapply prun_snoc; eassumption | rewrite Hs, Hd; exact Hfl].
  - (* NOuterCredit *)
    destruct (pstep cmaxO (n_out n) PCredit) as [o'|] eqn:EO; [|discriminate]. inversion H; subst; clear H.
    destruct (@outer_internal_keeps _ _ PCredit I EO) as [Hs Hd].
    split; [|left; reflexivity].
    constructor; cbn; [exact Hw | exists (lsO ++ [PCredit]); eapply prun_snoc; eassumption | rewrite Hs, Hd; exact Hfl].
  - (* NCarrierRecv *)
    destruct (p_rq (n_out n)) as [|fo rq] eqn:Eq; [discriminate|].
    destruct (pstep cmaxO (n_out n) PDequeue) as [o'|] eqn:EO; [|discriminate].
    destruct (@outer_dequeue (n_out n) o' fo rq Eq EO) as [Hs Hd].
    assert (HO' : prun cmaxO (p_init B WO) (lsO ++ [PDequeue]) = Some o') by (eapply prun_snoc; eassumption).
    destruct (snd (rstep (p_reader (n_out n)) fo)) as [m| |e] eqn:Er.
    + (* a message completed: it is the oldest frame handed to the outer stream *)
      pose proof (system_delivered_prefix _ _ _ HO') as [rest Hpre].
      rewrite Hs, Hd, Hfl in Hpre.
      apply app_inv_prefix_one in Hpre.
      destruct (n_fl n) as [|f fl] eqn:Efl; [discriminate|]. cbn [map] in Hpre.
      inversion Hpre; subst m. rewrite dec_enc in H.
      destruct (pstep_deliver_single (n_in n) f fl) as [s1 [ED [Hw1 EDf]]].
      rewrite ED in H. inversion H; subst; clear H. cbn [tl].
      split.
      * constructor; cbn [n_in n_out n_fl].
        -- exact Hw1.
        -- eexists; exact HO'.
        -- rewrite Hs, Hd, Hfl. cbn [map]. rewrite <- app_assoc. reflexivity.
      * right. exists PDeliver. unfold flat; cbn [n_in n_fl]. rewrite Efl. exact EDf.
    + inversion H; subst; clear H. split; [|left; reflexivity].
      constructor; cbn; [exact Hw | eexists; exact HO' | rewrite Hs, Hd; exact Hfl].
    + inversion H; subst; clear H. split; [|left; reflexivity].
      constructor; cbn; [exact Hw | eexists; exact HO' | rewrite Hs, Hd; exact Hfl].
  - (* NDequeue *)
    destruct (pstep cmaxI (n_in n) PDequeue) as [s'|] eqn:E; [|discriminate]. inversion H; subst; clear H.
    destruct (@pstep_set_wire_other (n_in n) (n_fl n) PDequeue s' I E) as [E' Hw'].
    split; [constructor; cbn; [congruence | exists lsO; exact HO | exact Hfl]|].
    right. exists PDequeue. exact E'.
  - (* NCredit *)
    destruct (pstep cmaxI (n_in n) PCredit) as [s'|] eqn:E; [|discriminate]. inversion H; subst; clear H.
    destruct (@pstep_set_wire_other (n_in n) (n_fl n) PCredit s' I E) as [E' Hw'].
    split; [constructor; cbn; [congruence | exists lsO; exact HO | exact Hfl]|].
    right. exists PCredit. exact E'.
Qed.

Theorem nested_refines_flat ls : forall n, nrun n_init ls = Some n ->
  NInv n /\ exists fls, prun cmaxI (p_init A WI) fls = Some (flat n).
Proof.
  assert (G : forall ls n0 n, NInv n0 -> (exists fls, prun cmaxI (p_init A WI) fls = Some (flat n0)) ->
              nrun n0 ls = Some n -> NInv n /\ exists fls, prun cmaxI (p_init A WI) fls = Some (flat n)).
  { clear ls. induction ls as [|l r IH]; intros n0 n I0 F0 H; cbn [Nested.nrun] in H.
    - inversion H; subst. split; assumption.
    - destruct (nstep n0 l) as [n1|] eqn:E; [|discriminate].
      destruct (nstep_refines l I0 E) as [I1 [Heq | [fl Hfl]]].
      + apply (IH n1 n I1); [rewrite Heq; exact F0 | exact H].
      + destruct F0 as [fls Hf]. apply (IH n1 n I1); [|exact H].
        exists (fls ++ [fl]). eapply prun_snoc; eassumption. }
  intros n H. apply (G ls n_init n ninv_init); [exists []; reflexivity | exact H].
Qed.

(* ---- what the inner stream inherits ---- *)
Theorem nested_delivered_prefix ls n : nrun n_init ls = Some n ->
  prefix (p_delivered (n_in n)) (p_submitted (n_in n)).
Proof.
  intros H. destruct (nested_refines_flat ls H) as [_ [fls Hf]].
  exact (system_delivered_prefix _ _ _ Hf).
Qed.

Theorem nested_complete_when_drained ls n : nrun n_init ls = Some n ->
  p_cur (n_in n) = None -> n_fl n = [] -> p_rq (n_in n) = [] ->
  p_delivered (n_in n) = p_submitted (n_in n).
Proof.
  intros H Hc Hf Hq. destruct (nested_refines_flat ls H) as [_ [fls Hr]].
  apply (system_complete_when_drained _ _ _ Hr); unfold flat; cbn; assumption.
Qed.

Theorem nested_window_discipline ls n : nrun n_init ls = Some n ->
  p_overrun (n_in n) = false /\ bytes (p_rq (n_in n)) <= WI /\
  p_swin (n_in n) + bytes (n_fl n) + bytes (p_rq (n_in n)) + sum (p_credits (n_in n)) = WI /\
  p_overrun (n_out n) = false /\ bytes (p_rq (n_out n)) <= WO.
Proof.
  intros H. destruct (nested_refines_flat ls H) as [[_ [lsO HO] _] [fls Hr]].
  destruct (system_window_discipline _ _ _ Hr) as (H1 & H2 & _ & H4 & _).
  destruct (system_window_discipline _ _ _ HO) as (H5 & H6 & _).
  unfold flat in *; cbn in *. repeat split; assumption.
Qed.

Theorem nested_window_restored ls n : nrun n_init ls = Some n ->
  n_fl n = [] -> p_rq (n_in n) = [] -> p_credits (n_in n) = [] -> p_swin (n_in n) = WI.
Proof.
  intros H Hf Hq Hc. destruct (nested_refines_flat ls H) as [_ [fls Hr]].
  apply (system_window_restored _ _ _ Hr); unfold flat; cbn; assumption.
Qed.

(* the inner receive loop is never handed something that is not one of the inner sender's frames:
   whenever the outer stream completes a message, the nested step is defined (decoding succeeds)
   unless the inner step itself is disabled - which PDeliver never is on a non-empty carrier *)
Theorem nested_carrier_recv_enabled ls n : nrun n_init ls = Some n ->
  p_rq (n_out n) <> [] -> exists n', nstep n NCarrierRecv = Some n'.
Proof.
  intros H Hq. destruct (nested_refines_flat ls H) as [[Hw [lsO HO] Hfl] _].
  cbn [Nested.nstep]. destruct (p_rq (n_out n)) as [|fo rq] eqn:Eq; [congruence|].
  assert (EO : exists o', pstep cmaxO (n_out n) PDequeue = Some o').
  { cbn [pstep]. rewrite Eq. destruct (rstep (p_reader (n_out n)) fo). eexists; reflexivity. }
  destruct EO as [o' EO]. rewrite EO.
  destruct (@outer_dequeue (n_out n) o' fo rq Eq EO) as [Hs Hd].
  assert (HO' : prun cmaxO (p_init B WO) (lsO ++ [PDequeue]) = Some o') by (eapply prun_snoc; eassumption).
  destruct (snd (rstep (p_reader (n_out n)) fo)) as [m| |e] eqn:Er; try (eexists; reflexivity).
  pose proof (system_delivered_prefix _ _ _ HO') as [rest Hpre].
  rewrite Hs, Hd, Hfl in Hpre. apply app_inv_prefix_one in Hpre.
  destruct (n_fl n) as [|f fl]; [discriminate|]. cbn [map] in Hpre. inversion Hpre; subst m.
  rewrite dec_enc. destruct (pstep_deliver_single (n_in n) f fl) as [s1 [ED _]]. rewrite ED.
  eexists; reflexivity.
Qed.

End N.

(* non-vacuity: a message travels through both levels (inner chunk limit 2, outer chunk limit 1,
   each inner frame framed as an outer message of two symbols) *)
Definition ex_enc (f : dframe nat) : list (dframe nat) := [f; f].
Definition ex_dec (m : list (dframe nat)) : option (dframe nat) := hd_error m.
Example nested_run_delivers :
  match nrun ex_enc ex_dec 2 1 (n_init nat (dframe nat) 8 8)
         [NSubmit [1;2;3]; NChunk; NOuterChunk; NOuterChunk; NChunk; NOuterDeliver; NOuterDeliver;
          NCarrierRecv; NCarrierRecv; NOuterChunk; NOuterChunk; NOuterDeliver; NOuterDeliver;
          NCarrierRecv; NCarrierRecv; NDequeue; NDequeue] with
  | Some n => p_delivered (n_in n) = [[1;2;3]] /\ n_fl n = []
  | None => False
  end.
Proof. vm_compute. split; reflexivity. Qed.
