(* The one ordering the access table (Access.v) cannot see and lists as an exemption: the
   receive loop writes useRevision / settings without a lock, and allocateStream / newStream read
   them (holding mu, which the writer does not take).  What orders them is the constructor:
   newTunnelChannel hands the channel out only after it has received from awaitSettings (closed
   by the receive loop after the writes) or - when the stream's context ended first - after it
   has itself marked the channel finished under mu; and allocateStream leaves on [finished]
   before it reaches the reads.  This file models exactly that, one label per step of each party
   (receive loop, constructor, any closer, a caller starting an RPC, the context), and checks
   every reachable state: no read happens before the writes are published.  Without the
   synchronous close on the context path (the code before fix F15) a racing read is reachable. *)
From Coq Require Import List Bool.
Import ListNotations.

Inductive rpc := R0 | R1 | R2 | R3.            (* receive loop: nothing written / useRevision / settings / awaitSettings closed *)
Inductive kpc := K0 | KAwait | KCtx | KRet.    (* constructor: waiting / took awaitSettings / took ctx.Done, not yet closed / returned *)
Inductive upc := U0 | UChecked | URead | UOut. (* caller: not started / saw finished=false under mu / has read / left *)

Record gs := mkG { g_r : rpc; g_k : kpc; g_u : upc; g_ctx : bool; g_fin : bool; g_bad : bool }.
Definition g_init := mkG R0 K0 U0 false false false.

Inductive glbl := GRecv | GCtor | GCaller | GCtxEnd | GCloser.

(* [fixed] = the constructor closes the channel itself before returning on the context path *)
Definition gstep (fixed : bool) (s : gs) (l : glbl) : option gs :=
  match l with
  | GRecv =>
      match g_r s with
      | R0 => Some (mkG R1 (g_k s) (g_u s) (g_ctx s) (g_fin s) (g_bad s))
      | R1 => Some (mkG R2 (g_k s) (g_u s) (g_ctx s) (g_fin s) (g_bad s))
      | R2 => Some (mkG R3 (g_k s) (g_u s) (g_ctx s) (g_fin s) (g_bad s))
      | R3 => None
      end
  | GCtor =>
      match g_k s with
      | K0 => match g_r s with
              | R3 => Some (mkG (g_r s) KAwait (g_u s) (g_ctx s) (g_fin s) (g_bad s))
              | _ => if g_ctx s then Some (mkG (g_r s) KCtx (g_u s) (g_ctx s) (g_fin s) (g_bad s)) else None
              end
      | KAwait => Some (mkG (g_r s) KRet (g_u s) (g_ctx s) (g_fin s) (g_bad s))
      | KCtx => Some (mkG (g_r s) KRet (g_u s) (g_ctx s) (if fixed then true else g_fin s) (g_bad s))
      | KRet => None
      end
  | GCaller =>
      match g_u s with
      | U0 => match g_k s with
              | KRet => if g_fin s then Some (mkG (g_r s) (g_k s) UOut (g_ctx s) (g_fin s) (g_bad s))
                        else Some (mkG (g_r s) (g_k s) UChecked (g_ctx s) (g_fin s) (g_bad s))
              | _ => None                      (* nobody has the channel yet *)
              end
      | UChecked => Some (mkG (g_r s) (g_k s) URead (g_ctx s) (g_fin s)
                               (g_bad s || match g_r s with R3 => false | _ => true end))
      | URead => Some (mkG (g_r s) (g_k s) UOut (g_ctx s) (g_fin s) (g_bad s))
      | UOut => None
      end
  | GCtxEnd => if g_ctx s then None else Some (mkG (g_r s) (g_k s) (g_u s) true (g_fin s) (g_bad s))
  | GCloser =>                                 (* the watcher goroutine / a failing receive loop / Close() *)
      if g_fin s then None else Some (mkG (g_r s) (g_k s) (g_u s) (g_ctx s) true (g_bad s))
  end.

Fixpoint grun (fixed : bool) (s : gs) (ls : list glbl) : option gs :=
  match ls with
  | [] => Some s
  | l :: r => match gstep fixed s l with Some s' => grun fixed s' r | None => None end
  end.

(* inductive invariant of the repaired constructor *)
Definition ginv (s : gs) : bool :=
  negb (g_bad s) &&
  (* the constructor took the awaitSettings branch only after the close *)
  (match g_k s with KAwait => match g_r s with R3 => true | _ => false end | _ => true end) &&
  (* a returned constructor means: published, or finished *)
  (match g_k s with KRet => (match g_r s with R3 => true | _ => false end) || g_fin s | _ => true end) &&
  (* a caller past the finished check saw it false, so the writes are published *)
  (match g_u s with
   | UChecked | URead => match g_r s with R3 => true | _ => false end
   | _ => true end) &&
  (match g_u s with U0 => true | _ => match g_k s with KRet => true | _ => false end end).

Definition all_r := [R0; R1; R2; R3].
Definition all_k := [K0; KAwait; KCtx; KRet].
Definition all_u := [U0; UChecked; URead; UOut].
Definition all_b := [false; true].
Definition all_l := [GRecv; GCtor; GCaller; GCtxEnd; GCloser].
Definition all_gs : list gs :=
  flat_map (fun r => flat_map (fun k => flat_map (fun u => flat_map (fun c => flat_map (fun f =>
    map (fun b => mkG r k u c f b) all_b) all_b) all_b) all_u) all_k) all_r.

Lemma in_all_gs s : In s all_gs.
Proof.
  destruct s as [r k u c f b]. unfold all_gs.
  apply in_flat_map. exists r. split; [destruct r; cbn; auto|].
  apply in_flat_map. exists k. split; [destruct k; cbn; auto|].
  apply in_flat_map. exists u. split; [destruct u; cbn; auto|].
  apply in_flat_map. exists c. split; [destruct c; cbn; auto|].
  apply in_flat_map. exists f. split; [destruct f; cbn; auto|].
  apply in_map. destruct b; cbn; auto.
Qed.

Lemma ginv_closed :
  forallb (fun s => implb (ginv s)
     (forallb (fun l => match gstep true s l with Some s' => ginv s' | None => true end) all_l)) all_gs = true.
Proof. vm_compute. reflexivity. Qed.

Lemma ginv_step s l s' : ginv s = true -> gstep true s l = Some s' -> ginv s' = true.
Proof.
  intros I H. pose proof ginv_closed as C. rewrite forallb_forall in C.
  specialize (C s (in_all_gs s)). rewrite I in C. cbn [implb] in C.
  rewrite forallb_forall in C. assert (Hl : In l all_l) by (destruct l; cbn; auto 10).
  specialize (C l Hl). rewrite H in C. exact C.
Qed.

(* every interleaving, any length: no read of useRevision / settings before they are published *)
Theorem settings_never_read_before_published ls : forall s, grun true g_init ls = Some s -> g_bad s = false.
Proof.
  assert (G : forall ls s0 s, ginv s0 = true -> grun true s0 ls = Some s -> ginv s = true).
  { clear ls. induction ls as [|l r IH]; intros s0 s I H; cbn [grun] in H.
    - inversion H; subst; exact I.
    - destruct (gstep true s0 l) as [s1|] eqn:E; [|discriminate].
      exact (IH s1 s (ginv_step s0 l s1 I E) H). }
  intros s H. pose proof (G ls g_init s eq_refl H) as I.
  unfold ginv in I. repeat (apply andb_true_iff in I; destruct I as [I ?]).
  apply negb_true_iff in I. exact I.
Qed.

(* before the repair: the context ends, the constructor returns, the caller passes the check and
   reads while the receive loop is still writing *)
Theorem unrepaired_constructor_races : exists ls s, grun false g_init ls = Some s /\ g_bad s = true.
Proof.
  exists [GCtxEnd; GCtor; GCtor; GCaller; GRecv; GCaller]. eexists. split; [vm_compute; reflexivity | reflexivity].
Qed.

(* non-vacuity: the good path exists too *)
Example settings_read_after_publication :
  exists s, grun true g_init [GRecv; GRecv; GRecv; GCtor; GCtor; GCaller; GCaller] = Some s /\ g_u s = URead /\ g_bad s = false.
Proof. eexists. split; [vm_compute; reflexivity | split; reflexivity]. Qed.
