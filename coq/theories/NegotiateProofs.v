From Coq Require Import List ZArith Bool Lia.
From GTgen Require Import Params.
From GT Require Import Negotiate.
Import ListNotations.
Local Open Scope Z_scope.

Lemma in_slice_In x l : in_slice x l = true <-> In x l.
Proof.
  unfold in_slice. rewrite existsb_exists. split.
  - intros [y [Hy E]]. apply Z.eqb_eq in E. now subst.
  - intro H. exists x. split; [assumption | apply Z.eqb_refl].
Qed.

(* the selection loop computes the maximum of the common revisions *)
Definition common (mine l : list Z) : list Z := filter (fun r => in_slice r mine) l.

Lemma choose_fold_eq mine l : forall use ok,
  fold_left (choose_step mine) l (use, ok) =
  (fold_left Z.max (common mine l) use,
   (ok || match common mine l with [] => false | _ => true end)%bool).
Proof.
  induction l as [|t l IH]; intros use ok; cbn [fold_left common filter].
  - now rewrite orb_false_r.
  - unfold choose_step at 2. cbn [fst]. destruct (in_slice t mine) eqn:E.
    + rewrite IH. cbn [fold_left]. fold (common mine l).
      replace (if t >? use then t else use) with (Z.max use t) by (destruct (t >? use) eqn:E'; lia).
      f_equal. now rewrite orb_true_r.
    + rewrite IH. fold (common mine l). reflexivity.
Qed.

Lemma fold_max_ge l : forall u, u <= fold_left Z.max l u /\ (forall x, In x l -> x <= fold_left Z.max l u).
Proof.
  induction l as [|y l IH]; intro u; cbn [fold_left].
  - split; [lia | intros x []].
  - destruct (IH (Z.max u y)) as [I1 I2]. split; [lia|].
    intros x [Hx|Hx]; [subst; lia | apply I2; assumption].
Qed.

Lemma fold_max_in l : forall u, fold_left Z.max l u = u \/ In (fold_left Z.max l u) l.
Proof.
  induction l as [|y l IH]; intro u; cbn [fold_left]; [left; reflexivity|].
  destruct (IH (Z.max u y)) as [E|Hin].
  - rewrite E. destruct (Z.max_spec u y) as [[_ ->]|[_ ->]]; [right; left; reflexivity | left; reflexivity].
  - right. right. assumption.
Qed.

Lemma common_In mine l r : In r (common mine l) <-> In r l /\ In r mine.
Proof. unfold common. rewrite filter_In, in_slice_In. tauto. Qed.

Theorem choose_rev_spec mine theirs : Forall (fun r => 0 <= r) mine ->
  let theirs' := match theirs with [] => [0] | _ => theirs end in
  match choose_rev mine theirs with
  | Some r => is_highest_common mine theirs' r
  | None => forall r, In r mine -> In r theirs' -> False
  end.
Proof.
  intro Hpos. cbn zeta. unfold choose_rev.
  set (theirs' := match theirs with [] => [0] | _ => theirs end).
  rewrite choose_fold_eq. cbn [orb].
  destruct (common mine theirs') as [|c cs] eqn:Ec.
  - intros r Hm Ht. assert (H : In r (common mine theirs')) by (apply common_In; auto).
    rewrite Ec in H. destruct H.
  - rewrite <- Ec. destruct (fold_max_ge (common mine theirs') 0) as [G1 G2].
    assert (Hin : In (fold_left Z.max (common mine theirs') 0) (common mine theirs')).
    { destruct (fold_max_in (common mine theirs') 0) as [E|H]; [|assumption].
      assert (Hc : In c (common mine theirs')) by (rewrite Ec; left; reflexivity).
      pose proof (G2 c Hc) as Hle. rewrite E in *.
      apply common_In in Hc as Hc'. destruct Hc' as [_ Hcm].
      rewrite Forall_forall in Hpos. pose proof (Hpos c Hcm). assert (c = 0) by lia. subst c. assumption. }
    apply common_In in Hin as [H1 H2].
    split; [assumption|split; [assumption|]].
    intros r' Hm Ht. apply G2. apply common_In. auto.
Qed.

(* the lists read from the source are what the property states *)
Lemma revisions_facts :
  revisions_default = [0; 1] /\ revisions_fc_disabled = [0].
Proof. split; reflexivity. Qed.

Lemma supported_nonneg d : Forall (fun r => 0 <= r) (supported d).
Proof. destruct d; cbn; repeat constructor; lia. Qed.

(* configuration matrix: flow control is used exactly when both ends advertise negotiation and
   neither disabled it; the settings exchange happens exactly when both advertise; two real
   endpoints never fail to agree *)
Theorem mode_matrix c_adv s_adv c_dis s_dis :
  let m := tunnel_mode c_adv s_adv c_dis s_dis in
  flow_control_used m = (c_adv && s_adv && negb c_dis && negb s_dis)%bool /\
  (match m with ModeRev _ se => se = (c_adv && s_adv)%bool | ModeFail => False end) /\
  (match m with ModeRev r _ => r = if (c_adv && s_adv && negb c_dis && negb s_dis)%bool then 1 else 0 | ModeFail => False end).
Proof. destruct c_adv, s_adv, c_dis, s_dis; vm_compute; repeat split; reflexivity. Qed.

(* a settings message listing no revisions means revision zero *)
Theorem empty_means_zero mine : In 0 mine -> Forall (fun r => 0 <= r) mine -> choose_rev mine [] = Some 0.
Proof.
  intros H0 Hp. unfold choose_rev. cbn [fold_left]. unfold choose_step. cbn [fst].
  replace (in_slice 0 mine) with true by (symmetry; apply in_slice_In; assumption).
  reflexivity.
Qed.

(* no common revision: failure, never silent success *)
Theorem no_common_fails mine theirs : theirs <> [] ->
  (forall r, In r mine -> In r theirs -> False) -> choose_rev mine theirs = None.
Proof.
  intros Hne Hd. unfold choose_rev. destruct theirs as [|t ts]; [congruence|].
  assert (H : forall l acc, (forall r, In r l -> In r mine -> False) ->
             fold_left (choose_step mine) l acc = acc).
  { induction l as [|x l IH]; intros acc Hl; [reflexivity|]. cbn [fold_left].
    unfold choose_step at 2. destruct (in_slice x mine) eqn:E.
    - apply in_slice_In in E. exfalso. apply (Hl x); [left; reflexivity|assumption].
    - apply IH. intros r Hr. apply Hl. right; assumption. }
  rewrite H; [reflexivity|]. intros r Hr Hm. apply (Hd r Hm Hr).
Qed.
