(* Progress for the composed per-RPC system of Rpc.v, in safety form: in every reachable state the
   work that is still owed (the close frame of a stream whose handler returned or that was refused;
   the caller's terminal result once its context has ended) has an enabled step of the endpoint's own
   goroutines - no step of the peer and no frame delivery is needed - and that internal activity
   terminates (a measure strictly decreases).  Scheduler fairness is assumed, not modelled. *)
From Coq Require Import List Bool Arith Lia.
From RecordUpdate Require Import RecordUpdate.
From GT Require Import Rpc RpcInv RpcProofs RpcSystem.
Import ListNotations.

Definition v_enabled (strict : bool) (v : sv) (l : vlbl) : bool :=
  match vstep strict v l with Some _ => true | None => false end.
Definition k_enabled (k : ck) (l : klbl) : bool :=
  match kstep k l with Some _ => true | None => false end.

(* ---- server ---- *)
Definition close_emitted (v : sv) : bool := gs_eqb (v_g v) GsClosed || gs_eqb (v_g v) GsClosedWu.
Definition P_v_progress (strict : bool) (v : sv) : bool :=
  if (hstate_eqb (v_h v) HRet || hstate_eqb (v_h v) HRej) && negb (close_emitted v)
  then v_enabled strict v SFinH || v_enabled strict v SCloseGo || v_enabled strict v SRejGo
  else true.
(* a cancel frame / refused frame taken by the serve loop: the loop's finisher gets to the close as well *)
Definition P_v_loopfin (strict : bool) (v : sv) : bool :=
  if negb (sstage_eqb (v_lf v) S0) then v_enabled strict v SFinL else true.
Lemma vP_progress strict : forall v, vinv strict v = true -> P_v_progress strict v && P_v_loopfin strict v = true.
Proof. apply vinv_implies. destruct strict; vm_compute; reflexivity. Qed.

Definition w_sstage (x : sstage) : nat := match x with S0 => 0 | SWr => 4 | SHalfSt => 5 | SRem => 6 end.
Definition w_cgo (x : cgo) : nat := match x with CGHdr => 2 | CGClose => 1 | _ => 0 end.
Definition v_measure (v : sv) : nat :=
  w_sstage (v_lf v) + w_sstage (v_hf v) + w_cgo (v_cg v) + (if v_rej_go v then 1 else 0) + (if v_wu v then 1 else 0).
Definition v_internal : list vlbl := [SFinL; SFinH; SCloseGo; SRejGo; SWuSend].
Definition v_term_check (strict : bool) (v : sv) : bool :=
  forallb (fun l => match vstep strict v l with
                    | Some (v', _) => Nat.ltb (v_measure v') (v_measure v)
                    | None => true end) v_internal.
Lemma v_term_all : forall strict, forall_sv (fun v => if negb (vinv0 strict v) then true else v_term_check strict v) = true.
Proof. intros []; vm_compute; reflexivity. Qed.

(* ---- client ---- *)
Definition P_k_progress (k : ck) : bool :=
  (* the context has ended and the caller has not been given the terminal result yet *)
  (if k_new k && k_ctx k && negb (k_sig k)
   then k_enabled k CWatch || k_enabled k CRemove || k_enabled k CPublish else true) &&
  (* the winner of the compare-and-swap always gets to the end of finishStream *)
  (if negb (is_none (k_done k)) && negb (k_sig k) then k_enabled k CRemove || k_enabled k CPublish else true) &&
  (if k_cancel_go k then k_enabled k CGoCancel else true).
Lemma kP_progress : forall k, kinv k = true -> P_k_progress k = true.
Proof. apply kinv_implies. vm_compute. reflexivity. Qed.

Definition w_cstage (x : cstage) : nat := match x with F0 => 0 | FWon => 6 | FRemoved => 4 | FPub => 0 end.
Definition k_measure (k : ck) : nat :=
  w_cstage (k_stage k) + (if k_watched k then 0 else 8) + (if k_cancel_go k then 1 else 0) + (if k_wu k then 1 else 0).
Definition k_internal : list klbl := [CWatch; CRemove; CPublish; CGoCancel; CWuSend].
Definition k_term_check (k : ck) : bool :=
  forallb (fun l => match kstep k l with
                    | Some (k', _) => Nat.ltb (k_measure k') (k_measure k)
                    | None => true end) k_internal.
Lemma k_term_all : forall_ck (fun k => if negb (kinv k) then true else k_term_check k) = true.
Proof. vm_compute. reflexivity. Qed.

(* ---- on runs of the composed system ---- *)
Section Progress.
Variable strict : bool.
Variables (ls : list rlbl) (s : rst).
Hypothesis Hrun : rrun strict r_init ls = Some s.

(* C13 / C14: as long as the close frame of a finished or refused stream is not on the wire, one of the
   server's own goroutines can take a step towards it *)
Theorem rpc_close_frame_always_reachable :
  (v_h (r_v s) = HRet \/ v_h (r_v s) = HRej) -> count_close (h_s s) = 0 ->
  exists l, In l [SFinH; SCloseGo; SRejGo] /\ exists s', rstep strict s (LV l) = Some s'.
Proof.
  intros Hh Hc. destruct (rpc_run_inv _ _ _ Hrun) as [_ Hv _ Hgs _ _].
  pose proof (vP_progress _ _ Hv) as H. apply andb_true_iff in H. destruct H as [H _].
  unfold P_v_progress, close_emitted in H.
  assert (Hne : gs_eqb (v_g (r_v s)) GsClosed || gs_eqb (v_g (r_v s)) GsClosedWu = false).
  { pose proof (gs_close_count (h_s s)) as Hcc. rewrite <- Hgs in Hcc.
    destruct (v_g (r_v s)); cbn; auto; lia. }
  rewrite Hne in H.
  assert (Hb : hstate_eqb (v_h (r_v s)) HRet || hstate_eqb (v_h (r_v s)) HRej = true).
  { destruct Hh as [Hh|Hh]; rewrite Hh; reflexivity. }
  rewrite Hb in H. cbn [andb negb] in H.
  unfold v_enabled in H.
  apply orb_true_iff in H. destruct H as [H|H]; [apply orb_true_iff in H; destruct H as [H|H]|].
  - exists SFinH. split; [cbn; auto|]. cbn [rstep]. destruct (vstep strict (r_v s) SFinH) as [[v' em]|]; [eauto|discriminate].
  - exists SCloseGo. split; [cbn; auto|]. cbn [rstep]. destruct (vstep strict (r_v s) SCloseGo) as [[v' em]|]; [eauto|discriminate].
  - exists SRejGo. split; [cbn; auto|]. cbn [rstep]. destruct (vstep strict (r_v s) SRejGo) as [[v' em]|]; [eauto|discriminate].
Qed.

(* C07: once the RPC's context has ended, the caller's terminal result is reached by steps of the
   client's own goroutines alone - without waiting for the peer *)
Theorem rpc_cancel_never_waits_for_the_peer :
  k_new (r_k s) = true -> k_ctx (r_k s) = true -> k_sig (r_k s) = false ->
  exists l, In l [CWatch; CRemove; CPublish] /\ exists s', rstep strict s (LK l) = Some s'.
Proof.
  intros Hn Hc Hs. destruct (rpc_run_inv _ _ _ Hrun) as [Hk _ _ _ _ _].
  pose proof (kP_progress _ Hk) as H. unfold P_k_progress in H.
  apply andb_true_iff in H. destruct H as [H _]. apply andb_true_iff in H. destruct H as [H _].
  rewrite Hn, Hc, Hs in H. cbn [andb negb] in H. unfold k_enabled in H.
  apply orb_true_iff in H. destruct H as [H|H]; [apply orb_true_iff in H; destruct H as [H|H]|].
  - exists CWatch. split; [cbn; auto|]. cbn [rstep]. destruct (kstep (r_k s) CWatch) as [[k' em]|]; [eauto|discriminate].
  - exists CRemove. split; [cbn; auto|]. cbn [rstep]. destruct (kstep (r_k s) CRemove) as [[k' em]|]; [eauto|discriminate].
  - exists CPublish. split; [cbn; auto|]. cbn [rstep]. destruct (kstep (r_k s) CPublish) as [[k' em]|]; [eauto|discriminate].
Qed.
End Progress.

(* the internal activity of either endpoint terminates: every step of a spawned goroutine or of a
   finisher strictly decreases a measure *)
Theorem rpc_server_internal_steps_terminate strict v l v' em :
  vinv0 strict v = true -> In l v_internal -> vstep strict v l = Some (v', em) -> v_measure v' < v_measure v.
Proof.
  intros Hv Hin Hs. pose proof (forall_sv_ok _ (v_term_all strict) v) as H. cbv beta in H. rewrite Hv in H. cbn [negb] in H.
  unfold v_term_check in H.
  pose proof (proj1 (forallb_forall _ _) H l Hin) as H1. cbv beta in H1. rewrite Hs in H1.
  apply Nat.ltb_lt. exact H1.
Qed.
Theorem rpc_client_internal_steps_terminate k l k' em :
  kinv k = true -> In l k_internal -> kstep k l = Some (k', em) -> k_measure k' < k_measure k.
Proof.
  intros Hk Hin Hs. pose proof (forall_ck_ok _ k_term_all k) as H. cbv beta in H. rewrite Hk in H. cbn [negb] in H.
  unfold k_term_check in H.
  pose proof (proj1 (forallb_forall _ _) H l Hin) as H1. cbv beta in H1. rewrite Hs in H1.
  apply Nat.ltb_lt. exact H1.
Qed.

(* ---- the handler's context ---- *)
Definition cancel_check (strict : bool) (v : sv) : bool :=
  if negb (vinv strict v) then true else
  if v_tab v then
    forallb (fun m => match vstep strict v (SLoop FCancel m) with Some (v', _) => v_ctx v' | None => true end) all_lmode
  else true.
Lemma cancel_all : forall strict, forall_sv (cancel_check strict) = true.
Proof. intros []; vm_compute; reflexivity. Qed.

(* C07: once the tunnel has delivered the cancel notice (the serve loop takes the cancel frame of a
   stream it still has), the handler's context is cancelled *)
Theorem rpc_cancel_notice_cancels_the_handler strict v m v' em :
  vinv strict v = true -> v_tab v = true -> vstep strict v (SLoop FCancel m) = Some (v', em) -> v_ctx v' = true.
Proof.
  intros Hv Ht Hs. pose proof (forall_sv_ok _ (cancel_all strict) v) as H. unfold cancel_check in H.
  rewrite Hv, Ht in H. cbn [negb] in H.
  pose proof (proj1 (forallb_forall _ _) H m (all_lmode_ok m)) as H1. cbv beta in H1. rewrite Hs in H1. exact H1.
Qed.

Definition P_v_ctx (v : sv) : bool := Bool.eqb (v_ctx v) (negb (is_none (v_fin v))).
Lemma vP_ctx strict : forall v, vinv strict v = true -> P_v_ctx v = true.
Proof. apply vinv_implies. destruct strict; vm_compute; reflexivity. Qed.

(* ... and never otherwise: in every reachable state the handler's context is cancelled exactly when
   the stream has been finished (handler return, cancel notice, a violation) *)
Theorem rpc_handler_context_cancelled_iff_finished strict ls s :
  rrun strict r_init ls = Some s -> (v_ctx (r_v s) = true <-> v_fin (r_v s) <> None).
Proof.
  intros Hrun. destruct (rpc_run_inv _ _ _ Hrun) as [_ Hv _ _ _ _].
  pose proof (vP_ctx _ _ Hv) as H. unfold P_v_ctx in H. apply eqb_prop in H. rewrite H.
  destruct (v_fin (r_v s)); cbn; split; intros; try congruence; discriminate.
Qed.
