(* Progress for the composed per-RPC system of Rpc.v, in safety form: in every reachable state the
   work that is still owed (the close frame of a stream whose handler returned or that was refused;
   the caller's terminal result once its context has ended) has an enabled step of the endpoint's own
   goroutines - no step of the peer and no frame delivery is needed - and that internal activity
   terminates (a measure strictly decreases).  Scheduler fairness is assumed, not modelled. *)
From Coq Require Import List Bool Arith Lia.
From RecordUpdate Require Import RecordUpdate.
From GT Require Import Rpc RpcInv RpcProofs RpcSystem.
From GT Require Export RpcCheckV5.
Import ListNotations.


(* ---- server ---- *)
(* a cancel frame / refused frame taken by the serve loop: the loop's finisher gets to the close as well *)


(* ---- client ---- *)


(* ---- on runs of the composed system ---- *)
Section Progress.
Variable strict : bool.
Variables (ls : list rlbl) (s : rst).
Hypothesis Hrun : rrun strict r_init ls = Some s.

(* C13 / C14: as long as the close frame of a finished or refused stream is not on the wire, one of the
   server's own goroutines can take a step towards it *)
Theorem rpc_close_frame_always_reachable :
  (v_h (r_v s) = HRet \/ v_h (r_v s) = HRej) -> count_close (h_s s) = 0 ->
  exists l, In l [SFinH; SCloseGo; SRejGo] /\ exists s', rstep strict s (LV l) = Some s'.
Proof.
  intros Hh Hc. destruct (rpc_run_inv _ _ _ Hrun) as [_ Hv _ Hgs _ _].
  pose proof (vP_progress _ _ Hv) as H. apply andb_true_iff in H. destruct H as [H _].
  unfold P_v_progress, close_emitted in H.
  assert (Hne : gs_eqb (v_g (r_v s)) GsClosed || gs_eqb (v_g (r_v s)) GsClosedWu = false).
  { pose proof (gs_close_count (h_s s)) as Hcc. rewrite <- Hgs in Hcc.
    destruct (v_g (r_v s)); cbn; auto; lia. }
  rewrite Hne in H.
  assert (Hb : hstate_eqb (v_h (r_v s)) HRet || hstate_eqb (v_h (r_v s)) HRej = true).
  { destruct Hh as [Hh|Hh]; rewrite Hh; reflexivity. }
  rewrite Hb in H. cbn [andb negb] in H.
  unfold v_enabled in H.
  apply orb_true_iff in H. destruct H as [H|H]; [apply orb_true_iff in H; destruct H as [H|H]|].
  - exists SFinH. split; [cbn; auto|]. cbn [rstep]. destruct (vstep strict (r_v s) SFinH) as [[v' em]|]; [eauto|discriminate].
  - exists SCloseGo. split; [cbn; auto|]. cbn [rstep]. destruct (vstep strict (r_v s) SCloseGo) as [[v' em]|]; [eauto|discriminate].
  - exists SRejGo. split; [cbn; auto|]. cbn [rstep]. destruct (vstep strict (r_v s) SRejGo) as [[v' em]|]; [eauto|discriminate].
Qed.

(* C07: once the RPC's context has ended, the caller's terminal result is reached by steps of the
   client's own goroutines alone - without waiting for the peer *)
Theorem rpc_cancel_never_waits_for_the_peer :
  k_new (r_k s) = true -> k_ctx (r_k s) = true -> k_sig (r_k s) = false ->
  exists l, In l [CWatch; CRemove; CPublish] /\ exists s', rstep strict s (LK l) = Some s'.
Proof.
  intros Hn Hc Hs. destruct (rpc_run_inv _ _ _ Hrun) as [Hk _ _ _ _ _].
  pose proof (kP_progress _ Hk) as H. unfold P_k_progress in H.
  apply andb_true_iff in H. destruct H as [H _]. apply andb_true_iff in H. destruct H as [H _].
  rewrite Hn, Hc, Hs in H. cbn [andb negb] in H. unfold k_enabled in H.
  apply orb_true_iff in H. destruct H as [H|H]; [apply orb_true_iff in H; destruct H as [H|H]|].
  - exists CWatch. split; [cbn; auto|]. cbn [rstep]. destruct (kstep (r_k s) CWatch) as [[k' em]|]; [eauto|discriminate].
  - exists CRemove. split; [cbn; auto|]. cbn [rstep]. destruct (kstep (r_k s) CRemove) as [[k' em]|]; [eauto|discriminate].
  - exists CPublish. split; [cbn; auto|]. cbn [rstep]. destruct (kstep (r_k s) CPublish) as [[k' em]|]; [eauto|discriminate].
Qed.
End Progress.

(* the internal activity of either endpoint terminates: every step of a spawned goroutine or of a
   finisher strictly decreases a measure *)
Theorem rpc_server_internal_steps_terminate strict v l v' em :
  vinv0 strict v = true -> In l v_internal -> vstep strict v l = Some (v', em) -> v_measure v' < v_measure v.
Proof.
  intros Hv Hin Hs. pose proof (forall_sv_ok _ (v_term_all strict) v) as H. cbv beta in H. rewrite Hv in H. cbn [negb] in H.
  unfold v_term_check in H.
  pose proof (proj1 (forallb_forall _ _) H l Hin) as H1. cbv beta in H1. rewrite Hs in H1.
  apply Nat.ltb_lt. exact H1.
Qed.
Theorem rpc_client_internal_steps_terminate k l k' em :
  kinv k = true -> In l k_internal -> kstep k l = Some (k', em) -> k_measure k' < k_measure k.
Proof.
  intros Hk Hin Hs. pose proof (forall_ck_ok _ k_term_all k) as H. cbv beta in H. rewrite Hk in H. cbn [negb] in H.
  unfold k_term_check in H.
  pose proof (proj1 (forallb_forall _ _) H l Hin) as H1. cbv beta in H1. rewrite Hs in H1.
  apply Nat.ltb_lt. exact H1.
Qed.

(* ---- the handler's context ---- *)

(* C07: once the tunnel has delivered the cancel notice (the serve loop takes the cancel frame of a
   stream it still has), the handler's context is cancelled *)
Theorem rpc_cancel_notice_cancels_the_handler strict v m v' em :
  vinv strict v = true -> v_tab v = true -> vstep strict v (SLoop FCancel m) = Some (v', em) -> v_ctx v' = true.
Proof.
  intros Hv Ht Hs. pose proof (forall_sv_ok _ (cancel_all strict) v) as H. unfold cancel_check in H.
  rewrite Hv, Ht in H. cbn [negb] in H.
  pose proof (proj1 (forallb_forall _ _) H m (all_lmode_ok m)) as H1. cbv beta in H1. rewrite Hs in H1. exact H1.
Qed.


(* ... and never otherwise: in every reachable state the handler's context is cancelled exactly when
   the stream has been finished (handler return, cancel notice, a violation) *)
Theorem rpc_handler_context_cancelled_iff_finished strict ls s :
  rrun strict r_init ls = Some s -> (v_ctx (r_v s) = true <-> v_fin (r_v s) <> None).
Proof.
  intros Hrun. destruct (rpc_run_inv _ _ _ Hrun) as [_ Hv _ _ _ _].
  pose proof (vP_ctx _ _ Hv) as H. unfold P_v_ctx in H. apply eqb_prop in H. rewrite H.
  destruct (v_fin (r_v s)); cbn; split; intros; try congruence; discriminate.
Qed.
