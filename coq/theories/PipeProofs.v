(* System-level theorems for one stream direction (Pipe.v), for every interleaving of
   application sends and reads, frame delivery and credit delivery, every message sequence,
   every chunk limit and window:
     - what the reader has obtained is always a prefix of what was submitted, byte for byte,
       and it is everything once the pipeline has drained (C01);
     - the receiver is never overrun and never holds more than its window; the sender never
       has more than its window un-credited; every frame carries at most cmax bytes (C06);
     - credit is conserved exactly; a sender that is blocked in a state where nothing internal
       can move faces a full window of unread data at the peer, and once everything has been
       read and credited its whole window is back (C05). *)
From Coq Require Import List Arith NArith Lia Bool ZifyN ZifyNat ZifyBool.
From GT Require Import Frames FramesProofs Pipe.
Import ListNotations.
Set Implicit Arguments.

Section P.
Variable A : Type.
Variable cmax W : nat.
Notation pst := (pst A).
Notation pstep := (@pstep A cmax).
Notation prun := (@prun A cmax).
Notation p_init := (p_init A W).

Lemma rrun_snoc (s : rstate A) fs f :
  rrun s (fs ++ [f]) = let '(st, outs) := rrun s fs in let '(st', o) := rstep st f in (st', outs ++ [o]).
Proof.
  rewrite rrun_app. destruct (rrun s fs) as [st outs]. cbn [rrun].
  destruct (rstep st f) as [st' o]. reflexivity.
Qed.

Lemma bytes_app (a b : list (dframe A)) : bytes (a ++ b) = bytes a + bytes b.
Proof. unfold bytes. rewrite map_app. apply list_sum_app. Qed.
Lemma bytes_cons f (l : list (dframe A)) : bytes (f :: l) = flen f + bytes l.
Proof. reflexivity. Qed.
Lemma bytes_one (f : dframe A) : bytes [f] = flen f.
Proof. unfold bytes. cbn. lia. Qed.

Fixpoint sum (l : list nat) : nat := match l with [] => 0 | x :: r => x + sum r end.
Lemma sum_app a b : sum (a ++ b) = sum a + sum b.
Proof. induction a; cbn; lia. Qed.

(* sender / reassembly relation over everything emitted so far *)
Definition SInv (sent : list (dframe A)) (submitted : list (list A)) (cur : option (list A * list A * bool)) : Prop :=
  exists comp, submitted = comp ++ (match cur with Some (m, _, _) => [m] | None => [] end) /\
  gots (snd (rrun RIdle sent)) = comp /\
  match cur with
  | None => fst (rrun RIdle sent) = RIdle
  | Some (m, rest, true) => fst (rrun RIdle sent) = RIdle /\ rest = m
  | Some (m, rest, false) => exists b, fst (rrun RIdle sent) = RPart (lenN m) b /\ m = b ++ rest /\ rest <> []
  end.

Record PInv (s : pst) : Prop := {
  pi_fifo : p_sent s = p_consumed s ++ p_rq s ++ p_wire s;
  pi_reader : fst (rrun RIdle (p_consumed s)) = p_reader s /\ gots (snd (rrun RIdle (p_consumed s))) = p_delivered s;
  pi_sender : SInv (p_sent s) (p_submitted s) (p_cur s);
  pi_ledger : p_swin s + bytes (p_wire s) + bytes (p_rq s) + sum (p_credits s) = W;
  pi_rwin : p_rwin s + bytes (p_rq s) = W;
  pi_noover : p_overrun s = false;
  pi_chunks : Forall (fun f => flen f <= cmax) (p_sent s)
}.

Lemma pinv_init : PInv p_init.
Proof.
  constructor; unfold bytes; cbn [p_init Pipe.p_init p_sent p_consumed p_rq p_wire p_reader p_delivered p_submitted p_cur
                                    p_swin p_credits p_rwin p_overrun app map list_sum sum rrun fst snd gots].
  - reflexivity.
  - split; reflexivity.
  - exists []. cbn. auto.
  - cbn. lia.
  - cbn. lia.
  - reflexivity.
  - constructor.
Qed.

Lemma chunk_sinv sent submitted m rest first swin :
  SInv sent submitted (Some (m, rest, first)) ->
  let c := Nat.min swin (Nat.min (length rest) cmax) in
  let f := if first then Env (lenN m) (firstn c rest) else More (firstn c rest) in
  SInv (sent ++ [f]) submitted (if Nat.eqb c (length rest) then None else Some (m, skipn c rest, false)).
Proof.
  intros (comp & Hsub & Hg & Hst) c f.
  assert (Hc : c <= length rest) by (unfold c; lia).
  assert (Hd : length (firstn c rest) = c) by (rewrite firstn_length; lia).
  unfold SInv. rewrite rrun_snoc.
  destruct (rrun RIdle sent) as [st outs] eqn:Er. cbn [fst snd] in *.
  destruct first.
  - destruct Hst as [Hst ->]. subst st. unfold f. cbn [rstep]. unfold fill, lenN. rewrite Hd.
    replace (N.of_nat (length m) <? N.of_nat c)%N with false by lia.
    destruct (Nat.eqb_spec c (length m)) as [E|E].
    + replace (N.of_nat c =? N.of_nat (length m))%N with true by lia.
      cbn [fst snd]. exists (comp ++ [m]). rewrite E, firstn_all, gots_app, Hg. cbn [gots].
      split; [rewrite Hsub; now rewrite app_nil_r | split; reflexivity].
    + replace (N.of_nat c =? N.of_nat (length m))%N with false by lia.
      cbn [fst snd]. exists comp. rewrite gots_app, Hg. cbn [gots]. rewrite app_nil_r.
      split; [assumption|split; [reflexivity|]]. exists (firstn c m). split; [reflexivity|split].
      * symmetry. apply firstn_skipn.
      * intro Hn. apply (f_equal (@length A)) in Hn. rewrite skipn_length in Hn. cbn in Hn. lia.
  - destruct Hst as (b & Hst & Hm & Hne). subst st. unfold f. cbn [rstep]. unfold fill, lenN.
    rewrite app_length, Hd. assert (Hlen : length m = length b + length rest) by (rewrite Hm, app_length; reflexivity).
    replace (N.of_nat (length m) <? N.of_nat (length b + c))%N with false by lia.
    destruct (Nat.eqb_spec c (length rest)) as [E|E].
    + replace (N.of_nat (length b + c) =? N.of_nat (length m))%N with true by lia.
      cbn [fst snd]. exists (comp ++ [m]). rewrite E, firstn_all, gots_app, Hg. cbn [gots]. rewrite <- Hm.
      split; [rewrite Hsub; now rewrite app_nil_r | split; reflexivity].
    + replace (N.of_nat (length b + c) =? N.of_nat (length m))%N with false by lia.
      cbn [fst snd]. exists comp. rewrite gots_app, Hg. cbn [gots]. rewrite app_nil_r.
      split; [assumption|split; [reflexivity|]]. exists (b ++ firstn c rest). split; [reflexivity|split].
      * rewrite <- app_assoc, firstn_skipn. assumption.
      * intro Hn. apply (f_equal (@length A)) in Hn. rewrite skipn_length in Hn. cbn in Hn. lia.
Qed.

Lemma pstep_inv s l s' : PInv s -> pstep s l = Some s' -> PInv s'.
Proof.
  intros I H. destruct I. destruct l; cbn [Pipe.pstep] in H.
  - (* submit *)
    destruct (p_cur s) eqn:Ec; [discriminate|]. inversion H; subst; clear H.
    constructor; cbn [p_sent p_consumed p_rq p_wire p_reader p_delivered p_submitted p_cur p_swin p_credits p_rwin p_overrun]; try assumption.
    unfold SInv in pi_sender0.
    destruct pi_sender0 as (comp & Hsub & Hg & Hst). exists comp.
    rewrite app_nil_r in Hsub. split; [now rewrite Hsub|split; [assumption|split; [assumption|reflexivity]]].
  - (* chunk *)
    destruct (p_cur s) as [[[m0 rest] first]|] eqn:Ec; [|discriminate].
    destruct (Nat.eqb_spec (p_swin s) 0) as [|Hw]; [discriminate|].
    inversion H; subst; clear H.
    set (c := Nat.min (p_swin s) (Nat.min (length rest) cmax)) in *.
    set (f := if first then Env (lenN m0) (firstn c rest) else More (firstn c rest)) in *.
    assert (Hfl : flen f = c) by (unfold f; destruct first; cbn [flen]; rewrite firstn_length; unfold c; lia).
    constructor; cbn [p_sent p_consumed p_rq p_wire p_reader p_delivered p_submitted p_cur p_swin p_credits p_rwin p_overrun]; try assumption.
    + rewrite pi_fifo0, <- !app_assoc. reflexivity.
    + apply (chunk_sinv (p_swin s) pi_sender0).
    + rewrite bytes_app, bytes_one, Hfl. unfold c. lia.
    + apply Forall_app. split; [assumption|]. constructor; [|constructor]. rewrite Hfl. unfold c. lia.
  - (* deliver *)
    destruct (p_wire s) as [|f rest] eqn:Ew; [discriminate|].
    rewrite bytes_cons in pi_ledger0.
    destruct (Nat.ltb_spec (p_rwin s) (flen f)) as [Hlt|Hge].
    + exfalso. lia.
    + inversion H; subst; clear H.
      constructor; cbn [p_sent p_consumed p_rq p_wire p_reader p_delivered p_submitted p_cur p_swin p_credits p_rwin p_overrun]; try assumption.
      * rewrite pi_fifo0, <- !app_assoc. reflexivity.
      * rewrite bytes_app, bytes_one. lia.
      * rewrite bytes_app, bytes_one. lia.
  - (* dequeue *)
    destruct (p_rq s) as [|f rest] eqn:Eq; [discriminate|].
    destruct (rstep (p_reader s) f) as [r' o] eqn:Es. inversion H; subst; clear H.
    rewrite bytes_cons in *.
    constructor; cbn [p_sent p_consumed p_rq p_wire p_reader p_delivered p_submitted p_cur p_swin p_credits p_rwin p_overrun]; try assumption.
    + rewrite pi_fifo0, <- !app_assoc. reflexivity.
    + rewrite rrun_snoc. destruct pi_reader0 as [Hr Hd].
      destruct (rrun RIdle (p_consumed s)) as [st outs]. cbn [fst snd] in *. subst st. rewrite Es. cbn [fst snd].
      split; [reflexivity|]. rewrite gots_app, Hd. destruct o; cbn [gots]; rewrite ?app_nil_r; reflexivity.
    + destruct (Nat.eqb_spec (flen f) 0); [lia|]. rewrite sum_app. cbn [sum]. lia.
    + lia.
  - (* credit *)
    destruct (p_credits s) as [|n rest] eqn:Ecr; [discriminate|]. inversion H; subst; clear H.
    cbn [sum] in pi_ledger0.
    constructor; cbn [p_sent p_consumed p_rq p_wire p_reader p_delivered p_submitted p_cur p_swin p_credits p_rwin p_overrun]; try assumption.
    lia.
Qed.

Lemma prun_inv ls : forall s s', PInv s -> prun s ls = Some s' -> PInv s'.
Proof.
  induction ls as [|l r IH]; intros s s' I H; cbn [Pipe.prun] in H.
  - inversion H; subst; assumption.
  - destruct (pstep s l) as [s1|] eqn:E; [|discriminate]. eapply IH; [eapply pstep_inv; eassumption|eassumption].
Qed.

(* delivered is a prefix of completed, completed a prefix of submitted *)
Lemma inv_prefix s : PInv s -> prefix (p_delivered s) (p_submitted s).
Proof.
  intros [Hf [Hr Hd] (comp & Hsub & Hg & _) _ _ _ _].
  assert (Hp : prefix (p_consumed s) (p_sent s)) by (exists (p_rq s ++ p_wire s); assumption).
  destruct Hp as [rest Hrest]. rewrite Hrest, rrun_app in Hg.
  destruct (rrun RIdle (p_consumed s)) as [st outs]. destruct (rrun st rest) as [st2 outs2].
  cbn [fst snd] in *. rewrite gots_app in Hg. rewrite Hd in Hg.
  exists (gots outs2 ++ match p_cur s with Some (m, _, _) => [m] | None => [] end).
  rewrite Hsub, <- Hg, <- app_assoc. reflexivity.
Qed.

Theorem system_delivered_prefix ls s : prun p_init ls = Some s -> prefix (p_delivered s) (p_submitted s).
Proof. intro H. apply inv_prefix. exact (prun_inv ls pinv_init H). Qed.

Theorem system_complete_when_drained ls s : prun p_init ls = Some s ->
  p_cur s = None -> p_wire s = [] -> p_rq s = [] -> p_delivered s = p_submitted s.
Proof.
  intros H Hc Hw Hq. destruct (prun_inv ls pinv_init H) as [Hf [Hr Hd] (comp & Hsub & Hg & _) _ _ _ _].
  rewrite Hc in Hsub. rewrite Hw, Hq, !app_nil_r in Hf. rewrite Hf, Hd in Hg. rewrite app_nil_r in Hsub. congruence.
Qed.

Theorem system_window_discipline ls s : prun p_init ls = Some s ->
  p_overrun s = false /\ bytes (p_rq s) <= W /\ p_swin s <= W /\
  p_swin s + bytes (p_wire s) + bytes (p_rq s) + sum (p_credits s) = W /\
  Forall (fun f => flen f <= cmax) (p_sent s).
Proof.
  intro H. destruct (prun_inv ls pinv_init H). repeat split; try assumption; lia.
Qed.

(* no stranding: if the sender is parked on its window and nothing internal can move, the
   receiving application is sitting on a full window of unread data; and once it has read
   everything and the credit has come back the whole window is available again *)
Theorem system_blocked_means_full_window_unread ls s : prun p_init ls = Some s ->
  p_cur s <> None -> internal_enabled cmax s = false -> bytes (p_rq s) = W.
Proof.
  intros H Hc Hq. destruct (prun_inv ls pinv_init H). unfold internal_enabled in Hq.
  destruct (pstep s PChunk) eqn:E1; [discriminate|].
  destruct (pstep s PDeliver) eqn:E2; [discriminate|].
  destruct (pstep s PCredit) eqn:E3; [discriminate|].
  cbn [Pipe.pstep] in E1, E2, E3.
  destruct (p_cur s) as [[[m0 rest] first]|]; [|congruence].
  destruct (Nat.eqb_spec (p_swin s) 0) as [Hz|]; [|discriminate].
  destruct (p_wire s) as [|f r]; [|destruct (Nat.ltb (p_rwin s) (flen f)); discriminate].
  destruct (p_credits s) as [|n r]; [|discriminate].
  unfold bytes in *. cbn in *. lia.
Qed.

Theorem system_window_restored ls s : prun p_init ls = Some s ->
  p_wire s = [] -> p_rq s = [] -> p_credits s = [] -> p_swin s = W.
Proof.
  intros H Hw Hq Hcr. destruct (prun_inv ls pinv_init H). rewrite Hw, Hq, Hcr in *.
  unfold bytes in *. cbn in *. lia.
Qed.

End P.

(* non-vacuity: a concrete run (chunk limit 2, window 3) in which the sender does get parked on
   its window with the peer holding a full window unread, and one that drains completely *)
Example blocked_state_is_reachable :
  exists s, prun 2 (p_init nat 3) [PSubmit [1; 2; 3; 4; 5]; PChunk; PChunk; PDeliver; PDeliver] = Some s /\
            p_cur s <> None /\ internal_enabled 2 s = false /\ bytes (p_rq s) = 3.
Proof. eexists. split; [vm_compute; reflexivity|]. repeat split; try discriminate; reflexivity. Qed.

Example drained_run_delivers_everything :
  exists s, prun 2 (p_init nat 3)
    [PSubmit [1; 2; 3; 4; 5]; PChunk; PChunk; PDeliver; PDeliver; PDequeue; PDequeue; PCredit; PCredit;
     PChunk; PDeliver; PDequeue; PSubmit []; PChunk; PDeliver; PDequeue; PCredit] = Some s /\
    p_delivered s = [[1; 2; 3; 4; 5]; []] /\ p_swin s = 3.
Proof. eexists. split; [vm_compute; reflexivity|]. split; reflexivity. Qed.

(* ---------- the emitted frame stream is always well formed (C13 at system level) ---------- *)
Section WF.
Variable A : Type.
Variable cmax W : nat.

Definition is_bad (o : rout A) : bool := match o with Bad _ => true | _ => false end.

Lemma rstep_bad_failed (st : rstate A) f st' o : rstep st f = (st', o) -> is_bad o = true -> st' = RFailed.
Proof.
  destruct st as [|sz b|], f as [sz' d|d]; cbn [rstep]; unfold fill; intros H Hb;
    repeat match type of H with context [if ?c then _ else _] => destruct c end;
    inversion H; subst; try reflexivity; discriminate.
Qed.

Lemma rrun_not_failed_no_bad (fs : list (dframe A)) : forall st,
  fst (rrun st fs) <> RFailed -> existsb is_bad (snd (rrun st fs)) = false.
Proof.
  induction fs as [|f fs IH]; intros st H; [reflexivity|].
  cbn [rrun] in *. destruct (rstep st f) as [st1 o] eqn:E.
  specialize (IH st1). destruct (rrun st1 fs) as [st2 os] eqn:E2. cbn [fst snd existsb] in *.
  rewrite (IH H), orb_false_r. destruct (is_bad o) eqn:Eb; [|reflexivity].
  exfalso. pose proof (rstep_bad_failed st f E Eb) as ->.
  pose proof (rrun_failed fs) as [Hf _]. rewrite E2 in Hf. cbn [fst] in Hf. congruence.
Qed.

(* under every interleaving, what the sender has put on the wire so far is a well-formed
   message stream: a conforming reader never hits a framing violation on it *)
Theorem system_emitted_stream_wellformed ls (s : pst A) : prun cmax (p_init A W) ls = Some s ->
  fst (rrun RIdle (p_sent s)) <> RFailed /\ existsb is_bad (snd (rrun RIdle (p_sent s))) = false.
Proof.
  intro H. destruct (prun_inv ls (pinv_init A cmax W) H) as [_ _ (comp & _ & _ & Hst) _ _ _ _].
  assert (Hnf : fst (rrun RIdle (p_sent s)) <> RFailed).
  { destruct (p_cur s) as [[[m rest] [|]]|].
    - destruct Hst as [-> _]. discriminate.
    - destruct Hst as (b & -> & _). discriminate.
    - rewrite Hst. discriminate. }
  split; [exact Hnf | apply rrun_not_failed_no_bad; exact Hnf].
Qed.
End WF.
