(* Code-shape facts: channel teardown and the registry: state changed under the lock, context cancelled last (deferred), the availability latch closed / renewed under the registry lock (Registry.v).
   The skeletons are regenerated from the Go source on every run (gen/Params.v, translator
   paramscan); a change of shape breaks the lemma below - the models above it then no longer
   describe the code, whether or not a property is violated. *)
From Coq Require Import List String.
From GTgen Require Import Params.
Import ListNotations.
Local Open Scope string_scope.

Lemma reverseChannels_add_shape : skel_reverseChannels_add =
  ["call mu.Lock"; "defer call mu.Unlock"; "set chans"; "close avail"].
Proof. reflexivity. Qed.

Lemma reverseChannels_remove_shape : skel_reverseChannels_remove =
  ["call mu.Lock"; "defer call mu.Unlock"; "set chans"; "set avail"].
Proof. reflexivity. Qed.

