(* A tunnel inside a tunnel: one stream direction of an INNER tunnel (Pipe.v over alphabet A)
   whose carrier is one stream of an OUTER tunnel (Pipe.v over alphabet B): every frame the inner
   sender emits is handed, as one message [enc f], to the outer stream's Send (which accepts a
   message only when the previous one has been chunked out - the write lock / back-pressure); the
   inner receive loop obtains its frames by reading messages from the outer stream.  The outer
   stream has its own chunking, window, carrier, receiver queue and credit flow, all interleaved
   arbitrarily with the inner parties.  (The inner credit frames travel on a second outer stream
   in the opposite direction; here they stay the abstract FIFO of Pipe.v.)  Model only. *)
From Coq Require Import List Arith NArith.
From GT Require Import Frames Pipe.
Import ListNotations.
Set Implicit Arguments.

Section Nested.
Variables A B : Type.
Variable enc : dframe A -> list B.
Variable dec : list B -> option (dframe A).
Variables cmaxI WI cmaxO WO : nat.

Record nst := mkN {
  n_in : pst A;               (* inner stream; its p_wire stays empty *)
  n_out : pst B;              (* the outer stream that carries the inner frames *)
  n_fl : list (dframe A)      (* ghost: inner frames handed to the outer stream, not yet read back *)
}.

Definition n_init : nst := mkN (p_init A WI) (p_init B WO) [].

Definition set_wire (s : pst A) (w : list (dframe A)) : pst A :=
  mkP (p_submitted s) (p_cur s) (p_swin s) w (p_rq s) (p_rwin s) (p_reader s) (p_delivered s)
      (p_credits s) (p_overrun s) (p_sent s) (p_consumed s).

Inductive nlbl :=
| NSubmit (m : list A)     (* inner application sends *)
| NChunk                   (* inner sender reserves window, emits a frame = one outer Send *)
| NOuterChunk | NOuterDeliver | NOuterCredit   (* the outer stream's own internal steps *)
| NCarrierRecv             (* inner receive loop reads from the outer stream *)
| NDequeue                 (* inner application reads *)
| NCredit.                 (* inner sender's endpoint processes a window update *)

Definition nstep (n : nst) (l : nlbl) : option nst :=
  match l with
  | NSubmit m => match pstep cmaxI (n_in n) (PSubmit m) with
                 | Some s' => Some (mkN s' (n_out n) (n_fl n)) | None => None end
  | NDequeue => match pstep cmaxI (n_in n) PDequeue with
                | Some s' => Some (mkN s' (n_out n) (n_fl n)) | None => None end
  | NCredit => match pstep cmaxI (n_in n) PCredit with
               | Some s' => Some (mkN s' (n_out n) (n_fl n)) | None => None end
  | NChunk =>
      match pstep cmaxI (n_in n) PChunk with
      | Some s' =>
          match p_wire s' with
          | [f] => match pstep cmaxO (n_out n) (PSubmit (enc f)) with
                   | Some o' => Some (mkN (set_wire s' []) o' (n_fl n ++ [f]))
                   | None => None          (* outer Send busy: the inner sender is held up *)
                   end
          | _ => None
          end
      | None => None
      end
  | NOuterChunk => match pstep cmaxO (n_out n) PChunk with
                   | Some o' => Some (mkN (n_in n) o' (n_fl n)) | None => None end
  | NOuterDeliver => match pstep cmaxO (n_out n) PDeliver with
                     | Some o' => Some (mkN (n_in n) o' (n_fl n)) | None => None end
  | NOuterCredit => match pstep cmaxO (n_out n) PCredit with
                    | Some o' => Some (mkN (n_in n) o' (n_fl n)) | None => None end
  | NCarrierRecv =>
      match p_rq (n_out n) with
      | [] => None
      | fo :: _ =>
          match pstep cmaxO (n_out n) PDequeue with
          | None => None
          | Some o' =>
              match snd (rstep (p_reader (n_out n)) fo) with
              | Got m =>
                  match dec m with
                  | Some f =>
                      match pstep cmaxI (set_wire (n_in n) [f]) PDeliver with
                      | Some s' => Some (mkN s' o' (tl (n_fl n)))
                      | None => None
                      end
                  | None => None
                  end
              | _ => Some (mkN (n_in n) o' (n_fl n))
              end
          end
      end
  end.

Fixpoint nrun (n : nst) (ls : list nlbl) : option nst :=
  match ls with
  | [] => Some n
  | l :: r => match nstep n l with Some n' => nrun n' r | None => None end
  end.

(* the flat stream this nested state stands for: the inner stream with, as its carrier content,
   the frames that are somewhere inside the outer stream *)
Definition flat (n : nst) : pst A := set_wire (n_in n) (n_fl n).

End Nested.

Arguments NChunk {A}.
Arguments NOuterChunk {A}.
Arguments NOuterDeliver {A}.
Arguments NOuterCredit {A}.
Arguments NCarrierRecv {A}.
Arguments NDequeue {A}.
Arguments NCredit {A}.
