(* The reverse-tunnel server's shutdown state machine (reverse_server.go): three states in the
   order of the source's const block, the guards of isClosing / addInstance / Stop /
   GracefulStop as regenerated from the source (gen/Params.v: rs_states, rs_guards), and the
   instances (open tunnels) it tracks.  Theorems, for every sequence of operations:
   the state only moves forward; once GracefulStop or Stop has been called, isClosing holds for
   ever (so, with Tables.closing_refuses, every later RPC is refused) and no tunnel is added;
   Stop half-closes every tunnel it still tracks unless Stop itself ran before - in particular
   after a GracefulStop. *)
From Coq Require Import List Arith Bool String.
From GTgen Require Import Params.
Import ListNotations.
Local Open Scope string_scope.

(* the shape the model transcribes *)
Lemma rs_shape :
  rs_states = ["stateActive"; "stateClosing"; "stateClosed"] /\
  rs_guards = [("isClosing", "state >= stateClosing"); ("isClosed", "state >= stateClosed");
               ("addInstance", "state >= stateClosing"); ("Stop", "state == stateClosed");
               ("GracefulStop", "state != stateActive")].
Proof. split; reflexivity. Qed.

Inductive rstate := Active | Closing | Closed.
Definition rank (s : rstate) : nat := match s with Active => 0 | Closing => 1 | Closed => 2 end.

Record rsrv := mkRs {
  rs_state : rstate;
  rs_open : list nat;          (* tunnels tracked and not yet told to end *)
  rs_told : list nat           (* tunnels whose send side was closed by Stop *)
}.
Definition rs_init := mkRs Active [] [].

Definition is_closing (s : rsrv) : bool := Nat.leb 1 (rank (rs_state s)).   (* s.state >= stateClosing *)
Definition is_closed (s : rsrv) : bool := Nat.leb 2 (rank (rs_state s)).    (* s.state >= stateClosed *)

Inductive rop := OAdd (t : nat) | OStop | OGraceful | OTunnelEnded (t : nat).

Definition rs_step (s : rsrv) (o : rop) : rsrv :=
  match o with
  | OAdd t => if is_closing s then s else mkRs (rs_state s) (t :: rs_open s) (rs_told s)
  | OStop => match rs_state s with
             | Closed => s                                                   (* s.state == stateClosed: already stopping *)
             | _ => mkRs Closed [] (rs_open s ++ rs_told s)
             end
  | OGraceful => match rs_state s with
                 | Active => mkRs Closing (rs_open s) (rs_told s)            (* s.state != stateActive: already stopping *)
                 | _ => s
                 end
  | OTunnelEnded t => mkRs (rs_state s) (filter (fun x => negb (Nat.eqb x t)) (rs_open s)) (rs_told s)
  end.

Definition rs_run (s : rsrv) (ops : list rop) : rsrv := fold_left rs_step ops s.

Lemma rs_step_rank s o : rank (rs_state s) <= rank (rs_state (rs_step s o)).
Proof.
  destruct o; cbn [rs_step].
  - destruct (is_closing s); cbn; auto.
  - destruct (rs_state s) eqn:E; cbn; rewrite ?E; cbn; auto.
  - destruct (rs_state s) eqn:E; cbn; rewrite ?E; cbn; auto.
  - cbn. auto.
Qed.

Theorem state_only_moves_forward ops : forall s, rank (rs_state s) <= rank (rs_state (rs_run s ops)).
Proof.
  induction ops as [|o r IH]; intros s; cbn [rs_run fold_left]; [auto|].
  eapply Nat.le_trans; [apply rs_step_rank | apply IH].
Qed.

Theorem closing_is_forever s ops : is_closing s = true -> is_closing (rs_run s ops) = true.
Proof.
  unfold is_closing. intros H. apply Nat.leb_le in H. apply Nat.leb_le.
  eapply Nat.le_trans; [exact H | apply state_only_moves_forward].
Qed.

Theorem shutdown_call_starts_closing s o : (o = OStop \/ o = OGraceful) -> is_closing (rs_step s o) = true.
Proof. intros [-> | ->]; cbn [rs_step]; destruct (rs_state s) eqn:E; unfold is_closing; cbn; rewrite ?E; reflexivity. Qed.

(* after any shutdown call, whatever follows: still closing, and no tunnel is ever added *)
Corollary after_shutdown_always_closing s o ops :
  (o = OStop \/ o = OGraceful) -> is_closing (rs_run (rs_step s o) ops) = true.
Proof. intros H. apply closing_is_forever. apply shutdown_call_starts_closing. exact H. Qed.

Lemma no_add_while_closing s t : is_closing s = true -> rs_step s (OAdd t) = s.
Proof. intros H. cbn [rs_step]. rewrite H. reflexivity. Qed.

(* Stop tells every tracked tunnel to end unless a Stop ran before - in particular after GracefulStop *)
Theorem stop_ends_every_tracked_tunnel s : rs_state s <> Closed ->
  rs_open (rs_step s OStop) = [] /\ forall t, In t (rs_open s) -> In t (rs_told (rs_step s OStop)).
Proof.
  intros H. cbn [rs_step]. destruct (rs_state s) eqn:E; try congruence; cbn; (split; [reflexivity|]); intros t Ht; apply in_or_app; auto.
Qed.

Example graceful_then_stop :
  let s := rs_run rs_init [OAdd 1; OAdd 2; OGraceful; OAdd 3; OStop; OAdd 4] in
  rs_state s = Closed /\ rs_open s = [] /\ rs_told s = [2; 1] /\ is_closing s = true.
Proof. cbn. repeat split. Qed.

(* the variants two seeded changes introduce are refuted on this model's shape:
   isClosing as "== closing" is false again in state closed *)
Example eq_guard_reopens : Nat.eqb (rank Closed) 1 = false.  Proof. reflexivity. Qed.
