(* Code-shape fact: each receiver is sized by the endpoint's own constant (the window it advertises
   in settings / new_stream, ParamsFacts: 65536) and each sender by what the peer advertised -
   the assumption under which the window theorems (Recvq, SenderAtomic, Pipe) speak about one and
   the same W on both sides.  Regenerated from the Go source on every run (gen/Params.v). *)
From Coq Require Import List String.
From GTgen Require Import Params.
Import ListNotations.
Local Open Scope string_scope.

Lemma windows_as_advertised : window_args =
  [("server.sender", "frame.InitialWindowSize"); ("server.receiver", "initialWindowSize");
   ("client.sender", "settings.InitialWindowSize"); ("client.receiver", "initialWindowSize")].
Proof. reflexivity. Qed.
