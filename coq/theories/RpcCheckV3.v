(* finishErr is write-once, from every control state *)
From Coq Require Import List Bool Arith.
From RecordUpdate Require Import RecordUpdate.
From GT Require Import Rpc RpcInv.
Import ListNotations.

Lemma vwo_all : forall strict, forall_sv (vwo_check strict) = true.
Proof. intros []; vm_compute; reflexivity. Qed.
