(* Code-shape facts: the receivers: window debited/credited under the queue lock (Recvq.v steps are atomic), the revision-zero hand-off checks for closure before and while it offers the item.
   The skeletons are regenerated from the Go source on every run (gen/Params.v, translator
   paramscan); a change of shape breaks the lemma below - the models above it then no longer
   describe the code, whether or not a property is violated. *)
From Coq Require Import List String.
From GTgen Require Import Params.
Import ListNotations.
Local Open Scope string_scope.

Lemma defaultReceiver_accept_shape : skel_defaultReceiver_accept =
  ["call measure"; "call mu.Lock"; "defer call mu.Unlock"; "set currentWindow"; "call items.Len"; "call items.PushBack"; "call cond.Signal"].
Proof. reflexivity. Qed.

Lemma noFlowControlReceiver_accept_shape : skel_noFlowControlReceiver_accept =
  ["call ingestMu.Lock"; "defer call ingestMu.Unlock"; "select"; "recv closed"; "end"; "select"; "send ch"; "recv closed"; "end"].
Proof. reflexivity. Qed.

