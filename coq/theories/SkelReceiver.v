(* Code-shape facts: the receivers: window debited/credited under the queue lock (Recvq.v steps are atomic), the revision-zero hand-off checks for closure before and while it offers the item.
   The skeletons are regenerated from the Go source on every run (gen/Params.v, translator
   paramscan); a change of shape breaks the lemma below - the models above it then no longer
   describe the code, whether or not a property is violated. *)
From Coq Require Import List String.
From GTgen Require Import Params.
Import ListNotations.
Local Open Scope string_scope.

Lemma defaultReceiver_accept_shape : skel_defaultReceiver_accept =
  ["call measure"; "call mu.Lock"; "defer call mu.Unlock"; "set currentWindow"; "call items.Len"; "call items.PushBack"; "call cond.Signal"].
Proof. reflexivity. Qed.

Lemma defaultReceiver_dequeue_shape : skel_defaultReceiver_dequeue =
  ["defer func"; "call mu.Lock"; "defer call mu.Unlock"; "call items.Front"; "call items.Remove"; "call measure"; "set currentWindow"; "call cond.Wait"].
Proof. reflexivity. Qed.

Lemma defaultReceiver_close_shape : skel_defaultReceiver_close =
  ["call mu.Lock"; "defer call mu.Unlock"; "call handleClosure"].
Proof. reflexivity. Qed.

Lemma defaultReceiver_cancel_shape : skel_defaultReceiver_cancel =
  ["call mu.Lock"; "defer call mu.Unlock"; "call handleClosure"; "call items.Init"].
Proof. reflexivity. Qed.

Lemma noFlowControlReceiver_accept_shape : skel_noFlowControlReceiver_accept =
  ["call ingestMu.Lock"; "defer call ingestMu.Unlock"; "select"; "recv closed"; "end"; "select"; "send ch"; "recv closed"; "end"].
Proof. reflexivity. Qed.

Lemma noFlowControlReceiver_close_shape : skel_noFlowControlReceiver_close =
  ["call doClose.Do"].
Proof. reflexivity. Qed.

Lemma noFlowControlReceiver_cancel_shape : skel_noFlowControlReceiver_cancel =
  ["call close"].
Proof. reflexivity. Qed.

