(* Proofs for C18: the parser model agrees with the gRPC specification on every
   byte string; the result never wraps; malformed input never yields a deadline. *)
From Coq Require Import List NArith ZArith Bool Lia ZifyBool ZifyN ZifyNat.
From GTgen Require Import Params.
From GT Require Import Timeout.
Import ListNotations.
Local Open Scope Z_scope.

Lemma unit_table_is_spec : forall u, lookup_unit u timeout_unit_table = spec_unit u.
Proof.
  intro u. unfold timeout_unit_table, spec_unit. cbn [lookup_unit].
  repeat match goal with
  | |- context [(?c =? u)%N] => rewrite (N.eqb_sym c u); destruct (u =? c)%N eqn:?; [reflexivity|]
  end. reflexivity.
Qed.

Lemma spec_unit_pos u k : spec_unit u = Some k -> 1 <= k <= 3600000000000.
Proof.
  unfold spec_unit. repeat (destruct (_ =? _)%N); intro H; inversion H.
  all: lia.
Qed.

Lemma is_digit_val b : is_digit b = true -> 0 <= digit_val b <= 9.
Proof. unfold is_digit, digit_val. intro H. apply andb_prop in H as [H1 H2]. lia. Qed.

Lemma fold_digits_bound ds : forall acc, 0 <= acc -> forallb is_digit ds = true ->
  0 <= fold_left (fun a b => a * 10 + digit_val b) ds acc
    < (acc + 1) * 10 ^ Z.of_nat (length ds).
Proof.
  induction ds as [|d ds IH]; intros acc Hacc Hd.
  - cbn. lia.
  - cbn [forallb] in Hd. apply andb_prop in Hd as [Hd1 Hd2].
    pose proof (is_digit_val d Hd1) as Hv.
    cbn [fold_left length]. specialize (IH (acc * 10 + digit_val d) ltac:(lia) Hd2).
    rewrite Nat2Z.inj_succ, Z.pow_succ_r by lia.
    assert (0 < 10 ^ Z.of_nat (length ds)) by (apply Z.pow_pos_nonneg; lia).
    nia.
Qed.

Lemma digits_value_bound ds : forallb is_digit ds = true ->
  0 <= digits_value ds < 10 ^ Z.of_nat (length ds).
Proof.
  intro H. pose proof (fold_digits_bound ds 0 ltac:(lia) H) as B.
  unfold digits_value. lia.
Qed.

Lemma parse_uint_acc_digits ds : forall acc, 0 <= acc -> forallb is_digit ds = true ->
  (acc + 1) * 10 ^ Z.of_nat (length ds) <= max_uint64 + 1 ->
  parse_uint_acc acc ds = Some (fold_left (fun a b => a * 10 + digit_val b) ds acc).
Proof.
  induction ds as [|d ds IH]; intros acc Hacc Hd Hb; [reflexivity|].
  cbn [forallb] in Hd. apply andb_prop in Hd as [Hd1 Hd2].
  pose proof (is_digit_val d Hd1) as Hv.
  cbn [parse_uint_acc fold_left]. rewrite Hd1.
  cbn [length] in Hb. rewrite Nat2Z.inj_succ, Z.pow_succ_r in Hb by lia.
  assert (Hp : 0 < 10 ^ Z.of_nat (length ds)) by (apply Z.pow_pos_nonneg; lia).
  destruct (acc * 10 + digit_val d >? max_uint64) eqn:E; [exfalso; nia|].
  apply IH; [lia|assumption|nia].
Qed.

Lemma pow10_mono n : (n <= 8)%nat -> 10 ^ Z.of_nat n <= 100000000.
Proof.
  intro H. change 100000000 with (10 ^ 8).
  apply Z.pow_le_mono_r; lia.
Qed.

Lemma parse_uint_digits ds : (1 <= length ds <= 8)%nat -> forallb is_digit ds = true ->
  parse_uint ds = Some (digits_value ds).
Proof.
  intros [H1 H8] Hd. unfold parse_uint, digits_value.
  destruct ds as [|d ds']; [cbn in H1; lia|].
  apply parse_uint_acc_digits; [lia|assumption|].
  pose proof (pow10_mono _ H8). unfold max_uint64. lia.
Qed.

Lemma wrap64_id z : - 2 ^ 63 <= z < 2 ^ 63 -> wrap64 z = z.
Proof.
  intro H. unfold wrap64.
  change (2 ^ 64) with 18446744073709551616 in *.
  change (2 ^ 63) with 9223372036854775808 in *.
  destruct (Z_lt_le_dec z 0).
  - replace (z mod 18446744073709551616) with (z + 18446744073709551616)
      by (apply Z.mod_unique with (q := -1); lia).
    destruct (z + 18446744073709551616 <? 9223372036854775808) eqn:E; lia.
  - rewrite Z.mod_small by lia. destruct (z <? 9223372036854775808) eqn:E; lia.
Qed.

Lemma last_removelast_rev (A : Type) (d : A) (s : list A) u rds :
  rev s = u :: rds -> last s d = u /\ removelast s = rev rds.
Proof.
  intro H. assert (Hs : s = rev rds ++ [u]).
  { rewrite <- (rev_involutive s), H. reflexivity. }
  subst s. split; [apply last_last | apply removelast_last].
Qed.

Theorem impl_timeout_is_spec : forall s, impl_timeout s = spec_timeout s.
Proof.
  intro s. unfold impl_timeout, spec_timeout.
  destruct (rev s) as [|u rds] eqn:Hrev.
  - assert (s = []) by (rewrite <- (rev_involutive s), Hrev; reflexivity). subst s. reflexivity.
  - destruct (last_removelast_rev N 0%N s u rds Hrev) as [Hl Hr].
    rewrite Hl, Hr. set (ds := rev rds).
    assert (Hlen : length s = S (length ds)).
    { rewrite <- (rev_length s), Hrev. cbn [length]. unfold ds. rewrite rev_length. reflexivity. }
    rewrite Hlen, unit_table_is_spec.
    destruct (Nat.leb 1 (length ds)) eqn:E1; destruct (Nat.leb (length ds) 8) eqn:E8;
      cbn [andb];
      try (replace (Nat.ltb (S (length ds)) 2 || Nat.ltb 9 (S (length ds)))%bool with true by lia; reflexivity).
    replace (Nat.ltb (S (length ds)) 2 || Nat.ltb 9 (S (length ds)))%bool with false by lia.
    destruct (spec_unit u) as [k|] eqn:Eu; [|destruct (forallb is_digit ds); reflexivity].
    destruct (forallb is_digit ds) eqn:Ed; [|reflexivity].
    rewrite parse_uint_digits by (try assumption; lia).
    pose proof (spec_unit_pos _ _ Eu) as Hk.
    pose proof (digits_value_bound ds Ed) as Hv.
    pose proof (pow10_mono (length ds) ltac:(lia)) as Hp.
    set (t := digits_value ds) in *.
    assert (Hdiv : t >? max_int64 / k = (t * k >? max_int64)).
    { pose proof (Z.div_mod max_int64 k ltac:(lia)) as Hdm.
      pose proof (Z.mod_pos_bound max_int64 k ltac:(lia)) as Hmb.
      destruct (t >? max_int64 / k) eqn:E; destruct (t * k >? max_int64) eqn:E'; try reflexivity; nia. }
    rewrite Hdiv. destruct (t * k >? max_int64) eqn:E.
    + f_equal. lia.
    + f_equal. rewrite wrap64_id by (unfold max_int64 in *; nia). lia.
Qed.

(* consequences *)
Theorem timeout_in_range : forall s d, impl_timeout s = Some d -> 0 <= d <= max_int64.
Proof.
  intros s d. rewrite impl_timeout_is_spec. unfold spec_timeout.
  destruct (rev s) as [|u rds]; [discriminate|].
  destruct (_ && _ && forallb is_digit (rev rds))%bool eqn:E; [|discriminate].
  apply andb_prop in E as [_ Ed].
  destruct (spec_unit u) as [k|] eqn:Eu; [|discriminate].
  intro H; inversion H; subst.
  pose proof (spec_unit_pos _ _ Eu). pose proof (digits_value_bound _ Ed).
  unfold max_int64. split; [apply Z.min_glb; nia | apply Z.le_min_r].
Qed.

Theorem malformed_never_shortens : forall s, malformed s -> impl_timeout s = None.
Proof. intros s H. rewrite impl_timeout_is_spec. exact H. Qed.

Theorem headers_last_wins : forall vals, timeout_from_headers vals = spec_from_headers vals.
Proof.
  intro vals. unfold timeout_from_headers, spec_from_headers.
  destruct (rev vals); [reflexivity | apply impl_timeout_is_spec].
Qed.

(* exactness on well-formed values, stated without reference to the parser's helpers *)
Theorem wellformed_exact : forall ds u k,
  (1 <= length ds <= 8)%nat -> forallb is_digit ds = true -> spec_unit u = Some k ->
  impl_timeout (ds ++ [u]) = Some (Z.min (digits_value ds * k) max_int64).
Proof.
  intros ds u k [H1 H8] Hd Hu. rewrite impl_timeout_is_spec. unfold spec_timeout.
  rewrite rev_app_distr. cbn [rev app]. rewrite rev_involutive.
  replace (Nat.leb 1 (length ds)) with true by lia.
  replace (Nat.leb (length ds) 8) with true by lia.
  rewrite Hd, Hu. reflexivity.
Qed.

(* non-vacuity: saturation is reachable and the ordinary case is exact *)
Example sat_hours : impl_timeout [57;57;57;57;57;57;57;57;72]%N = Some max_int64.
Proof. vm_compute. reflexivity. Qed.
Example five_seconds : impl_timeout [53;83]%N = Some 5000000000.
Proof. vm_compute. reflexivity. Qed.

(* the parser before the repair violates the property: witnesses *)
Theorem v0_refuted :
  (exists s, malformed s /\ exists d, impl_timeout_v0 s = Some d /\ d < 0) /\
  (exists s d, spec_timeout s = Some d /\ exists d', impl_timeout_v0 s = Some d' /\ d' < 0).
Proof.
  split.
  - exists [45;53;83]%N. split; [reflexivity|]. eexists. split; [vm_compute; reflexivity|lia].
  - exists [57;57;57;57;57;57;57;57;72]%N. eexists. split; [vm_compute; reflexivity|].
    eexists. split; [vm_compute; reflexivity|lia].
Qed.
