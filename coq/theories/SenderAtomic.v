(* Thread-level model of defaultSender (flow_control.go:60-117): one sending goroutine
   (load / wait / compare-and-swap / emit), any number of sequential updateWindow calls
   (atomic add, then conditional signal), context cancellation.  One label = one atomic
   operation of the Go code.  Model only. *)
From Coq Require Import List NArith Bool.
Import ListNotations.
Local Open Scope N_scope.

Definition M32 : N := 4294967296.   (* 2^32: the window is a uint32 *)

(* program counter of the sending goroutine inside send() *)
Inductive spc :=
| SLoad                 (* about to load currentWindow (top of the loop) *)
| SWait                 (* saw 0: parked in select { <-windowUpdates ; <-ctx.Done() } *)
| SCas (w : N)          (* loaded w > 0: about to CompareAndSwap(w, w - chunk) *)
| SEmit (c : N)         (* CAS succeeded: about to call sendFunc with c bytes *)
| SRet (ok : bool).     (* send returned: ok / context error *)

(* an updateWindow call in progress *)
Inductive upc := UIdle | UAdded (prev : N).   (* after Add, before the conditional signal *)

Record sa := mkSa {
  win : N;              (* currentWindow *)
  tok : bool;           (* windowUpdates (capacity-1 channel) holds a token *)
  sp : spc; up : upc;
  rem : N;              (* bytes of the current message not yet emitted *)
  first : bool;
  cancelled : bool;     (* ctx.Done() closed *)
  out : list (N * bool);   (* sendFunc calls: (chunk length, first) *)
  emitted : N;          (* ghost: total bytes passed to sendFunc *)
  credits : N           (* ghost: total window added by updateWindow *)
}.

Inductive lbl := LLoad | LWaitTok | LWaitCtx | LCas | LEmit | UAdd (a : N) | USignal | Cancel.

Section S.
Variable cmax : N.

Definition set_sp (s : sa) (p : spc) : sa :=
  mkSa (win s) (tok s) p (up s) (rem s) (first s) (cancelled s) (out s) (emitted s) (credits s).

Definition step (s : sa) (l : lbl) : option sa :=
  match l, sp s, up s with
  | LLoad, SLoad, _ =>
      Some (if win s =? 0 then set_sp s SWait else set_sp s (SCas (win s)))
  | LWaitTok, SWait, _ =>
      if tok s then Some (mkSa (win s) false SLoad (up s) (rem s) (first s) (cancelled s) (out s) (emitted s) (credits s))
      else None
  | LWaitCtx, SWait, _ =>
      if cancelled s then Some (set_sp s (SRet false)) else None
  | LCas, SCas w, _ =>
      let c := N.min w (N.min (rem s) cmax) in
      Some (if win s =? w
            then mkSa (w - c) (tok s) (SEmit c) (up s) (rem s) (first s) (cancelled s) (out s) (emitted s) (credits s)
            else set_sp s SLoad)
  | LEmit, SEmit c, _ =>
      Some (mkSa (win s) (tok s) (if c =? rem s then SRet true else SLoad) (up s) (rem s - c) false
                 (cancelled s) (out s ++ [(c, first s)]) (emitted s + c) (credits s))
  | UAdd a, _, UIdle =>
      if a =? 0 then Some s
      else Some (mkSa ((win s + a) mod M32) (tok s) (sp s) (UAdded (win s)) (rem s) (first s)
                      (cancelled s) (out s) (emitted s) (credits s + a))
  | USignal, _, UAdded p =>
      Some (mkSa (win s) (if p =? 0 then true else tok s) (sp s) UIdle (rem s) (first s)
                 (cancelled s) (out s) (emitted s) (credits s))
  | Cancel, _, _ =>
      Some (mkSa (win s) (tok s) (sp s) (up s) (rem s) (first s) true (out s) (emitted s) (credits s))
  | _, _, _ => None
  end.

Definition sa_init (w0 msg : N) : sa := mkSa w0 false SLoad UIdle msg true false [] 0 0.

(* run a schedule; None if some label was not enabled *)
Fixpoint run (s : sa) (ls : list lbl) : option sa :=
  match ls with
  | [] => Some s
  | l :: r => match step s l with Some s' => run s' r | None => None end
  end.

(* bytes reserved by a successful CAS but not yet handed to sendFunc *)
Definition reserved (s : sa) : N := match sp s with SEmit c => c | _ => 0 end.

(* the labels enabled in a state (used by the M4 driver to enumerate interleavings) *)
Definition enabled (s : sa) (l : lbl) : bool :=
  match step s l with Some _ => true | None => false end.

End S.
