(* Many streams on one carrier of bounded capacity: every stream is a Pipe.v pipeline (sender with
   its window, receiver queue with its window, reader, credits), but all data frames share one
   FIFO carrier that holds at most K frames (a sender's emission needs room: Send blocks while the
   transport buffer is full), and the receive loop takes frames from its head one at a time, for
   whichever stream they belong to.  The applications of different streams read or do not read
   independently.  Model only. *)
From Coq Require Import List Arith NArith.
From GT Require Import Frames Pipe.
Import ListNotations.
Set Implicit Arguments.

Section Multi.
Variable A : Type.
Variables cmax W K : nat.

Record mst := mkM {
  m_streams : list (pst A);               (* per stream; p_wire stays empty *)
  m_wire : list (nat * dframe A)          (* the shared carrier: (stream, frame), oldest first *)
}.

Definition m_init (n : nat) : mst := mkM (repeat (p_init A W) n) [].

Definition set_wire (s : pst A) (w : list (dframe A)) : pst A :=
  mkP (p_submitted s) (p_cur s) (p_swin s) w (p_rq s) (p_rwin s) (p_reader s) (p_delivered s)
      (p_credits s) (p_overrun s) (p_sent s) (p_consumed s).

Fixpoint upd (l : list (pst A)) (i : nat) (x : pst A) : list (pst A) :=
  match l, i with
  | [], _ => []
  | _ :: r, O => x :: r
  | y :: r, S j => y :: upd r j x
  end.

Inductive mlbl :=
| MSubmit (i : nat) (m : list A)    (* application of stream i sends *)
| MDequeue (i : nat)                (* application of stream i reads *)
| MCredit (i : nat)                 (* sender side of stream i processes a window update *)
| MChunk (i : nat)                  (* sender of stream i emits a frame onto the carrier (needs room) *)
| MDeliver.                         (* the receive loop takes the frame at the head of the carrier *)

Definition mstep (m : mst) (l : mlbl) : option mst :=
  match l with
  | MSubmit i msg =>
      match nth_error (m_streams m) i with
      | Some s => match pstep cmax s (PSubmit msg) with
                  | Some s' => Some (mkM (upd (m_streams m) i s') (m_wire m)) | None => None end
      | None => None end
  | MDequeue i =>
      match nth_error (m_streams m) i with
      | Some s => match pstep cmax s PDequeue with
                  | Some s' => Some (mkM (upd (m_streams m) i s') (m_wire m)) | None => None end
      | None => None end
  | MCredit i =>
      match nth_error (m_streams m) i with
      | Some s => match pstep cmax s PCredit with
                  | Some s' => Some (mkM (upd (m_streams m) i s') (m_wire m)) | None => None end
      | None => None end
  | MChunk i =>
      if Nat.ltb (length (m_wire m)) K then
        match nth_error (m_streams m) i with
        | Some s => match pstep cmax s PChunk with
                    | Some s' => match p_wire s' with
                                 | [f] => Some (mkM (upd (m_streams m) i (set_wire s' [])) (m_wire m ++ [(i, f)]))
                                 | _ => None end
                    | None => None end
        | None => None end
      else None
  | MDeliver =>
      match m_wire m with
      | [] => None
      | (i, f) :: rest =>
          match nth_error (m_streams m) i with
          | Some s => match pstep cmax (set_wire s [f]) PDeliver with
                      | Some s' => Some (mkM (upd (m_streams m) i s') rest)
                      | None => None end
          | None => None end
      end
  end.

Fixpoint mrun (m : mst) (ls : list mlbl) : option mst :=
  match ls with
  | [] => Some m
  | l :: r => match mstep m l with Some m' => mrun m' r | None => None end
  end.

(* the frames of stream i on the carrier, in order *)
Definition wire_of (i : nat) (w : list (nat * dframe A)) : list (dframe A) :=
  flat_map (fun p => if Nat.eqb (fst p) i then [snd p] else []) w.

(* the single-stream pipeline that stream i of the shared system stands for *)
Definition flat (m : mst) (i : nat) : option (pst A) :=
  match nth_error (m_streams m) i with
  | Some s => Some (set_wire s (wire_of i (m_wire m)))
  | None => None
  end.

(* something other than an application's own send/read can move *)
Definition m_internal_enabled (m : mst) : bool :=
  match mstep m MDeliver with
  | Some _ => true
  | None => existsb (fun i => match mstep m (MChunk i), mstep m (MCredit i) with None, None => false | _, _ => true end)
                    (seq 0 (length (m_streams m)))
  end.

End Multi.

Arguments MDeliver {A}.
Arguments MChunk {A}.
Arguments MCredit {A}.
Arguments MDequeue {A}.
