(* Lock-step monitor for the composed per-RPC model (Rpc.v): the frames a real endpoint emits on a
   stream, reduced to their kinds, are run through the very automata gc_step / gs_step that the
   theorems of RpcSystem.v are stated with (rpc_client_frames_conform, rpc_server_frames_conform,
   server_stream_conforms_against_any_peer).  Failure codes:
     1320 the tunnel client's emissions on a stream leave the client grammar (frame before new_stream,
          second new_stream, request data after half-close, second half-close, second cancel)
     1321 the tunnel server's emissions on a stream leave the server grammar (message before headers,
          headers twice, anything but a late window update after close_stream, second close_stream) *)
From Coq Require Import List NArith ZArith Bool.
From GT Require Import Trace MonWire Rpc.
Import ListNotations.

Definition ckind_of (k : fkind) : option cframe :=
  match k with
  | KNew _ _ _ _ _ => Some FNew
  | KMsg _ _ | KMore _ => Some FReq
  | KHalf => Some FHalf
  | KCancel => Some FCancel
  | KWu _ => Some FCwu
  | _ => None
  end.
Definition skind_of (k : fkind) : option sframe :=
  match k with
  | KHdrs _ => Some FHdr
  | KMsg _ _ | KMore _ => Some FResp
  | KClose _ _ => Some FClose
  | KWu _ => Some FSwu
  | _ => None
  end.

Definition is_gc_bad (g : gc) : bool := match g with GcBad => true | _ => false end.
Definition is_gs_bad (g : gs) : bool := match g with GsBad => true | _ => false end.

Record rpcmon := mkRm { rm_st : list (key * (gc * gs)); rm_fails : list failure }.

Definition rpc_step (c : cfg) (m : rpcmon) (e : N * ev) : rpcmon :=
  let '(act, e) := e in
  match e with
  | Emit d t id k true =>
      let '(g1, g2) := match aget (t, id) (rm_st m) with Some x => x | None => (GcStart, GsStart) end in
      match d with
      | C2S =>
          if c_rawc c then m else
          match ckind_of k with
          | None => m
          | Some f =>
              let g1' := gc_step g1 f in
              mkRm (aset (t, id) (g1', g2) (rm_st m))
                   (if is_gc_bad g1' && negb (is_gc_bad g1) then rm_fails m ++ [mkFail 1320 act id 0] else rm_fails m)
          end
      | S2C =>
          if c_raws c then m else
          match skind_of k with
          | None => m
          | Some f =>
              let g2' := gs_step g2 f in
              mkRm (aset (t, id) (g1, g2') (rm_st m))
                   (if is_gs_bad g2' && negb (is_gs_bad g2) then rm_fails m ++ [mkFail 1321 act id 0] else rm_fails m)
          end
      end
  | _ => m
  end.

Definition mon_rpc (c : cfg) (tr : trace) : list failure := rm_fails (fold_left (rpc_step c) tr (mkRm [] [])).
