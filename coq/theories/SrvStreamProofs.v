From Coq Require Import List NArith Bool Lia.
From GT Require Import Trace SrvStream.
Import ListNotations.

(* invariant tying the write-side flags to the grammar state of what has been emitted *)
Definition Rel (s : sw) (g : gstate) : Prop :=
  match g with
  | GStart => sw_sent_hdrs s = false /\ sw_closed s = false
  | GHdr => sw_sent_hdrs s = true /\ sw_closed s = false
  | GClosed => sw_sent_hdrs s = true /\ sw_closed s = true
  | GBad => False
  end.

Lemma step_rel ss s g o : Rel s g ->
  let '(s', fr, _) := sw_step ss s o in Rel s' (fold_left g_step fr g).
Proof.
  destruct g; cbn [Rel]; intro H; try contradiction; destruct H as [H1 H2]; destruct o; cbn [sw_step]; rewrite ?H1, ?H2; cbn;
    try (split; assumption); try (split; reflexivity).
  all: try (destruct (negb ss && _); cbn; split; assumption || reflexivity).
Qed.

(* for every sequence of handler operations (and finishes from any cause) the frames emitted
   for the stream follow  headers? message* close?  : headers at most once and before any
   message, at most one close, nothing after the close *)
Theorem emitted_grammar ss ops : g_run (snd (sw_run ss sw0 ops)) <> GBad.
Proof.
  assert (G : forall ops s g, Rel s g -> Rel (fst (sw_run ss s ops)) (fold_left g_step (snd (sw_run ss s ops)) g)).
  { induction ops0 as [|o r IH]; intros s g H; cbn [sw_run]; [exact H|].
    pose proof (step_rel ss s g o H) as S. destruct (sw_step ss s o) as [[s1 fr] ok].
    specialize (IH s1 _ S). destruct (sw_run ss s1 r) as [s2 fr2]. cbn [fst snd] in *.
    rewrite fold_left_app. exact IH. }
  specialize (G ops sw0 GStart (conj eq_refl eq_refl)). unfold g_run.
  intro E. rewrite E in G. exact G.
Qed.

(* a second message on a non-server-streaming method is refused and puts nothing on the wire *)
Theorem second_send_refused s tag : sw_nsent s = 1%N -> sw_sent_hdrs s = true -> sw_closed s = false ->
  sw_step false s (WSend tag) = (s, [], false).
Proof. intros H1 H2 H3. unfold sw_step. rewrite H3, H2, H1. reflexivity. Qed.

(* once closed, a send emits nothing (no frame after close_stream) *)
Theorem closed_send_emits_nothing ss s tag : sw_closed s = true -> sw_step ss s (WSend tag) = (s, [], false).
Proof. intro H. unfold sw_step. now rewrite H. Qed.

(* the close frame carries exactly the trailers set before it, the first headers frame exactly
   the headers set before it *)
Lemma run_headers ss : forall ops s, sw_sent_hdrs s = false -> sw_closed s = false ->
  match filter (fun f => match f with SHdrs _ => true | _ => false end) (snd (sw_run ss s ops)) with
  | SHdrs md :: _ => md = wanted_headers (sw_hdrs s) ops
  | _ => True
  end.
Proof.
  induction ops as [|o r IH]; intros [h t sh cl n] H1 H2; cbn in H1, H2; subst; cbn [sw_run]; [exact I|].
  destruct o; cbn [sw_step wanted_headers sw_sent_hdrs sw_closed sw_hdrs sw_trls sw_nsent].
  - specialize (IH (mkSw (md_join h md) t false false n) eq_refl eq_refl).
    destruct (sw_run ss _ r) as [s2 fr2]. cbn [snd app filter sw_hdrs] in *. exact IH.
  - destruct (sw_run ss _ r) as [s2 fr2]. cbn. reflexivity.
  - destruct (negb ss && _); destruct (sw_run ss _ r) as [s2 fr2]; cbn; reflexivity.
  - specialize (IH (mkSw h (md_join t md) false false n) eq_refl eq_refl).
    destruct (sw_run ss _ r) as [s2 fr2]. cbn [snd app filter sw_hdrs] in *. exact IH.
  - destruct (sw_run ss _ r) as [s2 fr2]. cbn. reflexivity.
Qed.

Theorem headers_exact ss ops :
  match filter (fun f => match f with SHdrs _ => true | _ => false end) (snd (sw_run ss sw0 ops)) with
  | SHdrs md :: _ => md = wanted_headers [] ops
  | _ => True
  end.
Proof. exact (run_headers ss ops sw0 eq_refl eq_refl). Qed.

Lemma run_trailers ss : forall ops s, sw_closed s = false ->
  match filter (fun f => match f with SClose _ _ => true | _ => false end) (snd (sw_run ss s ops)) with
  | SClose _ md :: _ => md = wanted_trailers (sw_trls s) ops
  | _ => True
  end.
Proof.
  induction ops as [|o r IH]; intros [h t sh cl n] H2; cbn in H2; subst; cbn [sw_run]; [exact I|].
  destruct o; cbn [sw_step wanted_trailers sw_sent_hdrs sw_closed sw_hdrs sw_trls sw_nsent].
  - destruct sh.
    + specialize (IH (mkSw h t true false n) eq_refl). destruct (sw_run ss _ r) as [s2 fr2].
      cbn [snd app filter sw_trls] in *. exact IH.
    + specialize (IH (mkSw (md_join h md) t false false n) eq_refl). destruct (sw_run ss _ r) as [s2 fr2].
      cbn [snd app filter sw_trls] in *. exact IH.
  - destruct sh.
    + specialize (IH (mkSw h t true false n) eq_refl). destruct (sw_run ss _ r) as [s2 fr2].
      cbn [snd app filter sw_trls] in *. exact IH.
    + specialize (IH (mkSw [] t true false n) eq_refl). destruct (sw_run ss _ r) as [s2 fr2].
      cbn [snd app filter sw_trls] in *. exact IH.
  - destruct sh; cbn [sw_nsent sw_hdrs sw_trls sw_sent_hdrs sw_closed].
    + destruct (negb ss && _).
      * specialize (IH (mkSw h t true false n) eq_refl). destruct (sw_run ss _ r) as [s2 fr2].
        cbn [snd app filter sw_trls] in *. exact IH.
      * specialize (IH (mkSw h t true false (n + 1)) eq_refl). destruct (sw_run ss _ r) as [s2 fr2].
        cbn [snd app filter sw_trls] in *. exact IH.
    + destruct (negb ss && _).
      * specialize (IH (mkSw [] t true false n) eq_refl). destruct (sw_run ss _ r) as [s2 fr2].
        cbn [snd app filter sw_trls] in *. exact IH.
      * specialize (IH (mkSw [] t true false (n + 1)) eq_refl). destruct (sw_run ss _ r) as [s2 fr2].
        cbn [snd app filter sw_trls] in *. exact IH.
  - specialize (IH (mkSw h (md_join t md) sh false n) eq_refl). destruct (sw_run ss _ r) as [s2 fr2].
    cbn [snd app filter sw_trls] in *. exact IH.
  - destruct (sw_run ss _ r) as [s2 fr2]. cbn [snd]. rewrite filter_app.
    destruct sh; cbn; reflexivity.
Qed.

Theorem trailers_exact ss ops :
  match filter (fun f => match f with SClose _ _ => true | _ => false end) (snd (sw_run ss sw0 ops)) with
  | SClose _ md :: _ => md = wanted_trailers [] ops
  | _ => True
  end.
Proof. exact (run_trailers ss ops sw0 eq_refl). Qed.
