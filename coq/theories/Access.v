(* Lock discipline of the shared structs (property C15), as a decidable check over the access
   table that translator T2 (lockscan) regenerates from the Go sources on every run.

   A site is one syntactic read or write of one field of a struct that several goroutines can
   reach.  Two sites of the same field are [compatible] when the Go memory model orders them or
   excludes them from running concurrently for a reason the table records:
     - both only read;
     - one of them runs at construction time, before the object is shared;
     - both hold one common mutex, at least one side exclusively;
     - the write is followed, in its function, by close(ch) and the other side runs after a
       receive from that same ch (publication by channel close);
     - the pair is one of the explicit, commented [exemptions] below (orderings the syntactic
       scan cannot see; each names its reason).
     - both run on the one goroutine that the constructor starts for the object.
   AccessProofs.v states what the boolean check buys. *)
From Coq Require Import List NArith Bool String.
Import ListNotations.
Local Open Scope N_scope.

Record site := mkSite {
  s_field : string;               (* "Struct.field" *)
  s_write : bool;
  s_locks : list (string * bool); (* (mutex "Struct.field", held exclusively?) *)
  s_ctor : bool;
  s_after : list string;          (* channels received from before the access *)
  s_before : list string;         (* channels closed after the access, same function *)
  s_thread : string;              (* non-empty: the one goroutine per object that runs this code *)
  s_fn : string;
  s_line : N
}.

Definition memS (x : string) (l : list string) : bool := existsb (String.eqb x) l.

Definition holds (l : string) (s : site) : option bool :=
  match find (fun p => String.eqb (fst p) l) (s_locks s) with Some p => Some (snd p) | None => None end.

Definition common_lock (a b : site) : bool :=
  existsb (fun p => match holds (fst p) a, holds (fst p) b with
                    | Some ea, Some eb => ea || eb
                    | _, _ => false
                    end) (s_locks a).

Definition published (w r : site) : bool :=
  s_write w && existsb (fun c => memS c (s_after r)) (s_before w).

Definition same_thread (a b : site) : bool :=
  negb (String.eqb (s_thread a) EmptyString) && String.eqb (s_thread a) (s_thread b).

Definition compatible (a b : site) : bool :=
  negb (String.eqb (s_field a) (s_field b))
  || (negb (s_write a) && negb (s_write b))
  || s_ctor a || s_ctor b
  || common_lock a b
  || published a b || published b a
  || same_thread a b.

(* an exemption: (field, function of one site, function of the other site) *)
Definition exemption := (string * string * string)%type.
Definition exempt (ex : list exemption) (a b : site) : bool :=
  existsb (fun e => match e with (f, f1, f2) =>
     String.eqb f (s_field a) &&
     ((String.eqb f1 (s_fn a) && String.eqb f2 (s_fn b)) ||
      (String.eqb f1 (s_fn b) && String.eqb f2 (s_fn a))) end) ex.

Local Open Scope string_scope.
(* Orderings the syntactic scan cannot see.  Each entry: field, the two functions, the reason. *)
Definition exemptions : list exemption := [
  (* newTunnelChannel hands the channel out only after receiving from awaitSettings (closed by
     recvLoop after these writes) or, when the context ended first, after closing the channel
     itself under mu - and allocateStream returns on [finished] (read under mu) before it
     reaches these reads; newStream reads useRevision only after allocateStream succeeded.
     Exercised under the race detector by the M3 family "ctor". *)
  ("tunnelChannel.useRevision", "tunnelChannel.recvLoop", "tunnelChannel.allocateStream");
  ("tunnelChannel.useRevision", "tunnelChannel.recvLoop", "tunnelChannel.newStream");
  ("tunnelChannel.settings", "tunnelChannel.recvLoop", "tunnelChannel.allocateStream")
].

(* The callers' side of the documented contract, which is not in the package's source: a
   grpc.Header / grpc.Trailer call-option target is read by the application after the
   corresponding completion signal (Header() returned / the RPC completed). *)
Definition user_sites : list site := [
  mkSite "tunnelClientStream.headersTargets.*" false [] false ["tunnelClientStream.gotHeadersSignal"] [] ""
         "(application reads a grpc.Header target after the headers signal)" 0;
  mkSite "tunnelClientStream.trailersTargets.*" false [] false ["tunnelClientStream.doneSignal"] [] ""
         "(application reads a grpc.Trailer target after the done signal)" 0
].

Definition bad_pairs (ex : list exemption) (t : list site) : list (site * site) :=
  flat_map (fun a => map (fun b => (a, b))
     (filter (fun b => negb (compatible a b) && negb (exempt ex a b)) t)) t.

Definition race_free (ex : list exemption) (t : list site) : bool :=
  match bad_pairs ex t with [] => true | _ => false end.

(* lock order: no cycle among "acquired while holding" edges.  [reach n] = transitive closure
   by n rounds; acyclic = no node reaches itself. *)
Definition succs (g : list (string * string)) (x : string) : list string :=
  map snd (filter (fun e => String.eqb (fst e) x) g).

Fixpoint reach (g : list (string * string)) (fuel : nat) (x : string) : list string :=
  match fuel with
  | O => []
  | S k => let ss := succs g x in ss ++ flat_map (reach g k) ss
  end.

Definition acyclic (g : list (string * string)) : bool :=
  forallb (fun e => negb (memS (fst e) (reach g (S (List.length g)) (fst e)))) g.

(* the same by a ranking certificate, which is what the no-deadlock theorem uses: every edge
   goes strictly down in [height] *)
Fixpoint height (g : list (string * string)) (fuel : nat) (x : string) : nat :=
  match fuel with
  | O => O
  | S k => S (fold_right Nat.max O (map (height g k) (succs g x)))
  end.

Definition ranked (g : list (string * string)) : bool :=
  let n := S (List.length g) in
  forallb (fun e => Nat.ltb (height g n (snd e)) (height g n (fst e))) g.
