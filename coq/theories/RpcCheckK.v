(* the client component: its invariant, checked on all 61 440 control states *)
From Coq Require Import List Bool Arith.
From RecordUpdate Require Import RecordUpdate.
From GT Require Import Rpc RpcInv.
Import ListNotations.

Lemma kcheck_all : forall_ck kcheck = true.
Proof. vm_compute. reflexivity. Qed.

Lemma kwo_all : forall_ck kwo_check = true.
Proof. vm_compute. reflexivity. Qed.

Lemma kP_notbad : forall k, kinv k = true -> P_k_notbad k = true. Proof. apply kinv_implies. vm_compute. reflexivity. Qed.
Lemma kP_noerr : forall k, kinv k = true -> P_k_noerr k = true. Proof. apply kinv_implies. vm_compute. reflexivity. Qed.
Lemma kP_tab : forall k, kinv k = true -> P_k_tab k = true. Proof. apply kinv_implies. vm_compute. reflexivity. Qed.

