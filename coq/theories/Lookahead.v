(* Call-shape enforcement on a non-streaming side (readMsg in tunnel_client.go and
   tunnel_server.go): after the first complete message the reader looks ahead; a second
   complete message fails the RPC, end-of-stream releases the first one.  The input is the
   sequence of results of successive readMsgLocked calls, i.e. the reassembly outputs of the
   frames the endpoint received before the half-close / close.  Model + proofs. *)
From Coq Require Import List NArith Bool.
From GT Require Import Frames.
Import ListNotations.
Set Implicit Arguments.

Section L.
Variable A : Type.

Inductive ures := UOk (m : list A) | UEof | UTooMany | UBad.

(* look-ahead: skip incomplete progress; a second complete message or a framing violation fails *)
Fixpoint look (outs : list (rout A)) : bool :=
  match outs with
  | [] => true                 (* end of stream: fine *)
  | Need :: r => look r        (* (a truncated tail is dropped by the closed receiver) *)
  | Got _ :: _ => false
  | Bad _ :: _ => false
  end.
Fixpoint look_err (outs : list (rout A)) : ures :=
  match outs with
  | [] => UEof
  | Need :: r => look_err r
  | Got _ :: _ => UTooMany
  | Bad _ :: _ => UBad
  end.

Fixpoint unary_scan (outs : list (rout A)) : ures :=
  match outs with
  | [] => UEof
  | Need :: r => unary_scan r
  | Bad _ :: _ => UBad
  | Got m :: r => if look r then UOk m else look_err r
  end.

(* what a non-streaming reader returns for the frames received before end-of-stream *)
Definition unary_read (fs : list (dframe A)) : ures := unary_scan (snd (rrun RIdle fs)).

Lemma look_gots outs : look outs = true -> gots outs = [].
Proof.
  induction outs as [|o r IH]; [reflexivity|]. destruct o; cbn; try discriminate. exact IH.
Qed.

(* the application obtains a message only if the frames carry exactly one complete message *)
Theorem unary_ok_exactly_one fs m : unary_read fs = UOk m -> delivered_of fs = [m].
Proof.
  unfold unary_read, delivered_of. generalize (snd (rrun RIdle fs)) as outs.
  induction outs as [|o r IH]; cbn; [discriminate|]. destruct o; cbn.
  - destruct (look r) eqn:E.
    + intro H; inversion H; subst. now rewrite (look_gots r E).
    + destruct r as [|[| |] r']; cbn in *; try discriminate.
      clear IH. revert E. induction r' as [|o' r'' IH']; cbn; [discriminate|]. destruct o'; cbn; try discriminate. exact IH'.
  - exact IH.
  - discriminate.
Qed.

(* two or more complete messages never yield success *)
Theorem unary_two_fails fs m1 m2 rest : delivered_of fs = m1 :: m2 :: rest -> forall m, unary_read fs <> UOk m.
Proof.
  intros H m E. apply unary_ok_exactly_one in E. rewrite E in H. discriminate.
Qed.

(* zero messages: end-of-stream, never a fabricated message *)
Theorem unary_none_is_eof fs : snd (rrun RIdle fs) = [] -> unary_read fs = UEof.
Proof. unfold unary_read. intros ->. reflexivity. Qed.

End L.

Arguments UEof {A}.
Arguments UTooMany {A}.
Arguments UBad {A}.
