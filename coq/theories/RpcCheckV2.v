(* the server component against any peer *)
From Coq Require Import List Bool Arith.
From RecordUpdate Require Import RecordUpdate.
From GT Require Import Rpc RpcInv.
Import ListNotations.

Lemma vcheck0_all : forall strict, forall_sv (vcheck0 strict) = true.
Proof. intros []; vm_compute; reflexivity. Qed.

Lemma vP_notbad0 strict : forall v, vinv0 strict v = true -> P_v_notbad v = true.
Proof. apply vinv0_implies. destruct strict; vm_compute; reflexivity. Qed.
