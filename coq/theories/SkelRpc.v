(* Code-shape facts the per-RPC model (Rpc.v) transcribes, on the guarded synchronisation skeletons
   regenerated from the Go source on every run (gen/Params.v, translator harness/paramscan): which
   test precedes which emission inside the write-locked methods and the table look-ups.
     CSend  : halfClosed refuses before anything is sent                    (tunnelClientStream.SendMsg)
     CHalf  : doneSignal first, then halfClosed, then the flag is set and the frame sent   (CloseSend)
     HSend  : closed refuses; headers go out first if they have not; then the message      (server SendMsg)
     HSendHdr : sentHeaders refuses; sendHeadersLocked sends, then sets the flag           (setHeader)
     getStream (both ends): a missing entry is ignored exactly when the id is not beyond the last one seen
   A change of shape breaks a lemma: the model no longer describes the code. *)
From Coq Require Import List String.
From GTgen Require Import Params.
Import ListNotations.
Local Open Scope string_scope.

Lemma tunnelClientStream_SendMsg_shape : gskel_tunnelClientStream_SendMsg =
  ["call writeMu.Lock"; "defer call writeMu.Unlock"; "if halfClosed"; "return"; "fi";
   "if !isClientStream && numSent == 1"; "return"; "fi"; "set numSent"; "return"; "return";
   "call sender.send"; "call loadDone"; "return"; "return"; "return"].
Proof. reflexivity. Qed.
Lemma tunnelClientStream_CloseSend_shape : gskel_tunnelClientStream_CloseSend =
  ["call writeMu.Lock"; "defer call writeMu.Unlock"; "select"; "recv doneSignal"; "call loadDone"; "return"; "end";
   "if halfClosed"; "return"; "fi"; "set halfClosed"; "call stream.Send"; "return"].
Proof. reflexivity. Qed.
Lemma tunnelServerStream_SendMsg_shape : gskel_tunnelServerStream_SendMsg =
  ["call writeMu.Lock"; "defer call writeMu.Unlock"; "if closed"; "call ctx.Err"; "return"; "return"; "fi";
   "if !sentHeaders"; "call sendHeadersLocked"; "return"; "fi";
   "if !isServerStream && numSent == 1"; "return"; "fi"; "set numSent"; "return"; "return"; "call sender.send"; "return"].
Proof. reflexivity. Qed.
Lemma tunnelServerStream_setHeader_shape : gskel_tunnelServerStream_setHeader =
  ["call writeMu.Lock"; "defer call writeMu.Unlock"; "if sentHeaders"; "return"; "fi"; "set headers";
   "call sendHeadersLocked"; "return"; "return"].
Proof. reflexivity. Qed.
Lemma tunnelServerStream_sendHeadersLocked_shape : gskel_tunnelServerStream_sendHeadersLocked =
  ["call stream.Send"; "set sentHeaders"; "set headers"; "return"].
Proof. reflexivity. Qed.
Lemma tunnelServerStream_setTrailer_shape : gskel_tunnelServerStream_setTrailer =
  ["call writeMu.Lock"; "defer call writeMu.Unlock"; "if closed"; "return"; "fi"; "set trailers"; "return"].
Proof. reflexivity. Qed.
Lemma tunnelServer_getStream_shape : gskel_tunnelServer_getStream =
  ["call mu.RLock"; "defer call mu.RUnlock"; "if streamID <= lastSeen"; "return"; "fi"; "return"; "return"].
Proof. reflexivity. Qed.
Lemma tunnelChannel_getStream_shape : gskel_tunnelChannel_getStream =
  ["call mu.RLock"; "defer call mu.RUnlock"; "if streamCreated && streamID <= lastStreamID"; "return"; "fi"; "return"; "return"].
Proof. reflexivity. Qed.
