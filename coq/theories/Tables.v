(* Stream tables of the two endpoints (tunnel_server.go createStream / getStream /
   removeStream; tunnel_client.go allocateStream / getStream / removeStream) and the
   tunnel-level frame routing around them.  Model only. *)
From Coq Require Import List ZArith NArith Bool.
From GTgen Require Import Params.
Import ListNotations.
Local Open Scope Z_scope.

Definition zmem (x : Z) (l : list Z) : bool := existsb (Z.eqb x) l.
Definition zremove (x : Z) (l : list Z) : list Z := filter (fun y => negb (Z.eqb x y)) l.

(* ---------- server ---------- *)
Record stab := mkStab { s_last : Z; s_active : list Z }.
Definition stab0 : stab := mkStab last_seen0 [].

(* what the method lookup says about the requested name *)
Inductive mstat := MOk | MMalformed | MUnknown.

Inductive cres := CTunnelErr | CReject (code : N) | CAccept.

(* createStream, in source order: duplicate / not-greater id => tunnel error; the id is recorded;
   then the stream-level rejections; else the stream is inserted *)
Definition st_create (s : stab) (id : Z) (closing : bool) (rev : Z) (m : mstat) : stab * cres :=
  if zmem id (s_active s) then (s, CTunnelErr)
  else if id <=? s_last s then (s, CTunnelErr)
  else
    let s1 := mkStab id (s_active s) in
    if closing then (s1, CReject (nth 0 create_rejection_codes 0%N))
    else if negb ((rev =? 0) || (rev =? 1)) then (s1, CReject (nth 1 create_rejection_codes 0%N))
    else match m with
         | MMalformed => (s1, CReject (nth 2 create_rejection_codes 0%N))
         | MUnknown => (s1, CReject (nth 3 create_rejection_codes 0%N))
         | MOk => (mkStab id (id :: s_active s), CAccept)
         end.

Inductive gres := GFound | GIgnore | GTunnelErr.
Definition st_get (s : stab) (id : Z) : gres :=
  if zmem id (s_active s) then GFound else if id <=? s_last s then GIgnore else GTunnelErr.
Definition st_remove (s : stab) (id : Z) : stab := mkStab (s_last s) (zremove id (s_active s)).

(* ---------- client ---------- *)
Record ctab := mkCtab { c_last : Z; c_created : bool; c_active : list Z; c_finished : bool }.
Definition ctab0 : ctab := mkCtab 0 false [] false.

(* allocateStream: the next id, unless the channel is finished *)
Definition ct_alloc (c : ctab) : ctab * option Z :=
  if c_finished c then (c, None)
  else if c_last c <? 0 then (c, None)
  else let id := c_last c + 1 in (mkCtab id true (id :: c_active c) false, Some id).
Definition ct_get (c : ctab) (id : Z) : gres :=
  if zmem id (c_active c) then GFound
  else if c_created c && (id <=? c_last c) then GIgnore else GTunnelErr.
Definition ct_remove (c : ctab) (id : Z) : ctab := mkCtab (c_last c) (c_created c) (zremove id (c_active c)) (c_finished c).
Definition ct_close (c : ctab) : ctab := mkCtab (c_last c) (c_created c) [] true.

(* ---------- the two tables and the carrier between them ---------- *)
(* frames are abstracted to what routing looks at: the id and whether it is a new_stream *)
Inductive cframe := FNew (id : Z) (closing_then : bool) (rev : Z) (m : mstat) | FOther (id : Z).
Definition cf_id (f : cframe) : Z := match f with FNew id _ _ _ => id | FOther id => id end.

Record tun := mkTun {
  t_c : ctab; t_s : stab;
  t_c2s : list cframe;          (* emitted by the client, not yet processed by the server loop *)
  t_s2c : list Z;               (* ids of frames emitted by the server, not yet processed by the client loop *)
  t_seen : list Z;              (* ghost: ids whose new_stream the server has processed *)
  t_alloc : list Z;             (* ghost: ids the client has allocated *)
  t_err : bool                  (* some loop reported a tunnel-level error *)
}.
Definition tun0 : tun := mkTun ctab0 stab0 [] [] [] [] false.

(* labels: the client application starts an RPC (allocation + emission of new_stream are one
   critical section), either endpoint emits a further frame for a stream it knows, a stream
   finishes locally at either end, a loop processes the next frame *)
Inductive tlbl :=
| TNew (closing_then : bool) (rev : Z) (m : mstat)
| TClientEmit (id : Z)        (* data / half-close / cancel / window update for an allocated id *)
| TServerEmit (id : Z)        (* headers / data / close / window update for an id the server has seen *)
| TClientFinish (id : Z)
| TServerFinish (id : Z)
| TServerLoop | TClientLoop.

Definition tstep (t : tun) (l : tlbl) : option tun :=
  match l with
  | TNew cl rev m =>
      match ct_alloc (t_c t) with
      | (c', Some id) => Some (mkTun c' (t_s t) (t_c2s t ++ [FNew id cl rev m]) (t_s2c t) (t_seen t) (id :: t_alloc t) (t_err t))
      | (_, None) => None
      end
  | TClientEmit id =>
      if zmem id (t_alloc t) then Some (mkTun (t_c t) (t_s t) (t_c2s t ++ [FOther id]) (t_s2c t) (t_seen t) (t_alloc t) (t_err t))
      else None
  | TServerEmit id =>
      if zmem id (t_seen t) then Some (mkTun (t_c t) (t_s t) (t_c2s t) (t_s2c t ++ [id]) (t_seen t) (t_alloc t) (t_err t))
      else None
  | TClientFinish id => Some (mkTun (ct_remove (t_c t) id) (t_s t) (t_c2s t) (t_s2c t) (t_seen t) (t_alloc t) (t_err t))
  | TServerFinish id => Some (mkTun (t_c t) (st_remove (t_s t) id) (t_c2s t) (t_s2c t) (t_seen t) (t_alloc t) (t_err t))
  | TServerLoop =>
      match t_c2s t with
      | [] => None
      | FNew id cl rev m :: rest =>
          let '(s', r) := st_create (t_s t) id cl rev m in
          Some (mkTun (t_c t) s' rest (t_s2c t) (id :: t_seen t) (t_alloc t)
                      (t_err t || match r with CTunnelErr => true | _ => false end))
      | FOther id :: rest =>
          Some (mkTun (t_c t) (t_s t) rest (t_s2c t) (t_seen t) (t_alloc t)
                      (t_err t || match st_get (t_s t) id with GTunnelErr => true | _ => false end))
      end
  | TClientLoop =>
      match t_s2c t with
      | [] => None
      | id :: rest =>
          Some (mkTun (t_c t) (t_s t) (t_c2s t) rest (t_seen t) (t_alloc t)
                      (t_err t || match ct_get (t_c t) id with GTunnelErr => true | _ => false end))
      end
  end.

Fixpoint trun (t : tun) (ls : list tlbl) : option tun :=
  match ls with
  | [] => Some t
  | l :: r => match tstep t l with Some t' => trun t' r | None => None end
  end.
