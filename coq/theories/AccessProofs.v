(* What the access-table check buys (C15), and the check itself on the regenerated table. *)
From Coq Require Import List Arith NArith Bool String Lia.
From GT Require Import Access.
From GTgen Require Import AccessTable.
Import ListNotations.
Local Open Scope string_scope.

(* ---- mutexes exclude ------------------------------------------------------------------- *)
(* A lock state gives, per goroutine, the mutexes it holds (exclusively or shared).  The steps
   are the ones sync.Mutex / sync.RWMutex permit. *)
Definition thread := nat.
Definition lockstate := thread -> list (string * bool).

Definition held_by (ls : lockstate) (t : thread) (l : string) : option bool :=
  match find (fun p => String.eqb (fst p) l) (ls t) with Some p => Some (snd p) | None => None end.

Definition mutex_ok (ls : lockstate) : Prop :=
  forall t1 t2 l e1 e2, t1 <> t2 -> held_by ls t1 l = Some e1 -> held_by ls t2 l = Some e2 -> e1 = false /\ e2 = false.

Inductive lstep (ls : lockstate) : lockstate -> Prop :=
| LAcquire t l ex :
    held_by ls t l = None ->
    (forall t', t' <> t -> match held_by ls t' l with None => True | Some e => ex = false /\ e = false end) ->
    lstep ls (fun u => if Nat.eqb u t then (l, ex) :: ls t else ls u)
| LRelease t l :
    lstep ls (fun u => if Nat.eqb u t then filter (fun p => negb (String.eqb (fst p) l)) (ls t) else ls u).

Lemma find_filter_other (l l' : string) (xs : list (string * bool)) :
  l <> l' ->
  find (fun p => String.eqb (fst p) l) (filter (fun p => negb (String.eqb (fst p) l')) xs)
  = find (fun p => String.eqb (fst p) l) xs.
Proof.
  intros Hne. induction xs as [|[k e] xs IH]; cbn; [reflexivity|].
  destruct (String.eqb k l') eqn:E1; cbn.
  - apply String.eqb_eq in E1. subst k.
    destruct (String.eqb l' l) eqn:E2; [apply String.eqb_eq in E2; congruence| exact IH].
  - destruct (String.eqb k l) eqn:E2; [reflexivity| exact IH].
Qed.

Lemma find_filter_same (l : string) (xs : list (string * bool)) :
  find (fun p => String.eqb (fst p) l) (filter (fun p => negb (String.eqb (fst p) l)) xs) = None.
Proof.
  induction xs as [|[k e] xs IH]; cbn; [reflexivity|].
  destruct (String.eqb k l) eqn:E1; cbn; [exact IH|]. rewrite E1. exact IH.
Qed.

Lemma mutex_ok_init : mutex_ok (fun _ => []).
Proof. intros t1 t2 l e1 e2 _ H. discriminate H. Qed.

Lemma mutex_ok_step ls ls' : mutex_ok ls -> lstep ls ls' -> mutex_ok ls'.
Proof.
  intros Hok Hst. destruct Hst as [t l ex Hfree Hothers | t l].
  - intros t1 t2 l0 e1 e2 Hne H1 H2. unfold held_by in H1, H2.
    destruct (Nat.eqb t1 t) eqn:E1; destruct (Nat.eqb t2 t) eqn:E2.
    + apply Nat.eqb_eq in E1, E2. congruence.
    + apply Nat.eqb_eq in E1. subst t1. cbn in H1.
      destruct (String.eqb l l0) eqn:El.
      * apply String.eqb_eq in El. subst l0. inversion H1; subst e1.
        specialize (Hothers t2 (fun H => Hne (eq_sym H))). unfold held_by in Hothers.
        destruct (find _ (ls t2)) as [p|]; [|discriminate]. inversion H2; subst.
        destruct Hothers as [-> ->]. split; reflexivity.
      * apply (Hok t t2 l0 e1 e2 Hne); unfold held_by; assumption.
    + apply Nat.eqb_eq in E2. subst t2. cbn in H2.
      destruct (String.eqb l l0) eqn:El.
      * apply String.eqb_eq in El. subst l0. inversion H2; subst e2.
        specialize (Hothers t1 Hne). unfold held_by in Hothers.
        destruct (find _ (ls t1)) as [p|]; [|discriminate]. inversion H1; subst.
        destruct Hothers as [-> ->]. split; reflexivity.
      * apply (Hok t1 t l0 e1 e2 Hne); unfold held_by; assumption.
    + apply (Hok t1 t2 l0 e1 e2 Hne); unfold held_by; assumption.
  - intros t1 t2 l0 e1 e2 Hne H1 H2. unfold held_by in H1, H2.
    assert (Hsub : forall u e, match find (fun p => String.eqb (fst p) l0)
                                   (if Nat.eqb u t then filter (fun p => negb (String.eqb (fst p) l)) (ls t) else ls u)
                               with Some p => Some (snd p) | None => None end = Some e -> held_by ls u l0 = Some e).
    { intros u e H. unfold held_by. destruct (Nat.eqb u t) eqn:E.
      - apply Nat.eqb_eq in E. subst u. destruct (String.eqb l0 l) eqn:El.
        + apply String.eqb_eq in El. subst l0. rewrite find_filter_same in H. discriminate.
        + apply String.eqb_neq in El. rewrite (@find_filter_other l0 l (ls t) El) in H. exact H.
      - exact H. }
    apply (Hok t1 t2 l0 e1 e2 Hne); apply Hsub; assumption.
Qed.

Inductive lreach : lockstate -> Prop :=
| lreach0 : lreach (fun _ => [])
| lreachS ls ls' : lreach ls -> lstep ls ls' -> lreach ls'.

Lemma lreach_ok ls : lreach ls -> mutex_ok ls.
Proof. induction 1; [apply mutex_ok_init | eapply mutex_ok_step; eassumption]. Qed.

(* A goroutine standing at a site holds at least the mutexes the table lists for it. *)
Definition stands_at (ls : lockstate) (t : thread) (s : site) : Prop :=
  forall l e, holds l s = Some e -> exists e', held_by ls t l = Some e' /\ (e = true -> e' = true).

Lemma common_lock_spec a b :
  common_lock a b = true ->
  exists l ea eb, holds l a = Some ea /\ holds l b = Some eb /\ (ea = true \/ eb = true).
Proof.
  unfold common_lock. intros H. apply existsb_exists in H. destruct H as [[l e0] [_ H]]. cbn in H.
  destruct (holds l a) as [ea|] eqn:Ha; [|discriminate].
  destruct (holds l b) as [eb|] eqn:Hb; [|discriminate].
  exists l, ea, eb. split; [exact Ha|]. split; [exact Hb|].
  apply orb_true_iff in H. exact H.
Qed.

(* Two different goroutines are never at two sites that share a mutex (one side exclusive). *)
Theorem common_lock_excludes ls t1 t2 a b :
  lreach ls -> t1 <> t2 -> stands_at ls t1 a -> stands_at ls t2 b -> common_lock a b = true -> False.
Proof.
  intros Hr Hne Ha Hb Hc. apply lreach_ok in Hr.
  destruct (common_lock_spec _ _ Hc) as [l [ea [eb [H1 [H2 Hex]]]]].
  destruct (Ha _ _ H1) as [ea' [Hh1 Hx1]]. destruct (Hb _ _ H2) as [eb' [Hh2 Hx2]].
  destruct (Hr t1 t2 l ea' eb' Hne Hh1 Hh2) as [-> ->].
  destruct Hex as [-> | ->]; [specialize (Hx1 eq_refl) | specialize (Hx2 eq_refl)]; discriminate.
Qed.

(* ---- publication by channel close ------------------------------------------------------- *)
(* Events of an execution in the order they happened; happens-before is program order plus
   "close(c) before a receive from c that returns because c is closed" (Go memory model). *)
Inductive evk := EWrite (f : string) | ERead (f : string) | EClose (c : string) | ERecvClosed (c : string).
Definition event := (thread * evk)%type.

Inductive hb (tr : list event) : nat -> nat -> Prop :=
| hb_po i j t k1 k2 : i < j -> nth_error tr i = Some (t, k1) -> nth_error tr j = Some (t, k2) -> hb tr i j
| hb_close i j t1 t2 c : i < j -> nth_error tr i = Some (t1, EClose c) -> nth_error tr j = Some (t2, ERecvClosed c) -> hb tr i j
| hb_trans i j k : hb tr i j -> hb tr j k -> hb tr i k.

Theorem publication_orders tr iw ic ir ird tw tr_ c f :
  nth_error tr iw = Some (tw, EWrite f) -> nth_error tr ic = Some (tw, EClose c) -> iw < ic ->
  nth_error tr ir = Some (tr_, ERecvClosed c) -> nth_error tr ird = Some (tr_, ERead f) -> ir < ird ->
  ic < ir ->
  hb tr iw ird.
Proof.
  intros Hw Hc Hwc Hr Hrd Hrr Hcr.
  eapply hb_trans; [eapply hb_po; eassumption|].
  eapply hb_trans; [eapply hb_close; eassumption|].
  eapply hb_po; eassumption.
Qed.

(* ---- the check -------------------------------------------------------------------------- *)
Lemma race_free_sound ex t :
  race_free ex t = true ->
  forall a b, In a t -> In b t -> compatible a b = true \/ exempt ex a b = true.
Proof.
  unfold race_free. intros H a b Ha Hb.
  destruct (bad_pairs ex t) as [|p ps] eqn:E; [|discriminate].
  destruct (compatible a b) eqn:C; [left; reflexivity|]. right.
  destruct (exempt ex a b) eqn:X; [reflexivity|]. exfalso.
  assert (Hin : In (a, b) (bad_pairs ex t)).
  { unfold bad_pairs. apply in_flat_map. exists a. split; [exact Ha|].
    apply in_map. apply filter_In. split; [exact Hb|]. rewrite C, X. reflexivity. }
  rewrite E in Hin. destruct Hin.
Qed.

Definition full_table : list site := access_table ++ user_sites.

Lemma table_race_free : race_free exemptions full_table = true.
Proof. vm_compute. reflexivity. Qed.

Lemma lock_order_acyclic : ranked lock_order = true /\ reacquire_count = 0%N.
Proof. vm_compute. split; reflexivity. Qed.

Example lock_order_nontrivial : (5 <? List.length lock_order)%nat = true /\ acyclic lock_order = true.
Proof. vm_compute. split; reflexivity. Qed.

(* ---- lock order ------------------------------------------------------------------------- *)
Inductive gpath (g : list (string * string)) : string -> string -> Prop :=
| gpath1 x y : In (x, y) g -> gpath g x y
| gpathS x y z : In (x, y) g -> gpath g y z -> gpath g x z.

Lemma ranked_path g x y :
  ranked g = true -> gpath g x y ->
  height g (S (List.length g)) y < height g (S (List.length g)) x.
Proof.
  intros Hr Hp. unfold ranked in Hr. rewrite forallb_forall in Hr.
  induction Hp as [x y Hin | x y z Hin _ IH].
  - specialize (Hr _ Hin). cbn [fst snd] in Hr. apply Nat.ltb_lt in Hr. exact Hr.
  - specialize (Hr _ Hin). cbn [fst snd] in Hr. apply Nat.ltb_lt in Hr. lia.
Qed.

Theorem ranked_no_cycle g x : ranked g = true -> ~ gpath g x x.
Proof. intros Hr Hp. pose proof (ranked_path g x x Hr Hp). lia. Qed.

(* A deadlock among mutexes is a cycle of goroutines each holding one mutex and waiting for the
   next one's; each such (held, wanted) pair is an "acquired while holding" edge of the code. *)
Fixpoint wait_chain (g : list (string * string)) (first : string) (cur : string) (ws : list (string * string)) : Prop :=
  match ws with
  | [] => cur = first
  | (h, w) :: rest => h = cur /\ In (h, w) g /\ wait_chain g first w rest
  end.

Lemma wait_chain_path g first cur ws :
  ws <> [] -> wait_chain g first cur ws -> gpath g cur first.
Proof.
  revert cur. induction ws as [|[h w] rest IH]; intros cur Hne Hc; [congruence|].
  cbn in Hc. destruct Hc as [-> [Hin Hrest]].
  destruct rest as [|p rest'].
  - cbn in Hrest. subst w. apply gpath1. exact Hin.
  - eapply gpathS; [exact Hin|]. apply IH; [discriminate| exact Hrest].
Qed.

Theorem no_mutex_deadlock g first ws :
  ranked g = true -> ws <> [] -> ~ wait_chain g first first ws.
Proof. intros Hr Hne Hc. exact (ranked_no_cycle g first Hr (wait_chain_path g first first ws Hne Hc)). Qed.

(* Every two accesses to one field, one of them a write, anywhere in the package's source, are
   separated by one of the recorded reasons; and where the reason is a common mutex, no
   reachable lock state has two goroutines at the two sites. *)
Theorem access_discipline :
  (forall a b, In a full_table -> In b full_table ->
     s_field a = s_field b -> (s_write a = true \/ s_write b = true) ->
     s_ctor a = true \/ s_ctor b = true
     \/ (common_lock a b = true /\
         forall ls t1 t2, lreach ls -> t1 <> t2 -> stands_at ls t1 a -> stands_at ls t2 b -> False)
     \/ published a b = true \/ published b a = true
     \/ same_thread a b = true
     \/ exempt exemptions a b = true)
  /\ (forall first ws, ws <> [] -> ~ wait_chain lock_order first first ws) /\ reacquire_count = 0%N.
Proof.
  split; [|split; [intros first ws; apply no_mutex_deadlock; exact (proj1 lock_order_acyclic) | exact (proj2 lock_order_acyclic)]].
  intros a b Ha Hb Hf Hw.
  destruct (race_free_sound _ _ table_race_free a b Ha Hb) as [C|X]; [|do 6 right; exact X].
  unfold compatible in C. rewrite Hf, String.eqb_refl in C. cbn [negb orb] in C.
  repeat (apply orb_true_iff in C; destruct C as [C|C]); auto 10.
  - apply andb_true_iff in C. destruct C as [C1 C2]. apply negb_true_iff in C1, C2.
    destruct Hw as [Hw|Hw]; congruence.
  - right. right. left. split; [exact C|]. intros ls t1 t2 Hr Hne H1 H2.
    exact (@common_lock_excludes ls t1 t2 a b Hr Hne H1 H2 C).
Qed.

(* non-vacuity: the table is not empty, contains writes under mutexes, publications and the
   one-goroutine sites *)
Example table_nontrivial :
  (200 <? List.length access_table)%nat = true /\
  existsb (fun s => s_write s && negb (s_ctor s) && match s_locks s with [] => false | _ => true end) access_table = true /\
  existsb (fun s => match s_before s with [] => false | _ => s_write s end) access_table = true /\
  existsb (fun s => match s_after s with [] => false | _ => true end) access_table = true /\
  existsb (fun s => negb (String.eqb (s_thread s) "")) access_table = true.
Proof. vm_compute. repeat split. Qed.
