(* C17: the accessors of tunnel_metadata.go return md.Copy().  Metadata objects live in a
   store of locations so that aliasing is expressible: an accessor allocates a fresh location
   holding a copy; mutation through it cannot be observed through any other location. *)
From Coq Require Import List NArith Bool Arith Lia.
From GT Require Import Trace.
Import ListNotations.

Record store := mkStore { cells : list (nat * mdt); next : nat }.
Definition store_wf (s : store) : Prop := forall l m, In (l, m) (cells s) -> l < next s.

Fixpoint lookup (l : nat) (c : list (nat * mdt)) : option mdt :=
  match c with [] => None | (l', m) :: r => if Nat.eqb l l' then Some m else lookup l r end.
Definition read (s : store) (l : nat) : option mdt := lookup l (cells s).

(* a context value holding the tunnel's opening metadata *)
Record tctx := mkTctx { tmd_loc : option nat; chan : option N }.

(* TunnelMetadataFrom*Context: (copy, ok) *)
Definition get_tunnel_md (s : store) (c : tctx) : store * option nat :=
  match tmd_loc c with
  | None => (s, None)
  | Some l => match read s l with
              | None => (s, None)
              | Some m => (mkStore ((next s, m) :: cells s) (S (next s)), Some (next s))
              end
  end.

(* the application mutates what it was given *)
Fixpoint write_cells (l : nat) (m : mdt) (c : list (nat * mdt)) : list (nat * mdt) :=
  match c with
  | [] => []
  | (l', m') :: r => if Nat.eqb l l' then (l', m) :: r else (l', m') :: write_cells l m r
  end.
Definition write (s : store) (l : nat) (m : mdt) : store := mkStore (write_cells l m (cells s)) (next s).

Lemma lookup_lt s l : store_wf s -> next s <= l -> read s l = None.
Proof.
  unfold store_wf, read. intros W H. induction (cells s) as [|[l' m'] r IH]; [reflexivity|]. cbn.
  destruct (Nat.eqb_spec l l') as [->|Hne].
  - specialize (W l' m' (or_introl eq_refl)). lia.
  - apply IH. intros l0 m0 Hin. apply (W l0 m0). right. assumption.
Qed.

Lemma lookup_write_other l l' m c : l <> l' -> lookup l' (write_cells l m c) = lookup l' c.
Proof.
  intro H. induction c as [|[k v] r IH]; [reflexivity|]. cbn.
  destruct (Nat.eqb_spec l k) as [->|Hk]; cbn.
  - destruct (Nat.eqb_spec l' k); [congruence|reflexivity].
  - destruct (Nat.eqb l' k); [reflexivity|exact IH].
Qed.

(* the copy equals the tunnel's metadata ... *)
Theorem accessor_returns_equal_copy s c s' l : store_wf s -> get_tunnel_md s c = (s', Some l) ->
  exists l0, tmd_loc c = Some l0 /\ read s' l = read s l0 /\ l <> l0 /\ store_wf s'.
Proof.
  unfold get_tunnel_md. intros W. destruct (tmd_loc c) as [l0|]; [|discriminate].
  destruct (read s l0) as [m|] eqn:E; [|discriminate]. intro H; inversion H; subst; clear H.
  exists l0. split; [reflexivity|]. unfold read. cbn [cells lookup]. rewrite Nat.eqb_refl.
  assert (Hl0 : l0 < next s).
  { destruct (Nat.lt_ge_cases l0 (next s)); [assumption|]. rewrite (lookup_lt s l0 W) in E by assumption. discriminate. }
  repeat split; [symmetry; exact E|lia|].
  intros k v [Hin|Hin]; cbn [next]; [inversion Hin; lia|]. specialize (W k v Hin). lia.
Qed.

(* ... and whatever the caller then does to it, nobody else sees a change: not the tunnel's own
   metadata, not the copy any other RPC obtained *)
Theorem mutation_is_private s c s' l m' : store_wf s -> get_tunnel_md s c = (s', Some l) ->
  forall k, k <> l -> read (write s' l m') k = read s' k.
Proof.
  intros W H k Hk. unfold read, write. cbn [cells]. apply lookup_write_other. congruence.
Qed.

Theorem two_copies_are_independent s c s1 l1 s2 l2 m' : store_wf s ->
  get_tunnel_md s c = (s1, Some l1) -> get_tunnel_md s1 c = (s2, Some l2) ->
  l1 <> l2 /\ read (write s2 l1 m') l2 = read s2 l2.
Proof.
  intros W H1 H2.
  destruct (accessor_returns_equal_copy s c s1 l1 W H1) as (l0 & E0 & _ & _ & W1).
  assert (Hl1 : l1 = next s).
  { unfold get_tunnel_md in H1. rewrite E0 in H1. destruct (read s l0); inversion H1; reflexivity. }
  assert (Hl2 : l2 = next s1).
  { unfold get_tunnel_md in H2. rewrite E0 in H2. destruct (read s1 l0); inversion H2; reflexivity. }
  assert (Hn : next s1 = S (next s)).
  { unfold get_tunnel_md in H1. rewrite E0 in H1. destruct (read s l0); inversion H1; reflexivity. }
  split; [lia|]. unfold read, write. cbn [cells]. apply lookup_write_other. lia.
Qed.
