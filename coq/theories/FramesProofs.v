(* Proofs about framing: every legal chunking reassembles to exactly the message;
   a sequence of messages is delivered exactly, in order; any prefix of the frame
   stream yields a prefix of the message sequence (nothing fabricated, merged,
   reordered or duplicated); both senders only produce legal chunkings. *)
From Coq Require Import List Arith NArith Lia Bool ZifyN ZifyNat ZifyBool.
From GT Require Import Frames.
Import ListNotations.
Set Implicit Arguments.

Lemma list_sum_cons c cs : list_sum (c :: cs) = c + list_sum cs.
Proof. reflexivity. Qed.

Ltac norm_sum := rewrite ?list_sum_cons in *; change (list_sum (@nil nat)) with 0 in *.
Ltac splits := repeat match goal with |- _ /\ _ => split end.

Definition prefix {T} (l1 l2 : list T) : Prop := exists r, l2 = l1 ++ r.

Lemma prefix_refl {T} (l : list T) : prefix l l.
Proof. exists []. now rewrite app_nil_r. Qed.

Lemma prefix_firstn {T} k (l : list T) : prefix (firstn k l) l.
Proof. exists (skipn k l). symmetry. apply firstn_skipn. Qed.

Section P.
Variable A : Type.
Notation dframe := (dframe A).
Notation rstate := (rstate A).
Notation rout := (rout A).

Lemma rrun_app (s : rstate) (a b : list dframe) :
  rrun s (a ++ b) =
  let '(s', o1) := rrun s a in let '(s'', o2) := rrun s' b in (s'', o1 ++ o2).
Proof.
  revert s. induction a as [|f a IH]; intro s; cbn [app rrun].
  - destruct (rrun s b). reflexivity.
  - destruct (rstep s f) as [s1 o]. rewrite IH.
    destruct (rrun s1 a) as [s2 o1]. destruct (rrun s2 b) as [s3 o2]. reflexivity.
Qed.

Lemma rrun_firstn (s : rstate) (fs : list dframe) k :
  snd (rrun s (firstn k fs)) = firstn k (snd (rrun s fs)).
Proof.
  revert s k. induction fs as [|f fs IH]; intros s k.
  - destruct k; reflexivity.
  - destruct k; [reflexivity|]. cbn [firstn rrun].
    destruct (rstep s f) as [s1 o]. specialize (IH s1 k).
    destruct (rrun s1 (firstn k fs)) as [s2 os]. destruct (rrun s1 fs) as [s3 os'].
    cbn [snd firstn] in *. now rewrite IH.
Qed.

Lemma gots_app (a b : list rout) : gots (a ++ b) = gots a ++ gots b.
Proof.
  induction a as [|o a IH]; [reflexivity|]. cbn [app gots]. destruct o; rewrite ?IH; reflexivity.
Qed.

Lemma gots_prefix (a b : list rout) : prefix a b -> prefix (gots a) (gots b).
Proof. intros [r ->]. exists (gots r). apply gots_app. Qed.

Lemma gots_repeat_need n : gots (repeat (@Need A) n) = [].
Proof. induction n; [reflexivity|]. cbn. assumption. Qed.

(* ---------- round trip for one message, any legal chunking ---------- *)
Lemma rrun_more sz (b : list A) cs rest :
  Forall (fun c => 0 < c) cs -> list_sum cs = length rest ->
  (lenN b + lenN rest = sz)%N -> cs <> [] ->
  rrun (RPart sz b) (map (@More A) (cut cs rest)) =
    (RIdle, repeat Need (length cs - 1) ++ [Got (b ++ rest)]).
Proof.
  revert b rest. induction cs as [|c cs IH]; intros b rest Hpos Hsum Hsz Hne; [congruence|].
  cbn [cut map rrun rstep]. apply Forall_cons_iff in Hpos as [Hc Hpos'].
  rewrite list_sum_cons in Hsum.
  assert (Hlen : length (firstn c rest) = c) by (rewrite firstn_length; lia).
  assert (Hlen' : length (skipn c rest) = list_sum cs) by (rewrite skipn_length; lia).
  unfold fill, lenN in *. rewrite app_length, Hlen.
  destruct cs as [|c' cs'].
  - change (list_sum []) with 0 in *. assert (c = length rest) by lia. subst c.
    rewrite firstn_all.
    replace (sz <? N.of_nat (length b + length rest))%N with false by lia.
    replace (N.of_nat (length b + length rest) =? sz)%N with true by lia.
    reflexivity.
  - assert (0 < c') by (apply Forall_cons_iff in Hpos' as [? _]; assumption).
    rewrite ?list_sum_cons in *.
    replace (sz <? N.of_nat (length b + c))%N with false by lia.
    replace (N.of_nat (length b + c) =? sz)%N with false by lia.
    rewrite (IH (b ++ firstn c rest) (skipn c rest)); try assumption; try congruence.
    + rewrite <- app_assoc, firstn_skipn. cbn [length Nat.sub]. rewrite Nat.sub_0_r. reflexivity.
    + rewrite app_length, Hlen. lia.
Qed.

Theorem reasm_roundtrip cmax (m : list A) cs :
  legal cmax cs m ->
  rrun RIdle (frames_of m cs) = (RIdle, repeat Need (length cs - 1) ++ [Got m]).
Proof.
  intros (Hne & Hsum & _ & Hpos & Hemp). unfold frames_of.
  destruct cs as [|c cs]; [congruence|]. cbn [cut rrun rstep]. unfold fill.
  rewrite list_sum_cons in Hsum.
  destruct m as [|a m'].
  - specialize (Hemp eq_refl). destruct cs; [|discriminate]. cbn in *.
    assert (c = 0) by lia. subst c. reflexivity.
  - specialize (Hpos ltac:(discriminate)). apply Forall_cons_iff in Hpos as [Hc Hpos].
    set (m := a :: m') in *.
    assert (Hlen : length (firstn c m) = c) by (rewrite firstn_length; lia).
    unfold lenN. rewrite Hlen.
    destruct cs as [|c' cs'].
    + change (list_sum []) with 0 in Hsum. assert (c = length m) by lia. subst c.
      rewrite firstn_all.
      replace (N.of_nat (length m) <? N.of_nat (length m))%N with false by lia.
      replace (N.of_nat (length m) =? N.of_nat (length m))%N with true by lia.
      reflexivity.
    + assert (0 < c') by (apply Forall_cons_iff in Hpos as [? _]; assumption).
      rewrite list_sum_cons in Hsum.
      replace (N.of_nat (length m) <? N.of_nat c)%N with false by lia.
      replace (N.of_nat c =? N.of_nat (length m))%N with false by lia.
      rewrite (@rrun_more (N.of_nat (length m)) (firstn c m) (c' :: cs') (skipn c m)); try assumption; try congruence.
      * rewrite firstn_skipn. cbn [length Nat.sub]. rewrite Nat.sub_0_r. reflexivity.
      * rewrite skipn_length, list_sum_cons. lia.
      * unfold lenN. rewrite Hlen, skipn_length. lia.
Qed.

(* ---------- a sequence of messages ---------- *)
Fixpoint frames_all (mcs : list (list A * list nat)) : list dframe :=
  match mcs with
  | [] => []
  | (m, cs) :: r => frames_of m cs ++ frames_all r
  end.

Theorem stream_roundtrip cmax (mcs : list (list A * list nat)) :
  Forall (fun mc => legal cmax (snd mc) (fst mc)) mcs ->
  fst (rrun RIdle (frames_all mcs)) = RIdle /\
  delivered_of (frames_all mcs) = map fst mcs.
Proof.
  unfold delivered_of.
  induction mcs as [|[m cs] r IH]; intro H; [split; reflexivity|].
  apply Forall_cons_iff in H as [Hl Hr]. cbn [fst snd] in Hl.
  cbn [frames_all map fst]. rewrite rrun_app, (reasm_roundtrip Hl).
  destruct (IH Hr) as [IH1 IH2].
  destruct (rrun RIdle (frames_all r)) as [s os]. cbn [fst snd] in *.
  split; [assumption|].
  rewrite !gots_app, gots_repeat_need. cbn [gots app]. now rewrite IH2.
Qed.

(* exactly-once, in-order, intact: whatever prefix of the frame stream the reader has
   consumed, what it has delivered is a prefix of what was submitted *)
Theorem delivered_prefix cmax (mcs : list (list A * list nat)) k :
  Forall (fun mc => legal cmax (snd mc) (fst mc)) mcs ->
  prefix (delivered_of (firstn k (frames_all mcs))) (map fst mcs).
Proof.
  intro H. destruct (stream_roundtrip H) as [_ E]. rewrite <- E.
  unfold delivered_of. rewrite rrun_firstn. apply gots_prefix, prefix_firstn.
Qed.

(* no fabrication: a message is only ever produced from an envelope announcing its length *)
Lemma rstep_got (s : rstate) f s' (m : list A) : rstep s f = (s', Got m) ->
  s' = RIdle /\
  ((exists sz d, s = RIdle /\ f = Env sz d /\ m = d /\ lenN m = sz) \/
   (exists sz b d, s = RPart sz b /\ f = More d /\ m = b ++ d /\ lenN m = sz)).
Proof.
  destruct s as [|sz b|], f as [sz' d|d]; cbn [rstep]; unfold fill; intro H;
    repeat match type of H with context [if ?c then _ else _] => destruct c eqn:? end;
    inversion H; subst; split; try reflexivity.
  - left. do 2 eexists. repeat split. lia.
  - right. do 3 eexists. repeat split. lia.
Qed.

(* failure is sticky and total: any frame sequence is classified, none gets the reader stuck *)
Lemma rrun_failed (fs : list dframe) :
  fst (rrun RFailed fs) = RFailed /\ gots (snd (rrun RFailed fs)) = [].
Proof.
  induction fs as [|f fs [IH1 IH2]]; [split; reflexivity|].
  cbn [rrun rstep]. destruct (rrun RFailed fs) as [s os]. cbn [fst snd gots] in *. auto.
Qed.

(* ---------- the senders produce legal chunkings ---------- *)
Lemma chunks_nofc_fuel_spec cmax : 0 < cmax -> forall fuel rem, rem < fuel ->
  let cs := chunks_nofc_fuel fuel cmax rem in
  cs <> [] /\ list_sum cs = rem /\ Forall (fun c => c <= cmax) cs /\
  (0 < rem -> Forall (fun c => 0 < c) cs) /\ (rem = 0 -> length cs = 1).
Proof.
  intros Hc. induction fuel as [|fuel IH]; intros rem Hf; [lia|].
  cbn [chunks_nofc_fuel].
  destruct (Nat.eqb (Nat.min cmax rem) rem) eqn:E.
  - apply Nat.eqb_eq in E. cbn [length]. norm_sum.
    splits; try congruence; try lia.
    + constructor; [lia|constructor].
    + intro. constructor; [lia|constructor].
  - apply Nat.eqb_neq in E. assert (Hm : Nat.min cmax rem = cmax) by lia.
    rewrite Hm. specialize (IH (rem - cmax) ltac:(lia)).
    destruct IH as (I1 & I2 & I3 & I4 & I5).
    splits; try congruence.
    + rewrite list_sum_cons, I2. lia.
    + constructor; [lia|assumption].
    + intro. constructor; [lia| apply I4; lia].
    + lia.
Qed.

Theorem chunks_nofc_legal cmax (m : list A) : 0 < cmax -> legal cmax (chunks_nofc cmax m) m.
Proof.
  intro Hc. unfold chunks_nofc, legal.
  destruct (chunks_nofc_fuel_spec Hc (fuel := S (length m)) (rem := length m) ltac:(lia))
    as (I1 & I2 & I3 & I4 & I5).
  splits; try assumption.
  - intro Hm. apply I4. destruct m; [congruence|cbn; lia].
  - intro Hm. apply I5. now subst m.
Qed.

(* the flow-controlled sender: every observed window is positive; when the loop has
   finished (the chunk sizes add up to the message length) the chunking is legal *)
Lemma chunks_fc_spec cmax : 0 < cmax -> forall ws rem,
  Forall (fun w => 0 < w) ws ->
  let cs := chunks_fc cmax ws rem in
  list_sum cs <= rem /\ Forall (fun c => c <= cmax) cs /\
  (0 < rem -> Forall (fun c => 0 < c) cs) /\
  (list_sum cs = rem -> cs <> [] -> (rem = 0 -> length cs = 1)).
Proof.
  intro Hc. induction ws as [|w ws IH]; intros rem Hw; cbn [chunks_fc].
  - norm_sum. splits; try lia; try constructor. congruence.
  - apply Forall_cons_iff in Hw as [Hw1 Hw2].
    destruct (Nat.eqb (Nat.min w (Nat.min rem cmax)) rem) eqn:E.
    + apply Nat.eqb_eq in E. cbn [length]. norm_sum. splits; try lia.
      * constructor; [lia|constructor].
      * intro. constructor; [lia|constructor].
    + apply Nat.eqb_neq in E. specialize (IH (rem - Nat.min w (Nat.min rem cmax)) Hw2).
      destruct IH as (I1 & I2 & I3 & I4).
      rewrite list_sum_cons. splits.
      * lia.
      * constructor; [lia|assumption].
      * intro. constructor; [lia| apply I3; lia].
      * intros _ _ H0. subst rem. exfalso. apply E. lia.
Qed.

Theorem chunks_fc_legal cmax ws (m : list A) : 0 < cmax ->
  Forall (fun w => 0 < w) ws ->
  list_sum (chunks_fc cmax ws (length m)) = length m -> chunks_fc cmax ws (length m) <> [] ->
  legal cmax (chunks_fc cmax ws (length m)) m.
Proof.
  intros Hc Hw Hs Hne. destruct (chunks_fc_spec Hc (length m) Hw) as (I1 & I2 & I3 & I4).
  unfold legal. splits; try assumption.
  - intro Hm. apply I3. destruct m; [congruence|cbn; lia].
  - intro Hm. apply I4; try assumption. now subst m.
Qed.

(* every data frame a sender emits carries at most cmax bytes *)
Lemma cut_lengths (cs : list nat) (m : list A) cmax :
  Forall (fun c => c <= cmax) cs -> Forall (fun d => length d <= cmax) (cut cs m).
Proof.
  revert m. induction cs as [|c cs IH]; intros m H; cbn [cut]; [constructor|].
  apply Forall_cons_iff in H as [H1 H2]. constructor; [|apply IH; assumption].
  rewrite firstn_length. lia.
Qed.

Theorem frames_bounded cmax (m : list A) cs : legal cmax cs m ->
  Forall (fun f => (dsize f <= N.of_nat cmax)%N) (frames_of m cs).
Proof.
  intros (_ & _ & Hb & _). unfold frames_of.
  pose proof (cut_lengths m Hb) as H.
  destruct (cut cs m) as [|d ds]; [constructor|].
  apply Forall_cons_iff in H as [H1 H2]. constructor.
  - unfold dsize, lenN. lia.
  - clear H1. induction ds as [|x ds IH]; [constructor|].
    apply Forall_cons_iff in H2 as [Hx H2]. cbn [map]. constructor; [|apply IH; assumption].
    unfold dsize, lenN. lia.
Qed.

End P.
