(* Thread-level model of how a client stream ends (tunnel_client.go finishStream,
   cancelStream, RecvMsg's terminal path, Trailer()).  Two goroutines race to finish the
   stream (say the receive loop processing close_stream and the context watcher; the
   third possible finisher, a reader that hit a protocol violation, is symmetric); the
   first compare-and-swap on [done] wins.  Values are abstracted to "whose": the outcome
   and the trailers observed are those of finisher A or of finisher B.  One label = one
   step of one goroutine.  Model only. *)
From Coq Require Import List Bool.
Import ListNotations.

Inductive who2 := FA | FB.
(* program counter of a finisher inside finishStream *)
Inductive stage :=
| StCas        (* about to compare-and-swap done *)
| StRemove     (* won: about to remove the table entry *)
| StStep2 | StStep3 | StStep4   (* the three publication steps, in source order *)
| StEnd.       (* returned (or lost the race) *)

Record cf := mkCf {
  cf_done : option who2;         (* done: write-once *)
  cf_trailers : option who2;     (* st.trailers / grpc.Trailer targets: whose trailers are stored *)
  cf_signal : bool;              (* doneSignal closed *)
  cf_rcv_closed : bool;          (* receiver closed: a blocked RecvMsg may return the final result *)
  cf_a : stage; cf_b : stage;
  (* what RecvMsg returned as the terminal result and what Trailer() gave right after *)
  cf_read : option (option who2 * option who2)
}.

Definition cf_init : cf := mkCf None None false false StCas StCas None.

Inductive clbl := StepA | StepB | Read.

(* one step of finisher [w] at stage [st]; [close_first] is the order before the repair
   (receiver closed, then trailers stored, then doneSignal closed) *)
Definition fin_step (close_first : bool) (s : cf) (w : who2) (st : stage) : option (cf * stage) :=
  let mk d t sg rc := mkCf d t sg rc (cf_a s) (cf_b s) (cf_read s) in
  match st with
  | StCas => match cf_done s with
             | None => Some (mk (Some w) (cf_trailers s) (cf_signal s) (cf_rcv_closed s), StRemove)
             | Some _ => Some (s, StEnd)
             end
  | StRemove => Some (s, StStep2)
  | StStep2 => if close_first then Some (mk (cf_done s) (cf_trailers s) (cf_signal s) true, StStep3)
               else Some (mk (cf_done s) (Some w) (cf_signal s) (cf_rcv_closed s), StStep3)
  | StStep3 => if close_first then Some (mk (cf_done s) (Some w) (cf_signal s) (cf_rcv_closed s), StStep4)
               else Some (mk (cf_done s) (cf_trailers s) true (cf_rcv_closed s), StStep4)
  | StStep4 => if close_first then Some (mk (cf_done s) (cf_trailers s) true (cf_rcv_closed s), StEnd)
               else Some (mk (cf_done s) (cf_trailers s) (cf_signal s) true, StEnd)
  | StEnd => None
  end.

Definition cf_step (close_first : bool) (s : cf) (l : clbl) : option cf :=
  match l with
  | StepA => match fin_step close_first s FA (cf_a s) with
             | Some (s', st) => Some (mkCf (cf_done s') (cf_trailers s') (cf_signal s') (cf_rcv_closed s') st (cf_b s') (cf_read s'))
             | None => None end
  | StepB => match fin_step close_first s FB (cf_b s) with
             | Some (s', st) => Some (mkCf (cf_done s') (cf_trailers s') (cf_signal s') (cf_rcv_closed s') (cf_a s') st (cf_read s'))
             | None => None end
  | Read =>
      (* a blocked RecvMsg returns the final result only once the receiver is closed *)
      if cf_rcv_closed s then
        match cf_read s with
        | Some _ => None
        | None => Some (mkCf (cf_done s) (cf_trailers s) (cf_signal s) true (cf_a s) (cf_b s)
                             (Some (cf_done s, if cf_signal s then cf_trailers s else None)))
        end
      else None
  end.

Fixpoint cf_run (cfst : bool) (s : cf) (ls : list clbl) : option cf :=
  match ls with
  | [] => Some s
  | l :: r => match cf_step cfst s l with Some s' => cf_run cfst s' r | None => None end
  end.

(* the property: the terminal result is one finisher's outcome, and the trailers visible right
   after are that same finisher's *)
Definition read_ok (s : cf) : bool :=
  match cf_read s with
  | None => true
  | Some (Some FA, Some FA) | Some (Some FB, Some FB) => true
  | Some _ => false
  end.
