From Coq Require Import List Bool Arith.
From RecordUpdate Require Import RecordUpdate.
From GT Require Import Rpc RpcInv.
Import ListNotations.

(* consequences of the server invariant, evaluated in one pass over all control states *)
Definition P_v_all (strict : bool) (v : sv) : bool :=
  P_v_notbad v && P_v_noerr v && P_v_settled v && P_v_tab1 v && P_v_tab2 v && P_v_tab3 v &&
  (if strict then P_v_last v else true).
Lemma vP_all strict : forall v, vinv strict v = true -> P_v_all strict v = true.
Proof. apply vinv_implies. destruct strict; vm_compute; reflexivity. Qed.
Ltac split_all H := unfold P_v_all in H; repeat (apply andb_true_iff in H; let H' := fresh in destruct H as [H H']).
Lemma vP_notbad strict : forall v, vinv strict v = true -> P_v_notbad v = true.
Proof. intros v Hv. pose proof (vP_all _ _ Hv) as H. split_all H. assumption. Qed.
Lemma vP_noerr strict : forall v, vinv strict v = true -> P_v_noerr v = true.
Proof. intros v Hv. pose proof (vP_all _ _ Hv) as H. split_all H. assumption. Qed.
Lemma vP_settled strict : forall v, vinv strict v = true -> P_v_settled v = true.
Proof. intros v Hv. pose proof (vP_all _ _ Hv) as H. split_all H. assumption. Qed.
Lemma vP_tab1 strict : forall v, vinv strict v = true -> P_v_tab1 v = true.
Proof. intros v Hv. pose proof (vP_all _ _ Hv) as H. split_all H. assumption. Qed.
Lemma vP_tab2 strict : forall v, vinv strict v = true -> P_v_tab2 v = true.
Proof. intros v Hv. pose proof (vP_all _ _ Hv) as H. split_all H. assumption. Qed.
Lemma vP_tab3 strict : forall v, vinv strict v = true -> P_v_tab3 v = true.
Proof. intros v Hv. pose proof (vP_all _ _ Hv) as H. split_all H. assumption. Qed.
Lemma vP_last : forall v, vinv true v = true -> P_v_last v = true.
Proof. intros v Hv. pose proof (vP_all _ _ Hv) as H. split_all H. assumption. Qed.
