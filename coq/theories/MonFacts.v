(* Facts tying monitor definitions to the models they abbreviate. *)
From Coq Require Import List Arith NArith Lia Bool ZifyN ZifyNat ZifyBool.
From GT Require Import Frames FramesProofs Trace MonWire MonApp.
Import ListNotations.
Local Open Scope N_scope.

Section CountComplete.
Variable A : Type.

Definition size_image (f : dframe A) : option N * N :=
  match f with Env sz d => (Some sz, lenN d) | More d => (None, lenN d) end.

(* reassembly state vs the monitor's counting state *)
Definition rel (st : rstate A) (cur : option (N * N)) (bad : bool) : Prop :=
  match st with
  | RIdle => cur = None /\ bad = false
  | RPart sz b => cur = Some (sz, lenN b) /\ bad = false
  | RFailed => bad = true
  end.

Lemma lenN_app (a b : list A) : lenN (a ++ b) = lenN a + lenN b.
Proof. unfold lenN. rewrite app_length. lia. Qed.

Lemma fill_rel sz (b : list A) n :
  let '(st', o) := fill sz b in
  exists cur' bad',
    (if sz <? lenN b then (None, n, true) else if lenN b =? sz then (None, S n, false) else (Some (sz, lenN b), n, false))
    = (cur', (n + length (gots [o]))%nat, bad') /\ rel st' cur' bad'.
Proof.
  unfold fill. destruct (sz <? lenN b) eqn:E1.
  - exists None, true. cbn. split; [f_equal; f_equal; lia | reflexivity].
  - destruct (lenN b =? sz) eqn:E2.
    + exists None, false. cbn. split; [f_equal; f_equal; lia | split; reflexivity].
    + exists (Some (sz, lenN b)), false. cbn. split; [f_equal; f_equal; lia | split; reflexivity].
Qed.

Lemma cm_step_sim st cur bad n (f : dframe A) :
  rel st cur bad ->
  let '(st', o) := rstep st f in
  exists cur' bad', cm_step (cur, n, bad) (size_image f) = (cur', (n + length (gots [o]))%nat, bad') /\ rel st' cur' bad'.
Proof.
  intros R. destruct st as [|sz b|]; cbn [rel] in R.
  - destruct R as [-> ->]. destruct f as [sz d|d]; cbn [rstep size_image cm_step].
    + pose proof (fill_rel sz d n) as H. destruct (fill sz d) as [st' o]. exact H.
    + exists None, true. split; [cbn; f_equal; f_equal; lia | reflexivity].
  - destruct R as [-> ->]. destruct f as [sz' d|d]; cbn [rstep size_image cm_step].
    + exists None, true. split; [cbn; f_equal; f_equal; lia | reflexivity].
    + pose proof (fill_rel sz (b ++ d) n) as H. rewrite lenN_app in H. destruct (fill sz (b ++ d)) as [st' o]. exact H.
  - subst bad. cbn [rstep]. exists cur, true. split; [|reflexivity].
    unfold cm_step. cbn. f_equal. f_equal. lia.
Qed.

Lemma count_sim (fs : list (dframe A)) : forall st cur bad n, rel st cur bad ->
  snd (fst (fold_left cm_step (map size_image fs) (cur, n, bad))) = (n + length (gots (snd (rrun st fs))))%nat.
Proof.
  induction fs as [|f fs IH]; intros st cur bad n R; cbn [map fold_left rrun].
  - cbn. lia.
  - pose proof (@cm_step_sim st cur bad n f R) as H.
    destruct (rstep st f) as [st' o] eqn:E. destruct H as [cur' [bad' [Hs R']]].
    rewrite Hs. rewrite (IH st' cur' bad' _ R').
    destruct (rrun st' fs) as [st'' os]. cbn [snd gots length].
    destruct o; cbn [gots length app]; lia.
Qed.

(* the monitor's count of complete messages is the number of messages the model's reassembly
   obtains from the same frames *)
Theorem count_complete_is_reassembly (fs : list (dframe A)) :
  count_complete (map size_image fs) = length (gots (snd (rrun RIdle fs))).
Proof.
  unfold count_complete.
  pose proof (@count_sim fs RIdle None false O (conj eq_refl eq_refl)) as H.
  destruct (fold_left cm_step (map size_image fs) (None, O, false)) as [[c n] b]. cbn in H. exact H.
Qed.

End CountComplete.
