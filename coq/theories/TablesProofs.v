(* Proofs about the stream tables: id discipline (C08), classification of frames for
   finished / rejected / never-seen ids (C07, C09), and the tunnel-level theorem that with
   two conforming endpoints no RPC-level event ever produces a tunnel error (C03, C10). *)
From Coq Require Import List ZArith NArith Bool Lia.
From GTgen Require Import Params.
From GT Require Import Tables.
Import ListNotations.
Local Open Scope Z_scope.

Ltac splits := repeat match goal with |- _ /\ _ => split end.

Lemma zmem_In x l : zmem x l = true <-> In x l.
Proof.
  unfold zmem. rewrite existsb_exists. split.
  - intros [y [Hy E]]. apply Z.eqb_eq in E. now subst.
  - intro H. exists x. split; [assumption|apply Z.eqb_refl].
Qed.
Lemma zmem_false x l : zmem x l = false <-> ~ In x l.
Proof. rewrite <- zmem_In. destruct (zmem x l); split; congruence. Qed.
Lemma zremove_In x y l : In y (zremove x l) <-> In y l /\ y <> x.
Proof.
  unfold zremove. rewrite filter_In. split; intros [H1 H2]; split; try assumption.
  - intro; subst. rewrite Z.eqb_refl in H2. discriminate.
  - apply negb_true_iff. apply Z.eqb_neq. congruence.
Qed.

(* ---------- server table ---------- *)
Lemma create_cases s id cl rev m :
  let '(s', r) := st_create s id cl rev m in
  match r with
  | CTunnelErr => s' = s /\ (In id (s_active s) \/ id <= s_last s)
  | CReject _ => s_last s < id /\ ~ In id (s_active s) /\ s_last s' = id /\ s_active s' = s_active s
  | CAccept => s_last s < id /\ ~ In id (s_active s) /\ s_last s' = id /\ s_active s' = id :: s_active s /\
               cl = false /\ (rev = 0 \/ rev = 1) /\ m = MOk
  end.
Proof.
  unfold st_create. destruct (zmem id (s_active s)) eqn:Em.
  - split; [reflexivity|left; now apply zmem_In].
  - apply zmem_false in Em. destruct (id <=? s_last s) eqn:El.
    + split; [reflexivity|right; lia].
    + destruct cl; [cbn [s_last s_active]; splits; try assumption; try reflexivity; lia|].
      destruct (negb ((rev =? 0) || (rev =? 1))) eqn:Er; [cbn [s_last s_active]; splits; try assumption; try reflexivity; lia|].
      destruct m; cbn [s_last s_active]; splits; try assumption; try reflexivity; try lia.
      all: try (apply negb_false_iff, orb_prop in Er; destruct Er as [E|E]; apply Z.eqb_eq in E; auto).
Qed.

(* an id is refused (tunnel error) exactly when it is not greater than all seen so far *)
Theorem create_refuses_old_ids s id cl rev m : id <= s_last s -> snd (st_create s id cl rev m) = CTunnelErr.
Proof.
  intro H. unfold st_create. destruct (zmem id (s_active s)); [reflexivity|].
  replace (id <=? s_last s) with true by lia. reflexivity.
Qed.

(* every id the server has recorded - accepted, rejected for any reason, or finished - is
   never again the cause of a tunnel error: further frames for it are routed or ignored *)
Theorem recorded_id_never_kills s id cl rev m :
  snd (st_create s id cl rev m) <> CTunnelErr ->
  forall s', (s_last s' >= id) -> st_get s' id <> GTunnelErr.
Proof.
  intros _ s' H. unfold st_get. destruct (zmem id (s_active s')); [discriminate|].
  replace (id <=? s_last s') with true by lia. discriminate.
Qed.

Theorem never_seen_id_is_tunnel_error s id : s_last s < id -> ~ In id (s_active s) -> st_get s id = GTunnelErr.
Proof.
  intros H Hn. unfold st_get. apply zmem_false in Hn. rewrite Hn.
  replace (id <=? s_last s) with false by lia. reflexivity.
Qed.

Theorem finished_id_is_ignored s id : In id (s_active s) -> id <= s_last s -> st_get (st_remove s id) id = GIgnore.
Proof.
  intros Hin Hle. unfold st_get, st_remove. cbn [s_active s_last].
  replace (zmem id (zremove id (s_active s))) with false.
  - replace (id <=? s_last s) with true by lia. reflexivity.
  - symmetry. apply zmem_false. rewrite zremove_In. tauto.
Qed.

(* shutdown refuses with the first rejection code and never inserts or disturbs an entry *)
Theorem closing_refuses s id rev m : s_last s < id -> ~ In id (s_active s) ->
  st_create s id true rev m = (mkStab id (s_active s), CReject (nth 0 create_rejection_codes 0%N)).
Proof.
  intros H Hn. unfold st_create. apply zmem_false in Hn. rewrite Hn.
  replace (id <=? s_last s) with false by lia. reflexivity.
Qed.

(* ---------- client table ---------- *)
Theorem alloc_fresh_increasing c c' id : ct_alloc c = (c', Some id) ->
  id = c_last c + 1 /\ c_last c' = id /\ c_created c' = true /\ c_active c' = id :: c_active c.
Proof.
  unfold ct_alloc. destruct (c_finished c); [discriminate|]. destruct (c_last c <? 0); [discriminate|].
  intro H; inversion H; subst; cbn; auto.
Qed.

Theorem alloc_fails_when_finished c : c_finished c = true -> ct_alloc c = (c, None).
Proof. intro H. unfold ct_alloc. now rewrite H. Qed.

(* ---------- the tunnel-level invariant ---------- *)
Fixpoint wfq (last : Z) (seen : list Z) (q : list cframe) : Prop :=
  match q with
  | [] => True
  | FNew id _ _ _ :: r => last < id /\ wfq id (id :: seen) r
  | FOther id :: r => In id seen /\ wfq last seen r
  end.

Fixpoint new_in (id : Z) (q : list cframe) : Prop :=
  match q with
  | [] => False
  | FNew id' _ _ _ :: r => id = id' \/ new_in id r
  | FOther _ :: r => new_in id r
  end.

Fixpoint news_below (b : Z) (q : list cframe) : Prop :=
  match q with
  | [] => True
  | FNew id _ _ _ :: r => id <= b /\ news_below b r
  | FOther _ :: r => news_below b r
  end.

Lemma wfq_seen_mono last seen seen' q : (forall x, In x seen -> In x seen') -> wfq last seen q -> wfq last seen' q.
Proof.
  revert last seen seen'. induction q as [|[id cl rev m|id] q IH]; intros last seen seen' Hs H; cbn in *; [exact I| |].
  - destruct H as [H1 H2]. split; [assumption|]. eapply IH; [|exact H2]. intros x [->|Hx]; [left; reflexivity|right; auto].
  - destruct H as [H1 H2]. split; [auto|]. eapply IH; eassumption.
Qed.

Lemma wfq_app_new last seen q id cl rev m :
  wfq last seen q -> news_below (id - 1) q -> last < id -> wfq last seen (q ++ [FNew id cl rev m]).
Proof.
  revert last seen. induction q as [|[id' cl' rev' m'|id'] q IH]; intros last seen H Hb Hl; cbn in *.
  - auto.
  - destruct H as [H1 H2]. destruct Hb as [Hb1 Hb2]. split; [assumption|]. apply IH; try assumption. lia.
  - destruct H as [H1 H2]. split; [assumption|]. apply IH; assumption.
Qed.

Lemma wfq_app_other last seen q id :
  wfq last seen q -> (In id seen \/ new_in id q) -> wfq last seen (q ++ [FOther id]).
Proof.
  revert last seen. induction q as [|[id' cl' rev' m'|id'] q IH]; intros last seen H Hk; cbn in *.
  - destruct Hk as [Hk|[]]. auto.
  - destruct H as [H1 H2]. split; [assumption|]. apply IH; [assumption|].
    destruct Hk as [Hk|[->|Hk]]; [left; right; assumption | left; left; reflexivity | right; assumption].
  - destruct H as [H1 H2]. split; [assumption|]. apply IH; assumption.
Qed.

Lemma new_in_app id q f : new_in id (q ++ [f]) <-> new_in id q \/ new_in id [f].
Proof.
  induction q as [|[id' cl' rev' m'|id'] q IH]; cbn in *.
  - tauto.
  - rewrite IH. cbn. tauto.
  - exact IH.
Qed.

Lemma news_below_app b q f : news_below b (q ++ [f]) <-> news_below b q /\ news_below b [f].
Proof.
  induction q as [|[id' cl' rev' m'|id'] q IH]; cbn in *.
  - tauto.
  - rewrite IH. cbn. tauto.
  - exact IH.
Qed.

Lemma news_below_mono b b' q : b <= b' -> news_below b q -> news_below b' q.
Proof.
  intro Hb. induction q as [|[id' cl' rev' m'|id'] q IH]; cbn; [auto| |exact IH].
  intros [H1 H2]. split; [lia|auto].
Qed.

Record TInv (t : tun) : Prop := {
  i_err : t_err t = false;
  i_fin : c_finished (t_c t) = false;
  i_clast : 0 <= c_last (t_c t);
  i_alloc : forall id, In id (t_alloc t) -> 1 <= id <= c_last (t_c t) /\ c_created (t_c t) = true;
  i_known : forall id, In id (t_alloc t) -> In id (t_seen t) \/ new_in id (t_c2s t);
  i_seen_alloc : forall id, In id (t_seen t) -> In id (t_alloc t);
  i_seen_last : forall id, In id (t_seen t) -> id <= s_last (t_s t);
  i_active : forall id, In id (s_active (t_s t)) -> In id (t_seen t);
  i_q : wfq (s_last (t_s t)) (t_seen t) (t_c2s t);
  i_qb : news_below (c_last (t_c t)) (t_c2s t);
  i_qalloc : forall id, new_in id (t_c2s t) -> In id (t_alloc t);
  i_s2c : forall id, In id (t_s2c t) -> In id (t_seen t);
  i_slast : s_last (t_s t) <= c_last (t_c t)
}.

Lemma tinv0 : TInv tun0.
Proof.
  constructor; cbn; try reflexivity; try lia; try tauto; try (intros ? []).
  unfold last_seen0. lia.
Qed.

Lemma alloc_spec c c' id : c_finished c = false -> 0 <= c_last c -> ct_alloc c = (c', Some id) ->
  id = c_last c + 1 /\ c' = mkCtab id true (id :: c_active c) false.
Proof.
  intros Hf Hl. unfold ct_alloc. rewrite Hf. replace (c_last c <? 0) with false by lia.
  intro H; inversion H; subst; auto.
Qed.

Lemma tstep_inv t l t' : TInv t -> tstep t l = Some t' -> TInv t'.
Proof.
  intros I H. destruct I. destruct l; cbn [tstep] in H.
  - (* TNew: allocation and emission of new_stream in one critical section *)
    destruct (ct_alloc (t_c t)) as [c' [id|]] eqn:Ea; [|discriminate]. inversion H; subst; clear H.
    destruct (alloc_spec _ _ _ i_fin0 i_clast0 Ea) as [E1 ->].
    constructor; cbn [t_err t_c t_s t_c2s t_s2c t_seen t_alloc c_last c_created c_finished c_active]; try assumption; try reflexivity; try lia.
    + intros x [<-|Hx]; [split; [lia|reflexivity]|]. destruct (i_alloc0 x Hx). split; [lia|reflexivity].
    + intros x [<-|Hx]; [right; apply new_in_app; right; cbn; auto|].
      destruct (i_known0 x Hx); [left; assumption|right; apply new_in_app; left; assumption].
    + intros x Hx. right. auto.
    + apply wfq_app_new; [assumption| |lia].
      apply news_below_mono with (b := c_last (t_c t)); [lia|assumption].
    + apply news_below_app. split; [apply news_below_mono with (b := c_last (t_c t)); [lia|assumption] | cbn; lia].
    + intros x Hx. apply new_in_app in Hx as [Hx|Hx]; [right; auto|]. cbn in Hx. destruct Hx as [->|[]]. left; reflexivity.
  - (* TClientEmit *)
    destruct (zmem id (t_alloc t)) eqn:Em; [|discriminate]. inversion H; subst; clear H. apply zmem_In in Em.
    constructor; cbn [t_err t_c t_s t_c2s t_s2c t_seen t_alloc]; try assumption.
    + intros x Hx. destruct (i_known0 x Hx); [left; assumption|right; apply new_in_app; left; assumption].
    + apply wfq_app_other; [assumption|auto].
    + apply news_below_app. split; [assumption|cbn; exact I].
    + intros x Hx. apply new_in_app in Hx as [Hx|Hx]; [auto|cbn in Hx; destruct Hx].
  - (* TServerEmit *)
    destruct (zmem id (t_seen t)) eqn:Em; [|discriminate]. inversion H; subst; clear H. apply zmem_In in Em.
    constructor; cbn [t_err t_c t_s t_c2s t_s2c t_seen t_alloc]; try assumption.
    intros x Hx. apply in_app_or in Hx as [Hx|[<-|[]]]; auto.
  - (* TClientFinish *)
    inversion H; subst; clear H.
    constructor; cbn [t_err t_c t_s t_c2s t_s2c t_seen t_alloc ct_remove c_last c_created c_finished c_active]; assumption.
  - (* TServerFinish *)
    inversion H; subst; clear H.
    constructor; cbn [t_err t_c t_s t_c2s t_s2c t_seen t_alloc st_remove s_last s_active]; try assumption.
    intros x Hx. apply zremove_In in Hx as [Hx _]. auto.
  - (* TServerLoop *)
    destruct (t_c2s t) as [|[id cl rev m|id] rest] eqn:Eq; [discriminate| |].
    + pose proof (create_cases (t_s t) id cl rev m) as C.
      destruct (st_create (t_s t) id cl rev m) as [s' r]. inversion H; subst; clear H.
      cbn [wfq] in i_q0. destruct i_q0 as [Hlt Hq].
      cbn [news_below] in i_qb0. destruct i_qb0 as [Hb1 Hb2].
      assert (Hnotactive : ~ In id (s_active (t_s t))) by (intro Hin; apply i_active0, i_seen_last0 in Hin; lia).
      assert (Hs' : s_last s' = id /\ (forall x, In x (s_active s') -> x = id \/ In x (s_active (t_s t))) /\
                    match r with CTunnelErr => False | _ => True end).
      { destruct r; [destruct C as [_ [C|C]]; [contradiction|lia] | |].
        - destruct C as (_ & _ & C3 & C4). rewrite C4. repeat split; auto.
        - destruct C as (_ & _ & C3 & C4 & _). rewrite C4. repeat split; auto. intros x [<-|Hx]; auto. }
      destruct Hs' as (Hl & Hact & Hr).
      constructor; cbn [t_err t_c t_s t_c2s t_s2c t_seen t_alloc]; try assumption.
      * rewrite i_err0. destruct r; [contradiction|reflexivity|reflexivity].
      * intros x Hx. destruct (i_known0 x Hx) as [Hk|Hk]; [left; right; assumption|].
        cbn [new_in] in Hk. destruct Hk as [->|Hk]; [left; left; reflexivity|right; assumption].
      * intros x [<-|Hx]; [apply i_qalloc0; cbn; auto|auto].
      * intros x [<-|Hx]; [lia|]. apply i_seen_last0 in Hx. lia.
      * intros x Hx. destruct (Hact x Hx) as [->|Hx']; [left; reflexivity|right; auto].
      * rewrite Hl. exact Hq.
      * intros x Hx. apply i_qalloc0. cbn. auto.
      * intros x Hx. right. auto.
      * lia.
    + inversion H; subst; clear H. cbn [wfq] in i_q0. destruct i_q0 as [Hin Hq].
      constructor; cbn [t_err t_c t_s t_c2s t_s2c t_seen t_alloc]; try assumption.
      * rewrite i_err0. unfold st_get. destruct (zmem id (s_active (t_s t))); [reflexivity|].
        apply i_seen_last0 in Hin. replace (id <=? s_last (t_s t)) with true by lia. reflexivity.
  - (* TClientLoop *)
    destruct (t_s2c t) as [|id rest] eqn:Eq; [discriminate|]. inversion H; subst; clear H.
    constructor; cbn [t_err t_c t_s t_c2s t_s2c t_seen t_alloc]; try assumption.
    + rewrite i_err0. unfold ct_get. destruct (zmem id (c_active (t_c t))); [reflexivity|].
      assert (Hin : In id (t_seen t)) by (apply i_s2c0; left; reflexivity).
      apply i_seen_alloc0, i_alloc0 in Hin as [Hr Hc]. rewrite Hc.
      replace (id <=? c_last (t_c t)) with true by lia. reflexivity.
    + intros x Hx. apply i_s2c0. right. assumption.
Qed.

(* C03 (safety core): whatever RPCs are started, refused (shutdown, unsupported revision,
   malformed or unknown method), finished or cancelled at either end, in whatever order frames
   are emitted and processed, neither receive loop ever sees a tunnel-level protocol error *)
Theorem no_rpc_event_kills_the_tunnel ls t : trun tun0 ls = Some t -> t_err t = false.
Proof.
  assert (G : forall ls t0 t1, TInv t0 -> trun t0 ls = Some t1 -> TInv t1).
  { induction ls0 as [|l ls0 IH]; intros t0 t1 I0 H; cbn [trun] in H.
    - inversion H; subst; assumption.
    - destruct (tstep t0 l) as [t2|] eqn:E; [|discriminate]. eapply IH; [eapply tstep_inv; eassumption|eassumption]. }
  intro H. exact (i_err _ (G ls tun0 t tinv0 H)).
Qed.

(* C08: new_stream ids reach the server strictly increasing, and the ids of distinct RPCs differ *)
Theorem ids_increase_on_the_wire ls t : trun tun0 ls = Some t -> wfq (s_last (t_s t)) (t_seen t) (t_c2s t).
Proof.
  assert (G : forall ls t0 t1, TInv t0 -> trun t0 ls = Some t1 -> TInv t1).
  { induction ls0 as [|l ls0 IH]; intros t0 t1 I0 H; cbn [trun] in H.
    - inversion H; subst; assumption.
    - destruct (tstep t0 l) as [t2|] eqn:E; [|discriminate]. eapply IH; [eapply tstep_inv; eassumption|eassumption]. }
  intro H. exact (i_q _ (G ls tun0 t tinv0 H)).
Qed.
