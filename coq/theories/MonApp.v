(* Application-level monitors: executable predicates over observed traces that state
   the properties in terms of call results, handler observations and probes.
   Failure codes (hundreds digit(s) = property):
    101 delivered not a prefix of submitted      102 end-of-stream reported but sequence incomplete
    103 more delivered than submitted
    201 terminal status differs from handler's   202 success without the handler returning OK
    203 trailers differ (Trailer())              204 trailers differ (grpc.Trailer target)
    206 headers differ (Header())                207 headers differ (grpc.Header target)
    208 Header() blocked after a message         209 handler saw different request metadata
    210 second terminal result differs from the first   211 success on a non-streaming response without handler OK
    301 tunnel ended without a tunnel-level cause
    401 call still pending after the tunnel ended  402 Done() not closed after the tunnel ended
    403 Err() not nil after clean close          404 Err() nil after failure
    405 RPC started on a finished tunnel did not fail / emitted frames   406 Serve did not return
    701 success after cancel without handler OK  703 caller op did not return when cancelled
    704 handler op still pending after the cancel notice was delivered
    802 handler invoked twice                    803 wrong handler invoked
    1001 handler started for an RPC begun after shutdown   1002 RPC after shutdown not refused with Unavailable
    1003 tunnel ended after shutdown
    1401 goroutines left after everything ended  1402 client table differs from in-flight RPCs
    1403 server table differs from in-flight RPCs
    1601 second request message delivered to non-streaming handler   1602 second send accepted on non-streaming side
    1604 handler got a message although several were sent             1605/1606 caller got success on bad response count/status
    1701 tunnel metadata differs   1702 peer differs   1703 context value differs   1704 wrong channel identified
    1801 deadline differs from the grpc-timeout header   1802 deadline present/absent wrongly *)
From Coq Require Import List NArith ZArith Bool.
From GTgen Require Import Params.
From GT Require Import Trace MonWire Timeout.
Import ListNotations.
Local Open Scope N_scope.

Definition fl (code act : N) (a b : Z) : list failure := [mkFail code act a b].
Definition zr (r : N) : Z := Z.of_N r.

(* ---------- extracting facts ---------- *)
Definition rpcinfo := (N * N * shape * option mdt * option mdt * option Z * N * bool)%type.
Fixpoint rpcs_of (tr : trace) : list (N * N * shape * option mdt * option mdt * option Z * N * bool) :=
  match tr with
  | [] => []
  | (a, NewCall r t sh _ md cmd to multi) :: rest => (r, t, sh, md, cmd, to, a, multi) :: rpcs_of rest
  | _ :: rest => rpcs_of rest
  end.

Definition calls_of (w : who) (o : opn) (tr : trace) : list (N * N * N * N * option mdt * res) :=
  flat_map (fun e => match e with
                     | (a, Call w' o' idx len dg md st) =>
                         if who_eqb w w' && opn_eqb o o' then [(a, idx, len, dg, md, st)] else []
                     | _ => [] end) tr.

Definition rets_of (w : who) (o : opn) (tr : trace) : list (N * res * N * N * N * option mdt * option mdt * bool * Z) :=
  flat_map (fun e => match e with
                     | (a, Ret w' o' r idx len dg md md2 has2 tc) =>
                         if who_eqb w w' && opn_eqb o o' then [(a, r, idx, len, dg, md, md2, has2, tc)] else []
                     | _ => [] end) tr.

Definition n_calls (w : who) (upto : N) (tr : trace) : N :=
  N.of_nat (length (filter (fun e => match e with (a, Call w' _ _ _ _ _ _) => who_eqb w w' && (a <=? upto) | _ => false end) tr)).
Definition n_rets (w : who) (upto : N) (tr : trace) : N :=
  N.of_nat (length (filter (fun e => match e with (a, Ret w' _ _ _ _ _ _ _ _ _) => who_eqb w w' && (a <=? upto) | _ => false end) tr)).

Definition tunnel_end_stim (e : ev) : bool :=
  match e with
  | Stim StFail _ _ _ | Stim StChClose _ _ _ | Stim StCtxEnd _ _ _ | Stim StStop _ _ _ | Stim StRawEnd _ _ _ => true
  | Stim StMarshal _ _ _ => true
  | _ => false
  end.
(* causes that legitimately end a tunnel: an RPC whose metadata cannot be encoded is not one *)
Definition legit_tunnel_end_stim (e : ev) : bool :=
  match e with Stim StMarshal _ _ _ => false | _ => tunnel_end_stim e end.
Definition first_legit_tunnel_end (tr : trace) : option N :=
  match filter (fun e => legit_tunnel_end_stim (snd e)) tr with [] => None | (a, _) :: _ => Some a end.
Definition first_tunnel_end (tr : trace) : option N :=
  match filter (fun e => tunnel_end_stim (snd e)) tr with [] => None | (a, _) :: _ => Some a end.
Definition has_stim (s : stim -> bool) (tr : trace) : bool :=
  existsb (fun e => match snd e with Stim x _ _ _ => s x | _ => false end) tr.
Definition teardown_at (tr : trace) : option N :=
  match filter (fun e => match snd e with Teardown => true | _ => false end) tr with [] => None | (a, _) :: _ => Some a end.
Definition before (a : N) (tr : trace) : trace := filter (fun e => fst e <? a) tr.

(* frames handed to the receiving endpoints, with the action at which it happened *)
Record dstate2 := mkD2 { q2 : list ((N * dir) * list (Z * fkind)); log2 : list (N * dir * N * Z * fkind) }.
Definition deliv_step (s : dstate2) (e : N * ev) : dstate2 :=
  let '(act, e) := e in
  match e with
  | Emit d t id k true => mkD2 (qset (t, d) (qget (t, d) (q2 s) ++ [(id, k)]) (q2 s)) (log2 s)
  | Deliver d t 1 =>
      match qget (t, d) (q2 s) with
      | [] => s
      | (id, k) :: rest => mkD2 (qset (t, d) rest (q2 s)) (log2 s ++ [(act, d, t, id, k)])
      end
  | Stim StFail t _ _ | Stim StCtxEnd t _ _ | Stim StMarshal t _ _ => mkD2 (qset (t, C2S) [] (qset (t, S2C) [] (q2 s))) (log2 s)
  | _ => s
  end.
Definition deliveries (tr : trace) : list (N * dir * N * Z * fkind) := log2 (fold_left deliv_step tr (mkD2 [] [])).

(* stream id of an rpc: from the new_stream frame that names its method *)
Definition stream_of (r : N) (tr : trace) : option (N * Z) :=
  match flat_map (fun e => match snd e with
                           | Emit C2S t id (KNew (Some r') _ _ _ _) _ => if N.eqb r r' then [(t, id)] else []
                           | _ => [] end) tr with
  | [] => None | x :: _ => Some x end.

Definition delivered_kind (tid : N * Z) (d : dir) (p : fkind -> bool) (dl : list (N * dir * N * Z * fkind)) : list N :=
  flat_map (fun x => match x with (a, d', t, id, k) =>
                       if dir_eqb d d' && N.eqb t (fst tid) && Z.eqb id (snd tid) && p k then [a] else [] end) dl.

Definition is_cancel k := match k with KCancel => true | _ => false end.
Definition is_close k := match k with KClose _ _ => true | _ => false end.
Definition is_new k := match k with KNew _ _ _ _ _ => true | _ => false end.
Definition is_half k := match k with KHalf => true | _ => false end.
Definition is_env k := match k with KMsg _ _ => true | _ => false end.

(* ---------- C01 ---------- *)
Fixpoint prefix_check (code : N) (r : N) (pos : N) (deliv : list (N * N)) (sent : list (N * N)) : list failure :=
  match deliv, sent with
  | [], _ => []
  | _ :: _, [] => fl 103 0 (zr r) (Z.of_N pos)
  | (l, d) :: dr, (l', d') :: sr =>
      if N.eqb l l' && N.eqb d d' then prefix_check code r (pos + 1) dr sr else fl code 0 (zr r) (Z.of_N pos)
  end.

Definition sent_list (sender : who) (tr : trace) (only_ok : bool) : list (N * N) :=
  let results := rets_of sender OSend tr in
  flat_map (fun c => match c with (_, idx, len, dg, _, _) =>
      let r := find (fun x => match x with (_, _, idx', _, _, _, _, _, _) => N.eqb idx idx' end) results in
      match r with
      | Some (_, ROk, _, _, _, _, _, _, _) => [(len, dg)]
      | Some _ => []                               (* refused or failed: must never be delivered *)
      | None => if only_ok then [] else [(len, dg)]  (* still in progress *)
      end end) (calls_of sender OSend tr).

Definition unary_resp (r : N) (tr : trace) : list (N * N) :=
  flat_map (fun c => match c with (_, _, len, dg, _, ROk) => [(len, dg)] | _ => [] end) (calls_of (Hx r) OReturn tr).

Definition got_eof (w : who) (tr : trace) : bool :=
  existsb (fun x => match x with (_, REof, _, _, _, _, _, _, _) => true | _ => false end) (rets_of w ORecv tr).

(* end-of-stream reported to the handler by the tunnel, i.e. before the handler itself returned *)
Definition handler_got_eof (r : N) (tr : trace) : bool :=
  let ret_at := match calls_of (Hx r) OReturn tr with (a, _, _, _, _, _) :: _ => Some a | [] => None end in
  existsb (fun x => match x with
                    | (a, REof, _, _, _, _, _, _, _) => match ret_at with Some b => a <? b | None => true end
                    | _ => false end) (rets_of (Hr r) ORecv tr).

Definition recvd (w : who) (tr : trace) : list (N * N) :=
  flat_map (fun x => match x with (_, ROk, _, len, dg, _, _, _, _) => [(len, dg)] | _ => [] end) (rets_of w ORecv tr).

Definition mon_C01_rpc (c : cfg) (tr : trace) (r : N) (sh : shape) : list failure :=
  (* requests *)
  let sent := sent_list (Cw r) tr false in
  let sent_ok := sent_list (Cw r) tr true in
  let got := recvd (Hr r) tr in
  (if c_raws c then [] else prefix_check 101 r 0 got sent) ++
  (if negb (c_raws c) && handler_got_eof r tr && negb (Nat.eqb (length got) (length sent_ok)) then fl 102 0 (zr r) 0 else []) ++
  (* responses *)
  let sent := match sh with ShU => unary_resp r tr | _ => sent_list (Hw r) tr false end in
  let sent_ok := match sh with ShU => unary_resp r tr | _ => sent_list (Hw r) tr true end in
  let got := recvd (Cr r) tr in
  (if c_raws c then [] else prefix_check 101 r 1000 got sent) ++
  (if negb (c_raws c) && got_eof (Cr r) tr && negb (Nat.eqb (length got) (length sent_ok)) then fl 102 0 (zr r) 1 else []).

Definition mon_C01 (c : cfg) (tr : trace) : list failure :=
  flat_map (fun x => match x with (r, _, sh, _, _, _, _, _) => mon_C01_rpc c tr r sh end) (rpcs_of tr).

(* ---------- C02 ---------- *)
Definition handler_status (r : N) (tr : trace) : option res :=
  match calls_of (Hx r) OReturn tr with [] => None | (_, _, _, _, _, st) :: _ => Some st end.
Definition terminal (r : N) (tr : trace) :=
  find (fun x => match x with (_, ROk, _, _, _, _, _, _, _) => false | _ => true end) (rets_of (Cr r) ORecv tr).

Definition joined (w : who) (ops : list opn) (tr : trace) : mdt :=
  fold_left (fun acc e => match e with
     | (_, Ret w' o ROk _ _ _ md _ _ _) =>
         if who_eqb w w' && existsb (opn_eqb o) ops then md_join acc (omd md) else acc
     | _ => acc end) tr [].

Definition local_cause (r : N) (to : option Z) (tr : trace) : bool :=
  (match rets_of (Cx r) OCancel tr with [] => false | _ => true end) ||
  (match to with Some _ => true | None => false end) ||
  (match first_tunnel_end tr with Some _ => true | None => false end) ||
  existsb (fun e => match snd e with ChanDone _ _ | ServeRet _ _ _ | NetSrvRet _ _ => true | _ => false end) tr.

Definition status_matches (client : res) (handler : res) : bool :=
  match client, handler with
  | REof, ROk => true
  | RStatus c m d, RStatus c' m' d' => N.eqb c c' && str_eqb m m' && str_eqb d d'
  | _, _ => false
  end.

Definition mon_C02_rpc (tr : trace) (r : N) (sh : shape) (md cmd : option mdt) (to : option Z) : list failure :=
  let hs := handler_status r tr in
  let term := terminal r tr in
  let loc := local_cause r to tr in
  let exp_h := joined (Hw r) [OSetHdr; OSendHdr] tr in
  let exp_t := joined (Hw r) [OSetTrl] tr in
  (match term, hs with
   | Some (a, x, _, _, _, trl, trl2, has2, _), Some st =>
       (if negb loc && negb (status_matches x st) then fl 201 a (zr r) 0 else []) ++
       (if status_matches x st then
          (if md_eqb (omd trl) exp_t then [] else fl 203 a (zr r) 0) ++
          (if has2 && negb (md_eqb (omd trl2) exp_t) then fl 204 a (zr r) 0 else [])
        else [])
   | Some (a, REof, _, _, _, _, _, _, _), None => fl 202 a (zr r) 0
   | _, _ => []
   end) ++
  (* an RPC the server refused (no handler ever ran): the caller's terminal result is the status of
     the close frame that was handed to its endpoint (212) *)
  (match term, hs, stream_of r tr with
   | Some (a, x, _, _, _, _, _, _, _), None, Some tid =>
       let tr_a := filter (fun e => fst e <=? a) tr in   (* nothing local may explain the result: no cancel, no deadline, no tunnel end up to then *)
       if local_cause r to tr_a || existsb (fun e => match snd e with HStart r' _ _ _ _ _ _ => N.eqb r r' | _ => false end) tr then []
       else
         match flat_map (fun y => match y with
                                  | (ad, S2C, t, id, KClose st _) =>
                                      if N.eqb t (fst tid) && Z.eqb id (snd tid) && (ad <=? a) then [st] else []
                                  | _ => [] end) (deliveries tr) with
         | st :: _ => if res_is_ok st || is_code st 0 || status_matches x st then [] else fl 212 a (zr r) 0
         | [] => []
         end
   | _, _, _ => []
   end) ++
  (* a non-streaming response: a successful receive is the caller's completion with OK, so the
     handler must have returned OK (code 211) *)
  (if server_streams sh then [] else
     match filter (fun x => match x with (_, ROk, _, _, _, _, _, _, _) => true | _ => false end) (rets_of (Cr r) ORecv tr), hs with
     | [], _ => []
     | _ :: _, Some ROk => []
     | (a, _, _, _, _, _, _, _, _) :: _, _ => fl 211 a (zr r) 0
     end) ++
  (* every later terminal result repeats the first *)
  (match term with
   | Some (_, x, _, _, _, _, _, _, _) =>
       flat_map (fun y => match y with
                          | (a, ROk, _, _, _, _, _, _, _) => []
                          | (a, x', _, _, _, _, _, _, _) => if res_eqb x x' then [] else fl 210 a (zr r) 0 end)
                (rets_of (Cr r) ORecv tr)
   | None => [] end) ++
  (* headers *)
  flat_map (fun y => match y with
     | (a, ROk, _, _, _, h, h2, has2, _) =>
         let served := match hs with Some _ => negb loc | None => false end in
         (if md_eqb (omd h) exp_h || (negb served && md_eqb (omd h) []) then [] else fl 206 a (zr r) 0) ++
         (if has2 && negb (md_eqb (omd h2) (omd h)) then fl 207 a (zr r) 0 else [])
     | _ => [] end) (rets_of (Cr r) OHeader tr) ++
  (* Header() does not block once a message has been received *)
  (match filter (fun x => match x with (_, ROk, _, _, _, _, _, _, _) => true | _ => false end) (rets_of (Cr r) ORecv tr) with
   | [] => []
   | (a0, _, _, _, _, _, _, _, _) :: _ =>
       flat_map (fun c => match c with (a, _, _, _, _, _) =>
           if (a0 <=? a) && negb (existsb (fun y => match y with (a', _, _, _, _, _, _, _, _) => N.eqb a a' end) (rets_of (Cr r) OHeader tr))
           then fl 208 a (zr r) 0 else [] end) (calls_of (Cr r) OHeader tr)
   end) ++
  (* request metadata seen by the handler *)
  flat_map (fun e => match e with
     | (a, HStart r' _ hmd _ _ _ _) =>
         if N.eqb r r' && negb (md_eqb (omd hmd) (md_join (omd md) (omd cmd))) then fl 209 a (zr r) 0 else []
     | _ => [] end) tr.

Definition mon_C02 (c : cfg) (tr : trace) : list failure :=
  if c_raws c then [] else
  flat_map (fun x => match x with (r, _, sh, md, cmd, to, _, _) => mon_C02_rpc tr r sh md cmd to end) (rpcs_of tr).

(* ---------- C03 / C04 ---------- *)
Definition mon_C03 (c : cfg) (tr : trace) : list failure :=
  if c_rawc c || c_raws c then [] else
  let te := first_legit_tunnel_end tr in
  let td := teardown_at tr in
  flat_map (fun e => match e with
     | (a, ChanDone t _) | (a, ServeRet t _ _) | (a, NetSrvRet t _) =>
         let after_td := match td with Some x => x <=? a | None => false end in
         match te with
         | Some x => if (x <=? a) || after_td then [] else fl 301 a (zr t) 0
         | None => if after_td then [] else fl 301 a (zr t) 0
         end
     | (a, StartRet t r) => if res_is_ok r then [] else
         match te with Some x => if x <=? a then [] else fl 301 a (zr t) 1 | None => fl 301 a (zr t) 1 end
     | _ => [] end) tr.

Definition all_whos (tr : trace) : list who :=
  flat_map (fun x => match x with (r, _, _, _, _, _, _, _) => [Cw r; Cr r; Hw r; Hr r] end) (rpcs_of tr).

(* the last probe shows no frame waiting in any carrier direction *)
Definition carriers_drained (tr : trace) : bool :=
  match rev (filter (fun e => match snd e with Probe _ _ _ _ _ => true | _ => false end) tr) with
  | (_, Probe _ _ pend _ _) :: _ => forallb (fun p => Z.eqb (fst p) 0 && Z.eqb (snd p) 0) pend
  | _ => true
  end.

Definition multi_tunnel (tr : trace) : bool :=
  existsb (fun e => match snd e with Stim StOpen t _ _ => negb (N.eqb t 0) | _ => false end) tr.

Definition mon_C04 (c : cfg) (tr : trace) : list failure :=
  match (if c_rawc c || c_raws c then None else first_tunnel_end tr), teardown_at tr with
  | Some te, Some td =>
      let pre := before td tr in
      let last := td - 1 in
      (* every call issued so far has returned *)
      flat_map (fun w => if N.eqb (n_calls w last pre) (n_rets w last pre) then [] else
                         fl 401 last (match w with Cw r | Cr r | Hw r | Hr r | Cx r | Hx r => zr r | Ctl => -1 end)
                                     (Z.of_N (opn_code (match w with Cw _ => OSend | Cr _ => ORecv | Hw _ => OSetHdr | _ => OCtx end))))
               (all_whos tr) ++
      (* the calling side observes the end *)
      (if c_rawc c then [] else
       if existsb (fun e => match snd e with ChanDone _ _ => true | StartRet _ (RStatus _ _ _) | StartRet _ (RErr _) => true | _ => false end) pre
       then [] else fl 402 last 0 0) ++
      (* Err(): nil after a clean close, the cause otherwise *)
      flat_map (fun e => match e with
         | (a, ChanDone t r) =>
             let clean := has_stim (fun s => match s with StChClose | StStop | StRawEnd => true | _ => false end) pre &&
                          negb (has_stim (fun s => match s with StFail | StCtxEnd => true | _ => false end) pre) in
             let dirty := has_stim (fun s => match s with StFail | StCtxEnd => true | _ => false end) pre &&
                          negb (has_stim (fun s => match s with StChClose | StStop | StRawEnd => true | _ => false end) pre) in
             (if clean && negb (res_is_ok r) && negb (c_raws c) then fl 403 a (zr t) 0 else []) ++
             (if dirty && res_is_ok r then fl 404 a (zr t) 0 else [])
         | _ => [] end) pre ++
      (* the serving side returns *)
      (* (only once everything the carriers held has been handed over: with several tunnels a
         scenario may end while the ended tunnel's last frames are still undelivered) *)
      (if c_rev c && negb (c_raws c) && (negb (multi_tunnel tr) || carriers_drained pre) then
         if existsb (fun e => match snd e with ServeRet _ _ _ => true | _ => false end) pre then [] else fl 406 last 0 0
       else [])
  | _, _ => []
  end ++
  (* RPCs started after the channel is done fail at once and emit nothing *)
  (match filter (fun e => match snd e with ChanDone _ _ => true | _ => false end) tr with
   | [] => []
   | (ad, _) :: _ =>
       flat_map (fun x => match x with (r, _, _, _, _, _, a, multi) =>
           if (ad <? a) && negb multi then
             (match rets_of (Cw r) ONew tr with
              | (a', ROk, _, _, _, _, _, _, _) :: _ => fl 405 a' (zr r) 0
              | [] => fl 405 a (zr r) 1
              | _ => [] end) ++
             (match stream_of r tr with Some _ => fl 405 a (zr r) 2 | None => [] end)
           else [] end) (rpcs_of tr)
   end).

(* ---------- C07 ---------- *)
Definition mon_C07_rpc (c : cfg) (tr : trace) (r : N) (sh : shape) : list failure :=
  match rets_of (Cx r) OCancel tr with
  | [] => []
  | (ac, _, _, _, _, _, _, _, _) :: _ =>
      (* the caller's pending operations return at once, without waiting for the peer *)
      flat_map (fun w => if N.eqb (n_calls w ac tr) (n_rets w ac tr) then [] else fl 703 ac (zr r) 0) [Cw r; Cr r] ++
      (* never a mixture: success implies the handler's OK, its trailers, all data (C01/C02 check the latter) *)
      (match (if c_raws c then None else terminal r tr), handler_status r tr with
       | Some (a, REof, _, _, _, _, _, _, _), Some ROk => []
       | Some (a, REof, _, _, _, _, _, _, _), _ => fl 701 a (zr r) 0
       | _, _ => [] end) ++
      (* on a non-streaming response a successful receive is the final success *)
      (if server_streams sh || c_raws c then [] else
         match filter (fun x => match x with (_, ROk, _, _, _, _, _, _, _) => true | _ => false end) (rets_of (Cr r) ORecv tr),
               handler_status r tr with
         | [], _ => []
         | _ :: _, Some ROk => []
         | (a, _, _, _, _, _, _, _, _) :: _, _ => fl 701 a (zr r) 1
         end) ++
      (* once the notice has been delivered the handler's operations return *)
      (* (with flow control: in revision zero a delivered frame may wait behind a full slot) *)
      (match (if expect_fc c then stream_of r tr else None) with
       | None => []
       | Some tid =>
           match delivered_kind tid C2S is_cancel (deliveries tr) with
           | [] => []
           | ad :: _ =>
               flat_map (fun w => if N.eqb (n_calls w ad tr) (n_rets w ad tr) then [] else fl 704 ad (zr r) 0) [Hw r; Hr r]
           end
       end)
  end.
Definition mon_C07 (c : cfg) (tr : trace) : list failure :=
  flat_map (fun x => match x with (r, _, sh, _, _, _, _, _) => mon_C07_rpc c tr r sh end) (rpcs_of tr).

(* ---------- C08 (application side) ---------- *)
Definition mon_C08 (tr : trace) : list failure :=
  flat_map (fun x => match x with (r, _, sh, _, _, _, _, _) =>
      let hs := flat_map (fun e => match e with (a, HStart r' sh' _ _ _ _ _) => if N.eqb r r' then [(a, sh')] else [] | _ => [] end) tr in
      (match hs with _ :: (a, _) :: _ => fl 802 a (zr r) 0 | _ => [] end) ++
      flat_map (fun h => let '(a, sh') := h in
                 if Bool.eqb (client_streams sh) (client_streams sh') && Bool.eqb (server_streams sh) (server_streams sh')
                 then [] else fl 803 a (zr r) 0) hs
    end) (rpcs_of tr).

(* ---------- C10 ---------- *)
Definition mon_stop (c : cfg) (tr : trace) : list failure :=
  let td := teardown_at tr in
      (* Stop returns only after every Serve call has returned (1004) *)
      flat_map (fun e => match e with
         | (a, Ret Ctl OOther _ 1 _ _ _ _ _ _) =>
             let started := N.of_nat (length (filter (fun x => match snd x with Stim StOpen _ _ _ => fst x <? a | _ => false end) tr)) in
             let returned := N.of_nat (length (filter (fun x => match snd x with ServeRet _ _ _ => fst x <=? a | _ => false end) tr)) in
             let after_td := match td with Some x => x <=? a | None => false end in
             if c_rev c && negb (c_raws c) && negb after_td && (returned <? started) then fl 1004 a 0 0 else []
         | _ => [] end) tr.

Definition mon_C10 (c : cfg) (tr : trace) : list failure :=
  mon_stop c tr ++
  match filter (fun e => match snd e with Stim StShutdown _ _ _ => true | _ => false end) tr with
  | [] => []
  | (as_, _) :: _ =>
      let dl := deliveries tr in
      let te := first_tunnel_end tr in
      let td := teardown_at tr in
      flat_map (fun x => match x with (r, _, _, _, _, _, _, _) =>
          match stream_of r tr with
          | None => []
          | Some tid =>
              match delivered_kind tid C2S is_new dl with
              | [] => []
              | an :: _ =>
                  if as_ <? an then
                    (if existsb (fun e => match snd e with HStart r' _ _ _ _ _ _ => N.eqb r r' | _ => false end) tr
                     then fl 1001 an (zr r) 0 else []) ++
                    (match (if expect_fc c then te else Some 0) with
                     | Some _ => []
                     | None =>
                         (* refused with Unavailable: the close frame is emitted when the new_stream is processed *)
                         if existsb (fun e => match e with
                               | (a, Emit S2C t id (KClose st _) _) => N.eqb t (fst tid) && Z.eqb id (snd tid) && is_code st 14
                               | _ => false end) tr
                         then [] else fl 1002 an (zr r) 0
                     end)
                  else []
              end
          end end) (rpcs_of tr) ++
      (* GracefulStop returns once the RPCs that were in flight have finished (1005), judged at the
         end of a drained scenario: no call pending, every started handler has exited *)
      (match td with
       | Some tdn =>
           let pre := before tdn tr in
           let gs_ret := existsb (fun e => match snd e with Ret Ctl OOther _ 2 _ _ _ _ _ _ => true | _ => false end) pre in
           let pending := existsb (fun w => negb (N.eqb (n_calls w tdn pre) (n_rets w tdn pre))) (all_whos tr) in
           let handlers_out := forallb (fun e => match snd e with
                                 | HStart r _ _ _ _ _ _ => existsb (fun e' => match snd e' with HExit r' => N.eqb r r' | _ => false end) pre
                                 | _ => true end) pre in
           if c_rev c && negb (c_raws c) && negb (c_rawc c) && negb gs_ret && negb pending && handlers_out &&
              negb (has_stim (fun s => match s with StStop | StFail | StCtxEnd | StChClose => true | _ => false end) pre)
           then fl 1005 (tdn - 1) 0 0 else []
       | None => [] end) ++
      flat_map (fun e => match e with
         | (a, ChanDone t _) | (a, ServeRet t _ _) =>
             let after_td := match td with Some x => x <=? a | None => false end in
             let caused := match te with Some x => x <=? a | None => false end in
             if (as_ <=? a) && negb after_td && negb caused && negb (c_rawc c) then fl 1003 a (zr t) 0 else []
         | _ => [] end) tr
  end.

(* ---------- C14 ---------- *)
Definition finished_client (tr : trace) (upto : N) (r : N) : bool :=
  existsb (fun x => match x with (a, _, _, _, _, _, _, _, _) => a <=? upto end) (rets_of (Cx r) OCancel tr) ||
  match stream_of r tr with
  | None => true
  | Some tid => existsb (fun a => a <=? upto) (delivered_kind tid S2C is_close (deliveries tr))
  end.

Definition started_client (tr : trace) (upto : N) (r : N) : bool :=
  existsb (fun x => match x with (a, ROk, _, _, _, _, _, _, _) => a <=? upto | _ => false end) (rets_of (Cw r) ONew tr).

(* the server is done with a stream when it emits its close frame (handler returned and its
   last message went out) or when the cancel notice has been processed *)
Definition finished_server (tr : trace) (upto : N) (r : N) : bool :=
  match stream_of r tr with
  | None => false
  | Some tid =>
      existsb (fun e => match e with
                        | (a, Emit S2C t id (KClose _ _) _) => N.eqb t (fst tid) && Z.eqb id (snd tid) && (a <=? upto)
                        | _ => false end) tr ||
      existsb (fun a => a <=? upto) (delivered_kind tid C2S is_cancel (deliveries tr))
  end.
Definition started_server (tr : trace) (upto : N) (r : N) : bool :=
  existsb (fun e => match e with (a, HStart r' _ _ _ _ _ _) => N.eqb r r' && (a <=? upto) | _ => false end) tr.

Definition count_rpcs (p : N -> bool) (tr : trace) : Z :=
  Z.of_nat (length (filter (fun x => match x with (r, _, _, _, _, _, _, _) => p r end) (rpcs_of tr))).

(* exactness is checked where the monitor can decide "in flight" from observations alone: one
   tunnel, no raw peer, no deadline, no tunnel-level event so far *)
Definition mon_C14 (c : cfg) (tr : trace) : list failure :=
  let simple := expect_fc c && negb (c_rawc c) && negb (c_raws c) &&
                negb (existsb (fun x => match x with (_, t, _, _, _, to, _, multi) =>
                                 negb (N.eqb t 0) || multi || match to with Some _ => true | None => false end end) (rpcs_of tr)) &&
                negb (existsb (fun e => match snd e with HStart _ _ _ (Some _) _ _ _ => true | _ => false end) tr) in
  let te := first_tunnel_end tr in
  let td := teardown_at tr in
  flat_map (fun e => match e with
     | (a, Probe full ctabs _ stabs g) =>
         let after_td := match td with Some x => x <=? a | None => false end in
         let ended := match te with Some x => x <=? a | None => false end in
         (if after_td && full && negb (N.eqb g 0) then fl 1401 a (Z.of_N g) 0 else []) ++
         (if simple && negb after_td && negb ended then
            (match ctabs with
             | [ct] => let exp := count_rpcs (fun r => started_client tr a r && negb (finished_client tr a r)) tr in
                       if (0 <=? ct)%Z && negb (Z.eqb ct exp) then fl 1402 a exp ct else []
             | _ => [] end) ++
            (match stabs with
             | [st] => let exp := count_rpcs (fun r => started_server tr a r && negb (finished_server tr a r)) tr in
                       if Z.eqb (Z.of_N st) exp then [] else fl 1403 a exp (Z.of_N st)
             | _ => [] end)
          else []) ++
         (* against a raw tunnel server only an upper bound can be decided: an RPC whose caller has
            been given a status as its terminal result (from a close frame, or from a violation the
            client detected and answered by cancelling the stream) has no table entry any more (1404) *)
         (if c_raws c && negb (c_rawc c) && negb after_td && negb ended then
            match ctabs with
            | [ct] =>
                let got_status r := existsb (fun x => match x with (a', RStatus _ _ _, _, _, _, _, _, _, _) => a' <=? a | _ => false end)
                                            (rets_of (Cr r) ORecv tr) in
                let exp := count_rpcs (fun r => started_client tr a r && negb ((expect_fc c && finished_client tr a r) || got_status r)) tr in
                if (exp <? ct)%Z then fl 1404 a exp ct else []
            | _ => [] end
          else [])
     | _ => [] end) tr.

(* ---------- C16 ---------- *)
(* the counting itself, on frames abstracted to (announced size if an envelope, length); MonFacts.v
   proves it equal to the number of messages the reassembly of Frames.v completes *)
Definition cm_step (st : option (N * N) * nat * bool) (f : option N * N) : option (N * N) * nat * bool :=
  let '(cur, n, bad) := st in
  if bad then st else
  match f, cur with
  | (Some sz, len), None => if sz <? len then (None, n, true) else if len =? sz then (None, S n, false) else (Some (sz, len), n, false)
  | (None, len), Some (sz, got) => if sz <? got + len then (None, n, true) else if got + len =? sz then (None, S n, false) else (Some (sz, got + len), n, false)
  | _, _ => (None, n, true)
  end.
Definition count_complete (frames : list (option N * N)) : nat :=
  let '(_, n, _) := fold_left cm_step frames (None, O, false) in n.

(* complete messages among the data frames of stream [tid] in direction [d] delivered no later than
   action [upto] *)
Definition complete_msgs (tid : N * Z) (d : dir) (upto : option N) (dl : list (N * dir * N * Z * fkind)) : nat :=
  let frames := flat_map (fun x => match x with (a, d', t, id, k) =>
      if dir_eqb d d' && N.eqb t (fst tid) && Z.eqb id (snd tid) && (match upto with Some u => a <=? u | None => true end)
      then match k with KMsg sz len => [(Some sz, len)] | KMore len => [(None, len)] | _ => [] end else [] end) dl in
  count_complete frames.

Definition mon_C16_rpc (c : cfg) (tr : trace) (r : N) (sh : shape) : list failure :=
  let dl := deliveries tr in
  (* handler of a method with a non-streaming request *)
  (if client_streams sh then [] else
     (match recvd (Hr r) tr with _ :: _ :: _ => fl 1601 0 (zr r) 0 | _ => [] end) ++
     flat_map (fun x => match x with (a, ROk, idx, _, _, _, _, _, _) => if 1 <=? idx then fl 1602 a (zr r) 0 else [] | _ => [] end)
              (rets_of (Cw r) OSend tr) ++
     (match stream_of r tr with
      | None => []
      | Some tid =>
          let halves := delivered_kind tid C2S is_half dl in
          (* a successful read that returned while the handler was still running (a read still
             pending when the handler returns is ended with EOF by the return itself), judged on
             the messages delivered no later than that read's return and the first half-close; with
             revision zero a delivered frame may still be held by the parked receive loop *)
          let hx := match find (fun e => match snd e with HExit r' => N.eqb r r' | _ => false end) tr with
                    | Some e => Some (fst e) | None => None end in
          let oks := flat_map (fun x => match x with (a, ROk, _, _, _, _, _, _, _) =>
                        match hx with Some h => if a <? h then [a] else [] | None => [a] end | _ => [] end)
                      (rets_of (Hr r) ORecv tr) in
          match oks with
          | a_r :: _ =>
              let upto := match halves with [] => a_r | h :: _ => N.min h a_r end in
              let n := complete_msgs tid C2S (Some upto) dl in
              if expect_fc c && Nat.leb 2 n then fl 1604 a_r (zr r) (Z.of_nat n) else []
          | [] => []
          end
      end)) ++
  (* caller of a method with a non-streaming response: success needs the look-ahead to have seen the
     end of the stream, that is a close frame handed to the caller's endpoint (1607) *)
  (if server_streams sh then [] else
     (match recvd (Cr r) tr, stream_of r tr with
      | _ :: _, Some tid => match delivered_kind tid S2C is_close dl with [] => fl 1607 0 (zr r) 0 | _ => [] end
      | _, _ => []
      end) ++
     flat_map (fun x => match x with (a, ROk, idx, _, _, _, _, _, _) => if 1 <=? idx then fl 1602 a (zr r) 1 else [] | _ => [] end)
              (rets_of (Hw r) OSend tr) ++
     (match recvd (Cr r) tr with
      | [] => []
      | _ :: _ =>
          if c_raws c then
            match stream_of r tr with
            | None => []
            | Some tid =>
                let closes := delivered_kind tid S2C is_close dl in
                let n := complete_msgs tid S2C (match closes with [] => None | h :: _ => Some h end) dl in
                if Nat.eqb n 1 then [] else fl 1605 0 (zr r) (Z.of_nat n)
            end
          else
            match handler_status r tr with
            | Some ROk => []
            | _ => fl 1606 0 (zr r) 0
            end
      end)).
(* with a raw tunnel client there are no caller-side events: the RPCs are those whose handler started *)
Definition handler_rpcs (tr : trace) : list (N * shape) :=
  flat_map (fun e => match snd e with HStart r sh _ _ _ _ _ => [(r, sh)] | _ => [] end) tr.

Definition mon_C16 (c : cfg) (tr : trace) : list failure :=
  if c_rawc c then flat_map (fun x => mon_C16_rpc c tr (fst x) (snd x)) (handler_rpcs tr)
  else flat_map (fun x => match x with (r, _, sh, _, _, _, _, _) => mon_C16_rpc c tr r sh end) (rpcs_of tr).

(* ---------- C17 ---------- *)
Definition mon_C17 (c : cfg) (tr : trace) : list failure :=
  flat_map (fun x : rpcinfo => match x with (r, t, _, _, _, _, _, multi) =>
      let news := rets_of (Cw r) ONew tr in
      let opened := flat_map (fun e => match snd e with Stim StOpen t' md p => [(t', md, p)] | _ => [] end) tr in
      flat_map (fun e => match e with
         | (a, HStart r' _ _ _ tmd p ic) =>
             if N.eqb r r' then
               (* which tunnel carried it: the channel the caller was told *)
               let tc := match news with (_, ROk, _, _, _, _, _, _, tc) :: _ => tc | _ => (-1)%Z end in
               let t_eff := if multi then tc else Z.of_N t in
               match find (fun o : N * option mdt * str => match o with (t', _, _) => Z.eqb (Z.of_N t') t_eff end) opened with
               | None => if multi then fl 1704 a (zr r) t_eff else []
               | Some (_, omd_, peer_) =>
                   (match tmd with
                    | Some m => if md_eqb m (omd omd_) then [] else fl 1701 a (zr r) 0
                    | None => fl 1701 a (zr r) 1 end) ++
                   (if c_rev c then [] else
                      (if str_eqb p peer_ then [] else fl 1702 a (zr r) 0) ++
                      (if str_eqb ic ([105; 99; 112; 116; 45] ++ peer_) then [] else fl 1703 a (zr r) 0))
               end
             else []
         | _ => [] end) tr ++
      (* the caller's view: context channel, call option and tunnel metadata *)
      flat_map (fun y => match y with
         | (a, ROk, idx, _, _, ctxtmd, _, has2, tc) =>
             (if negb multi && negb (Z.eqb tc (Z.of_N t)) then fl 1704 a (zr r) tc else []) ++
             (match find (fun o : N * option mdt * str => match o with (t', _, _) => Z.eqb (Z.of_N t') tc end) opened with
              | Some (_, omd_, _) =>
                  match ctxtmd with
                  | Some m => if md_eqb m (omd omd_) then [] else fl 1701 a (zr r) 2
                  | None => []      (* not observed (call made through Invoke) *)
                  end
              | None => [] end)
         | _ => [] end) news
    end) (rpcs_of tr).

(* ---------- C18 (through the public API) ---------- *)
Definition timeout_key : str := [103; 114; 112; 99; 45; 116; 105; 109; 101; 111; 117; 116].
Definition tdl_key : str := [116; 100; 108].
Definition c18_judge (a r : N) (vals : list str) (dl : option Z) (tmd : option mdt) : list failure :=
  let exp := spec_from_headers vals in
  (* the harness marks a tunnel opened under a (far) deadline with the tunnel-metadata key "tdl": an
     RPC without grpc-timeout then inherits that deadline; one with a (nearer) grpc-timeout must
     still get exactly its own *)
  let tunnel_deadline := existsb (fun kv => str_eqb (fst kv) tdl_key) (omd tmd) in
  match exp, dl with
  | None, None => []
  | Some d, Some d' => if (d <? 4611686018427387904)%Z then (if Z.eqb d d' then [] else fl 1801 a (zr r) d')
                       else (* beyond 146 years only the order of magnitude is compared: never a short or past deadline *)
                            (if (4611686018427387904 <=? d')%Z then [] else fl 1801 a (zr r) d')
  | None, Some _ => if tunnel_deadline then [] else fl 1802 a (zr r) 0
  | _, _ => fl 1802 a (zr r) 0
  end.

Definition timeout_vals (m : mdt) : list str :=
  match find (fun kv => str_eqb (fst kv) timeout_key) m with Some (_, vs) => vs | None => [] end.

Definition mon_C18 (tr : trace) : list failure :=
  (* against what the caller attached (real client) *)
  flat_map (fun x => match x with (r, _, _, md, cmd, _, _, _) =>
      let vals := timeout_vals (md_join (omd md) (omd cmd)) in
      flat_map (fun e => match e with
         | (a, HStart r' _ _ dl tmd _ _) => if N.eqb r r' then c18_judge a r vals dl tmd else []
         | _ => [] end) tr
    end) (rpcs_of tr) ++
  (* against the request metadata the handler itself received (also covers raw tunnel clients) *)
  flat_map (fun e => match e with
     | (a, HStart r _ md dl tmd _ _) => c18_judge a r (timeout_vals (omd md)) dl tmd
     | _ => [] end) tr.

(* ---------- a handler blocked in a read is released when its own deadline passes (C18 / C07 / C14) ----------
   1803: the clock was moved past the deadline the handler got from grpc-timeout (the harness moves it by more than
   any timeout it uses below one hour) and a read the handler had pending is still pending afterwards *)
Definition mon_deadline_wakes (tr : trace) : list failure :=
  flat_map (fun e => match e with
    | (a0, HStart r _ _ (Some d) _ _ _) =>
        if (3600000000000 <=? d)%Z then [] else
        match filter (fun x => match x with (a1, Stim StAdvance _ _ _) => a0 <? a1 | _ => false end) tr with
        | (a1, _) :: _ => if N.eqb (n_calls (Hr r) a1 tr) (n_rets (Hr r) a1 tr) then [] else fl 1803 a1 (zr r) d
        | [] => []
        end
    | _ => [] end) tr.

(* ---------- nothing of a tunnel stays live once its serving call has returned (C09 / C04 / C14) ----------
   903: a handler asked for its context after the reverse tunnel's Serve call had returned found it not done *)
Definition mon_ctx_after_end (tr : trace) : list failure :=
  match filter (fun e => match snd e with ServeRet t _ _ => N.eqb t 0 | _ => false end) tr with
  | [] => []
  | (e, _) :: _ =>
      flat_map (fun x => match x with
        | (a, Ret (Hx r) OCtx ROk _ _ _ _ _ _ _) => if e <? a then fl 903 a (zr r) 0 else []
        | _ => [] end) tr
  end.

(* ---------- a panic or a duplicate handler start is always a failure (C09 / C08) ---------- *)
Definition mon_panic (tr : trace) : list failure :=
  mon_ctx_after_end tr ++ mon_deadline_wakes tr ++
  flat_map (fun e => match e with (a, Panic) => fl 901 a 0 0 | (a, HarnessFail c x y) => fl c a x y | _ => [] end) tr.
