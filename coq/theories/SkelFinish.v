(* Code-shape facts: termination: the order CliFinish.v / SrvStream.v / Waits.v assume - first-writer-wins compare-and-swap first, trailers stored under the metadata lock before the signals are closed, the receiver closed last (deferred), the server cancelling the context before it takes the write lock.
   The skeletons are regenerated from the Go source on every run (gen/Params.v, translator
   paramscan); a change of shape breaks the lemma below - the models above it then no longer
   describe the code, whether or not a property is violated. *)
From Coq Require Import List String.
From GTgen Require Import Params.
Import ListNotations.
Local Open Scope string_scope.

Lemma tunnelClientStream_finishStream_shape : skel_tunnelClientStream_finishStream =
  ["call done.CompareAndSwap"; "defer call cancel"; "call ch.removeStream"; "defer call receiver.close"; "call metaMu.Lock"; "defer call metaMu.Unlock"; "set trailers"; "set gotHeaders"; "close gotHeadersSignal"; "close doneSignal"].
Proof. reflexivity. Qed.

Lemma tunnelClientStream_cancelStream_shape : skel_tunnelClientStream_cancelStream =
  ["call finishStream"; "call receiver.cancel"; "go func"].
Proof. reflexivity. Qed.

Lemma tunnelServerStream_finishStream_shape : skel_tunnelServerStream_finishStream =
  ["call finishErr.CompareAndSwap"; "call finishErr.Load"; "call cancel"; "call svr.removeStream"; "call halfClose"; "call writeMu.Lock"; "defer call writeMu.Unlock"; "set sentHeaders"; "set headers"; "go func"; "set sentHeaders"; "set headers"; "set closed"; "set trailers"].
Proof. reflexivity. Qed.

Lemma tunnelServerStream_halfClose_shape : skel_tunnelServerStream_halfClose =
  ["call halfClosed.CompareAndSwap"; "call receiver.close"].
Proof. reflexivity. Qed.

