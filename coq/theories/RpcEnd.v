(* The tunnel ends at the calling end (Close, the tunnel's context, a carrier failure: CChanEnd in Rpc.v):
   what C04 says about one RPC, in every interleaving of the composed system. *)
From Coq Require Import List Bool Arith Lia.
From RecordUpdate Require Import RecordUpdate.
From GT Require Import Rpc RpcInv RpcProofs RpcSystem RpcProgress.
Import ListNotations.

(* consequences of the client invariant once the channel has ended *)
Definition P_k_end (k : ck) : bool :=
  if k_chend k then
    negb (k_tab k) &&                                        (* the table was dropped *)
    implb (k_new k) (k_ctx k) &&                             (* the stream's context was cancelled *)
    (* an RPC begun afterwards fails at once: nothing is sent, no stream comes into being *)
    (if k_new k then true
     else match kstep k CNew with Some (k', em) => negb (k_new k') && match em with [] => true | _ => false end | None => false end)
  else true.
Lemma kP_end : forall k, kinv k = true -> P_k_end k = true.
Proof. apply kinv_implies. vm_compute. reflexivity. Qed.

(* with the table dropped, no frame can finish the stream any more: from the end of the channel on,
   an unfinished call can only end by its (cancelled) context or by its own reader - never with the
   peer's close, that is never with success *)
Definition kend_check (k : ck) : bool :=
  if negb (kinv k) then true else
  if k_chend k && is_none (k_done k) then
    forallb (fun l => match kstep k l with
                      | Some (k', _) => match k_done k' with
                                        | None | Some ByCtx | Some ByReader => true
                                        | _ => false end
                      | None => true end) all_klbl
  else true.
Lemma kend_all : forall_ck kend_check = true.
Proof. vm_compute. reflexivity. Qed.

Section End.
Variable strict : bool.
Variables (ls : list rlbl) (s : rst).
Hypothesis Hrun : rrun strict r_init ls = Some s.
Hypothesis Hend : k_chend (r_k s) = true.

(* C04: RPCs started on that tunnel afterwards fail immediately instead of hanging *)
Theorem rpc_started_after_the_end_fails_at_once :
  k_new (r_k s) = false ->
  exists s', rstep strict s (LK CNew) = Some s' /\ k_new (r_k s') = false /\ h_c s' = h_c s /\ q_c s' = q_c s.
Proof.
  intros Hn. destruct (rpc_run_inv _ _ _ Hrun) as [Hk _ _ _ _ _].
  pose proof (kP_end _ Hk) as H. unfold P_k_end in H. rewrite Hend, Hn in H.
  apply andb_true_iff in H. destruct H as [_ H].
  cbn [rstep]. destruct (kstep (r_k s) CNew) as [[k' em]|]; [|discriminate].
  apply andb_true_iff in H. destruct H as [H1 H2]. destruct em; [|discriminate].
  eexists. split; [reflexivity|]. cbn. rewrite !app_nil_r. apply negb_true_iff in H1. auto.
Qed.

(* C04: every in-flight call on the calling side gets its terminal result by steps of the client's own
   goroutines (the context was cancelled: rpc_cancel_never_waits_for_the_peer applies) *)
Theorem rpc_in_flight_call_is_released :
  k_new (r_k s) = true -> k_sig (r_k s) = false ->
  k_tab (r_k s) = false /\
  exists l, In l [CWatch; CRemove; CPublish] /\ exists s', rstep strict s (LK l) = Some s'.
Proof.
  intros Hn Hs. destruct (rpc_run_inv _ _ _ Hrun) as [Hk _ _ _ _ _].
  pose proof (kP_end _ Hk) as H. unfold P_k_end in H. rewrite Hend, Hn in H.
  apply andb_true_iff in H. destruct H as [H _]. apply andb_true_iff in H. destruct H as [Ht Hc].
  cbn [implb] in Hc. split; [apply negb_true_iff in Ht; exact Ht|].
  exact (rpc_cancel_never_waits_for_the_peer strict ls s Hrun Hn Hc Hs).
Qed.
End End.

(* C04: ... and that result is not the peer's: once the channel has ended, an unfinished call can only be
   finished by its cancelled context or by its own reader, whatever frames are still handed over *)
Theorem rpc_unfinished_call_cannot_succeed_after_the_end strict s l s' :
  kinv (r_k s) = true -> k_chend (r_k s) = true -> k_done (r_k s) = None -> rstep strict s l = Some s' ->
  k_done (r_k s') = None \/ k_done (r_k s') = Some ByCtx \/ k_done (r_k s') = Some ByReader.
Proof.
  intros Hk He Hd Hs.
  assert (K : forall kl k' em, kstep (r_k s) kl = Some (k', em) ->
              k_done k' = None \/ k_done k' = Some ByCtx \/ k_done k' = Some ByReader).
  { intros kl k' em Hks. pose proof (forall_ck_ok _ kend_all (r_k s)) as H. unfold kend_check in H.
    rewrite Hk, He, Hd in H. cbn [negb andb is_none] in H.
    pose proof (proj1 (forallb_forall _ _) H kl (all_klbl_ok kl)) as H1. cbv beta in H1. rewrite Hks in H1.
    destruct (k_done k') as [[]|]; try discriminate; auto. }
  destruct l as [kl|bad|vl|m]; cbn in Hs.
  - destruct kl; try discriminate;
      match type of Hs with context [kstep ?k ?l] => destruct (kstep k l) as [[k' em]|] eqn:Hks; [|discriminate] end;
      inversion Hs; subst s'; cbn; eapply K; eauto.
  - destruct (q_s s); [discriminate|]. destruct (kstep _ _) as [[k' em]|] eqn:Hks; [|discriminate].
    inversion Hs; subst s'; cbn; eapply K; eauto.
  - destruct vl; try discriminate;
      match type of Hs with context [vstep ?st ?v ?l] => destruct (vstep st v l) as [[v' em]|]; [|discriminate] end;
      inversion Hs; subst s'; cbn; auto.
  - destruct (q_c s); [discriminate|]. destruct (vstep _ _ _) as [[v' em]|]; [|discriminate].
    inversion Hs; subst s'; cbn; auto.
Qed.

(* non-vacuity: a call in flight when the channel is closed ends as cancelled; the peer's close, still
   in the carrier, is ignored; a later call fails at once *)
Example chan_end_run_ok :
  exists s, rrun true r_init [LK CNew; LVLoop LNormal; LV HReturn; LV SFinH; LV SFinH; LV SFinH; LV SCloseGo; LV SCloseGo;
                              LK CChanEnd; LKLoop false; LKLoop false; LK CWatch; LK CRemove; LK CPublish] = Some s /\
            k_done (r_k s) = Some ByCtx /\ k_sig (r_k s) = true /\ k_tab (r_k s) = false /\ k_err (r_k s) = false /\ q_s s = [].
Proof. eexists. vm_compute. repeat split. Qed.

(* ---- C02: headers are available no later than the first response message ---- *)
Definition P_k_hdrs (k : ck) : bool := implb (k_gotmsg k) (k_hdrs k) && implb (k_sig k) (k_hdrs k).
Lemma kP_hdrs : forall k, kinv k = true -> P_k_hdrs k = true.
Proof. apply kinv_implies. vm_compute. reflexivity. Qed.
(* in every interleaving: once a response message frame has been accepted for the caller, the headers have
   been recorded (Header() returns at once, the grpc.Header targets are filled) - because the server emits
   headers before its first message (rpc_server_frames_conform), the carrier is FIFO, and the loop takes the
   headers while the stream is still in its table; and they are published at the latest with the result *)
Theorem rpc_headers_no_later_than_first_message strict ls s :
  rrun strict r_init ls = Some s ->
  (k_gotmsg (r_k s) = true -> k_hdrs (r_k s) = true) /\ (k_sig (r_k s) = true -> k_hdrs (r_k s) = true).
Proof.
  intros Hrun. destruct (rpc_run_inv _ _ _ Hrun) as [Hk _ _ _ _ _ _].
  pose proof (kP_hdrs _ Hk) as H. unfold P_k_hdrs in H. apply andb_true_iff in H. destruct H as [H1 H2].
  split; intros E; rewrite E in *; cbn in *; assumption.
Qed.
(* what the client's loop takes for the id is always a conforming server emission sequence *)
Theorem rpc_client_is_handed_conforming_frames strict ls s :
  rrun strict r_init ls = Some s -> exists d, h_s s = d ++ q_s s /\ gs_run d <> GsBad.
Proof.
  intros Hrun. pose proof (rpc_run_inv _ _ _ Hrun) as I. destruct I as [_ _ _ _ _ _ (d & Hd1 & Hd2)].
  exists d. split; [exact Hd1|]. apply (gs_prefix_ok d (q_s s)). rewrite <- Hd1. exact (rpc_server_frames_conform _ _ _ Hrun).
Qed.
Example headers_run_ok :
  exists s, rrun true r_init [LK CNew; LVLoop LNormal; LV HSend; LKLoop false; LKLoop false] = Some s /\
            k_gotmsg (r_k s) = true /\ k_hdrs (r_k s) = true /\ k_gin (r_k s) = GsHdr.
Proof. eexists. vm_compute. repeat split. Qed.
