(* Proofs about the atomic-level sender: no lost wake-up under any interleaving; the
   sender never has more un-credited bytes outstanding than its window; chunk bounds. *)
From Coq Require Import List NArith ZArith Lia Bool ZifyN ZifyBool.
From GT Require Import SenderAtomic.
Import ListNotations.
Local Open Scope N_scope.
Ltac Zify.zify_post_hook ::= Z.div_mod_to_equations.

Section P.
Variable cmax : N.
Hypothesis cmax_pos : 0 < cmax.
Notation step := (step cmax).
Notation run := (run cmax).

(* ---------- no lost wake-up ---------- *)
Definition Inv (s : sa) : Prop :=
  win s < M32 /\ (sp s = SWait -> 0 < win s -> tok s = true \/ up s = UAdded 0).

Lemma step_inv s l s' : Inv s -> step s l = Some s' -> Inv s'.
Proof.
  unfold Inv, SenderAtomic.step, set_sp, M32. intros [Hb H] E.
  destruct l, (sp s) eqn:Esp, (up s) eqn:Eup; try discriminate;
    repeat match type of E with
    | context [if ?b then _ else _] => destruct b eqn:?
    end; inversion E; subst; clear E; cbn [win tok sp up] in *;
    (split; [ try lia | ]);
    intros Hsp Hpos; try discriminate; try (rewrite Esp in Hsp; discriminate).
  all: try (exfalso; lia).
  all: try (rewrite Esp in *; solve [auto]).
  all: try (specialize (H eq_refl)).
  all: try (destruct (N.eq_dec (win s) 0) as [Hz|Hz];
            [ solve [right; f_equal; lia | lia | auto]
            | destruct H as [Ht|Hu]; [lia| | ]; solve [auto | congruence | left; reflexivity] ]).
  all: try (destruct (H Hpos) as [?|?]; [left; assumption| congruence]).
  all: try (destruct (H Hpos) as [?|Hu]; [left; assumption|]; injection Hu as Hu; exfalso; lia).
Qed.

Lemma run_inv ls : forall s s', Inv s -> run s ls = Some s' -> Inv s'.
Proof.
  induction ls as [|l ls IH]; intros s s' Hs Hr; cbn [SenderAtomic.run] in Hr.
  - inversion Hr; subst; assumption.
  - destruct (step s l) as [s1|] eqn:E; [|discriminate]. eapply IH; [eapply step_inv; eassumption | eassumption].
Qed.

Lemma init_inv w0 msg : w0 < M32 -> Inv (sa_init w0 msg).
Proof. intro H. split; [exact H | discriminate]. Qed.

(* under every interleaving: a sender parked in the wait while credit is available and no
   updateWindow call is in progress can take the wake-up token *)
Theorem never_stranded w0 msg ls s : w0 < M32 -> run (sa_init w0 msg) ls = Some s ->
  sp s = SWait -> 0 < win s -> up s = UIdle -> exists s', step s LWaitTok = Some s'.
Proof.
  intros Hw Hr Hsw Hp Hu. destruct (run_inv ls _ _ (init_inv w0 msg Hw) Hr) as [_ H].
  destruct (H Hsw Hp) as [Ht|Hc]; [|congruence].
  unfold SenderAtomic.step. rewrite Hsw, Ht. eauto.
Qed.

(* ... and a parked sender whose context ended can always leave *)
Theorem cancel_releases s : sp s = SWait -> cancelled s = true -> exists s', step s LWaitCtx = Some s'.
Proof. intros H1 H2. unfold SenderAtomic.step. rewrite H1, H2. eauto. Qed.

(* the wake-up token is only consumed by the sender; with window available it proceeds to a CAS *)
Lemma woken_sender_progresses s s1 : step s LWaitTok = Some s1 -> 0 < win s ->
  exists s2, step s1 LLoad = Some s2 /\ sp s2 = SCas (win s).
Proof.
  unfold SenderAtomic.step. destruct (sp s) eqn:E; try discriminate. destruct (tok s); [|discriminate].
  intros H Hp. inversion H; subst; clear H. cbn [sp win]. unfold set_sp.
  replace (win s =? 0) with false by lia. eexists; split; reflexivity.
Qed.

(* ---------- accounting: window respected ---------- *)
(* a conforming peer only returns credit for bytes it has received *)
Definition conforming (s : sa) (l : lbl) : bool :=
  match l with UAdd a => credits s + a <=? emitted s | _ => true end.

Fixpoint run_conf (s : sa) (ls : list lbl) : option sa :=
  match ls with
  | [] => Some s
  | l :: r => if conforming s l then match step s l with Some s' => run_conf s' r | None => None end else None
  end.

Definition Acct (w0 msg : N) (s : sa) : Prop :=
  win s + reserved s + emitted s = w0 + credits s /\ credits s <= emitted s /\
  emitted s + rem s = msg /\
  Forall (fun cf => fst cf <= cmax) (out s) /\
  match sp s with
  | SCas w => 0 < w
  | SEmit c => c <= rem s /\ c <= cmax /\ (0 < rem s -> 0 < c)
  | _ => True
  end.

Lemma step_acct w0 msg s l s' : w0 < M32 -> Acct w0 msg s -> conforming s l = true ->
  step s l = Some s' -> Acct w0 msg s'.
Proof.
  unfold Acct, SenderAtomic.step, set_sp, reserved, conforming, M32.
  intros Hw0 (A1 & A2 & A3 & A4 & A5) Hc E.
  destruct l, (sp s) eqn:Esp, (up s) eqn:Eup; try discriminate;
    repeat match type of E with
    | context [if ?b then _ else _] => destruct b eqn:?
    end; inversion E; subst; clear E; cbn [win sp emitted credits rem out] in *;
    rewrite ?Esp in *;
    repeat match goal with |- _ /\ _ => split end;
    try assumption; try lia;
    try (apply Forall_app; split; [assumption| constructor; [cbn [fst]; lia | constructor]]).
  all: try (rewrite N.mod_small by lia; lia).
Qed.

Lemma init_acct w0 msg : Acct w0 msg (sa_init w0 msg).
Proof. unfold Acct, sa_init, reserved. cbn. repeat split; try lia. constructor. Qed.

Lemma run_conf_acct w0 msg ls : w0 < M32 -> forall s s', Acct w0 msg s -> run_conf s ls = Some s' -> Acct w0 msg s'.
Proof.
  intro Hw. induction ls as [|l ls IH]; intros s s' Hs Hr; cbn [run_conf] in Hr.
  - inversion Hr; subst; assumption.
  - destruct (conforming s l) eqn:Ec; [|discriminate].
    destruct (step s l) as [s1|] eqn:E; [|discriminate].
    eapply IH; [eapply step_acct; eassumption | eassumption].
Qed.

(* for every interleaving with a conforming peer: bytes emitted and not yet credited never
   exceed the initial window; every chunk is at most cmax *)
Theorem window_respected w0 msg ls s : w0 < M32 -> run_conf (sa_init w0 msg) ls = Some s ->
  emitted s - credits s <= w0 /\ emitted s - credits s + win s + reserved s = w0 /\
  Forall (fun cf => fst cf <= cmax) (out s).
Proof.
  intros Hw Hr. destruct (run_conf_acct w0 msg ls Hw _ _ (init_acct w0 msg) Hr) as (A1 & A2 & _ & A4 & _).
  repeat split; try lia. assumption.
Qed.

(* once the peer has credited everything, the whole window is available again *)
Theorem window_restored w0 msg ls s : w0 < M32 -> run_conf (sa_init w0 msg) ls = Some s ->
  credits s = emitted s -> reserved s = 0 -> win s = w0.
Proof.
  intros Hw Hr Hc Hres. destruct (run_conf_acct w0 msg ls Hw _ _ (init_acct w0 msg) Hr) as (A1 & _).
  lia.
Qed.

End P.
