(* C18 — grpc-timeout header parsing.
   Model of timeoutFromHeaders (tunnel_server.go), a declarative statement of
   the gRPC wire specification, and the pre-repair parser (for the refutation
   kept as a regression witness).  No proofs in this file. *)
From Coq Require Import List NArith ZArith Bool.
From GTgen Require Import Params.
Import ListNotations.
Local Open Scope Z_scope.

(* bytes are N in 0..255; strings are lists of bytes *)
Definition is_digit (b : N) : bool := (48 <=? b)%N && (b <=? 57)%N.
Definition digit_val (b : N) : Z := Z.of_N b - 48.

Definition max_int64 : Z := 2 ^ 63 - 1.
Definition max_uint64 : Z := 2 ^ 64 - 1.
Definition wrap64 (z : Z) : Z :=
  let m := z mod 2 ^ 64 in if m <? 2 ^ 63 then m else m - 2 ^ 64.

(* ---------- specification (gRPC over HTTP/2: Timeout -> TimeoutValue TimeoutUnit,
   TimeoutValue = 1..8 ASCII digits, unit in H M S m u n) ---------- *)
Definition spec_unit (u : N) : option Z :=
  if (u =? 72)%N then Some 3600000000000        (* H *)
  else if (u =? 77)%N then Some 60000000000     (* M *)
  else if (u =? 83)%N then Some 1000000000      (* S *)
  else if (u =? 109)%N then Some 1000000        (* m *)
  else if (u =? 117)%N then Some 1000           (* u *)
  else if (u =? 110)%N then Some 1              (* n *)
  else None.

Definition digits_value (ds : list N) : Z :=
  fold_left (fun a b => a * 10 + digit_val b) ds 0.

(* [spec_timeout s] : the duration in nanoseconds the header value [s] encodes,
   saturated at 2^63-1; None when [s] is malformed under the specification. *)
Definition spec_timeout (s : list N) : option Z :=
  match rev s with
  | [] => None
  | u :: rds =>
      let ds := rev rds in
      if (Nat.leb 1 (length ds) && Nat.leb (length ds) 8 && forallb is_digit ds)%bool then
        match spec_unit u with
        | Some k => Some (Z.min (digits_value ds * k) max_int64)
        | None => None
        end
      else None
  end.

Definition malformed (s : list N) : Prop := spec_timeout s = None.

(* ---------- implementation model (transliteration of the Go code) ---------- *)

(* strconv.ParseUint(s, 10, 64): error on empty input, non-digit, or overflow *)
Fixpoint parse_uint_acc (acc : Z) (s : list N) : option Z :=
  match s with
  | [] => Some acc
  | b :: r =>
      if is_digit b then
        let acc' := acc * 10 + digit_val b in
        if acc' >? max_uint64 then None else parse_uint_acc acc' r
      else None
  end.
Definition parse_uint (s : list N) : option Z :=
  match s with [] => None | _ => parse_uint_acc 0 s end.

Fixpoint lookup_unit (u : N) (tbl : list (N * Z)) : option Z :=
  match tbl with
  | [] => None
  | (c, k) :: r => if (c =? u)%N then Some k else lookup_unit u r
  end.

Definition impl_timeout (s : list N) : option Z :=
  let n := length s in
  if (Nat.ltb n 2 || Nat.ltb 9 n)%bool then None
  else
    let u := last s 0%N in
    let ds := removelast s in
    match lookup_unit u timeout_unit_table with
    | None => None
    | Some unit =>
        if forallb is_digit ds then
          match parse_uint ds with
          | None => None
          | Some t =>
              if t >? max_int64 / unit then Some max_int64
              else Some (wrap64 (t * unit))
          end
        else None
    end.

(* headers.Get("grpc-timeout") yields a list of values; the last one is used *)
Definition timeout_from_headers (vals : list (list N)) : option Z :=
  match rev vals with
  | [] => None
  | s :: _ => impl_timeout s
  end.
Definition spec_from_headers (vals : list (list N)) : option Z :=
  match rev vals with
  | [] => None
  | s :: _ => spec_timeout s
  end.

(* ---------- the parser before the repair (strconv.Atoi, no range check) ---------- *)
Definition parse_int (s : list N) : option Z :=
  let body sgn ds :=
    match ds with
    | [] => None
    | _ => if forallb is_digit ds then
             let v := sgn * digits_value ds in
             if (v <? - 2 ^ 63) || (v >? max_int64) then None else Some v
           else None
    end in
  match s with
  | 43%N :: r => body 1 r
  | 45%N :: r => body (-1) r
  | _ => body 1 s
  end.

Definition impl_timeout_v0 (s : list N) : option Z :=
  if Nat.ltb (length s) 2 then None
  else
    match parse_int (removelast s) with
    | None => None
    | Some t =>
        match spec_unit (last s 0%N) with
        | Some k => Some (wrap64 (t * k))
        | None => None
        end
    end.
