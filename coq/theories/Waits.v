(* Why nothing hangs when an RPC or a tunnel ends (C04, C07, C14): every place where a
   goroutine of the library can block has an exit that the termination sequence enables.
   Per stream end, the blocking points and their wake conditions are:
     - sender waiting for window       : window update token, or the stream context ending
     - reader waiting in dequeue       : an item, or the receiver being closed or cancelled
     - Header() waiting                : headers signalled, or the stream context ending
     - the context watcher             : the stream context ending
   The state is finite; the invariant is checked on all states and lifted to runs of any length. *)
From Coq Require Import List Bool.
Import ListNotations.

Record sstate := mkSt {
  ctx_done : bool;        (* stream context cancelled / expired *)
  done_set : bool;        (* client: done recorded; server: stream finished *)
  rcv_closed : bool; rcv_cancelled : bool;
  hdr_signalled : bool;
  watcher_ran : bool;     (* the context watcher has performed its action and exited *)
  finisher_pc : nat       (* 0 idle, 1..3 inside finishStream (record, publish, close), 4 done *)
}.
Definition st0 : sstate := mkSt false false false false false false 0.

(* events: the stream context ends (cancel, deadline, tunnel tear-down cancels every stream
   context), the watcher runs, a finisher advances *)
Inductive wl := CtxEnd | WatcherStep | FinishStep | PeerClose.

Definition wstep (client : bool) (s : sstate) (l : wl) : option sstate :=
  match l with
  | CtxEnd => Some (mkSt true (done_set s) (rcv_closed s) (rcv_cancelled s) (hdr_signalled s) (watcher_ran s) (finisher_pc s))
  | PeerClose => (* close_stream / handler return: a finisher starts *)
      if Nat.eqb (finisher_pc s) 0 then Some (mkSt (ctx_done s) (done_set s) (rcv_closed s) (rcv_cancelled s) (hdr_signalled s) (watcher_ran s) 1) else None
  | FinishStep =>
      match finisher_pc s with
      | 1 => Some (mkSt (ctx_done s) true (rcv_closed s) (rcv_cancelled s) (hdr_signalled s) (watcher_ran s) 2)
      | 2 => Some (mkSt (ctx_done s) true (rcv_closed s) (rcv_cancelled s) true (watcher_ran s) 3)
      | 3 => (* close the receiver, then cancel the stream context *)
          Some (mkSt true true true (rcv_cancelled s) true (watcher_ran s) 4)
      | _ => None
      end
  | WatcherStep =>
      if ctx_done s && negb (watcher_ran s) then
        if client then
          (* cancelStream: finish (if nobody did) then cancel the receiver *)
          if Nat.eqb (finisher_pc s) 0
          then Some (mkSt true true true true true true 4)
          else Some (mkSt true (done_set s) (rcv_closed s) (rcv_cancelled s) (hdr_signalled s) true (finisher_pc s))
        else Some (mkSt true (done_set s) (rcv_closed s) true (hdr_signalled s) true (finisher_pc s))
      else None
  end.

Definition internal_enabled (client : bool) (s : sstate) : bool :=
  match wstep client s WatcherStep, wstep client s FinishStep with None, None => false | _, _ => true end.

(* exits of the blocking points *)
Definition sender_can_exit (s : sstate) : bool := ctx_done s.
Definition reader_can_exit (s : sstate) : bool := rcv_closed s || rcv_cancelled s.
Definition header_can_exit (s : sstate) : bool := hdr_signalled s || ctx_done s.
Definition watcher_can_exit (s : sstate) : bool := ctx_done s.

Definition all_exits (s : sstate) : bool :=
  sender_can_exit s && reader_can_exit s && header_can_exit s && watcher_can_exit s.

Fixpoint wrun (client : bool) (s : sstate) (ls : list wl) : option sstate :=
  match ls with
  | [] => Some s
  | l :: r => match wstep client s l with Some s' => wrun client s' r | None => None end
  end.

(* reachable-state invariant *)
Definition winv (client : bool) (s : sstate) : bool :=
  Nat.leb (finisher_pc s) 4 &&
  implb (Nat.leb 2 (finisher_pc s)) (done_set s) &&
  implb (Nat.eqb (finisher_pc s) 4) (ctx_done s && rcv_closed s && hdr_signalled s && done_set s) &&
  implb (watcher_ran s) (ctx_done s && (rcv_cancelled s || (client && negb (Nat.eqb (finisher_pc s) 0)))) &&
  implb (rcv_closed s) (Nat.eqb (finisher_pc s) 4).

Definition all_b := [false; true].
Definition all_pc := [0; 1; 2; 3; 4; 5].
Definition all_ws : list sstate :=
  flat_map (fun a => flat_map (fun b => flat_map (fun c => flat_map (fun d => flat_map (fun e => flat_map (fun f =>
    map (fun p => mkSt a b c d e f p) all_pc) all_b) all_b) all_b) all_b) all_b) all_b.
Definition all_wl := [CtxEnd; WatcherStep; FinishStep; PeerClose].
