(* Lock-step correspondence between the composed per-RPC model (Rpc.v) and the implementation, on
   the step-controlled traces (M2): the operations the controller performed on an RPC (start, send,
   half-close, cancel, handler sends / returns, frames handed over by the carrier, channel close) are
   replayed on the model - each followed by the internal steps the settled system has taken - and
   after every action the model's observable state is compared with the implementation's:
     1330 the frames the tunnel client has emitted on the stream (kinds, window updates aside, runs
          of data frames collapsed) differ from the model's history h_c
     1331 ... the tunnel server's, h_s
     1332 the client's stream table holds a different number of entries than the model says
     1333 ... the server's
     1334 a window update was emitted by an endpoint whose model forbids it (stream finished there)
   Judged: one tunnel, flow control (frames are processed as soon as handed over), real endpoints,
   RPCs without deadline; an RPC stops being judged when the trace leaves what the model covers
   (tunnel-level events other than graceful shutdown, failed sends). *)
From Coq Require Import List NArith ZArith Bool.
From GT Require Import Trace MonWire MonApp Rpc.
Import ListNotations.
Local Open Scope N_scope.

Definition k_internal_l : list klbl := [CWatch; CRemove; CPublish; CGoCancel; CWuSend].
Definition v_internal_l : list vlbl := [SFinL; SFinH; SCloseGo; SRejGo; SWuSend].

Definition try_step (s : rst) (l : rlbl) : rst := match rstep false s l with Some s' => s' | None => s end.
Definition settle1 (s : rst) : rst :=
  fold_left (fun s l => try_step s (LV l)) v_internal_l (fold_left (fun s l => try_step s (LK l)) k_internal_l s).
Fixpoint settle (fuel : nat) (s : rst) : rst := match fuel with O => s | S f => settle f (settle1 s) end.

Record rrs := mkRrs {
  rr_m : list (N * rst);                          (* rpc -> model state *)
  rr_ids : list (Z * N);                          (* stream id -> rpc *)
  rr_q : list (dir * list (Z * fkind));           (* emitted, not yet handed over *)
  rr_oc : list (N * list cframe); rr_os : list (N * list sframe);   (* observed emissions per rpc *)
  rr_sh : list (N * shape);
  rr_inv : list N;                                (* RPCs made through Invoke *)
  rr_off : bool;                                  (* nothing is judged any more *)
  rr_fails : list failure
}.
Fixpoint lget {V} (k : N) (m : list (N * V)) : option V :=
  match m with [] => None | (k', v) :: r => if N.eqb k k' then Some v else lget k r end.
Fixpoint lset {V} (k : N) (v : V) (m : list (N * V)) : list (N * V) :=
  match m with [] => [(k, v)] | (k', v') :: r => if N.eqb k k' then (k, v) :: r else (k', v') :: lset k v r end.
Fixpoint lrem {V} (k : N) (m : list (N * V)) : list (N * V) :=
  match m with [] => [] | (k', v') :: r => if N.eqb k k' then r else (k', v') :: lrem k r end.
Fixpoint zget (k : Z) (m : list (Z * N)) : option N :=
  match m with [] => None | (k', v) :: r => if Z.eqb k k' then Some v else zget k r end.
Definition dq_get (d : dir) (q : list (dir * list (Z * fkind))) : list (Z * fkind) :=
  match find (fun x => dir_eqb d (fst x)) q with Some (_, l) => l | None => [] end.
Definition dq_set (d : dir) (l : list (Z * fkind)) (q : list (dir * list (Z * fkind))) :=
  (d, l) :: filter (fun x => negb (dir_eqb d (fst x))) q.

Definition lbl_code (l : rlbl) : N :=
  match l with
  | LK CNew => 1 | LK CSend => 2 | LK CHalf => 3 | LK CCtxEnd => 4 | LK CWuCheck => 5 | LK CChanEnd => 6 | LK _ => 9
  | LKLoop _ => 10
  | LV HSendHdr => 21 | LV HSend => 22 | LV HReturn => 23 | LV SWuCheck => 24 | LV _ => 29
  | LVLoop _ => 30
  end.
(* apply a model label to rpc r (if it is judged); an impossible label ends the judging of r *)
Definition on_rpc (st : rrs) (r : N) (ls : list rlbl) : rrs :=
  match lget r (rr_m st) with
  | None => st
  | Some s =>
      let go := fold_left (fun acc l => match acc with
                                        | Some s => match rstep false s l with Some s' => Some (settle 6 s') | None => None end
                                        | None => None end) ls (Some s) in
      match go with
      | Some s' => mkRrs (lset r s' (rr_m st)) (rr_ids st) (rr_q st) (rr_oc st) (rr_os st) (rr_sh st) (rr_inv st) (rr_off st) (rr_fails st)
      | None => mkRrs (lrem r (rr_m st)) (rr_ids st) (rr_q st) (rr_oc st) (rr_os st) (rr_sh st) (rr_inv st) (rr_off st)
                      (rr_fails st ++ [mkFail 1390 (match ls with l :: _ => lbl_code l | [] => 0 end) (Z.of_N r) (Z.of_nat (length ls))])   (* 139x: why an RPC left the replay (not failures) *)
      end
  end.
Definition drop_rpc (st : rrs) (r : N) : rrs :=
  mkRrs (lrem r (rr_m st)) (rr_ids st) (rr_q st) (rr_oc st) (rr_os st) (rr_sh st) (rr_inv st) (rr_off st)
        (rr_fails st ++ [mkFail 1391 0 (Z.of_N r) 0]).
Definition rfail (st : rrs) (f : list failure) : rrs :=
  mkRrs (rr_m st) (rr_ids st) (rr_q st) (rr_oc st) (rr_os st) (rr_sh st) (rr_inv st) (rr_off st) (rr_fails st ++ f).

Definition ckind (k : fkind) : option cframe :=
  match k with KNew _ _ _ _ _ => Some FNew | KMsg _ _ | KMore _ => Some FReq | KHalf => Some FHalf
             | KCancel => Some FCancel | KWu _ => Some FCwu | _ => None end.
Definition skind (k : fkind) : option sframe :=
  match k with KHdrs _ => Some FHdr | KMsg _ _ | KMore _ => Some FResp | KClose _ _ => Some FClose
             | KWu _ => Some FSwu | _ => None end.
Definition cf_eqb (a b : cframe) : bool :=
  match a, b with FNew, FNew | FReq, FReq | FHalf, FHalf | FCancel, FCancel | FCwu, FCwu => true | _, _ => false end.
Definition sf_eqb (a b : sframe) : bool :=
  match a, b with FHdr, FHdr | FResp, FResp | FClose, FClose | FSwu, FSwu => true | _, _ => false end.
(* window updates aside, runs of data frames collapsed *)
Fixpoint norm_c (l : list cframe) : list cframe :=
  match l with
  | [] => []
  | FCwu :: r => norm_c r
  | FReq :: r => match norm_c r with FReq :: r' => FReq :: r' | r' => FReq :: r' end
  | x :: r => x :: norm_c r
  end.
Fixpoint norm_s (l : list sframe) : list sframe :=
  match l with
  | [] => []
  | FSwu :: r => norm_s r
  | FResp :: r => match norm_s r with FResp :: r' => FResp :: r' | r' => FResp :: r' end
  | x :: r => x :: norm_s r
  end.
Fixpoint list_eqb {A} (eqb : A -> A -> bool) (a b : list A) : bool :=
  match a, b with [], [] => true | x :: a', y :: b' => eqb x y && list_eqb eqb a' b' | _, _ => false end.

(* The model emits one data frame per message, at the moment of the call, and a window update at the moment
   the implementation emits one; the implementation emits a message as several frames, possibly much later
   (flow control).  Data frames and window updates may therefore sit in the model's queue in another order
   than on the wire.  To hand the model the frame the implementation was handed, the first frame of that
   kind is moved to the head of the model's queue, past data frames and window updates only. *)
Definition c_dw (f : cframe) : bool := match f with FReq | FCwu => true | _ => false end.
Definition s_dw (f : sframe) : bool := match f with FResp | FSwu => true | _ => false end.
Fixpoint first_c (f : cframe) (q : list cframe) : option (list cframe) :=
  match q with
  | [] => None
  | x :: r => if cf_eqb x f then Some q
              else if c_dw x then match first_c f r with Some (y :: r') => Some (y :: x :: r') | _ => None end
              else None
  end.
Fixpoint first_s (f : sframe) (q : list sframe) : option (list sframe) :=
  match q with
  | [] => None
  | x :: r => if sf_eqb x f then Some q
              else if s_dw x then match first_s f r with Some (y :: r') => Some (y :: x :: r') | _ => None end
              else None
  end.
Definition with_qc (s : rst) (q : list cframe) : rst := mkRst (r_k s) (r_v s) q (q_s s) (h_c s) (h_s s) (n_inv s).
Definition with_qs (s : rst) (q : list sframe) : rst := mkRst (r_k s) (r_v s) (q_c s) q (h_c s) (h_s s) (n_inv s).
Definition set_model (st : rrs) (r : N) (s : rst) : rrs :=
  mkRrs (lset r s (rr_m st)) (rr_ids st) (rr_q st) (rr_oc st) (rr_os st) (rr_sh st) (rr_inv st) (rr_off st) (rr_fails st).

(* the send of rpc r was logged in the same action as its start: the RPC is made through Invoke *)
Definition is_invoke (tr : trace) (act : N) (r : N) : bool :=
  existsb (fun x => match x with (a, Call (Cw r') ONew _ _ _ _ _) => N.eqb a act && N.eqb r r' | _ => false end) tr &&
  existsb (fun x => match x with (a, Call (Cw r') OSend _ _ _ _ _) => N.eqb a act && N.eqb r r' | _ => false end) tr.

Definition rr_step (tr : trace) (st : rrs) (e : N * ev) : rrs :=
  if rr_off st then st else
  let '(act, e) := e in
  match e with
  | NewCall r t sh _ _ _ to multi =>
      if N.eqb t 0 && negb multi && match to with None => true | Some _ => false end
      then mkRrs (lset r r_init (rr_m st)) (rr_ids st) (rr_q st) (lset r [] (rr_oc st)) (lset r [] (rr_os st)) (lset r sh (rr_sh st)) (rr_inv st) false (rr_fails st)
      else (* not replayed, but it exists: the table sizes are then not compared *)
           mkRrs (rr_m st) (rr_ids st) (rr_q st) (rr_oc st) (rr_os st) (lset r sh (rr_sh st)) (rr_inv st) false (rr_fails st)
  | Ret (Cw r) ONew res _ _ _ _ _ _ _ =>
      if res_is_ok res then
        (* Invoke performs newStream, SendMsg and CloseSend in one go (its send is logged in the same action
           as its start, its half-close is not logged) *)
        if is_invoke tr act r
        then on_rpc (mkRrs (rr_m st) (rr_ids st) (rr_q st) (rr_oc st) (rr_os st) (rr_sh st) (r :: rr_inv st) (rr_off st) (rr_fails st)) r [LK CNew; LK CSend; LK CHalf]
        else on_rpc st r [LK CNew]
      else drop_rpc st r
  | Call (Cw r) OSend _ _ _ _ _ =>
      if is_invoke tr act r then st else on_rpc st r [LK CSend]
  | Ret (Cw r) OSend res _ _ _ _ _ _ _ | Ret (Hw r) OSend res _ _ _ _ _ _ _ =>
      (* a send that fails (a message that cannot be encoded, a stream that ended meanwhile, a refused
         second message) may or may not have put frames on the wire: the RPC leaves the replay *)
      if res_is_ok res then st else drop_rpc st r
  | Ret (Cr r) ORecv res _ _ _ _ _ _ _ =>
      (* an Invoke that fails may have skipped its SendMsg or CloseSend: it leaves the replay *)
      if existsb (N.eqb r) (rr_inv st) && negb (res_is_ok res) && negb (res_eqb res REof) then drop_rpc st r else st
  | Call (Cw r) OCloseSend _ _ _ _ _ => on_rpc st r [LK CHalf]
  | Ret (Cx r) OCancel _ _ _ _ _ _ _ _ => on_rpc st r [LK CCtxEnd]
  | Call (Hw r) OSendHdr _ _ _ _ _ => on_rpc st r [LV HSendHdr]
  | Call (Hw r) OSend _ _ _ _ _ => on_rpc st r [LV HSend]
  | Call (Hx r) OReturn _ _ _ _ stt =>
      (* a unary handler's response is sent by the library after the handler returns OK *)
      match lget r (rr_sh st) with
      | Some ShU => if res_is_ok stt then on_rpc st r [LV HSend; LV HReturn] else on_rpc st r [LV HReturn]
      | _ => on_rpc st r [LV HReturn]
      end
  | Emit d t id k true =>
      if negb (N.eqb t 0) then st else
      let st := mkRrs (rr_m st) (match k with KNew (Some r) _ _ _ _ => (id, r) :: rr_ids st | _ => rr_ids st end)
                      (dq_set d (dq_get d (rr_q st) ++ [(id, k)]) (rr_q st)) (rr_oc st) (rr_os st) (rr_sh st) (rr_inv st) (rr_off st) (rr_fails st) in
      match zget id (rr_ids st) with
      | None => st
      | Some r =>
          match d with
          | C2S =>
              match ckind k with
              | None => st
              | Some f =>
                  let st := mkRrs (rr_m st) (rr_ids st) (rr_q st)
                                  (lset r (match lget r (rr_oc st) with Some l => l ++ [f] | None => [f] end) (rr_oc st))
                                  (rr_os st) (rr_sh st) (rr_inv st) (rr_off st) (rr_fails st) in
                  match f, lget r (rr_m st) with
                  | FCwu, Some s =>
                      match rstep false s (LK CWuCheck) with
                      | Some s1 => if k_wu (r_k s1) then on_rpc st r [LK CWuCheck]   (* the send follows among the internal steps *)
                                   else drop_rpc (rfail st [mkFail 1334 act id 0]) r
                      | None => st
                      end
                  | _, _ => st
                  end
              end
          | S2C =>
              match skind k with
              | None => st
              | Some f =>
                  let st := mkRrs (rr_m st) (rr_ids st) (rr_q st) (rr_oc st)
                                  (lset r (match lget r (rr_os st) with Some l => l ++ [f] | None => [f] end) (rr_os st))
                                  (rr_sh st) (rr_inv st) (rr_off st) (rr_fails st) in
                  match f, lget r (rr_m st) with
                  | FSwu, Some s =>
                      match rstep false s (LV SWuCheck) with
                      | Some s1 => if v_wu (r_v s1) then on_rpc st r [LV SWuCheck]
                                   else drop_rpc (rfail st [mkFail 1334 act id 1]) r
                      | None => st
                      end
                  | _, _ => st
                  end
              end
          end
      end
  | Deliver d t 1 =>
      if negb (N.eqb t 0) then st else
      match dq_get d (rr_q st) with
      | [] => st
      | (id, k) :: rest =>
          let st := mkRrs (rr_m st) (rr_ids st) (dq_set d rest (rr_q st)) (rr_oc st) (rr_os st) (rr_sh st) (rr_inv st) (rr_off st) (rr_fails st) in
          match zget id (rr_ids st) with
          | None => st
          | Some r =>
              match d with
              | C2S =>
                  (* a start the server refuses (unknown method, shutting down) is not replayed *)
                  match k with
                  | KNew _ _ _ _ _ =>
                      if existsb (fun x => match x with (a, HStart r' _ _ _ _ _ _) => N.eqb a act && N.eqb r r' | _ => false end) tr
                      then on_rpc st r [LVLoop LNormal]
                      else on_rpc st r [LVLoop LReject]     (* no handler started: the server refuses the stream *)
                  | _ =>
                      (* a message travels as several data frames, the model's CSend emits one: a data frame
                         that finds no data frame in the model's queue is a continuation *)
                      match ckind k, lget r (rr_m st) with
                      | Some f, Some s =>
                          match first_c f (q_c s) with
                          | Some q' => on_rpc (set_model st r (with_qc s q')) r [LVLoop LNormal]
                          | None => if c_dw f then st else on_rpc st r [LVLoop LNormal]
                          end
                      | _, _ => on_rpc st r [LVLoop LNormal]
                      end
                  end
              | S2C =>
                  match skind k, lget r (rr_m st) with
                  | Some f, Some s =>
                      match first_s f (q_s s) with
                      | Some q' => on_rpc (set_model st r (with_qs s q')) r [LKLoop false]
                      | None => if s_dw f then st else on_rpc st r [LKLoop false]
                      end
                  | _, _ => on_rpc st r [LKLoop false]
                  end
              end
          end
      end
  | Stim StOpen _ _ _ | Stim StShutdown _ _ _ => st     (* graceful shutdown only turns starts into refusals *)
  | Stim _ _ _ _ | Teardown | Panic =>
      (* once the tunnel itself is disturbed, frames of goroutines that are still running may or may not
         reach the carrier: the replay stops (the channel's end is covered by mon_C04 and RpcEnd.v) *)
      mkRrs (rr_m st) (rr_ids st) (rr_q st) (rr_oc st) (rr_os st) (rr_sh st) (rr_inv st) true (rr_fails st)
  | Probe _ ctabs _ stabs _ =>
      (* the observable state after the action: emissions per stream, table sizes *)
      let pending r := negb (N.eqb (n_calls (Cw r) act tr) (n_rets (Cw r) act tr)) || negb (N.eqb (n_calls (Hw r) act tr) (n_rets (Hw r) act tr)) ||
                       (* a unary handler's response is sent by the library after the handler returned: it may be
                          waiting for window, with no call of the handler's pending - until the close frame is seen *)
                       (match lget r (rr_sh st) with
                        | Some ShU => existsb (fun x => match x with (a, Call (Hx r') OReturn _ _ _ _ _) => N.eqb r r' && (a <=? act) | _ => false end) tr &&
                                      negb (existsb (fun f => sf_eqb f FClose) (match lget r (rr_os st) with Some l => l | None => [] end))
                        | _ => false end) in
      let st := fold_left (fun st x =>
                  let '(r, s) := x in
                  if pending r then st else
                  let oc := match lget r (rr_oc st) with Some l => l | None => [] end in
                  let os := match lget r (rr_os st) with Some l => l | None => [] end in
                  if negb (list_eqb cf_eqb (norm_c (h_c s)) (norm_c oc)) then drop_rpc (rfail st [mkFail 1330 act (Z.of_N r) (Z.of_nat (length (norm_c (h_c s)) * 100 + length (norm_c oc)))]) r
                  else if negb (list_eqb sf_eqb (norm_s (h_s s)) (norm_s os)) then drop_rpc (rfail st [mkFail 1331 act (Z.of_N r) (Z.of_nat (length (norm_s (h_s s)) * 100 + length (norm_s os)))]) r
                  else st) (rr_m st) st in
      (* table sizes, when every RPC of the trace is being replayed *)
      let all := N.of_nat (length (rr_sh st)) in
      if N.eqb all (N.of_nat (length (rr_m st))) && negb (existsb (fun x => pending (fst x)) (rr_m st)) then
        let kt := Z.of_nat (length (filter (fun x => k_tab (r_k (snd x))) (rr_m st))) in
        let vt := Z.of_nat (length (filter (fun x => v_tab (r_v (snd x))) (rr_m st))) in
        let st := match ctabs with [ct] => if (0 <=? ct)%Z && negb (Z.eqb ct kt) then rfail st [mkFail 1332 act kt ct] else st | _ => st end in
        match stabs with [sn] => if negb (Z.eqb (Z.of_N sn) vt) then rfail st [mkFail 1333 act vt (Z.of_N sn)] else st | _ => st end
      else st
  | _ => st
  end.

Definition mon_rpcrun (c : cfg) (tr : trace) : list failure :=
  if expect_fc c && negb (c_rawc c) && negb (c_raws c)
  then filter (fun f => negb ((1390 <=? f_code f) && (f_code f <=? 1399))) (rr_fails (fold_left (rr_step tr) tr (mkRrs [] [] [] [] [] [] [] false [])))
  else [].
Definition mon_rpcrun_debug (c : cfg) (tr : trace) : list failure :=
  if negb (expect_fc c && negb (c_rawc c) && negb (c_raws c)) then [] else
  rr_fails (fold_left (rr_step tr) tr (mkRrs [] [] [] [] [] [] [] false [])).
(* how many RPCs were replayed to the end of the trace (for the evidence) *)
Definition rpcrun_judged (c : cfg) (tr : trace) : nat :=
  if expect_fc c && negb (c_rawc c) && negb (c_raws c)
  then length (rr_m (fold_left (rr_step tr) tr (mkRrs [] [] [] [] [] [] [] false [])))
  else 0.
