(* What the properties state about constants, checked against the values read from the
   Go source on this run (gen/Params.v). *)
From Coq Require Import List NArith ZArith.
From GTgen Require Import Params.
Import ListNotations.

Lemma chunk_max_is_16KiB : chunk_max = 16384%N.            Proof. reflexivity. Qed.
Lemma init_window_is_64KiB : init_window = 65536%N.        Proof. reflexivity. Qed.
Lemma chunk_max_pos : (0 < chunk_max)%N.                   Proof. reflexivity. Qed.
Lemma window_fits_uint32 : (init_window < 4294967296)%N.   Proof. reflexivity. Qed.
Lemma settings_id_is_minus_one : settings_stream_id = (-1)%Z.  Proof. reflexivity. Qed.
Lemma last_seen_starts_below_zero : last_seen0 = (-1)%Z.   Proof. reflexivity. Qed.
Lemma negotiate_header :
  negotiate_key = [103; 114; 112; 99; 116; 117; 110; 110; 101; 108; 45; 110; 101; 103; 111; 116; 105; 97; 116; 101]%N /\
  negotiate_val = [111; 110]%N.
Proof. split; reflexivity. Qed.
(* stream-level rejections of createStream: shutting down and unsupported revision are
   Unavailable (14), malformed name InvalidArgument (3), unknown method Unimplemented (12) *)
Lemma rejection_codes : create_rejection_codes = [14; 14; 3; 12]%N.
Proof. reflexivity. Qed.
