(* the server component against a conforming client: checked on all 819 200 control states, both modes *)
From Coq Require Import List Bool Arith.
From RecordUpdate Require Import RecordUpdate.
From GT Require Import Rpc RpcInv.
Import ListNotations.

Lemma vcheck_all : forall strict, forall_sv (vcheck strict) = true.
Proof. intros []; vm_compute; reflexivity. Qed.
