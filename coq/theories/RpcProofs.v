(* Step lemmas of the two components of Rpc.v, from the checks of RpcCheck*.v *)
From Coq Require Import List Bool Arith Lia.
From RecordUpdate Require Import RecordUpdate.
From GT Require Export Rpc RpcInv RpcCheckK RpcCheckV1 RpcCheckV2 RpcCheckV3 RpcCheckV4.
Import ListNotations.

Lemma kstep_ok k l k' em :
  kinv k = true -> kenv k l = true -> kstep k l = Some (k', em) ->
  kinv k' = true /\ kem_ok k k' em = true /\ k_g k' = fold_left gc_step em (k_g k) /\
  k_gin k' = match l with CLoop f _ => gs_step (k_gin k) f | _ => k_gin k end.
Proof.
  intros Hi He Hs. pose proof (forall_ck_ok _ kcheck_all k) as H. unfold kcheck in H.
  rewrite Hi in H. cbn [negb] in H.
  pose proof (proj1 (forallb_forall _ _) H l (all_klbl_ok l)) as H1. cbv beta in H1.
  rewrite He, Hs in H1. cbn [implb] in H1.
  apply andb_true_iff in H1. destruct H1 as [H1 H4]. apply andb_true_iff in H1. destruct H1 as [H1 H3].
  apply andb_true_iff in H1. destruct H1 as [H1 H2].
  repeat split; auto using gc_eqb_eq, gs_eqb_eq.
Qed.

Lemma ccause_o_eqb_eq a b : ccause_o_eqb a b = true -> a = b.
Proof. destruct a as [[]|], b as [[]|]; cbn; intros; try discriminate; reflexivity. Qed.
Lemma kstep_done_write_once k l k' em c :
  kstep k l = Some (k', em) -> k_done k = Some c -> k_done k' = Some c.
Proof.
  intros Hs Hd. pose proof (forall_ck_ok _ kwo_all k) as H. unfold kwo_check in H.
  pose proof (proj1 (forallb_forall _ _) H l (all_klbl_ok l)) as H1. cbv beta in H1.
  rewrite Hs, Hd in H1. cbn [is_none orb] in H1. apply ccause_o_eqb_eq in H1. congruence.
Qed.

Lemma vstep_ok strict v l v' em :
  vinv strict v = true -> venv v l = true -> vstep strict v l = Some (v', em) ->
  vinv strict v' = true /\ vem_ok v v' l em = true /\ v_g v' = fold_left gs_step em (v_g v).
Proof.
  intros Hi He Hs. pose proof (forall_sv_ok _ (vcheck_all strict) v) as H. unfold vcheck in H.
  rewrite Hi in H. cbn [negb] in H.
  pose proof (proj1 (forallb_forall _ _) H l (all_vlbl_ok l)) as H1. cbv beta in H1.
  rewrite He, Hs in H1. cbn [implb] in H1.
  apply andb_true_iff in H1. destruct H1 as [H1 H3]. apply andb_true_iff in H1. destruct H1 as [H1 H2].
  repeat split; auto using gs_eqb_eq.
Qed.

Lemma vstep_ok_hostile strict v l v' em :
  vinv0 strict v = true -> vstep strict v l = Some (v', em) ->
  vinv0 strict v' = true /\ v_g v' = fold_left gs_step em (v_g v).
Proof.
  intros Hi Hs. pose proof (forall_sv_ok _ (vcheck0_all strict) v) as H. unfold vcheck0 in H.
  rewrite Hi in H. cbn [negb] in H.
  pose proof (proj1 (forallb_forall _ _) H l (all_vlbl_ok l)) as H1. cbv beta in H1.
  rewrite Hs in H1. apply andb_true_iff in H1. destruct H1 as [H1 H2]. split; auto using gs_eqb_eq.
Qed.

Lemma scause_o_eqb_eq a b : scause_o_eqb a b = true -> a = b.
Proof. destruct a as [[]|], b as [[]|]; cbn; intros; try discriminate; reflexivity. Qed.
Lemma vstep_fin_write_once strict v l v' em c :
  vstep strict v l = Some (v', em) -> v_fin v = Some c -> v_fin v' = Some c.
Proof.
  intros Hs Hd. pose proof (forall_sv_ok _ (vwo_all strict) v) as H. unfold vwo_check in H.
  pose proof (proj1 (forallb_forall _ _) H l (all_vlbl_ok l)) as H1. cbv beta in H1.
  rewrite Hs, Hd in H1. cbn [is_none orb] in H1. apply scause_o_eqb_eq in H1. congruence.
Qed.
