(* Code-shape facts: stream creation: ids allocated under the channel lock inside the creation lock, the new_stream frame sent before the goroutine that may emit a cancel is started (Tables.v: ids increase on the wire, new_stream is the first frame of an RPC).
   The skeletons are regenerated from the Go source on every run (gen/Params.v, translator
   paramscan); a change of shape breaks the lemma below - the models above it then no longer
   describe the code, whether or not a property is violated. *)
From Coq Require Import List String.
From GTgen Require Import Params.
Import ListNotations.
Local Open Scope string_scope.

Lemma tunnelChannel_newStream_shape : skel_tunnelChannel_newStream =
  ["call streamCreation.Lock"; "defer call streamCreation.Unlock"; "call allocateStream"; "call stream.Send"; "call removeStream"; "go func"].
Proof. reflexivity. Qed.

