(* Revision negotiation (tunnel_client.go recvLoop, options.go supportedRevisions,
   handler.go / reverse_server.go negotiate header).  Model only. *)
From Coq Require Import List ZArith Bool.
From GTgen Require Import Params.
Import ListNotations.
Local Open Scope Z_scope.

Definition in_slice (x : Z) (l : list Z) : bool := existsb (Z.eqb x) l.

(* tunnelOpts.supportedRevisions (lists regenerated from the source) *)
Definition supported (disable_fc : bool) : list Z :=
  if disable_fc then revisions_fc_disabled else revisions_default.

(* the selection loop of recvLoop: useRevision starts at zero *)
Definition choose_step (mine : list Z) (acc : Z * bool) (rev : Z) : Z * bool :=
  if in_slice rev mine then ((if rev >? fst acc then rev else fst acc), true) else acc.

Definition choose_rev (mine theirs : list Z) : option Z :=
  let theirs' := match theirs with [] => [0] | _ => theirs end in   (* empty list = revision zero *)
  let '(use, ok) := fold_left (choose_step mine) theirs' (0, false) in
  if ok then Some use else None.

(* declarative: the highest revision both ends support *)
Definition is_highest_common (mine theirs : list Z) (r : Z) : Prop :=
  In r mine /\ In r theirs /\ forall r', In r' mine -> In r' theirs -> r' <= r.

(* what a tunnel ends up doing.  [c_adv]/[s_adv]: the tunnel client / tunnel server advertise
   negotiation (the grpctunnel-negotiate header); a legacy peer does not. *)
Inductive mode := ModeFail | ModeRev (r : Z) (settings_exchanged : bool).

Definition tunnel_mode (c_adv s_adv c_disable s_disable : bool) : mode :=
  if negb c_adv then ModeRev 0 false            (* server never sends settings; streams say revision 0 *)
  else if negb s_adv then ModeRev 0 false       (* client does not wait for settings, uses revision 0 *)
  else match choose_rev (supported c_disable) (supported s_disable) with
       | Some r => ModeRev r true
       | None => ModeFail
       end.

Definition flow_control_used (m : mode) : bool :=
  match m with ModeRev r _ => negb (r =? 0) | ModeFail => false end.
