(* The state space of CliFinish is finite (values are abstracted to "whose"), so the
   inductive invariant is checked on every state by computation and lifted to all runs of
   any length by induction. *)
From Coq Require Import List Bool.
From GT Require Import CliFinish.
Import ListNotations.

Definition who_eqb (a b : who2) := match a, b with FA, FA | FB, FB => true | _, _ => false end.
Definition stage_ge2 (s : stage) := match s with StCas | StRemove => false | _ => true end.
Definition stage_num (s : stage) : nat :=
  match s with StCas => 0 | StRemove => 1 | StStep2 => 2 | StStep3 => 3 | StStep4 => 4 | StEnd => 5 end.

(* inductive invariant for the repaired order *)
Definition inv_b (s : cf) : bool :=
  let wstage := match cf_done s with Some FA => Some (cf_a s) | Some FB => Some (cf_b s) | None => None end in
  let lstage := match cf_done s with Some FA => Some (cf_b s) | Some FB => Some (cf_a s) | None => None end in
  match cf_done s, wstage, lstage with
  | None, _, _ =>
      (* nobody has won yet: nothing published, nobody past the CAS *)
      match cf_a s, cf_b s with
      | StCas, StCas => negb (cf_signal s) && negb (cf_rcv_closed s) &&
                        match cf_trailers s with None => true | _ => false end &&
                        match cf_read s with None => true | _ => false end
      | _, _ => false
      end
  | Some w, Some ws, Some ls =>
      (* the loser is still before its CAS or has given up *)
      (match ls with StCas | StEnd => true | _ => false end) &&
      (match ws with StCas => false | _ => true end) &&
      (* publication follows the winner's program counter *)
      (match cf_trailers s with
       | None => Nat.leb (stage_num ws) 2
       | Some t => who_eqb t w && Nat.leb 3 (stage_num ws) end) &&
      Bool.eqb (cf_signal s) (Nat.leb 4 (stage_num ws)) &&
      Bool.eqb (cf_rcv_closed s) (Nat.leb 5 (stage_num ws)) &&
      read_ok s &&
      (match cf_read s with Some (Some d, _) => who_eqb d w && Nat.leb 5 (stage_num ws) | Some (None, _) => false | None => true end)
  | _, _, _ => false
  end.

Definition all_who := [None; Some FA; Some FB].
Definition all_stage := [StCas; StRemove; StStep2; StStep3; StStep4; StEnd].
Definition all_bool := [false; true].
Definition all_read : list (option (option who2 * option who2)) :=
  None :: map Some (list_prod all_who all_who).
Definition all_lbl := [StepA; StepB; Read].

Definition all_states : list cf :=
  flat_map (fun d => flat_map (fun t => flat_map (fun sg => flat_map (fun rc => flat_map (fun a => flat_map (fun b =>
    map (fun r => mkCf d t sg rc a b r) all_read) all_stage) all_stage) all_bool) all_bool) all_who) all_who.

Lemma in_all_who w : In w all_who.           Proof. destruct w as [[|]|]; cbn; auto. Qed.
Lemma in_all_stage s : In s all_stage.       Proof. destruct s; cbn; auto 10. Qed.
Lemma in_all_bool b : In b all_bool.         Proof. destruct b; cbn; auto. Qed.
Lemma in_all_read r : In r all_read.
Proof.
  destruct r as [[d t]|]; [right|left; reflexivity].
  apply in_map, in_prod; apply in_all_who.
Qed.

Lemma in_all_states s : In s all_states.
Proof.
  destruct s as [d t sg rc a b r]. unfold all_states.
  apply in_flat_map. exists d. split; [apply in_all_who|].
  apply in_flat_map. exists t. split; [apply in_all_who|].
  apply in_flat_map. exists sg. split; [apply in_all_bool|].
  apply in_flat_map. exists rc. split; [apply in_all_bool|].
  apply in_flat_map. exists a. split; [apply in_all_stage|].
  apply in_flat_map. exists b. split; [apply in_all_stage|].
  apply in_map. apply in_all_read.
Qed.

Definition closed_b (cfst : bool) (inv : cf -> bool) : bool :=
  forallb (fun s => implb (inv s)
    (forallb (fun l => match cf_step cfst s l with Some s' => inv s' | None => true end) all_lbl)) all_states.

Lemma closed_fixed : closed_b false inv_b = true.
Proof. vm_compute. reflexivity. Qed.

Lemma inv_implies_ok : forallb (fun s => implb (inv_b s) (read_ok s)) all_states = true.
Proof. vm_compute. reflexivity. Qed.

Lemma step_inv s l s' : inv_b s = true -> cf_step false s l = Some s' -> inv_b s' = true.
Proof.
  intros Hi Hs. pose proof closed_fixed as C. unfold closed_b in C.
  rewrite forallb_forall in C. specialize (C s (in_all_states s)). rewrite Hi in C. cbn [implb] in C.
  rewrite forallb_forall in C. assert (Hl : In l all_lbl) by (destruct l; cbn; auto).
  specialize (C l Hl). rewrite Hs in C. exact C.
Qed.

(* every interleaving of the two finishers and the reader, of any length: the caller's terminal
   result is the outcome of the finisher that won the race and Trailer(), read right after,
   returns that same finisher's trailers *)
Theorem terminal_result_and_trailers_agree ls s : cf_run false cf_init ls = Some s -> read_ok s = true.
Proof.
  assert (G : forall ls s0 s1, inv_b s0 = true -> cf_run false s0 ls = Some s1 -> inv_b s1 = true).
  { induction ls0 as [|l r IH]; intros s0 s1 H0 H; cbn [cf_run] in H.
    - inversion H; subst; assumption.
    - destruct (cf_step false s0 l) as [s2|] eqn:E; [|discriminate]. eapply IH; [eapply step_inv; eassumption|eassumption]. }
  intro H. specialize (G ls cf_init s eq_refl H).
  pose proof inv_implies_ok as O. rewrite forallb_forall in O. specialize (O s (in_all_states s)).
  rewrite G in O. exact O.
Qed.

(* done is write-once: the first writer wins, whatever happens later *)
Theorem first_writer_wins ls s w : cf_done s = Some w -> forall s', cf_run false s ls = Some s' -> cf_done s' = Some w.
Proof.
  revert s. induction ls as [|l r IH]; intros s Hd s' H; cbn [cf_run] in H.
  - inversion H; subst; assumption.
  - destruct (cf_step false s l) as [s2|] eqn:E; [|discriminate]. apply (IH s2); [|assumption].
    clear - Hd E. destruct s as [d t sg rc a b rd]. cbn [cf_done] in Hd. subst d.
    destruct l; cbn in E.
    + destruct a; inversion E; subst; reflexivity.
    + destruct b; inversion E; subst; reflexivity.
    + destruct rc; [|discriminate]. destruct rd; inversion E; subst; reflexivity.
Qed.

(* the order before the repair violates the property: the reader is released before the
   trailers are stored *)
Theorem close_first_refuted : exists ls s, cf_run true cf_init ls = Some s /\ read_ok s = false.
Proof.
  exists [StepA; StepA; StepA; Read]. eexists. split; [vm_compute; reflexivity|reflexivity].
Qed.
