(* Proofs about the reverse-tunnel registry. *)
From Coq Require Import List ZArith NArith Bool Arith Lia Permutation ZifyNat ZifyBool ZifyN.
From GT Require Import Registry.
Import ListNotations.
Ltac Zify.zify_post_hook ::= Z.div_mod_to_equations.

(* ---------- single list ---------- *)
Definition latch_ok (c : rc) : Prop := avail_closed c = rc_ready c.

Lemma remove_first_spec t l :
  match remove_first t l with
  | None => ~ In t (map fst l)
  | Some (k, l') => exists a b, l = a ++ (t, k) :: b /\ l' = a ++ b /\ ~ In t (map fst a)
  end.
Proof.
  induction l as [|[t' k'] l IH]; cbn [remove_first map fst]; [intros []|].
  destruct (N.eqb_spec t' t) as [->|Hne].
  - exists [], l. cbn. auto.
  - destruct (remove_first t l) as [[k l']|].
    + destruct IH as (a & b & -> & -> & Hn). exists ((t', k') :: a), b. cbn. repeat split; auto.
      intros [H|H]; [congruence|auto].
    + intros [H|H]; [congruence|auto].
Qed.

Lemma add_latch c t k : latch_ok c -> latch_ok (rc_add c t k).
Proof.
  unfold latch_ok, rc_add, rc_ready. cbn [avail_closed chans]. rewrite app_length. cbn [length].
  intro H. destruct (Nat.eqb_spec (length (chans c) + 1) 1) as [E|E].
  - replace (length (chans c) + 1 =? 0) with false by lia. reflexivity.
  - rewrite H. replace (length (chans c) =? 0) with false by lia.
    replace (length (chans c) + 1 =? 0) with false by lia. reflexivity.
Qed.

Lemma remove_latch c t : latch_ok c -> latch_ok (fst (rc_remove c t)).
Proof.
  unfold latch_ok, rc_remove, rc_ready. intro H.
  pose proof (remove_first_spec t (chans c)) as S.
  destruct (remove_first t (chans c)) as [[k l']|]; cbn [fst]; [|assumption].
  destruct S as (a & b & E & -> & _). destruct (a ++ b) as [|x r] eqn:Eab; cbn; [reflexivity|].
  rewrite H, E, app_length. cbn [length].
  replace (length a + S (length b) =? 0) with false by lia. reflexivity.
Qed.

Lemma pick_latch c : latch_ok c -> latch_ok (fst (rc_pick c)).
Proof. unfold latch_ok, rc_pick, rc_ready. destruct (chans c) eqn:E; cbn; rewrite ?E; auto. Qed.

(* Ready / WaitForReady reflect whether the set is non-empty, after every history *)
Inductive rc_op := CAdd (t k : N) | CRemove (t : N) | CPick.
Definition rc_apply (c : rc) (o : rc_op) : rc :=
  match o with CAdd t k => rc_add c t k | CRemove t => fst (rc_remove c t) | CPick => fst (rc_pick c) end.

Theorem latch_always (ops : list rc_op) :
  let c := fold_left rc_apply ops rc_new in
  avail_closed c = rc_ready c /\ (rc_ready c = true <-> rc_all c <> []).
Proof.
  assert (H : forall c, latch_ok c -> latch_ok (fold_left rc_apply ops c)).
  { induction ops as [|o ops IH]; intros c Hc; [exact Hc|]. cbn [fold_left]. apply IH.
    destruct o; cbn [rc_apply]; [apply add_latch|apply remove_latch|apply pick_latch]; assumption. }
  cbn zeta. split; [apply H; reflexivity|].
  unfold rc_ready, rc_all. destruct (chans (fold_left rc_apply ops rc_new)); cbn; split; congruence.
Qed.

(* a pick returns a registered tunnel, and none only when there is none *)
Theorem pick_member c c' p : rc_pick c = (c', p) ->
  chans c' = chans c /\
  match p with Some t => In t (rc_all c) | None => chans c = [] end.
Proof.
  unfold rc_pick, rc_all. destruct (chans c) as [|x l] eqn:E.
  - intro H; inversion H; subst. rewrite E. auto.
  - intro H; inversion H; subst; clear H. cbn [chans]. split; [reflexivity|].
    match goal with |- context [nth_error _ ?j] => set (i := j) end.
    assert (Hi : i < length (x :: l)).
    { unfold i. cbn [length]. match goal with |- context [Nat.leb ?a ?b] => destruct (Nat.leb_spec a b) end; lia. }
    destruct (nth_error (x :: l) i) as [[t k]|] eqn:En.
    + apply nth_error_In in En. apply (in_map fst) in En. exact En.
    + apply nth_error_None in En. lia.
Qed.

(* ---------- round robin ---------- *)
Definition next (n i : nat) : nat := if n <=? S i then 0 else S i.

Fixpoint idxs (n : nat) (i : nat) (k : nat) : list nat :=
  match k with O => [] | S k' => next n i :: idxs n (next n i) k' end.

Lemma rc_pick_eq c : chans c <> [] ->
  rc_pick c = (mkRc (chans c) (next (length (chans c)) (idx c)) (avail_closed c) (avail_gen c),
               option_map fst (nth_error (chans c) (next (length (chans c)) (idx c)))).
Proof.
  intro Hne. unfold rc_pick, next. destruct (chans c) as [|x l] eqn:E; [congruence|].
  f_equal. destruct (nth_error _ _) as [[t kk]|]; reflexivity.
Qed.

Lemma rc_picks_idxs k : forall c, chans c <> [] ->
  snd (rc_picks k c) = map (fun i => option_map fst (nth_error (chans c) i)) (idxs (length (chans c)) (idx c) k)
  /\ chans (fst (rc_picks k c)) = chans c.
Proof.
  induction k as [|k IH]; intros c Hne; [split; reflexivity|].
  cbn [rc_picks idxs map]. rewrite (rc_pick_eq c Hne).
  set (c1 := mkRc (chans c) (next (length (chans c)) (idx c)) (avail_closed c) (avail_gen c)).
  destruct (IH c1 Hne) as [I1 I2]. destruct (rc_picks k c1) as [c2 ps]. cbn [fst snd] in *.
  split; [|assumption]. rewrite I1. reflexivity.
Qed.

Lemma next_lt n i : 0 < n -> next n i < n.
Proof. unfold next. intro. destruct (Nat.leb_spec n (S i)); lia. Qed.

Lemma next_mod n i : i < n -> next n i = (i + 1) mod n.
Proof.
  unfold next. intro H. destruct (Nat.leb_spec n (S i)).
  - assert (S i = n) by lia. replace (i + 1) with n by lia. now rewrite Nat.mod_same by lia.
  - rewrite Nat.mod_small by lia. lia.
Qed.

Lemma idxs_from n j k : j < n -> idxs n j k = map (fun d => (j + 1 + d) mod n) (seq 0 k).
Proof.
  revert j. induction k as [|k IH]; intros j Hj; [reflexivity|].
  cbn [idxs]. rewrite IH by (apply next_lt; lia). cbn [seq map]. rewrite <- seq_shift, map_map.
  rewrite next_mod by assumption. f_equal; [f_equal; lia|].
  apply map_ext. intro d.
  rewrite (Nat.add_mod ((j + 1) mod n + 1) d n) by lia.
  rewrite (Nat.add_mod ((j + 1) mod n) 1 n) by lia. rewrite Nat.mod_mod by lia.
  rewrite <- (Nat.add_mod (j + 1) 1 n) by lia. rewrite <- Nat.add_mod by lia. f_equal. lia.
Qed.

Lemma NoDup_map_inj_in {X Y} (f : X -> Y) (l : list X) :
  (forall x y, In x l -> In y l -> f x = f y -> x = y) -> NoDup l -> NoDup (map f l).
Proof.
  induction l as [|a l IH]; intros Hinj Hnd; cbn [map]; [constructor|].
  inversion Hnd as [|? ? Hna Hnd']; subst. constructor.
  - intro Hin. apply in_map_iff in Hin as [y [Hy Hyl]].
    assert (y = a) by (apply Hinj; [right; assumption | left; reflexivity | assumption]). subst. contradiction.
  - apply IH; [|assumption]. intros x y Hx Hy. apply Hinj; right; assumption.
Qed.

Lemma rotation_perm n b : 0 < n -> Permutation (map (fun d => (b + d) mod n) (seq 0 n)) (seq 0 n).
Proof.
  intro Hn. apply NoDup_Permutation_bis.
  - apply NoDup_map_inj_in; [|apply seq_NoDup].
    intros x y Hx Hy E. apply in_seq in Hx. apply in_seq in Hy.
    pose proof (Nat.div_mod (b + x) n ltac:(lia)) as D1.
    pose proof (Nat.div_mod (b + y) n ltac:(lia)) as D2.
    pose proof (Nat.mod_upper_bound (b + x) n ltac:(lia)).
    rewrite E in D1.
    assert ((b + x) / n = (b + y) / n) by nia. nia.
  - rewrite map_length. lia.
  - intros z Hz. apply in_map_iff in Hz as [d [<- _]]. apply in_seq.
    pose proof (Nat.mod_upper_bound (b + d) n ltac:(lia)). lia.
Qed.

Lemma map_nth_error_seq {X} (l : list X) : map (nth_error l) (seq 0 (length l)) = map Some l.
Proof.
  induction l as [|a l IH]; [reflexivity|].
  cbn [length seq map nth_error]. f_equal. rewrite <- seq_shift, map_map. exact IH.
Qed.

Lemma idxs_rot n i : 0 < n -> idxs n i n = map (fun d => (next n i + d) mod n) (seq 0 n).
Proof.
  intro Hn. pose proof (next_lt n i Hn) as Hj.
  assert (G : forall k, idxs n i (S k) = map (fun d => (next n i + d) mod n) (seq 0 (S k))).
  { intro k. cbn [idxs]. rewrite (idxs_from n (next n i) k Hj). cbn [seq map].
    rewrite <- seq_shift, map_map. f_equal.
    - rewrite Nat.add_0_r. symmetry. apply Nat.mod_small. exact Hj.
    - apply map_ext. intro d. f_equal. lia. }
  destruct n as [|k]; [lia|]. apply G.
Qed.

(* with a stable set of n tunnels, any n consecutive picks (from any cursor position, also
   one left out of range by earlier removals) use each tunnel exactly once *)
Theorem round_robin c : chans c <> [] ->
  Permutation (snd (rc_picks (length (chans c)) c)) (map Some (rc_all c)).
Proof.
  intro Hne. set (n := length (chans c)).
  assert (Hn : 0 < n) by (unfold n; destruct (chans c); [congruence|cbn; lia]).
  destruct (rc_picks_idxs n c Hne) as [E _]. rewrite E. fold n.
  rewrite (idxs_rot n (idx c) Hn).
  set (f := fun i => option_map fst (nth_error (chans c) i)).
  rewrite (Permutation_map f (rotation_perm n (next n (idx c)) Hn)).
  unfold f, rc_all. rewrite <- (map_map (nth_error (chans c)) (option_map fst)).
  unfold n. rewrite map_nth_error_seq, !map_map. apply Permutation_refl.
Qed.

(* ---------- two-level registry vs the set of open tunnels ---------- *)
Definition open_apply (o : list (N * N)) (op : reg_op) : list (N * N) :=
  match op with
  | ROpen t k => o ++ [(t, k)]
  | RClose t => match remove_first t o with Some (_, o') => o' | None => o end
  | _ => o
  end.

Definition keyed (k : N) (o : list (N * N)) : list (N * N) := filter (fun tk => N.eqb (snd tk) k) o.

Definition RegInv (r : reg) (o : list (N * N)) : Prop :=
  chans (glob r) = o /\
  forall k, match key_get k (bykey r) with Some c => chans c = keyed k o | None => keyed k o = [] end.

Lemma key_get_set k k' c m : key_get k' (key_set k c m) = if N.eqb k k' then Some c else key_get k' m.
Proof.
  induction m as [|[k0 c0] m IH]; cbn [key_set key_get].
  - destruct (N.eqb k k'); reflexivity.
  - destruct (N.eqb_spec k0 k) as [->|H0]; cbn [key_get].
    + destruct (N.eqb k k'); reflexivity.
    + rewrite IH. destruct (N.eqb_spec k0 k') as [->|H1]; [|reflexivity].
      destruct (N.eqb_spec k k'); [congruence|reflexivity].
Qed.

Lemma keyed_app k a b : keyed k (a ++ b) = keyed k a ++ keyed k b.
Proof. apply filter_app. Qed.

Lemma remove_first_notin t l : ~ In t (map fst l) -> remove_first t l = None.
Proof.
  induction l as [|[t' k'] l IH]; cbn [remove_first map fst]; intro H; [reflexivity|].
  destruct (N.eqb_spec t' t) as [->|Hne]; [exfalso; apply H; left; reflexivity|].
  rewrite IH; [reflexivity|]. intro; apply H; right; assumption.
Qed.

Lemma remove_first_mid t k a b : ~ In t (map fst a) -> remove_first t (a ++ (t, k) :: b) = Some (k, a ++ b).
Proof.
  induction a as [|[t' k'] a IH]; cbn [app remove_first map fst]; intro H.
  - rewrite N.eqb_refl. reflexivity.
  - destruct (N.eqb_spec t' t) as [->|Hne]; [exfalso; apply H; left; reflexivity|].
    rewrite IH; [reflexivity|]. intro; apply H; right; assumption.
Qed.

Lemma keyed_fst_in k a t : In t (map fst (keyed k a)) -> In t (map fst a).
Proof.
  intro H. apply in_map_iff in H as [x [Hx Hin]]. apply filter_In in Hin as [Hin _]. apply in_map_iff. eauto.
Qed.

Lemma rc_remove_chans c t : chans (fst (rc_remove c t)) =
  match remove_first t (chans c) with Some (_, l) => l | None => chans c end.
Proof.
  unfold rc_remove. destruct (remove_first t (chans c)) as [[k l]|]; [|reflexivity].
  destruct l; reflexivity.
Qed.

Lemma NoDup_snoc {T} (l : list T) x : NoDup l -> ~ In x l -> NoDup (l ++ [x]).
Proof.
  induction l as [|a l IH]; intros Hnd Hn; cbn [app]; [constructor; [intros []|constructor]|].
  inversion Hnd as [|? ? Ha Hl]; subst. constructor.
  - intro Hin. apply in_app_or in Hin as [Hin|[<-|[]]]; [contradiction|]. apply Hn. left; reflexivity.
  - apply IH; [assumption|]. intro; apply Hn; right; assumption.
Qed.

Lemma reg_step_inv r o op : NoDup (map fst o) -> RegInv r o ->
  (match op with ROpen t _ => ~ In t (map fst o) | _ => True end) ->
  RegInv (reg_apply r op) (open_apply o op) /\ NoDup (map fst (open_apply o op)).
Proof.
  intros Hnd [Hg Hk] Hwf. destruct op as [t k|t| |k]; cbn [reg_apply open_apply].
  - split.
    + split; [cbn; now rewrite Hg|]. intro k'. cbn [reg_open bykey]. rewrite key_get_set.
      rewrite keyed_app. cbn [keyed filter snd]. fold (keyed k' o).
      destruct (N.eqb_spec k k') as [->|Hne].
      * specialize (Hk k'). destruct (key_get k' (bykey r)); cbn [rc_add chans]; rewrite Hk; reflexivity.
      * rewrite app_nil_r. apply Hk.
    + rewrite map_app. cbn [map fst]. apply NoDup_snoc; assumption.
  - (* close *)
    unfold reg_close. pose proof (remove_first_spec t (chans (glob r))) as S.
    unfold rc_remove at 1. rewrite Hg in *.
    destruct (remove_first t o) as [[k o']|] eqn:E.
    + destruct S as (a & b & Ho & Ho' & Hna). subst o'. clear Hg. subst o.
      assert (Hnd' : NoDup (map fst (a ++ b))).
      { rewrite map_app in *. cbn [map fst] in Hnd. apply NoDup_remove_1 in Hnd. assumption. }
      assert (Hnb : ~ In t (map fst b)).
      { rewrite map_app in Hnd. cbn [map fst] in Hnd. apply NoDup_remove_2 in Hnd. intro; apply Hnd. apply in_or_app; right; assumption. }
      split; [|assumption].
      assert (Hglob : chans (match a ++ b with [] => mkRc [] (idx (glob r)) false (S (avail_gen (glob r)))
                                              | _ :: _ => mkRc (a ++ b) (idx (glob r)) (avail_closed (glob r)) (avail_gen (glob r)) end) = a ++ b)
        by (destruct (a ++ b); reflexivity).
      pose proof (Hk k) as Hkk.
      destruct (key_get k (bykey r)) as [c|] eqn:Ek.
      * split; [cbn [glob]; exact Hglob|]. intro k'. cbn [bykey]. rewrite key_get_set.
        destruct (N.eqb_spec k k') as [->|Hne].
        -- rewrite rc_remove_chans, Hkk. rewrite (keyed_app k' a ((t, k') :: b)).
           cbn [keyed filter snd]. rewrite N.eqb_refl. fold (keyed k' a) (keyed k' b).
           rewrite remove_first_mid; [rewrite keyed_app; reflexivity|].
           intro Hin. apply Hna. eapply keyed_fst_in; eassumption.
        -- specialize (Hk k'). rewrite (keyed_app k' a ((t, k) :: b)) in Hk. rewrite (keyed_app k' a b).
           cbn [keyed filter snd] in Hk.
           replace (N.eqb k k') with false in Hk by (symmetry; apply N.eqb_neq; assumption).
           exact Hk.
      * (* impossible: the key list of an open tunnel exists *)
        exfalso. rewrite (keyed_app k a ((t, k) :: b)) in Hkk. cbn [keyed filter snd] in Hkk. rewrite N.eqb_refl in Hkk.
        apply app_eq_nil in Hkk as [_ Hkk]. discriminate.
    + split; [split; [assumption|exact Hk]|assumption].
  - (* pick *)
    unfold reg_pick. destruct (rc_pick (glob r)) as [g' p] eqn:E. cbn [fst].
    apply pick_member in E as [E _]. split; [split; [cbn [glob]; rewrite E; assumption|exact Hk]|assumption].
  - (* pick by key *)
    unfold reg_pick_key. destruct (key_get k (bykey r)) as [c|] eqn:Ek; [|split; [split; assumption|assumption]].
    destruct (rc_pick c) as [c' p] eqn:E. cbn [fst]. apply pick_member in E as [E _].
    split; [|assumption]. split; [assumption|]. intro k'. cbn [bykey]. rewrite key_get_set.
    destruct (N.eqb_spec k k') as [->|Hne]; [|apply Hk]. specialize (Hk k'). rewrite Ek in Hk. now rewrite E.
Qed.

(* well-formed histories: a tunnel object is registered once (ROpen only for a tunnel that is
   not currently open); closes and picks are unconstrained *)
Fixpoint wf_history (o : list (N * N)) (ops : list reg_op) : Prop :=
  match ops with
  | [] => True
  | op :: r => (match op with ROpen t _ => ~ In t (map fst o) | _ => True end) /\ wf_history (open_apply o op) r
  end.

(* after every such history the tunnels reachable through the handler are exactly the open
   ones: globally, and per affinity key *)
Theorem registry_matches_open_tunnels ops : wf_history [] ops ->
  let r := fold_left reg_apply ops reg_new in
  let o := fold_left open_apply ops [] in
  rc_all (glob r) = map fst o /\
  forall k, reg_key_all r k = map fst (keyed k o) /\ (reg_key_ready r k = true <-> keyed k o <> []).
Proof.
  assert (G : forall ops r o, NoDup (map fst o) -> RegInv r o -> wf_history o ops ->
            RegInv (fold_left reg_apply ops r) (fold_left open_apply ops o)).
  { induction ops0 as [|op rest IH]; intros r o Hnd Hi Hw; cbn [fold_left]; [exact Hi|].
    destruct Hw as [Hw1 Hw2]. destruct (reg_step_inv r o op Hnd Hi Hw1) as [Hi' Hnd'].
    apply IH; assumption. }
  intro Hw. cbn zeta.
  assert (H0 : RegInv reg_new []).
  { split; [reflexivity|]. intro k. reflexivity. }
  destruct (G ops reg_new [] (NoDup_nil _) H0 Hw) as [Hg Hk].
  split; [unfold rc_all; now rewrite Hg|]. intro k. specialize (Hk k).
  unfold reg_key_all, reg_key_ready, rc_all, rc_ready.
  destruct (key_get k (bykey (fold_left reg_apply ops reg_new))) as [c|].
  - rewrite Hk. split; [reflexivity|]. destruct (keyed k (fold_left open_apply ops [])); cbn; split; congruence.
  - rewrite Hk. split; [reflexivity|]. split; [discriminate|congruence].
Qed.
