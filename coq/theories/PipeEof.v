(* End of stream on top of Pipe.v: the sending application half-closes after its last message;
   the half-close travels behind the data frames on the same carrier, enters the receiver queue
   behind the frames queued there, and the reading application sees end-of-stream when it
   reaches it.  The position of the marker is kept as the number of data frames still ahead of
   it.  Theorems: the reader is told "end of stream" only after it has obtained every message
   that was submitted (C01: complete whenever that side is told the RPC ended normally), under
   every interleaving of all parties. *)
From Coq Require Import List Arith NArith Lia Bool.
From GT Require Import Frames FramesProofs Pipe PipeProofs.
Import ListNotations.
Set Implicit Arguments.

Section E.
Variable A : Type.
Variables cmax W : nat.

Inductive epos := ENotSent | EInWire (ahead : nat) | EInQueue (ahead : nat) | ESeen.

Record est := mkE { e_p : pst A; e_half : epos }.

Definition e_init : est := mkE (p_init A W) ENotSent.

Inductive elbl :=
| EData (l : plbl A)      (* any step of the data pipeline *)
| EHalfClose              (* the sending application closes its side (no message in progress) *)
| EDeliverHalf            (* the receive loop takes the half-close from the carrier *)
| EReadEof.               (* the reading application reaches the marker *)

Definition estep (s : est) (l : elbl) : option est :=
  match l with
  | EData dl =>
      (* after the half-close nothing more may be submitted *)
      match dl, e_half s with
      | PSubmit _, ENotSent => match pstep cmax (e_p s) dl with Some p' => Some (mkE p' (e_half s)) | None => None end
      | PSubmit _, _ => None
      | PDeliver, EInWire k =>
          (* a data frame ahead of the marker is delivered *)
          match k with
          | O => None          (* the marker is at the head of the carrier: EDeliverHalf comes first *)
          | S k' => match pstep cmax (e_p s) PDeliver with Some p' => Some (mkE p' (EInWire k')) | None => None end
          end
      | PDequeue, EInQueue k =>
          match k with
          | O => None
          | S k' => match pstep cmax (e_p s) PDequeue with Some p' => Some (mkE p' (EInQueue k')) | None => None end
          end
      | _, _ => match pstep cmax (e_p s) dl with Some p' => Some (mkE p' (e_half s)) | None => None end
      end
  | EHalfClose =>
      match e_half s, p_cur (e_p s) with
      | ENotSent, None => Some (mkE (e_p s) (EInWire (length (p_wire (e_p s)))))
      | _, _ => None
      end
  | EDeliverHalf =>
      match e_half s with
      | EInWire O => Some (mkE (e_p s) (EInQueue (length (p_rq (e_p s)))))
      | _ => None
      end
  | EReadEof =>
      match e_half s with
      | EInQueue O => Some (mkE (e_p s) ESeen)
      | _ => None
      end
  end.

Fixpoint erun (s : est) (ls : list elbl) : option est :=
  match ls with
  | [] => Some s
  | l :: r => match estep s l with Some s' => erun s' r | None => None end
  end.

Definition data_labels (ls : list elbl) : list (plbl A) :=
  flat_map (fun l => match l with EData dl => [dl] | _ => [] end) ls.

(* once the marker is out, nothing is being sent, and the marker's position is exact *)
Definition EInv (s : est) : Prop :=
  match e_half s with
  | ENotSent => True
  | EInWire k => p_cur (e_p s) = None /\ length (p_wire (e_p s)) = k
  | EInQueue k => p_cur (e_p s) = None /\ p_wire (e_p s) = [] /\ length (p_rq (e_p s)) = k
  | ESeen => p_cur (e_p s) = None /\ p_wire (e_p s) = [] /\ p_rq (e_p s) = []
  end.

Lemma pstep_cur_none_keeps (p p' : pst A) l :
  p_cur p = None -> pstep cmax p l = Some p' ->
  match l with PSubmit _ => False | _ => True end ->
  p_cur p' = None /\
  (match l with
   | PDeliver => exists f, p_wire p = f :: p_wire p' /\ (p_rq p' = p_rq p \/ p_rq p' = p_rq p ++ [f])
   | PDequeue => p_wire p' = p_wire p /\ exists f, p_rq p = f :: p_rq p'
   | _ => p_wire p' = p_wire p /\ p_rq p' = p_rq p
   end).
Proof.
  intros Hc H Hl. destruct l; try contradiction; cbn [pstep] in H.
  - rewrite Hc in H. discriminate.
  - destruct (p_wire p) as [|f r] eqn:Ew; [discriminate|].
    destruct (Nat.ltb (p_rwin p) (flen f)); inversion H; subst; cbn; (split; [exact Hc|]); exists f; split; auto.
  - destruct (p_rq p) as [|f r] eqn:Eq; [discriminate|]. destruct (rstep (p_reader p) f) as [r' o].
    inversion H; subst; cbn. split; [exact Hc|]. split; [reflexivity|]. exists f. reflexivity.
  - destruct (p_credits p) as [|c r]; [discriminate|]. inversion H; subst; cbn. auto.
Qed.

Lemma estep_inv s l s' : EInv s -> estep s l = Some s' -> EInv s'.
Proof.
  unfold EInv. intros I H. destruct l as [dl| | |]; cbn [estep] in H.
  - destruct (e_half s) as [|k|k|] eqn:Eh.
    + (* not sent: any data step, marker stays unsent *)
      assert (exists p', pstep cmax (e_p s) dl = Some p' /\ s' = mkE p' ENotSent) as [p' [_ ->]].
      { destruct dl; destruct (pstep cmax (e_p s) _) as [p'|]; try discriminate; inversion H; eexists; split; reflexivity. }
      cbn. exact Logic.I.
    + destruct I as [Hc Hk]. destruct dl as [m| | | |].
      * discriminate.
      * destruct (pstep cmax (e_p s) PChunk) as [p'|] eqn:E; [|discriminate]. inversion H; subst; cbn.
        cbn [pstep] in E. rewrite Hc in E. discriminate.
      * destruct k as [|k']; [discriminate|].
        destruct (pstep cmax (e_p s) PDeliver) as [p'|] eqn:E; [|discriminate]. inversion H; subst; cbn.
        destruct (@pstep_cur_none_keeps (e_p s) p' PDeliver Hc E Logic.I) as [Hc' [f [Hw _]]].
        split; [exact Hc'|]. rewrite Hw in Hk. cbn in Hk. lia.
      * destruct (pstep cmax (e_p s) PDequeue) as [p'|] eqn:E; [|discriminate]. inversion H; subst; cbn.
        destruct (@pstep_cur_none_keeps (e_p s) p' PDequeue Hc E Logic.I) as [Hc' [Hw _]]. rewrite Hw. auto.
      * destruct (pstep cmax (e_p s) PCredit) as [p'|] eqn:E; [|discriminate]. inversion H; subst; cbn.
        destruct (@pstep_cur_none_keeps (e_p s) p' PCredit Hc E Logic.I) as [Hc' [Hw _]]. rewrite Hw. auto.
    + destruct I as [Hc [Hw Hk]]. destruct dl as [m| | | |].
      * discriminate.
      * destruct (pstep cmax (e_p s) PChunk) as [p'|] eqn:E; [|discriminate].
        cbn [pstep] in E. rewrite Hc in E. discriminate.
      * destruct (pstep cmax (e_p s) PDeliver) as [p'|] eqn:E; [|discriminate].
        cbn [pstep] in E. rewrite Hw in E. discriminate.
      * destruct k as [|k']; [discriminate|].
        destruct (pstep cmax (e_p s) PDequeue) as [p'|] eqn:E; [|discriminate]. inversion H; subst; cbn.
        destruct (@pstep_cur_none_keeps (e_p s) p' PDequeue Hc E Logic.I) as [Hc' [Hw' [f Hq]]].
        split; [exact Hc'|]. split; [congruence|]. rewrite Hq in Hk. cbn in Hk. lia.
      * destruct (pstep cmax (e_p s) PCredit) as [p'|] eqn:E; [|discriminate]. inversion H; subst; cbn.
        destruct (@pstep_cur_none_keeps (e_p s) p' PCredit Hc E Logic.I) as [Hc' [Hw' Hq']]. rewrite Hw', Hq'. auto.
    + destruct I as [Hc [Hw Hq]]. destruct dl as [m| | | |].
      * discriminate.
      * destruct (pstep cmax (e_p s) PChunk) as [p'|] eqn:E; [|discriminate].
        cbn [pstep] in E. rewrite Hc in E. discriminate.
      * destruct (pstep cmax (e_p s) PDeliver) as [p'|] eqn:E; [|discriminate].
        cbn [pstep] in E. rewrite Hw in E. discriminate.
      * destruct (pstep cmax (e_p s) PDequeue) as [p'|] eqn:E; [|discriminate].
        cbn [pstep] in E. rewrite Hq in E. discriminate.
      * destruct (pstep cmax (e_p s) PCredit) as [p'|] eqn:E; [|discriminate]. inversion H; subst; cbn.
        destruct (@pstep_cur_none_keeps (e_p s) p' PCredit Hc E Logic.I) as [Hc' [Hw' Hq']]. rewrite Hw', Hq'. auto.
  - destruct (e_half s); try discriminate. destruct (p_cur (e_p s)) eqn:Ec; [discriminate|].
    inversion H; subst; cbn. auto.
  - destruct (e_half s) as [|[|k]|k|]; try discriminate. inversion H; subst; cbn.
    destruct I as [Hc Hk]. destruct (p_wire (e_p s)); [auto|discriminate].
  - destruct (e_half s) as [|k|[|k]|]; try discriminate. inversion H; subst; cbn.
    destruct I as [Hc [Hw Hk]]. destruct (p_rq (e_p s)); [auto|discriminate].
Qed.

(* the data pipeline underneath performs exactly the data steps of the run *)
Lemma estep_data s l s' : estep s l = Some s' ->
  match l with EData dl => pstep cmax (e_p s) dl = Some (e_p s') | _ => e_p s' = e_p s end.
Proof.
  intros H. destruct l as [dl| | |]; cbn [estep] in H.
  - destruct dl; destruct (e_half s) as [|[|k]|[|k]|]; try discriminate;
      destruct (pstep cmax (e_p s) _) as [p'|]; try discriminate; inversion H; reflexivity.
  - destruct (e_half s); try discriminate. destruct (p_cur (e_p s)); [discriminate|]. inversion H; reflexivity.
  - destruct (e_half s) as [|[|k]|k|]; try discriminate. inversion H; reflexivity.
  - destruct (e_half s) as [|k|[|k]|]; try discriminate. inversion H; reflexivity.
Qed.

Lemma erun_inv ls : forall s s', EInv s -> (exists pls, prun cmax (p_init A W) pls = Some (e_p s)) ->
  erun s ls = Some s' -> EInv s' /\ exists pls, prun cmax (p_init A W) pls = Some (e_p s').
Proof.
  induction ls as [|l r IH]; intros s s' I P H; cbn [erun] in H.
  - inversion H; subst. auto.
  - destruct (estep s l) as [s1|] eqn:E; [|discriminate].
    apply (IH s1 s' (@estep_inv s l s1 I E)); [|exact H].
    destruct P as [pls Hp]. pose proof (@estep_data s l s1 E) as Hd. destruct l as [dl| | |].
    + exists (pls ++ [dl]). clear -Hp Hd. revert Hp Hd. generalize (p_init A W) as p0.
      induction pls as [|x xs IHx]; intros p0 Hp Hd; cbn in *.
      * inversion Hp; subst. rewrite Hd. reflexivity.
      * destruct (pstep cmax p0 x); [|discriminate]. apply IHx; assumption.
    + exists pls. rewrite Hd. exact Hp.
    + exists pls. rewrite Hd. exact Hp.
    + exists pls. rewrite Hd. exact Hp.
Qed.

Theorem eof_only_after_everything ls s : erun e_init ls = Some s ->
  e_half s = ESeen -> p_delivered (e_p s) = p_submitted (e_p s).
Proof.
  intros H Hs.
  destruct (@erun_inv ls e_init s Logic.I (ex_intro _ [] eq_refl) H) as [I [pls Hp]].
  unfold EInv in I. rewrite Hs in I. destruct I as [Hc [Hw Hq]].
  exact (system_complete_when_drained _ _ _ Hp Hc Hw Hq).
Qed.

(* and before that, what it has is a prefix *)
Theorem eof_run_prefix ls s : erun e_init ls = Some s ->
  prefix (p_delivered (e_p s)) (p_submitted (e_p s)).
Proof.
  intros H. destruct (@erun_inv ls e_init s Logic.I (ex_intro _ [] eq_refl) H) as [_ [pls Hp]].
  exact (system_delivered_prefix _ _ _ Hp).
Qed.

(* the marker cannot overtake: while a data frame is ahead of it, end-of-stream is not readable *)
Theorem eof_not_before_queued_data ls s : erun e_init ls = Some s ->
  (p_wire (e_p s) <> [] \/ p_rq (e_p s) <> []) -> estep s EReadEof = None.
Proof.
  intros H Hne.
  destruct (@erun_inv ls e_init s Logic.I (ex_intro _ [] eq_refl) H) as [I _].
  unfold EInv in I. cbn [estep]. destruct (e_half s) as [|k|[|k]|]; try reflexivity.
  destruct I as [_ [Hw Hk]]. destruct Hne as [Hne|Hne]; [congruence|].
  destruct (p_rq (e_p s)); [congruence|discriminate].
Qed.

End E.

Arguments EHalfClose {A}.
Arguments EDeliverHalf {A}.
Arguments EReadEof {A}.

Example eof_run_reaches_the_end :
  match erun 2 (e_init nat 8) [EData (PSubmit [1;2;3]); EData PChunk; EData PChunk; EHalfClose;
                               EData PDeliver; EData PDeliver; EDeliverHalf; EData PDequeue; EData PDequeue; EReadEof] with
  | Some s => e_half s = ESeen /\ p_delivered (e_p s) = [[1;2;3]]
  | None => False
  end.
Proof. vm_compute. split; reflexivity. Qed.
