(* Facts about single steps of the components of Rpc.v used by the many-stream composition
   (MultiRpc*.v), evaluated on all control states *)
From Coq Require Import List Bool Arith.
From RecordUpdate Require Import RecordUpdate.
From GT Require Import Rpc RpcInv.
Import ListNotations.

(* only the serve loop's new_stream step starts a handler: evaluated on all control states *)
Definition noinv_check (strict : bool) (v : sv) : bool :=
  forallb (fun l => match l with
                    | SLoop _ _ => true
                    | _ => match vstep strict v l with Some (v', _) => Nat.eqb (invoked v v') 0 | None => true end
                    end) all_vlbl.
Lemma noinv_all : forall strict, forall_sv (noinv_check strict) = true.
Proof. intros []; vm_compute; reflexivity. Qed.

Definition kids_check (k : ck) : bool :=
  forallb (fun l => match kstep k l with
                    | None => true
                    | Some (k', em) =>
                        match l with
                        | CNew => (negb (k_new k) && k_new k' && match em with [FNew] => true | _ => false end) ||
                                  (Bool.eqb (k_new k') (k_new k) && match em with [] => true | _ => false end)   (* refused: the channel has ended *)
                        | _ => Bool.eqb (k_new k') (k_new k) && no_new em
                        end
                    end) all_klbl.
Lemma kids_all : forall_ck kids_check = true.
Proof. vm_compute. reflexivity. Qed.

Definition vids_check (strict : bool) (v : sv) : bool :=
  forallb (fun l => match vstep strict v l with
                    | None => true
                    | Some (v', _) =>
                        match l with
                        | SLoop FNew _ => seen v'
                        | _ => Bool.eqb (seen v') (seen v)
                        end
                    end) all_vlbl.
Lemma vids_all : forall strict, forall_sv (vids_check strict) = true.
Proof. intros []; vm_compute; reflexivity. Qed.
