(* M4: the atomic-level sender model driven at the granularity the Go driver controls.
   The driver advances the sending goroutine, the updating goroutine or cancels the context,
   one yield point at a time; a sender parked in its select resumes by itself as soon as one
   of its cases is ready (when both are, Go picks either).  [ctl_step] returns every model
   state the real sender may be in after such an action; [sobs] is what the driver observes. *)
From Coq Require Import List NArith Bool.
From GT Require Import SenderAtomic.
Import ListNotations.
Local Open Scope N_scope.

Inductive ctl := CSender | CUpdater | CCancel.

Record cst := mkCst { c_sa : sa; c_ups : list N }.

Section C.
Variable cmax : N.
Notation step := (step cmax).

Definition do1 (s : sa) (l : lbl) : sa := match step s l with Some s' => s' | None => s end.

(* a sender parked in the select leaves through whichever case is ready *)
Definition settle (s : sa) : list sa :=
  match sp s with
  | SWait =>
      (if tok s then [do1 (do1 s LWaitTok) LLoad] else []) ++
      (if cancelled s then [do1 s LWaitCtx] else []) ++
      (if tok s || cancelled s then [] else [s])
  | _ => [s]
  end.
(* after the token wake-up the sender reloads and may park again (window still zero): settle once more *)
Definition settle2 (s : sa) : list sa := flat_map settle (settle s).

Definition ctl_step (c : cst) (x : ctl) : list cst :=
  let s := c_sa c in
  match x with
  | CSender =>
      match sp s with
      | SLoad => map (fun s' => mkCst s' (c_ups c)) (settle2 (do1 s LLoad))
      | SCas _ =>
          let s1 := do1 s LCas in
          match sp s1 with
          | SLoad => map (fun s' => mkCst s' (c_ups c)) (settle2 (do1 s1 LLoad))   (* CAS failed: reload *)
          | _ => [mkCst s1 (c_ups c)]
          end
      | SEmit _ =>
          let s1 := do1 s LEmit in
          match sp s1 with
          | SLoad => map (fun s' => mkCst s' (c_ups c)) (settle2 (do1 s1 LLoad))
          | _ => [mkCst s1 (c_ups c)]
          end
      | _ => []
      end
  | CUpdater =>
      match up s, c_ups c with
      | UIdle, a :: r => [mkCst (do1 s (UAdd a)) r]
      | UAdded _, _ => map (fun s' => mkCst s' (c_ups c)) (settle2 (do1 s USignal))
      | _, _ => []
      end
  | CCancel =>
      if cancelled s then [] else map (fun s' => mkCst s' (c_ups c)) (settle2 (do1 s Cancel))
  end.

(* what the driver sees: window, token, chunks emitted, where the sender is, updater phase *)
Definition sender_phase (s : sa) : N :=
  match sp s with SLoad => 0 | SCas _ => 1 | SWait => 2 | SEmit _ => 3 | SRet true => 4 | SRet false => 5 end.
Definition sobs (c : cst) : N * bool * list (N * bool) * N * bool * N :=
  (win (c_sa c), tok (c_sa c), out (c_sa c), sender_phase (c_sa c),
   match up (c_sa c) with UIdle => false | UAdded _ => true end, N.of_nat (length (c_ups c))).

End C.

(* property monitor for observed schedules (C05/C06): whenever no chunk is reserved but not yet
   handed over, window + bytes emitted = initial window + credit applied (mod 2^32): no credit is
   ever lost or invented, whatever the interleaving *)
Definition conserved_obs (w0 : N) (ups : list N) (o : N * bool * list (N * bool) * N * bool * N) : bool :=
  let '(w, _, out, phase, _, remaining) := o in
  let applied := firstn (length ups - N.to_nat remaining) ups in
  let sum l := fold_left N.add l 0 in
  if phase =? 3 then true
  else (w + sum (map fst out)) mod M32 =? (w0 + sum applied) mod M32.
