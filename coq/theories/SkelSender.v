(* Code-shape facts: the flow-controlled sender: what SenderAtomic.v models as single atomic steps (load, wait-for-token or context end, compare-and-swap, emit; add, try-signal) are single atomic operations in the source, in this order.
   The skeletons are regenerated from the Go source on every run (gen/Params.v, translator
   paramscan); a change of shape breaks the lemma below - the models above it then no longer
   describe the code, whether or not a property is violated. *)
From Coq Require Import List String.
From GTgen Require Import Params.
Import ListNotations.
Local Open Scope string_scope.

Lemma defaultSender_send_shape : skel_defaultSender_send =
  ["call mu.Lock"; "defer call mu.Unlock"; "call currentWindow.Load"; "select"; "recv windowUpdates"; "recv ctx.Done()"; "call ctx.Err"; "end"; "call currentWindow.CompareAndSwap"; "call sendFunc"].
Proof. reflexivity. Qed.

Lemma defaultSender_updateWindow_shape : skel_defaultSender_updateWindow =
  ["call currentWindow.Add"; "select"; "trysend windowUpdates"; "end"].
Proof. reflexivity. Qed.

