(* Many RPCs on one tunnel: n instances of the per-RPC components of Rpc.v sharing the two carrier
   queues, each frame tagged with its stream.  The client allocates ids in order under the creation
   lock (CNew for stream i needs every earlier stream started); the serve loop and the client's
   receive loop each take the head of their queue, whichever stream it belongs to.
   Theorem (MultiRpcProofs.v): every stream of every run is a run of Rpc.v - so everything proved
   there holds per stream however the RPCs interleave - and no RPC makes a loop end the tunnel. *)
From Coq Require Import List Bool Arith.
From RecordUpdate Require Import RecordUpdate.
From GT Require Import Rpc.
Import ListNotations.

Record ps := mkPs { p_k : ck; p_v : sv; p_n : nat }.
Definition p_init : ps := mkPs k_init v_init 0.

Record mst := mkM {
  m_ps : list ps;                                   (* stream i carries id i+1 *)
  mq_c : list (nat * cframe); mq_s : list (nat * sframe);
  mh_c : list (nat * cframe); mh_s : list (nat * sframe);
  m_last : nat                                      (* the server's lastSeen (ghost: what the code compares ids with) *)
}.
Definition m_init (n : nat) : mst := mkM (repeat p_init n) [] [] [] [] 0.

Fixpoint upd {A} (l : list A) (i : nat) (x : A) : list A :=
  match l, i with
  | [], _ => []
  | _ :: r, 0 => x :: r
  | y :: r, S i => y :: upd r i x
  end.
Definition tag {A} (i : nat) (em : list A) : list (nat * A) := map (pair i) em.
Definition get (m : mst) (i : nat) : ps := nth i (m_ps m) p_init.

Inductive mlbl :=
| MK (i : nat) (l : klbl) | MKLoop (bad : bool)
| MV (i : nat) (l : vlbl) | MVLoop (md : lmode).

Definition started_before (m : mst) (i : nat) : bool := forallb (fun p => k_new (p_k p)) (firstn i (m_ps m)).

Definition mstep (strict : bool) (m : mst) (l : mlbl) : option mst :=
  match l with
  | MK _ (CLoop _ _) | MV _ (SLoop _ _) => None
  | MK i l =>
      if Nat.ltb i (length (m_ps m)) then
        let p := get m i in
        (* streamCreation lock + allocateStream: ids are handed out in order *)
        if (match l with CNew => negb (started_before m i) | _ => false end) then None else
        match kstep (p_k p) l with
        | Some (k', em) =>
            Some (mkM (upd (m_ps m) i (mkPs k' (p_v p) (p_n p))) (mq_c m ++ tag i em) (mq_s m)
                      (mh_c m ++ tag i em) (mh_s m) (m_last m))
        | None => None
        end
      else None
  | MKLoop bad =>
      match mq_s m with
      | [] => None
      | (i, f) :: r =>
          if Nat.ltb i (length (m_ps m)) then
            let p := get m i in
            match kstep (p_k p) (CLoop f bad) with
            | Some (k', em) =>
                Some (mkM (upd (m_ps m) i (mkPs k' (p_v p) (p_n p))) (mq_c m ++ tag i em) r
                          (mh_c m ++ tag i em) (mh_s m) (m_last m))
            | None => None
            end
          else None
      end
  | MV i l =>
      if Nat.ltb i (length (m_ps m)) then
        let p := get m i in
        match vstep strict (p_v p) l with
        | Some (v', em) =>
            Some (mkM (upd (m_ps m) i (mkPs (p_k p) v' (p_n p + invoked (p_v p) v'))) (mq_c m) (mq_s m ++ tag i em)
                      (mh_c m) (mh_s m ++ tag i em) (m_last m))
        | None => None
        end
      else None
  | MVLoop md =>
      match mq_c m with
      | [] => None
      | (i, f) :: r =>
          if Nat.ltb i (length (m_ps m)) then
            let p := get m i in
            match vstep strict (p_v p) (SLoop f md) with
            | Some (v', em) =>
                Some (mkM (upd (m_ps m) i (mkPs (p_k p) v' (p_n p + invoked (p_v p) v'))) r (mq_s m ++ tag i em)
                          (mh_c m) (mh_s m ++ tag i em)
                          (match f with FNew => Nat.max (m_last m) (S i) | _ => m_last m end))
            | None => None
            end
          else None
      end
  end.

Fixpoint mrun (strict : bool) (m : mst) (ls : list mlbl) : option mst :=
  match ls with
  | [] => Some m
  | l :: r => match mstep strict m l with Some m' => mrun strict m' r | None => None end
  end.

(* what stream i sees of a tagged queue *)
Definition proj {A} (i : nat) (q : list (nat * A)) : list A :=
  map snd (filter (fun p => Nat.eqb (fst p) i) q).
Definition proj_state (i : nat) (m : mst) : rst :=
  let p := get m i in
  mkRst (p_k p) (p_v p) (proj i (mq_c m)) (proj i (mq_s m)) (proj i (mh_c m)) (proj i (mh_s m)) (p_n p).
