(* Extraction of the executable model for the correspondence checks.
   Only ExtrOcamlBasic; numbers stay Coq datatypes. Run coqc on this file from
   the directory that should receive model.ml (validator/). *)
From Coq Require Import List NArith ZArith.
From Coq Require Extraction.
From Coq Require Import ExtrOcamlBasic.
From GT Require Import Timeout.

Definition z_to_int := Z.to_int.
Definition z_of_int := Z.of_int.
Definition n_to_uint := N.to_uint.
Definition n_of_uint := N.of_uint.

Extraction "model.ml"
  z_to_int z_of_int n_to_uint n_of_uint
  timeout_from_headers spec_from_headers impl_timeout_v0.
