(* Extraction of the executable model for the correspondence checks.
   Only ExtrOcamlBasic; numbers stay Coq datatypes. Run coqc on this file from
   the directory that should receive model.ml (validator/). *)
From Coq Require Import List NArith ZArith.
From Coq Require Extraction.
From Coq Require Import ExtrOcamlBasic.
From GT Require Import Timeout Frames Recvq SenderAtomic SenderCtl Negotiate Registry Trace MonWire MonApp MonModel MonRegistry MonRpc MonRpcRun.

Definition z_to_int := Z.to_int.
Definition z_of_int := Z.of_int.
Definition n_to_uint := N.to_uint.
Definition n_of_uint := N.of_uint.

Extraction "model.ml"
  z_to_int z_of_int n_to_uint n_of_uint
  timeout_from_headers spec_from_headers impl_timeout_v0
  choose_rev supported tunnel_mode
  rc_new rc_add rc_remove rc_pick rc_ready rc_all reg_new reg_open reg_close reg_pick reg_pick_key reg_key_ready reg_key_all
  rq_init rq_accept rq_dequeue rq_close rq_cancel r0_init r0_accept r0_dequeue r0_close
  sa_init step ctl_step sobs conserved_obs mkCst GTgen.Params.chunk_max
  mkCfg mon_wire mon_C01 mon_C02 mon_C03 mon_C04 mon_C07 mon_C08 mon_C10 mon_C14 mon_C16 mon_C17 mon_C18 mon_panic mon_tables mon_ctable mon_negotiate mon_overrun mon_pipe mon_registry mon_rpc mon_rpcrun rpcrun_judged mon_rpcrun_debug.
