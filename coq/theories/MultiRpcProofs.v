(* Every stream of every run of MultiRpc.v is a run of Rpc.v. *)
From Coq Require Import List Bool Arith Lia.
From RecordUpdate Require Import RecordUpdate.
From GT Require Import Rpc RpcInv RpcProofs RpcSystem MultiRpc RpcCheckV6.
Import ListNotations.

Lemma upd_length {A} (l : list A) i x : length (upd l i x) = length l.
Proof. revert i; induction l as [|y l IH]; intros [|i]; cbn; auto. Qed.
Lemma nth_upd_same {A} (l : list A) i x d : i < length l -> nth i (upd l i x) d = x.
Proof. revert i; induction l as [|y l IH]; intros [|i] H; cbn in *; try lia; auto. apply IH. lia. Qed.
Lemma nth_upd_other {A} (l : list A) i j x d : i <> j -> nth j (upd l i x) d = nth j l d.
Proof. revert i j; induction l as [|y l IH]; intros [|i] [|j] H; cbn; auto; try congruence. Qed.

Lemma proj_app {A} i (a b : list (nat * A)) : proj i (a ++ b) = proj i a ++ proj i b.
Proof. unfold proj. rewrite filter_app, map_app. reflexivity. Qed.
Lemma proj_tag_same {A} i (em : list A) : proj i (tag i em) = em.
Proof. unfold proj, tag. induction em as [|e em IH]; cbn; auto. rewrite Nat.eqb_refl. cbn. f_equal. exact IH. Qed.
Lemma proj_tag_other {A} i j (em : list A) : i <> j -> proj i (tag j em) = [].
Proof.
  intros H. unfold proj, tag. induction em as [|e em IH]; cbn; auto.
  destruct (Nat.eqb_spec j i); [congruence|]. exact IH.
Qed.
Lemma proj_cons_same {A} i (f : A) r : proj i ((i, f) :: r) = f :: proj i r.
Proof. unfold proj. cbn. rewrite Nat.eqb_refl. reflexivity. Qed.
Lemma proj_cons_other {A} i j (f : A) r : i <> j -> proj i ((j, f) :: r) = proj i r.
Proof. intros H. unfold proj. cbn. destruct (Nat.eqb_spec j i); [congruence|]. reflexivity. Qed.


Lemma only_the_serve_loop_invokes strict v l v' em :
  match l with SLoop _ _ => False | _ => True end -> vstep strict v l = Some (v', em) -> invoked v v' = 0.
Proof.
  intros Hl Hs. pose proof (forall_sv_ok _ (noinv_all strict) v) as H. unfold noinv_check in H.
  pose proof (proj1 (forallb_forall _ _) H l (all_vlbl_ok l)) as H1. cbv beta in H1.
  destruct l; try contradiction; rewrite Hs in H1; apply Nat.eqb_eq; exact H1.
Qed.

(* one step of the many-stream system is, for stream i, either invisible or one step of Rpc.v *)
Lemma mstep_proj strict m l m' i :
  mstep strict m l = Some m' -> i < length (m_ps m) ->
  proj_state i m' = proj_state i m \/ exists l', rstep strict (proj_state i m) l' = Some (proj_state i m').
Proof.
  intros H Hi. destruct l as [j l|bad|j l|md]; cbn [mstep] in H.
  - (* a client step of stream j *)
    assert (Hnl : match l with CLoop _ _ => False | _ => True end) by (destruct l; auto; discriminate).
    assert (H' : (if Nat.ltb j (length (m_ps m)) then
                   if (match l with CNew => negb (started_before m j) | _ => false end) then None else
                   match kstep (p_k (get m j)) l with
                   | Some (k', em) => Some (mkM (upd (m_ps m) j (mkPs k' (p_v (get m j)) (p_n (get m j)))) (mq_c m ++ tag j em) (mq_s m)
                                                (mh_c m ++ tag j em) (mh_s m) (m_last m))
                   | None => None end else None) = Some m') by (destruct l; auto; contradiction).
    clear H. destruct (Nat.ltb_spec j (length (m_ps m))) as [Hj|]; [|discriminate].
    destruct (match l with CNew => negb (started_before m j) | _ => false end); [discriminate|].
    destruct (kstep (p_k (get m j)) l) as [[k' em]|] eqn:Hs; [|discriminate]. inversion H'; subst m'; clear H'.
    destruct (Nat.eq_dec i j) as [->|Hne].
    + right. exists (LK l). unfold proj_state, get. cbn [m_ps mq_c mq_s mh_c mh_s].
      rewrite nth_upd_same by assumption. cbn [p_k p_v p_n]. rewrite !proj_app, !proj_tag_same.
      cbn [rstep]. destruct l; try contradiction; cbn [r_k r_v q_c q_s h_c h_s n_inv];
        unfold get in Hs; rewrite Hs; reflexivity.
    + left. unfold proj_state, get. cbn [m_ps mq_c mq_s mh_c mh_s].
      rewrite nth_upd_other by auto. rewrite !proj_app, !proj_tag_other by auto. rewrite !app_nil_r. reflexivity.
  - (* the client's receive loop *)
    destruct (mq_s m) as [|[j f] r] eqn:Eq; [discriminate|].
    destruct (Nat.ltb_spec j (length (m_ps m))) as [Hj|]; [|discriminate].
    destruct (kstep (p_k (get m j)) (CLoop f bad)) as [[k' em]|] eqn:Hs; [|discriminate]. inversion H; subst m'; clear H.
    destruct (Nat.eq_dec i j) as [->|Hne].
    + right. exists (LKLoop bad). unfold proj_state, get. cbn [m_ps mq_c mq_s mh_c mh_s].
      rewrite nth_upd_same by assumption. cbn [p_k p_v p_n]. rewrite !proj_app, !proj_tag_same.
      rewrite Eq, proj_cons_same. cbn [rstep q_s r_k r_v q_c h_c h_s n_inv]. unfold get in Hs. rewrite Hs. reflexivity.
    + left. unfold proj_state, get. cbn [m_ps mq_c mq_s mh_c mh_s].
      rewrite nth_upd_other by auto. rewrite !proj_app, !proj_tag_other by auto. rewrite !app_nil_r.
      rewrite Eq, proj_cons_other by auto. reflexivity.
  - (* a server step of stream j *)
    assert (Hnl : match l with SLoop _ _ => False | _ => True end) by (destruct l; auto; discriminate).
    assert (H' : (if Nat.ltb j (length (m_ps m)) then
                   match vstep strict (p_v (get m j)) l with
                   | Some (v', em) => Some (mkM (upd (m_ps m) j (mkPs (p_k (get m j)) v' (p_n (get m j) + invoked (p_v (get m j)) v'))) (mq_c m) (mq_s m ++ tag j em)
                                                (mh_c m) (mh_s m ++ tag j em) (m_last m))
                   | None => None end else None) = Some m') by (destruct l; auto; contradiction).
    clear H. destruct (Nat.ltb_spec j (length (m_ps m))) as [Hj|]; [|discriminate].
    destruct (vstep strict (p_v (get m j)) l) as [[v' em]|] eqn:Hs; [|discriminate]. inversion H'; subst m'; clear H'.
    destruct (Nat.eq_dec i j) as [->|Hne].
    + right. exists (LV l). unfold proj_state, get. cbn [m_ps mq_c mq_s mh_c mh_s].
      rewrite nth_upd_same by assumption. cbn [p_k p_v p_n]. rewrite !proj_app, !proj_tag_same.
      assert (Hz : invoked (p_v (nth j (m_ps m) p_init)) v' = 0).
      { unfold get in Hs. eapply only_the_serve_loop_invokes; eauto. }
      rewrite Hz, Nat.add_0_r.
      cbn [rstep]. destruct l; try contradiction; cbn [r_k r_v q_c q_s h_c h_s n_inv];
        unfold get in Hs; rewrite Hs; reflexivity.
    + left. unfold proj_state, get. cbn [m_ps mq_c mq_s mh_c mh_s].
      rewrite nth_upd_other by auto. rewrite !proj_app, !proj_tag_other by auto. rewrite !app_nil_r. reflexivity.
  - (* the serve loop *)
    destruct (mq_c m) as [|[j f] r] eqn:Eq; [discriminate|].
    destruct (Nat.ltb_spec j (length (m_ps m))) as [Hj|]; [|discriminate].
    destruct (vstep strict (p_v (get m j)) (SLoop f md)) as [[v' em]|] eqn:Hs; [|discriminate]. inversion H; subst m'; clear H.
    destruct (Nat.eq_dec i j) as [->|Hne].
    + right. exists (LVLoop md). unfold proj_state, get. cbn [m_ps mq_c mq_s mh_c mh_s].
      rewrite nth_upd_same by assumption. cbn [p_k p_v p_n]. rewrite !proj_app, !proj_tag_same.
      rewrite Eq, proj_cons_same. cbn [rstep q_s r_k r_v q_c h_c h_s n_inv]. unfold get in Hs. rewrite Hs. reflexivity.
    + left. unfold proj_state, get. cbn [m_ps mq_c mq_s mh_c mh_s].
      rewrite nth_upd_other by auto. rewrite !proj_app, !proj_tag_other by auto. rewrite !app_nil_r.
      rewrite Eq, proj_cons_other by auto. reflexivity.
Qed.

Lemma mstep_length strict m l m' : mstep strict m l = Some m' -> length (m_ps m') = length (m_ps m).
Proof.
  intros H. destruct l as [j l|bad|j l|md]; cbn [mstep] in H.
  - destruct l; try discriminate;
      (destruct (Nat.ltb j (length (m_ps m))); [|discriminate]);
      repeat match type of H with
             | context [if ?c then _ else _] => destruct c; try discriminate
             | context [match kstep ?a ?b with _ => _ end] => destruct (kstep a b) as [[? ?]|]; try discriminate
             end; inversion H; subst; cbn; apply upd_length.
  - destruct (mq_s m) as [|[j f] r]; [discriminate|]. destruct (Nat.ltb j (length (m_ps m))); [|discriminate].
    destruct (kstep _ _) as [[? ?]|]; [|discriminate]. inversion H; subst; cbn; apply upd_length.
  - destruct l; try discriminate;
      (destruct (Nat.ltb j (length (m_ps m))); [|discriminate]);
      match type of H with context [match vstep ?s ?a ?b with _ => _ end] => destruct (vstep s a b) as [[? ?]|]; try discriminate end;
      inversion H; subst; cbn; apply upd_length.
  - destruct (mq_c m) as [|[j f] r]; [discriminate|]. destruct (Nat.ltb j (length (m_ps m))); [|discriminate].
    destruct (vstep _ _ _) as [[? ?]|]; [|discriminate]. inversion H; subst; cbn; apply upd_length.
Qed.

Lemma rrun_app strict a b s s1 s2 : rrun strict s a = Some s1 -> rrun strict s1 b = Some s2 -> rrun strict s (a ++ b) = Some s2.
Proof. revert s; induction a as [|l a IH]; cbn; intros s H1 H2. - inversion H1; subst; exact H2.
  - destruct (rstep strict s l); [|discriminate]. eauto. Qed.

Lemma proj_init n i : i < n -> proj_state i (m_init n) = r_init.
Proof.
  intros H. unfold proj_state, get, m_init. cbn.
  assert (E : nth i (repeat p_init n) p_init = p_init).
  { clear H. revert i; induction n as [|n IH]; intros [|i]; cbn; auto. }
  rewrite E. reflexivity.
Qed.

(* C03 (control level): however the RPCs of a tunnel interleave, each of them runs as if it were alone *)
Theorem multi_rpc_refines strict n ls m i :
  mrun strict (m_init n) ls = Some m -> i < n ->
  exists ls', rrun strict r_init ls' = Some (proj_state i m).
Proof.
  intros Hrun Hi.
  assert (G : forall ls m0 ls0, length (m_ps m0) = n -> rrun strict r_init ls0 = Some (proj_state i m0) ->
              mrun strict m0 ls = Some m -> exists ls', rrun strict r_init ls' = Some (proj_state i m)).
  { clear Hrun ls. induction ls as [|l ls IH]; cbn; intros m0 ls0 Hlen H0 H.
    - inversion H; subst. eauto.
    - destruct (mstep strict m0 l) as [m1|] eqn:E; [|discriminate].
      pose proof (mstep_length _ _ _ _ E) as Hl1.
      destruct (mstep_proj strict m0 l m1 i E ltac:(lia)) as [Heq|[l' Hl']].
      + apply (IH m1 ls0); try congruence.
      + apply (IH m1 (ls0 ++ [l'])); try congruence.
        eapply rrun_app; eauto. cbn. rewrite Hl'. reflexivity. }
  apply (G ls (m_init n) []); auto.
  - cbn. apply repeat_length.
  - cbn. rewrite proj_init by assumption. reflexivity.
Qed.

(* ... so everything proved about one RPC holds for each RPC of the tunnel *)
Section PerStream.
Variable strict : bool.
Variables (n : nat) (ls : list mlbl) (m : mst) (i : nat).
Hypothesis Hrun : mrun strict (m_init n) ls = Some m.
Hypothesis Hi : i < n.

Theorem multi_no_rpc_ends_the_tunnel : k_err (p_k (get m i)) = false /\ v_err (p_v (get m i)) = false.
Proof. destruct (multi_rpc_refines _ _ _ _ _ Hrun Hi) as [ls' H]. exact (rpc_tunnel_survives _ _ _ H). Qed.

Theorem multi_streams_conform :
  gc_run (proj i (mh_c m)) <> GcBad /\ gs_run (proj i (mh_s m)) <> GsBad /\ count_close (proj i (mh_s m)) <= 1.
Proof.
  destruct (multi_rpc_refines _ _ _ _ _ Hrun Hi) as [ls' H]. repeat split.
  - exact (rpc_client_frames_conform _ _ _ H).
  - exact (rpc_server_frames_conform _ _ _ H).
  - exact (rpc_at_most_one_close _ _ _ H).
Qed.

Theorem multi_one_invocation_each : p_n (get m i) <= 1.
Proof. destruct (multi_rpc_refines _ _ _ _ _ Hrun Hi) as [ls' H]. exact (proj1 (rpc_at_most_one_invocation _ _ _ H)). Qed.

Theorem multi_tables_clean :
  (k_done (p_k (get m i)) <> None -> c_quiet (p_k (get m i)) = true -> k_tab (p_k (get m i)) = false) /\
  (v_closed (p_v (get m i)) = true -> v_tab (p_v (get m i)) = false).
Proof.
  destruct (multi_rpc_refines _ _ _ _ _ Hrun Hi) as [ls' H].
  destruct (rpc_tables_clean _ _ _ H) as (A & _ & _ & D). split; [exact A | exact D].
Qed.
End PerStream.

(* non-vacuity: two RPCs whose steps interleave on the shared queues - the second is refused while the
   first is served; each projection is a run of Rpc.v, and the frames of the two never mix *)
Definition two_rpc_run : list mlbl :=
  [MK 0 CNew; MK 1 CNew; MK 1 CSend; MK 0 CSend; MVLoop LNormal; MVLoop LReject; MV 1 SRejGo; MVLoop LNormal;
   MV 0 HSend; MKLoop false; MVLoop LNormal; MKLoop false; MV 0 HReturn; MV 0 SFinH; MV 0 SFinH; MV 0 SFinH; MV 0 SCloseGo].
Example two_rpc_run_ok :
  exists m, mrun true (m_init 2) two_rpc_run = Some m /\
            proj 0 (mh_c m) = [FNew; FReq] /\ proj 1 (mh_c m) = [FNew; FReq] /\
            proj 0 (mh_s m) = [FHdr; FResp; FClose] /\ proj 1 (mh_s m) = [FClose] /\
            p_n (get m 0) = 1 /\ p_n (get m 1) = 0 /\ m_last m = 2.
Proof. eexists. vm_compute. repeat split. Qed.
(* the creation lock: the second id cannot be started before the first *)
Example ids_in_order : mstep true (m_init 2) (MK 1 CNew) = None.
Proof. reflexivity. Qed.
