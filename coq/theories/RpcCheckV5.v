(* Progress, termination measures and the handler's context: evaluated on all control states of the
   two components of Rpc.v (used by RpcProgress.v) *)
From Coq Require Import List Bool Arith.
From RecordUpdate Require Import RecordUpdate.
From GT Require Import Rpc RpcInv.
Import ListNotations.

Definition v_enabled (strict : bool) (v : sv) (l : vlbl) : bool :=
  match vstep strict v l with Some _ => true | None => false end.

Definition k_enabled (k : ck) (l : klbl) : bool :=
  match kstep k l with Some _ => true | None => false end.

Definition close_emitted (v : sv) : bool := gs_eqb (v_g v) GsClosed || gs_eqb (v_g v) GsClosedWu.

Definition P_v_progress (strict : bool) (v : sv) : bool :=
  if (hstate_eqb (v_h v) HRet || hstate_eqb (v_h v) HRej) && negb (close_emitted v)
  then v_enabled strict v SFinH || v_enabled strict v SCloseGo || v_enabled strict v SRejGo
  else true.

Definition P_v_loopfin (strict : bool) (v : sv) : bool :=
  if negb (sstage_eqb (v_lf v) S0) then v_enabled strict v SFinL else true.

Lemma vP_progress strict : forall v, vinv strict v = true -> P_v_progress strict v && P_v_loopfin strict v = true.
Proof. apply vinv_implies. destruct strict; vm_compute; reflexivity. Qed.

Definition w_sstage (x : sstage) : nat := match x with S0 => 0 | SWr => 4 | SHalfSt => 5 | SRem => 6 end.

Definition w_cgo (x : cgo) : nat := match x with CGHdr => 2 | CGClose => 1 | _ => 0 end.

Definition v_measure (v : sv) : nat :=
  w_sstage (v_lf v) + w_sstage (v_hf v) + w_cgo (v_cg v) + (if v_rej_go v then 1 else 0) + (if v_wu v then 1 else 0).

Definition v_internal : list vlbl := [SFinL; SFinH; SCloseGo; SRejGo; SWuSend].

Definition v_term_check (strict : bool) (v : sv) : bool :=
  forallb (fun l => match vstep strict v l with
                    | Some (v', _) => Nat.ltb (v_measure v') (v_measure v)
                    | None => true end) v_internal.

Lemma v_term_all : forall strict, forall_sv (fun v => if negb (vinv0 strict v) then true else v_term_check strict v) = true.
Proof. intros []; vm_compute; reflexivity. Qed.

Definition P_k_progress (k : ck) : bool :=
  (* the context has ended and the caller has not been given the terminal result yet *)
  (if k_new k && k_ctx k && negb (k_sig k)
   then k_enabled k CWatch || k_enabled k CRemove || k_enabled k CPublish else true) &&
  (* the winner of the compare-and-swap always gets to the end of finishStream *)
  (if negb (is_none (k_done k)) && negb (k_sig k) then k_enabled k CRemove || k_enabled k CPublish else true) &&
  (if k_cancel_go k then k_enabled k CGoCancel else true).

Lemma kP_progress : forall k, kinv k = true -> P_k_progress k = true.
Proof. apply kinv_implies. vm_compute. reflexivity. Qed.

Definition w_cstage (x : cstage) : nat := match x with F0 => 0 | FWon => 6 | FRemoved => 4 | FPub => 0 end.

Definition k_measure (k : ck) : nat :=
  w_cstage (k_stage k) + (if k_watched k then 0 else 8) + (if k_cancel_go k then 1 else 0) + (if k_wu k then 1 else 0).

Definition k_internal : list klbl := [CWatch; CRemove; CPublish; CGoCancel; CWuSend].

Definition k_term_check (k : ck) : bool :=
  forallb (fun l => match kstep k l with
                    | Some (k', _) => Nat.ltb (k_measure k') (k_measure k)
                    | None => true end) k_internal.

Lemma k_term_all : forall_ck (fun k => if negb (kinv k) then true else k_term_check k) = true.
Proof. vm_compute. reflexivity. Qed.

Definition cancel_check (strict : bool) (v : sv) : bool :=
  if negb (vinv strict v) then true else
  if v_tab v then
    forallb (fun m => match vstep strict v (SLoop FCancel m) with Some (v', _) => v_ctx v' | None => true end) all_lmode
  else true.

Lemma cancel_all : forall strict, forall_sv (cancel_check strict) = true.
Proof. intros []; vm_compute; reflexivity. Qed.

Definition P_v_ctx (v : sv) : bool := Bool.eqb (v_ctx v) (negb (is_none (v_fin v))).

Lemma vP_ctx strict : forall v, vinv strict v = true -> P_v_ctx v = true.
Proof. apply vinv_implies. destruct strict; vm_compute; reflexivity. Qed.
