(* One direction of one stream, end to end, with flow control: the sending application, the
   chunking sender with its credit window, the carrier (FIFO), the receive loop's hand-off into
   the receiver queue guarded by its window, the reading application with its reassembly, and
   the credit frames flowing back.  One label = one step of one of these parties, so a run is
   an arbitrary interleaving of application sends and reads, frame delivery and credit delivery.
   Payloads are lists over an arbitrary alphabet.  Model only. *)
From Coq Require Import List Arith NArith.
From GT Require Import Frames.
Import ListNotations.
Set Implicit Arguments.

Section Pipe.
Variable A : Type.
Variable cmax : nat.     (* chunk limit *)
Variable W : nat.        (* advertised window *)

Notation msg := (list A).
Notation frame := (dframe A).

Definition flen (f : frame) : nat := match f with Env _ d => length d | More d => length d end.
Definition bytes (fs : list frame) : nat := list_sum (map flen fs).

Record pst := mkP {
  p_submitted : list msg;                 (* ghost: what the sending application has handed over *)
  p_cur : option (msg * msg * bool);      (* message being sent: whole message, rest to send, first chunk pending *)
  p_swin : nat;                           (* sender's window *)
  p_wire : list frame;                    (* data frames on the carrier *)
  p_rq : list frame;                      (* receiver queue *)
  p_rwin : nat;                           (* receiver's window *)
  p_reader : rstate A;                    (* reassembly state of the reading application *)
  p_delivered : list msg;                 (* ghost: what the reading application has obtained *)
  p_credits : list nat;                   (* window updates on the carrier, back to the sender *)
  p_overrun : bool;                       (* the receiver refused a frame (never happens: theorem) *)
  p_sent : list frame;                    (* ghost: every data frame emitted, in order *)
  p_consumed : list frame                 (* ghost: frames the reader has taken from the queue *)
}.

Definition p_init : pst := mkP [] None W [] [] W RIdle [] [] false [] [].

Inductive plbl :=
| PSubmit (m : msg)     (* the application calls Send (one at a time: the stream's write lock) *)
| PChunk                (* the sender reserves window and emits one frame *)
| PDeliver              (* the receive loop takes the next data frame from the carrier *)
| PDequeue              (* the reading application dequeues one frame *)
| PCredit.              (* the sender's endpoint processes the next window update *)

Definition pstep (s : pst) (l : plbl) : option pst :=
  match l with
  | PSubmit m =>
      match p_cur s with
      | Some _ => None
      | None => Some (mkP (p_submitted s ++ [m]) (Some (m, m, true)) (p_swin s) (p_wire s) (p_rq s) (p_rwin s)
                          (p_reader s) (p_delivered s) (p_credits s) (p_overrun s) (p_sent s) (p_consumed s))
      end
  | PChunk =>
      match p_cur s with
      | None => None
      | Some (m, rest, first) =>
          if Nat.eqb (p_swin s) 0 then None        (* parked until credit arrives *)
          else
            let c := Nat.min (p_swin s) (Nat.min (length rest) cmax) in
            let d := firstn c rest in
            let f := if first then Env (lenN m) d else More d in
            Some (mkP (p_submitted s)
                      (if Nat.eqb c (length rest) then None else Some (m, skipn c rest, false))
                      (p_swin s - c) (p_wire s ++ [f]) (p_rq s) (p_rwin s) (p_reader s) (p_delivered s)
                      (p_credits s) (p_overrun s) (p_sent s ++ [f]) (p_consumed s))
      end
  | PDeliver =>
      match p_wire s with
      | [] => None
      | f :: rest =>
          if Nat.ltb (p_rwin s) (flen f)
          then Some (mkP (p_submitted s) (p_cur s) (p_swin s) rest (p_rq s) (p_rwin s) (p_reader s) (p_delivered s)
                         (p_credits s) true (p_sent s) (p_consumed s))
          else Some (mkP (p_submitted s) (p_cur s) (p_swin s) rest (p_rq s ++ [f]) (p_rwin s - flen f) (p_reader s)
                         (p_delivered s) (p_credits s) (p_overrun s) (p_sent s) (p_consumed s))
      end
  | PDequeue =>
      match p_rq s with
      | [] => None
      | f :: rest =>
          let '(r', o) := rstep (p_reader s) f in
          Some (mkP (p_submitted s) (p_cur s) (p_swin s) (p_wire s) rest (p_rwin s + flen f) r'
                    (match o with Got m => p_delivered s ++ [m] | _ => p_delivered s end)
                    (if Nat.eqb (flen f) 0 then p_credits s else p_credits s ++ [flen f])
                    (p_overrun s) (p_sent s) (p_consumed s ++ [f]))
      end
  | PCredit =>
      match p_credits s with
      | [] => None
      | n :: rest =>
          Some (mkP (p_submitted s) (p_cur s) (p_swin s + n) (p_wire s) (p_rq s) (p_rwin s) (p_reader s) (p_delivered s)
                    rest (p_overrun s) (p_sent s) (p_consumed s))
      end
  end.

Fixpoint prun (s : pst) (ls : list plbl) : option pst :=
  match ls with
  | [] => Some s
  | l :: r => match pstep s l with Some s' => prun s' r | None => None end
  end.

(* internal = everything except the two applications' own calls *)
Definition internal_enabled (s : pst) : bool :=
  match pstep s PChunk, pstep s PDeliver, pstep s PCredit with
  | None, None, None => false
  | _, _, _ => true
  end.

End Pipe.

Arguments PChunk {A}.
Arguments PDeliver {A}.
Arguments PDequeue {A}.
Arguments PCredit {A}.
