(* Many streams on one bounded carrier (MultiPipe.v): every stream of every run is a run of the
   single-stream pipeline of Pipe.v, so each stream keeps exactly-once in-order delivery and its
   window discipline whatever the other streams and their applications do; the frame at the head
   of the carrier can always be taken by the receive loop without waiting for any application
   (no head-of-line blocking); and whenever a sender still has something to send, either some
   internal step of the tunnel is enabled or that stream's own receiving application is sitting
   on a full window of unread data - stalled readers plus a bounded transport buffer cannot
   deadlock the tunnel (C03, C05). *)
From Coq Require Import List Arith NArith Lia Bool.
From GT Require Import Frames FramesProofs Pipe PipeProofs MultiPipe.
Import ListNotations.
Set Implicit Arguments.

Section M.
Variable A : Type.
Variables cmax W K : nat.
Hypothesis Kpos : 0 < K.

Notation mst := (mst A).
Notation mstep := (@mstep A cmax K).
Notation mrun := (@mrun A cmax K).
Notation sw := (@set_wire A).

Lemma length_upd (l : list (pst A)) i x : length (upd l i x) = length l.
Proof. revert i; induction l as [|y r IH]; intros [|j]; cbn; auto. Qed.

Lemma nth_upd_same (l : list (pst A)) i x : i < length l -> nth_error (upd l i x) i = Some x.
Proof. revert i; induction l as [|y r IH]; intros [|j] H; cbn in *; try lia; auto. apply IH. lia. Qed.

Lemma nth_upd_other (l : list (pst A)) i j x : i <> j -> nth_error (upd l i x) j = nth_error l j.
Proof. revert i j; induction l as [|y r IH]; intros [|i] [|j] H; cbn; auto; try congruence. Qed.

Lemma wire_of_snoc i (w : list (nat * dframe A)) j f :
  wire_of i (w ++ [(j, f)]) = wire_of i w ++ (if Nat.eqb j i then [f] else []).
Proof. unfold wire_of. rewrite flat_map_app. cbn. rewrite app_nil_r. reflexivity. Qed.

Lemma sw_sw (s : pst A) w1 w2 : sw (sw s w1) w2 = sw s w2.
Proof. reflexivity. Qed.

Lemma sw_id (s : pst A) : p_wire s = [] -> sw s [] = s.
Proof. destruct s; cbn. intros ->. reflexivity. Qed.

Lemma pstep_other_wire (s : pst A) w l s' :
  (match l with PChunk | PDeliver => False | _ => True end) ->
  pstep cmax s l = Some s' ->
  pstep cmax (sw s w) l = Some (sw s' w) /\ p_wire s' = p_wire s.
Proof.
  intros Hl H. destruct l; try contradiction; cbn [pstep] in *; unfold set_wire; cbn.
  - destruct (p_cur s); [discriminate|]. inversion H; subst; cbn. split; reflexivity.
  - destruct (p_rq s) as [|f r]; [discriminate|]. destruct (rstep (p_reader s) f) as [r' o].
    inversion H; subst; cbn. split; reflexivity.
  - destruct (p_credits s) as [|c r]; [discriminate|]. inversion H; subst; cbn. split; reflexivity.
Qed.

Lemma pstep_chunk_wire (s : pst A) w s' f :
  p_wire s = [] -> pstep cmax s PChunk = Some s' -> p_wire s' = [f] ->
  pstep cmax (sw s w) PChunk = Some (sw s' (w ++ [f])).
Proof.
  intros Hw H Hf. cbn [pstep] in *. unfold set_wire at 1; cbn.
  destruct (p_cur s) as [[[m rest] first]|]; [|discriminate].
  destruct (Nat.eqb (p_swin s) 0); [discriminate|].
  inversion H; subst; clear H. cbn in *. rewrite Hw in Hf. cbn in Hf. inversion Hf; subst.
  unfold set_wire; cbn. reflexivity.
Qed.

Lemma pstep_deliver_head (s : pst A) f fl :
  exists s', pstep cmax (sw s [f]) PDeliver = Some s' /\ p_wire s' = [] /\
             pstep cmax (sw s (f :: fl)) PDeliver = Some (sw s' fl).
Proof.
  unfold pstep, set_wire. cbn [p_wire p_rwin p_submitted p_cur p_swin p_rq p_reader p_delivered p_credits p_overrun p_sent p_consumed].
  destruct (Nat.ltb (p_rwin s) (flen f)); eexists; (split; [reflexivity|]); split; reflexivity.
Qed.

Lemma prun_snoc X cm (s : pst X) ls l s1 s2 :
  prun cm s ls = Some s1 -> pstep cm s1 l = Some s2 -> prun cm s (ls ++ [l]) = Some s2.
Proof.
  revert s. induction ls as [|x r IH]; intros s H1 H2; cbn in *.
  - inversion H1; subst. rewrite H2. reflexivity.
  - destruct (pstep cm s x) as [s'|]; [|discriminate]. apply IH; assumption.
Qed.

Record MInv (m : mst) : Prop := {
  mi_wires : forall i s, nth_error (m_streams m) i = Some s -> p_wire s = [];
  mi_ids : forall i f, In (i, f) (m_wire m) -> i < length (m_streams m);
  mi_flat : forall i s, nth_error (m_streams m) i = Some s ->
            exists pls, prun cmax (p_init A W) pls = Some (sw s (wire_of i (m_wire m)))
}.

Lemma minv_init n : MInv (m_init A W n).
Proof.
  constructor; cbn.
  - intros i s H. apply nth_error_In in H. apply repeat_spec in H. subst. reflexivity.
  - intros i f [].
  - intros i s H. apply nth_error_In in H. apply repeat_spec in H. subst. exists []. reflexivity.
Qed.

(* a step of stream i that does not touch the carrier *)
Lemma step_app (m : mst) i s l s' :
  MInv m -> nth_error (m_streams m) i = Some s ->
  (match l with PChunk | PDeliver => False | _ => True end) ->
  pstep cmax s l = Some s' ->
  MInv (mkM (upd (m_streams m) i s') (m_wire m)).
Proof.
  intros [Hw Hid Hfl] Hi Hl H.
  assert (Hlt : i < length (m_streams m)) by (apply nth_error_Some; congruence).
  destruct (@pstep_other_wire s (wire_of i (m_wire m)) l s' Hl H) as [H' Hw'].
  constructor; cbn [m_streams m_wire].
  - intros j t Hj. destruct (Nat.eq_dec i j) as [->|Hne].
    + rewrite nth_upd_same in Hj by exact Hlt. inversion Hj; subst. rewrite Hw'. exact (Hw _ _ Hi).
    + rewrite nth_upd_other in Hj by exact Hne. exact (Hw _ _ Hj).
  - intros j f Hin. rewrite length_upd. exact (Hid _ _ Hin).
  - intros j t Hj. destruct (Nat.eq_dec i j) as [->|Hne].
    + rewrite nth_upd_same in Hj by exact Hlt. inversion Hj; subst.
      destruct (Hfl _ _ Hi) as [pls Hp]. exists (pls ++ [l]). eapply prun_snoc; eassumption.
    + rewrite nth_upd_other in Hj by exact Hne. exact (Hfl _ _ Hj).
Qed.

Lemma mstep_inv (m : mst) l m' : MInv m -> mstep m l = Some m' -> MInv m'.
Proof.
  intros I H. destruct l as [i msg|i|i|i|]; cbn [MultiPipe.mstep] in H.
  - destruct (nth_error (m_streams m) i) as [s|] eqn:Hi; [|discriminate].
    destruct (pstep cmax s (PSubmit msg)) as [s'|] eqn:E; [|discriminate]. inversion H; subst.
    exact (@step_app m i s (PSubmit msg) s' I Hi Logic.I E).
  - destruct (nth_error (m_streams m) i) as [s|] eqn:Hi; [|discriminate].
    destruct (pstep cmax s PDequeue) as [s'|] eqn:E; [|discriminate]. inversion H; subst.
    exact (@step_app m i s PDequeue s' I Hi Logic.I E).
  - destruct (nth_error (m_streams m) i) as [s|] eqn:Hi; [|discriminate].
    destruct (pstep cmax s PCredit) as [s'|] eqn:E; [|discriminate]. inversion H; subst.
    exact (@step_app m i s PCredit s' I Hi Logic.I E).
  - (* a sender emits onto the shared carrier *)
    destruct (Nat.ltb (length (m_wire m)) K); [|discriminate].
    destruct (nth_error (m_streams m) i) as [s|] eqn:Hi; [|discriminate].
    destruct (pstep cmax s PChunk) as [s'|] eqn:E; [|discriminate].
    destruct (p_wire s') as [|f [|f2 r]] eqn:Ew; try discriminate. inversion H; subst; clear H.
    destruct I as [Hw Hid Hfl].
    assert (Hlt : i < length (m_streams m)) by (apply nth_error_Some; congruence).
    constructor; cbn [m_streams m_wire].
    + intros j t Hj. destruct (Nat.eq_dec i j) as [->|Hne].
      * rewrite nth_upd_same in Hj by exact Hlt. inversion Hj; subst. reflexivity.
      * rewrite nth_upd_other in Hj by exact Hne. exact (Hw _ _ Hj).
    + intros j g Hin. rewrite length_upd. apply in_app_or in Hin. destruct Hin as [Hin|[Heq|[]]].
      * exact (Hid _ _ Hin).
      * inversion Heq; subst. exact Hlt.
    + intros j t Hj. rewrite wire_of_snoc. destruct (Nat.eq_dec i j) as [->|Hne].
      * rewrite nth_upd_same in Hj by exact Hlt. inversion Hj; subst. rewrite Nat.eqb_refl. rewrite sw_sw.
        destruct (Hfl _ _ Hi) as [pls Hp]. exists (pls ++ [PChunk]). eapply prun_snoc; [exact Hp|].
        exact (@pstep_chunk_wire s (wire_of j (m_wire m)) s' f (Hw _ _ Hi) E Ew).
      * rewrite nth_upd_other in Hj by exact Hne.
        destruct (Nat.eqb i j) eqn:Eb; [apply Nat.eqb_eq in Eb; congruence|]. rewrite app_nil_r. exact (Hfl _ _ Hj).
  - (* the receive loop takes the head of the carrier *)
    destruct (m_wire m) as [|[i f] rest] eqn:Ewire; [discriminate|].
    destruct (nth_error (m_streams m) i) as [s|] eqn:Hi; [|discriminate].
    destruct (@pstep_deliver_head s f (wire_of i rest)) as [s1 [ED [Hw1 EDf]]].
    rewrite ED in H. inversion H; subst; clear H.
    destruct I as [Hw Hid Hfl]. rewrite Ewire in *.
    assert (Hlt : i < length (m_streams m)) by (apply nth_error_Some; congruence).
    constructor; cbn [m_streams m_wire].
    + intros j t Hj. destruct (Nat.eq_dec i j) as [->|Hne].
      * rewrite nth_upd_same in Hj by exact Hlt. inversion Hj; subst. exact Hw1.
      * rewrite nth_upd_other in Hj by exact Hne. exact (Hw _ _ Hj).
    + intros j g Hin. rewrite length_upd. apply (Hid j g). right. exact Hin.
    + intros j t Hj. destruct (Nat.eq_dec i j) as [->|Hne].
      * rewrite nth_upd_same in Hj by exact Hlt. inversion Hj; subst.
        destruct (Hfl _ _ Hi) as [pls Hp]. unfold wire_of in Hp. cbn [flat_map fst snd] in Hp. rewrite Nat.eqb_refl in Hp. cbn [app] in Hp.
        exists (pls ++ [PDeliver]). eapply prun_snoc; [exact Hp|]. exact EDf.
      * rewrite nth_upd_other in Hj by exact Hne.
        destruct (Hfl _ _ Hj) as [pls Hp]. unfold wire_of in Hp. cbn [flat_map fst snd] in Hp.
        destruct (Nat.eqb i j) eqn:Eb; [apply Nat.eqb_eq in Eb; congruence|]. cbn [app] in Hp. exists pls. exact Hp.
Qed.

Lemma mrun_inv ls : forall m m', MInv m -> mrun m ls = Some m' -> MInv m'.
Proof.
  induction ls as [|l r IH]; intros m m' I H; cbn [MultiPipe.mrun] in H.
  - inversion H; subst; exact I.
  - destruct (mstep m l) as [m1|] eqn:E; [|discriminate]. exact (IH m1 m' (mstep_inv l I E) H).
Qed.

(* ---- every stream is a run of the single-stream pipeline ---- *)
Theorem multi_refines n ls m i s : mrun (m_init A W n) ls = Some m -> flat m i = Some s ->
  exists pls, prun cmax (p_init A W) pls = Some s.
Proof.
  intros H Hf. destruct (mrun_inv ls (minv_init n) H) as [_ _ Hfl]. unfold flat in Hf.
  destruct (nth_error (m_streams m) i) as [t|] eqn:Hi; [|discriminate]. inversion Hf; subst.
  exact (Hfl _ _ Hi).
Qed.

Theorem multi_delivered_prefix n ls m i s : mrun (m_init A W n) ls = Some m ->
  nth_error (m_streams m) i = Some s -> prefix (p_delivered s) (p_submitted s).
Proof.
  intros H Hi. destruct (@multi_refines n ls m i (sw s (wire_of i (m_wire m))) H) as [pls Hp].
  - unfold flat. rewrite Hi. reflexivity.
  - exact (system_delivered_prefix _ _ _ Hp).
Qed.

Theorem multi_window_discipline n ls m i s : mrun (m_init A W n) ls = Some m ->
  nth_error (m_streams m) i = Some s ->
  p_overrun s = false /\ bytes (p_rq s) <= W /\
  p_swin s + bytes (wire_of i (m_wire m)) + bytes (p_rq s) + sum (p_credits s) = W.
Proof.
  intros H Hi. destruct (@multi_refines n ls m i (sw s (wire_of i (m_wire m))) H) as [pls Hp].
  - unfold flat. rewrite Hi. reflexivity.
  - destruct (system_window_discipline _ _ _ Hp) as (H1 & H2 & _ & H4 & _). cbn in *. auto.
Qed.

(* ---- no head-of-line blocking: the receive loop never has to wait for an application ---- *)
Theorem multi_head_always_deliverable n ls m : mrun (m_init A W n) ls = Some m ->
  m_wire m <> [] -> exists m', mstep m MDeliver = Some m'.
Proof.
  intros H Hne. destruct (mrun_inv ls (minv_init n) H) as [_ Hid _].
  cbn [MultiPipe.mstep]. destruct (m_wire m) as [|[i f] rest]; [congruence|].
  assert (Hlt : i < length (m_streams m)) by (apply (Hid i f); left; reflexivity).
  destruct (nth_error (m_streams m) i) as [s|] eqn:Hi; [|apply nth_error_None in Hi; lia].
  destruct (@pstep_deliver_head s f []) as [s1 [ED _]]. rewrite ED. eexists; reflexivity.
Qed.

(* ---- stalled readers + bounded transport buffer cannot deadlock the tunnel ---- *)
Theorem multi_no_deadlock n ls m i s : mrun (m_init A W n) ls = Some m ->
  nth_error (m_streams m) i = Some s -> p_cur s <> None ->
  m_internal_enabled cmax K m = true \/ bytes (p_rq s) = W.
Proof.
  intros H Hi Hc. pose proof (mrun_inv ls (minv_init n) H) as I.
  unfold m_internal_enabled.
  destruct (m_wire m) as [|[j f] rest] eqn:Ewire.
  - (* carrier empty: the stream is the plain pipeline with an empty carrier *)
    destruct I as [Hw Hid Hfl].
    destruct (Hfl _ _ Hi) as [pls Hp]. rewrite Ewire in Hp. cbn in Hp. rewrite (@sw_id s (Hw _ _ Hi)) in Hp.
    destruct (internal_enabled cmax s) eqn:Eint.
    + left. cbn [MultiPipe.mstep]. rewrite Ewire.
      apply existsb_exists. exists i. split.
      * apply in_seq. split; [lia|]. cbn. apply nth_error_Some. congruence.
      * cbn [length]. destruct (Nat.ltb_spec 0 K) as [_|Hk]; [|lia].
        rewrite Hi. unfold internal_enabled in Eint.
        destruct (pstep cmax s PChunk) as [s'|] eqn:E1.
        -- assert (Hone : exists f, p_wire s' = [f]).
           { cbn [pstep] in E1. destruct (p_cur s) as [[[m0 rest] first]|]; [|discriminate].
             destruct (Nat.eqb (p_swin s) 0); [discriminate|]. inversion E1; subst; cbn.
             rewrite (Hw _ _ Hi). eexists; reflexivity. }
           destruct Hone as [f Hf]. rewrite Hf. reflexivity.
        -- destruct (pstep cmax s PDeliver) as [s'|] eqn:E2.
           ++ cbn [pstep] in E2. rewrite (Hw _ _ Hi) in E2. discriminate.
           ++ destruct (pstep cmax s PCredit) as [s'|] eqn:E3; [reflexivity|discriminate].
    + right. exact (system_blocked_means_full_window_unread _ _ _ Hp Hc Eint).
  - (* carrier non-empty: the receive loop can take its head *)
    left. destruct (@multi_head_always_deliverable n ls m H) as [m' Hm']; [rewrite Ewire; discriminate|].
    rewrite Hm'. reflexivity.
Qed.

End M.

(* non-vacuity: two streams, carrier capacity 1; stream 0's application never reads, stream 1 still
   gets its message through *)
Example stalled_stream_does_not_block_the_other :
  match mrun 2 1 (m_init nat 4 2)
     [MSubmit 0 [1;2;3;4]; MSubmit 1 [7;8]; MChunk 0; MDeliver; MChunk 0; MDeliver; MChunk 1; MDeliver; MDequeue 1] with
  | Some m => match nth_error (m_streams m) 1, nth_error (m_streams m) 0 with
              | Some s1, Some s0 => p_delivered s1 = [[7;8]] /\ p_delivered s0 = [] /\ bytes (p_rq s0) = 4
              | _, _ => False end
  | None => False
  end.
Proof. vm_compute. repeat split. Qed.
