(* Stream ids in the many-stream system of MultiRpc.v: new_stream frames reach the wire in strictly
   increasing id order, the serve loop sees them in that order, and the code's test
   "streamID <= lastSeen" coincides with the per-stream flag the components use. *)
From Coq Require Import List Bool Arith Lia.
From RecordUpdate Require Import RecordUpdate.
From GT Require Import Rpc RpcInv RpcProofs RpcSystem MultiRpc MultiRpcProofs RpcCheckV6.
Import ListNotations.

Definition newsof (q : list (nat * cframe)) : list nat := map fst (filter (fun p => is_new (snd p)) q).

(* facts about single steps of the components, from every control state *)
Lemma kstep_ids k l k' em : kstep k l = Some (k', em) ->
  match l with
  | CNew => (k_new k = false /\ k_new k' = true /\ em = [FNew]) \/ (k_new k' = k_new k /\ no_new em = true)
  | _ => k_new k' = k_new k /\ no_new em = true
  end.
Proof.
  intros Hs. pose proof (forall_ck_ok _ kids_all k) as H. unfold kids_check in H.
  pose proof (proj1 (forallb_forall _ _) H l (all_klbl_ok l)) as H1. cbv beta in H1. rewrite Hs in H1.
  destruct l; try (apply andb_true_iff in H1; destruct H1 as [A B]; apply eqb_prop in A; auto).
  apply orb_true_iff in H1. destruct H1 as [H1|H1].
  - left. apply andb_true_iff in H1. destruct H1 as [A C]. apply andb_true_iff in A. destruct A as [A B].
    apply negb_true_iff in A. destruct em as [|[] [|? ?]]; try discriminate. auto.
  - right. apply andb_true_iff in H1. destruct H1 as [A C]. apply eqb_prop in A.
    destruct em; [auto|discriminate].
Qed.

Lemma vstep_ids strict v l v' em : vstep strict v l = Some (v', em) ->
  match l with
  | SLoop FNew _ => seen v' = true
  | _ => seen v' = seen v
  end.
Proof.
  intros Hs. pose proof (forall_sv_ok _ (vids_all strict) v) as H. unfold vids_check in H.
  pose proof (proj1 (forallb_forall _ _) H l (all_vlbl_ok l)) as H1. cbv beta in H1. rewrite Hs in H1.
  destruct l as [[] ?| | | | | | | | | |]; try exact H1; apply eqb_prop in H1; exact H1.
Qed.

Lemma newsof_app a b : newsof (a ++ b) = newsof a ++ newsof b.
Proof. unfold newsof. rewrite filter_app, map_app. reflexivity. Qed.
Lemma newsof_tag_none i em : no_new em = true -> newsof (tag i em) = [].
Proof.
  unfold newsof, tag, no_new. induction em as [|f em IH]; cbn; auto. intros H.
  apply andb_true_iff in H. destruct H as [H1 H2]. destruct (is_new f); [discriminate|]. auto.
Qed.

Record idinv (n : nat) (m : mst) (c : nat) : Prop := mkIdinv {   (* c: the client's lastStreamID *)
  id_len : length (m_ps m) = n;
  id_c_le : c <= n;
  id_last_le : m_last m <= c;
  id_started : forall j, j < n -> k_new (p_k (get m j)) = Nat.ltb j c;
  id_hist : newsof (mh_c m) = seq 0 c;
  id_queue : newsof (mq_c m) = seq (m_last m) (c - m_last m);
  id_seen : forall j, j < n -> seen (p_v (get m j)) = Nat.ltb j (m_last m)
}.

Lemma idinv_init n : idinv n (m_init n) 0.
Proof.
  constructor; cbn; auto; try lia.
  - apply repeat_length.
  - intros j Hj. unfold get. cbn. replace (nth j (repeat p_init n) p_init) with p_init; [reflexivity|].
    clear Hj. revert j; induction n as [|n IH]; intros [|j]; cbn; auto.
  - intros j Hj. unfold get. cbn. replace (nth j (repeat p_init n) p_init) with p_init; [reflexivity|].
    clear Hj. revert j; induction n as [|n IH]; intros [|j]; cbn; auto.
Qed.

Lemma started_before_spec m j i : started_before m j = true -> i < j -> i < length (m_ps m) ->
  k_new (p_k (get m i)) = true.
Proof.
  unfold started_before, get. intros H Hij Hil. rewrite forallb_forall in H. apply H.
  rewrite <- (firstn_skipn j (m_ps m)) at 1.
  rewrite app_nth1 by (rewrite firstn_length; lia).
  apply nth_In. rewrite firstn_length. lia.
Qed.

Lemma get_upd_same m j x qc qs hc hs la : j < length (m_ps m) ->
  get (mkM (upd (m_ps m) j x) qc qs hc hs la) j = x.
Proof. intros H. unfold get. cbn. apply nth_upd_same. exact H. Qed.
Lemma get_upd_other m j j0 x qc qs hc hs la : j <> j0 ->
  get (mkM (upd (m_ps m) j x) qc qs hc hs la) j0 = get m j0.
Proof. intros H. unfold get. cbn. apply nth_upd_other. exact H. Qed.

(* a client step of stream j (receive loop or not): given what it does to k_new and what it emits *)
Lemma idinv_kstep n m c j k' em qs' :
  idinv n m c -> j < n ->
  (k_new k' = k_new (p_k (get m j)) /\ no_new em = true) ->
  idinv n (mkM (upd (m_ps m) j (mkPs k' (p_v (get m j)) (p_n (get m j)))) (mq_c m ++ tag j em) qs'
               (mh_c m ++ tag j em) (mh_s m) (m_last m)) c.
Proof.
  intros [Hl Hc Hla Hst Hh Hq Hs] Hj [Hk Hem].
  constructor; cbn [m_ps mq_c mq_s mh_c mh_s m_last]; auto.
  - rewrite upd_length. exact Hl.
  - intros j0 Hj0. destruct (Nat.eq_dec j j0) as [<-|Hne].
    + rewrite get_upd_same by lia. cbn. rewrite Hk. apply Hst. exact Hj.
    + rewrite get_upd_other by auto. apply Hst. exact Hj0.
  - rewrite newsof_app, newsof_tag_none, app_nil_r by assumption. exact Hh.
  - rewrite newsof_app, newsof_tag_none, app_nil_r by assumption. exact Hq.
  - intros j0 Hj0. destruct (Nat.eq_dec j j0) as [<-|Hne].
    + rewrite get_upd_same by lia. cbn. apply Hs. exact Hj.
    + rewrite get_upd_other by auto. apply Hs. exact Hj0.
Qed.

Lemma idinv_step strict n m c l m' : idinv n m c -> mstep strict m l = Some m' -> exists c', idinv n m' c'.
Proof.
  intros I H. pose proof I as [Hl Hc Hla Hst Hh Hq Hs].
  destruct l as [j l|bad|j l|md]; cbn [mstep] in H.
  - (* MK *)
    assert (Hnl : match l with CLoop _ _ => False | _ => True end) by (destruct l; auto; discriminate).
    assert (H' : (if Nat.ltb j (length (m_ps m)) then
                   if (match l with CNew => negb (started_before m j) | _ => false end) then None else
                   match kstep (p_k (get m j)) l with
                   | Some (k', em) => Some (mkM (upd (m_ps m) j (mkPs k' (p_v (get m j)) (p_n (get m j)))) (mq_c m ++ tag j em) (mq_s m)
                                                (mh_c m ++ tag j em) (mh_s m) (m_last m))
                   | None => None end else None) = Some m') by (destruct l; auto; contradiction).
    clear H. destruct (Nat.ltb_spec j (length (m_ps m))) as [Hj|]; [|discriminate]. rewrite Hl in Hj.
    destruct (match l with CNew => negb (started_before m j) | _ => false end) eqn:Hsb; [discriminate|].
    destruct (kstep (p_k (get m j)) l) as [[k' em]|] eqn:Hks; [|discriminate]. inversion H'; subst m'; clear H'.
    pose proof (kstep_ids _ _ _ _ Hks) as Hid.
    destruct l; try contradiction; try (exists c; apply idinv_kstep; auto; fail).
    (* CNew: refused (the channel has ended), or the creation lock hands out the next id *)
    destruct Hid as [(Hk0 & Hk1 & ->)|Hid]; [|exists c; apply idinv_kstep; auto].
    apply negb_false_iff in Hsb.
    assert (Hjc : j = c).
    { pose proof (Hst j Hj) as E. rewrite Hk0 in E. symmetry in E. apply Nat.ltb_ge in E.
      destruct (Nat.eq_dec j c); auto. exfalso.
      assert (Hcj : c < j) by lia.
      pose proof (started_before_spec m j c Hsb Hcj ltac:(lia)) as E2.
      rewrite (Hst c ltac:(lia)) in E2. rewrite Nat.ltb_irrefl in E2. discriminate. }
    subst j. exists (S c).
    constructor; cbn [m_ps mq_c mq_s mh_c mh_s m_last]; auto; try lia.
    + rewrite upd_length. exact Hl.
    + intros j0 Hj0. destruct (Nat.eq_dec c j0) as [<-|Hne].
      * rewrite get_upd_same by lia. cbn [p_k]. rewrite Hk1. destruct (Nat.ltb_spec c (S c)); [reflexivity|lia].
      * rewrite get_upd_other by auto. rewrite (Hst j0 Hj0).
        destruct (Nat.ltb_spec j0 c), (Nat.ltb_spec j0 (S c)); auto; lia.
    + rewrite newsof_app, Hh. change (newsof (tag c [FNew])) with [c]. rewrite seq_S. reflexivity.
    + rewrite newsof_app, Hq. change (newsof (tag c [FNew])) with [c].
      replace (S c - m_last m) with (S (c - m_last m)) by lia.
      rewrite seq_S. f_equal. f_equal. lia.
    + intros j0 Hj0. destruct (Nat.eq_dec c j0) as [<-|Hne].
      * rewrite get_upd_same by lia. cbn. apply Hs. exact Hj.
      * rewrite get_upd_other by auto. apply Hs. exact Hj0.
  - (* MKLoop *)
    destruct (mq_s m) as [|[j f] r] eqn:Eq; [discriminate|].
    destruct (Nat.ltb_spec j (length (m_ps m))) as [Hj|]; [|discriminate]. rewrite Hl in Hj.
    destruct (kstep (p_k (get m j)) (CLoop f bad)) as [[k' em]|] eqn:Hks; [|discriminate]. inversion H; subst m'; clear H.
    exists c. apply idinv_kstep; auto. exact (kstep_ids _ _ _ _ Hks).
  - (* MV *)
    assert (Hnl : match l with SLoop _ _ => False | _ => True end) by (destruct l; auto; discriminate).
    assert (H' : (if Nat.ltb j (length (m_ps m)) then
                   match vstep strict (p_v (get m j)) l with
                   | Some (v', em) => Some (mkM (upd (m_ps m) j (mkPs (p_k (get m j)) v' (p_n (get m j) + invoked (p_v (get m j)) v'))) (mq_c m) (mq_s m ++ tag j em)
                                                (mh_c m) (mh_s m ++ tag j em) (m_last m))
                   | None => None end else None) = Some m') by (destruct l; auto; contradiction).
    clear H. destruct (Nat.ltb_spec j (length (m_ps m))) as [Hj|]; [|discriminate]. rewrite Hl in Hj.
    destruct (vstep strict (p_v (get m j)) l) as [[v' em]|] eqn:Hvs; [|discriminate]. inversion H'; subst m'; clear H'.
    pose proof (vstep_ids _ _ _ _ _ Hvs) as Hid.
    assert (Hseen : seen v' = seen (p_v (get m j))) by (destruct l; try contradiction; exact Hid).
    exists c. constructor; cbn [m_ps mq_c mq_s mh_c mh_s m_last]; auto.
    + rewrite upd_length. exact Hl.
    + intros j0 Hj0. destruct (Nat.eq_dec j j0) as [<-|Hne].
      * rewrite get_upd_same by lia. cbn. apply Hst. exact Hj.
      * rewrite get_upd_other by auto. apply Hst. exact Hj0.
    + intros j0 Hj0. destruct (Nat.eq_dec j j0) as [<-|Hne].
      * rewrite get_upd_same by lia. cbn. rewrite Hseen. apply Hs. exact Hj.
      * rewrite get_upd_other by auto. apply Hs. exact Hj0.
  - (* MVLoop *)
    destruct (mq_c m) as [|[j f] r] eqn:Eq; [discriminate|].
    destruct (Nat.ltb_spec j (length (m_ps m))) as [Hj|]; [|discriminate]. rewrite Hl in Hj.
    destruct (vstep strict (p_v (get m j)) (SLoop f md)) as [[v' em]|] eqn:Hvs; [|discriminate]. inversion H; subst m'; clear H.
    pose proof (vstep_ids _ _ _ _ _ Hvs) as Hid.
    destruct (is_new f) eqn:Ef.
    + (* new_stream: it is the next id the server expects *)
      destruct f; try discriminate. cbn in Hid.
      unfold newsof in Hq. cbn in Hq. fold (newsof r) in Hq.
      destruct (c - m_last m) as [|d] eqn:Ed; [discriminate|]. cbn [seq] in Hq. injection Hq as Hj0 Hr.
      exists c. constructor; cbn [m_ps mq_c mq_s mh_c mh_s m_last]; auto; try lia.
      * rewrite upd_length. exact Hl.
      * intros j0 Hj1. destruct (Nat.eq_dec j j0) as [<-|Hne].
        -- rewrite get_upd_same by lia. cbn. apply Hst. exact Hj.
        -- rewrite get_upd_other by auto. apply Hst. exact Hj1.
      * rewrite Hr. replace (Nat.max (m_last m) (S j)) with (S (m_last m)) by lia.
        replace (c - S (m_last m)) with d by lia. reflexivity.
      * intros j0 Hj1. replace (Nat.max (m_last m) (S j)) with (S (m_last m)) by lia.
        destruct (Nat.eq_dec j j0) as [<-|Hne].
        -- rewrite get_upd_same by lia. cbn [p_v]. rewrite Hid. destruct (Nat.ltb_spec j (S (m_last m))); [reflexivity|lia].
        -- rewrite get_upd_other by auto. rewrite (Hs j0 Hj1).
           destruct (Nat.ltb_spec j0 (m_last m)), (Nat.ltb_spec j0 (S (m_last m))); auto; lia.
    + assert (Hseen : seen v' = seen (p_v (get m j))) by (destruct f; try discriminate; exact Hid).
      assert (Hnr : newsof r = newsof (mq_c m)).
      { rewrite Eq. unfold newsof. cbn. rewrite Ef. reflexivity. }
      exists c. constructor; cbn [m_ps mq_c mq_s mh_c mh_s m_last]; auto.
      * rewrite upd_length. exact Hl.
      * destruct f; try discriminate; lia.
      * intros j0 Hj1. destruct (Nat.eq_dec j j0) as [<-|Hne].
        -- rewrite get_upd_same by lia. cbn. apply Hst. exact Hj.
        -- rewrite get_upd_other by auto. apply Hst. exact Hj1.
      * rewrite Hnr, Eq. destruct f; try discriminate; exact Hq.
      * intros j0 Hj1. destruct f; try discriminate;
          (destruct (Nat.eq_dec j j0) as [<-|Hne];
           [rewrite get_upd_same by lia; cbn; rewrite Hseen; apply Hs; exact Hj
           |rewrite get_upd_other by auto; apply Hs; exact Hj1]).
Qed.

Theorem multi_ids n strict ls m : mrun strict (m_init n) ls = Some m -> exists c, idinv n m c.
Proof.
  assert (G : forall ls m0 c0, idinv n m0 c0 -> mrun strict m0 ls = Some m -> exists c, idinv n m c).
  { clear ls. induction ls as [|l ls IH]; cbn; intros m0 c0 I H.
    - inversion H; subst. eauto.
    - destruct (mstep strict m0 l) as [m1|] eqn:E; [|discriminate].
      destruct (idinv_step _ _ _ _ _ _ I E) as [c1 I1]. eauto. }
  intros H. exact (G ls (m_init n) 0 (idinv_init n) H).
Qed.

(* C08: the new_stream frames are on the wire in strictly increasing id order, one per started RPC,
   whatever goroutines start RPCs and however everything else interleaves *)
Theorem multi_ids_increase_on_the_wire n strict ls m :
  mrun strict (m_init n) ls = Some m -> exists c, c <= n /\ newsof (mh_c m) = seq 0 c.
Proof. intros H. destruct (multi_ids _ _ _ _ H) as [c I]. exists c. split; [apply (id_c_le _ _ _ I) | apply (id_hist _ _ _ I)]. Qed.

(* ... and the serve loop's test "streamID <= lastSeen" is exactly "this stream's new_stream was seen" *)
Theorem multi_lastseen_exact n strict ls m j :
  mrun strict (m_init n) ls = Some m -> j < n -> seen (p_v (get m j)) = Nat.ltb j (m_last m).
Proof. intros H Hj. destruct (multi_ids _ _ _ _ H) as [c I]. apply (id_seen _ _ _ I). exact Hj. Qed.
