(* Reverse-tunnel registry (handler.go: reverseChannels and the per-key map).
   Tunnels are identified by numbers, affinity keys by numbers (the nil key is one of them).
   Model only. *)
From Coq Require Import List ZArith NArith Bool Arith.
Import ListNotations.

Record rc := mkRc {
  chans : list (N * N);      (* (tunnel, key), in registration order *)
  idx : nat;                 (* round-robin cursor (Go int, never negative) *)
  avail_closed : bool;       (* the current readiness latch is closed *)
  avail_gen : nat            (* how many times the latch has been replaced *)
}.

Definition rc_new : rc := mkRc [] 0 false 0.

Definition rc_add (c : rc) (t k : N) : rc :=
  let chans' := chans c ++ [(t, k)] in
  mkRc chans' (idx c) (if Nat.eqb (length chans') 1 then true else avail_closed c) (avail_gen c).

Fixpoint remove_first (t : N) (l : list (N * N)) : option (N * list (N * N)) :=
  match l with
  | [] => None
  | (t', k) :: r =>
      if N.eqb t' t then Some (k, r)
      else match remove_first t r with
           | Some (k', r') => Some (k', (t', k) :: r')
           | None => None
           end
  end.

Definition rc_remove (c : rc) (t : N) : rc * option N :=
  match remove_first t (chans c) with
  | None => (c, None)
  | Some (k, chans') =>
      (match chans' with
       | [] => mkRc [] (idx c) false (S (avail_gen c))    (* new latch for waiting on ready *)
       | _ => mkRc chans' (idx c) (avail_closed c) (avail_gen c)
       end, Some k)
  end.

Definition rc_pick (c : rc) : rc * option N :=
  match chans c with
  | [] => (c, None)
  | _ =>
      let i := S (idx c) in
      let i' := if Nat.leb (length (chans c)) i then 0 else i in
      (mkRc (chans c) i' (avail_closed c) (avail_gen c),
       match nth_error (chans c) i' with Some (t, _) => Some t | None => None end)
  end.

Definition rc_ready (c : rc) : bool := negb (Nat.eqb (length (chans c)) 0).
Definition rc_all (c : rc) : list N := map fst (chans c).

(* n consecutive picks *)
Fixpoint rc_picks (n : nat) (c : rc) : rc * list (option N) :=
  match n with
  | O => (c, [])
  | S n' => let '(c1, p) := rc_pick c in let '(c2, ps) := rc_picks n' c1 in (c2, p :: ps)
  end.

(* ---------- the handler's two-level registry ---------- *)
Record reg := mkReg { glob : rc; bykey : list (N * rc) }.
Definition reg_new : reg := mkReg rc_new [].

Fixpoint key_get (k : N) (m : list (N * rc)) : option rc :=
  match m with
  | [] => None
  | (k', c) :: r => if N.eqb k' k then Some c else key_get k r
  end.
Fixpoint key_set (k : N) (c : rc) (m : list (N * rc)) : list (N * rc) :=
  match m with
  | [] => [(k, c)]
  | (k', c') :: r => if N.eqb k' k then (k, c) :: r else (k', c') :: key_set k c r
  end.

(* openReverseTunnel registers in the global list, then in the key's list *)
Definition reg_open (r : reg) (t k : N) : reg :=
  let c := match key_get k (bykey r) with Some c => c | None => rc_new end in
  mkReg (rc_add (glob r) t k) (key_set k (rc_add c t k) (bykey r)).

(* unregister (channel tear-down) followed by the deferred removals of the handler: the
   second removals find nothing *)
Definition reg_close (r : reg) (t : N) : reg :=
  match rc_remove (glob r) t with
  | (g', None) => r
  | (g', Some k) =>
      match key_get k (bykey r) with
      | Some c => mkReg g' (key_set k (fst (rc_remove c t)) (bykey r))
      | None => mkReg g' (bykey r)
      end
  end.

Definition reg_pick_key (r : reg) (k : N) : reg * option N :=
  match key_get k (bykey r) with
  | None => (r, None)
  | Some c => let '(c', p) := rc_pick c in (mkReg (glob r) (key_set k c' (bykey r)), p)
  end.
Definition reg_pick (r : reg) : reg * option N :=
  let '(g', p) := rc_pick (glob r) in (mkReg g' (bykey r), p).
Definition reg_key_ready (r : reg) (k : N) : bool :=
  match key_get k (bykey r) with None => false | Some c => rc_ready c end.
Definition reg_key_all (r : reg) (k : N) : list N :=
  match key_get k (bykey r) with None => [] | Some c => rc_all c end.

Inductive reg_op := ROpen (t k : N) | RClose (t : N) | RPick | RPickKey (k : N).
Definition reg_apply (r : reg) (o : reg_op) : reg :=
  match o with
  | ROpen t k => reg_open r t k
  | RClose t => reg_close r t
  | RPick => fst (reg_pick r)
  | RPickKey k => fst (reg_pick_key r k)
  end.
