(* Proofs about the receivers: for every history of operations (arbitrary item sizes:
   a hostile peer included) the queue never holds more than the advertised window; an
   overrun is refused without changing state; credit equals exactly what was dequeued. *)
From Coq Require Import List NArith Lia Bool ZifyN ZifyBool.
From GT Require Import Recvq.
Import ListNotations.
Set Implicit Arguments.
Local Open Scope N_scope.

Ltac splits := repeat match goal with |- _ /\ _ => split end.

Section P.
Variable T : Type.
Variable measure : T -> N.
Notation rq := (rq T).
Notation sizes := (sizes measure).
Notation rq_queued := (rq_queued measure).

Lemma sizes_app (a b : list T) : sizes (a ++ b) = sizes a + sizes b.
Proof. induction a as [|x a IH]; cbn [app Recvq.sizes fold_right] in *; [reflexivity|]. unfold Recvq.sizes in *. cbn [fold_right]. lia. Qed.

Lemma sizes_cons x (l : list T) : sizes (x :: l) = measure x + sizes l.
Proof. reflexivity. Qed.

Lemma sizes_one x : sizes [x] = measure x.
Proof. unfold Recvq.sizes. cbn [fold_right]. lia. Qed.

Definition Inv (W : N) (q : rq) : Prop := rq_queued q + rq_win q <= W.
(* while the queue was never cancelled the window accounts for the queue exactly *)
Definition InvEq (W : N) (q : rq) : Prop := rq_queued q + rq_win q = W.

Lemma accept_cases (q : rq) x :
  (rq_closed q = true /\ rq_accept measure q x = (q, AccDropped)) \/
  (rq_closed q = false /\ rq_win q < measure x /\ rq_accept measure q x = (q, AccOverrun)) \/
  (rq_closed q = false /\ measure x <= rq_win q /\
   rq_accept measure q x = (mkRq (rq_items q ++ [x]) (rq_win q - measure x) (rq_closed q) (rq_cancelled q), AccOk)).
Proof.
  unfold rq_accept. destruct (rq_closed q); [left; auto|].
  destruct (rq_win q <? measure x) eqn:E; [right; left | right; right]; repeat split; lia.
Qed.

(* an overrunning frame is refused and leaves the receiver untouched *)
Theorem overrun_unchanged (q q' : rq) x :
  rq_accept measure q x = (q', AccOverrun) -> q' = q /\ rq_win q < measure x /\ rq_closed q = false.
Proof.
  destruct (accept_cases q x) as [[_ E]|[[Hc [Hw E]]|[_ [_ E]]]]; rewrite E; intro H; inversion H; subst; auto.
Qed.

Theorem accept_ok (q q' : rq) x :
  rq_accept measure q x = (q', AccOk) ->
  measure x <= rq_win q /\ rq_items q' = rq_items q ++ [x] /\ rq_win q' = rq_win q - measure x.
Proof.
  destruct (accept_cases q x) as [[_ E]|[[Hc [Hw E]]|[_ [Hw E]]]]; rewrite E; intro H; inversion H; subst; cbn; auto.
Qed.

(* credit is exactly the size of the dequeued item; FIFO *)
Theorem dequeue_item (q q' : rq) x c :
  rq_dequeue measure q = (q', DeqItem x c) ->
  c = measure x /\ rq_items q = x :: rq_items q' /\ rq_win q' = rq_win q + c /\ rq_cancelled q = false.
Proof.
  unfold rq_dequeue. destruct (rq_cancelled q); [discriminate|].
  destruct (rq_items q) as [|y r] eqn:E; [destruct (rq_closed q); discriminate|].
  intro H; inversion H; subst; cbn; auto.
Qed.

Lemma apply_inv W (q : rq) o : Inv W q -> Inv W (rq_apply measure q o).
Proof.
  unfold Inv, rq_queued. intro H. destruct o as [x| | |]; cbn [rq_apply].
  - destruct (accept_cases q x) as [[_ E]|[[_ [_ E]]|[_ [Hw E]]]]; rewrite E; cbn [fst rq_items rq_win]; try assumption.
    rewrite sizes_app, sizes_one. lia.
  - unfold rq_dequeue. destruct (rq_cancelled q); [assumption|].
    destruct (rq_items q) as [|y r] eqn:E; [destruct (rq_closed q); cbn [fst]; rewrite ?E; assumption|].
    cbn [fst rq_items rq_win]. rewrite sizes_cons in H. lia.
  - exact H.
  - cbn [rq_cancel rq_items rq_win]. unfold Recvq.sizes. cbn [fold_right]. lia.
Qed.

Theorem bounded_always W (ops : list (rq_op T)) :
  let q := fold_left (rq_apply measure) ops (rq_init T W) in
  Inv W q /\ rq_queued q <= W.
Proof.
  assert (H : forall q, Inv W q -> Inv W (fold_left (rq_apply measure) ops q)).
  { induction ops as [|o ops IH]; intros q Hq; [exact Hq|]. cbn [fold_left]. apply IH, apply_inv, Hq. }
  specialize (H (rq_init T W)). cbn zeta.
  assert (Inv W (rq_init T W)) as H0 by (unfold Inv, rq_queued, Recvq.sizes; cbn; lia).
  specialize (H H0). split; [exact H|]. unfold Inv in H. lia.
Qed.

Definition no_cancel (o : rq_op T) : bool := match o with OpCancel => false | _ => true end.

Lemma apply_inveq W (q : rq) o : no_cancel o = true -> InvEq W q -> InvEq W (rq_apply measure q o).
Proof.
  unfold InvEq, rq_queued. intros Hn H. destruct o as [x| | |]; cbn [rq_apply]; try discriminate.
  - destruct (accept_cases q x) as [[_ E]|[[_ [_ E]]|[_ [Hw E]]]]; rewrite E; cbn [fst rq_items rq_win]; try assumption.
    rewrite sizes_app, sizes_one. lia.
  - unfold rq_dequeue. destruct (rq_cancelled q); [assumption|].
    destruct (rq_items q) as [|y r] eqn:E; [destruct (rq_closed q); cbn [fst]; rewrite ?E; assumption|].
    cbn [fst rq_items rq_win]. rewrite sizes_cons in H. lia.
  - exact H.
Qed.

(* without cancellation: queued bytes + remaining window = advertised window, exactly; so once
   the application has dequeued everything the whole window is available again *)
Theorem window_exact W (ops : list (rq_op T)) :
  forallb no_cancel ops = true ->
  let q := fold_left (rq_apply measure) ops (rq_init T W) in
  rq_queued q + rq_win q = W /\ (rq_items q = [] -> rq_win q = W).
Proof.
  intro Hn.
  assert (H : forall q, InvEq W q -> InvEq W (fold_left (rq_apply measure) ops q)).
  { induction ops as [|o ops IH]; intros q Hq; [exact Hq|]. cbn [fold_left forallb] in *.
    apply andb_prop in Hn as [Ho Hn]. apply (IH Hn), apply_inveq; assumption. }
  assert (InvEq W (rq_init T W)) as H0 by (unfold InvEq, rq_queued, Recvq.sizes; cbn; lia).
  specialize (H _ H0). cbn zeta. split; [exact H|].
  intro He. unfold InvEq, rq_queued in H. rewrite He in H. unfold Recvq.sizes in H. cbn in H. lia.
Qed.

(* ---------- the credit ledger over a history ---------- *)
(* ghost run: total bytes accepted, total credit returned *)
Definition ledger_step (st : rq * N * N) (o : rq_op T) : rq * N * N :=
  let '(q, acc, cred) := st in
  match o with
  | OpAccept x => match rq_accept measure q x with
                  | (q', AccOk) => (q', acc + measure x, cred)
                  | (q', _) => (q', acc, cred)
                  end
  | OpDequeue => match rq_dequeue measure q with
                 | (q', DeqItem _ c) => (q', acc, cred + c)
                 | (q', _) => (q', acc, cred)
                 end
  | OpClose => (rq_close q, acc, cred)
  | OpCancel => (rq_cancel q, acc, cred)
  end.

Definition LedgerInv (W : N) (st : rq * N * N) : Prop :=
  let '(q, acc, cred) := st in
  cred <= acc /\ (acc - cred) + rq_win q = W /\ (rq_cancelled q = false -> rq_queued q = acc - cred).

Lemma ledger_step_inv W st o : LedgerInv W st -> LedgerInv W (ledger_step st o).
Proof.
  destruct st as [[q acc] cred]. unfold LedgerInv, ledger_step. intros (H1 & H2 & H3).
  destruct o as [x| | |].
  - destruct (accept_cases q x) as [[_ E]|[[_ [_ E]]|[Hc [Hw E]]]]; rewrite E; try (splits; assumption).
    cbn [rq_cancelled rq_items rq_win]. unfold rq_queued in *. cbn [rq_items].
    rewrite sizes_app, sizes_one. splits; try lia; intro Hc'; specialize (H3 Hc'); lia.
  - unfold rq_dequeue. destruct (rq_cancelled q) eqn:Ec.
    + splits; try assumption; intro; congruence.
    + specialize (H3 eq_refl). unfold rq_queued in *.
      destruct (rq_items q) as [|y r] eqn:E.
      * destruct (rq_closed q); splits; try assumption; intros _; rewrite ?E; assumption.
      * rewrite sizes_cons in H3. cbn [rq_cancelled rq_items rq_win]. splits; try lia; intros _; lia.
  - cbn [rq_close rq_cancelled rq_win rq_items]. unfold rq_queued in *. cbn [rq_items]. splits; assumption.
  - cbn [rq_cancel rq_cancelled rq_win rq_items]. splits; try assumption; intro; discriminate.
Qed.

(* for every history: credit never exceeds what was accepted, the un-credited amount never
   exceeds the window, and the window is exactly the advertised one minus the un-credited amount *)
Theorem ledger_always W (ops : list (rq_op T)) :
  let '(q, acc, cred) := fold_left ledger_step ops (rq_init T W, 0, 0) in
  cred <= acc /\ acc - cred <= W /\ rq_win q = W - (acc - cred).
Proof.
  assert (H : forall st, LedgerInv W st -> LedgerInv W (fold_left ledger_step ops st)).
  { induction ops as [|o ops IH]; intros st Hst; [exact Hst|]. cbn [fold_left]. apply IH, ledger_step_inv, Hst. }
  assert (H0 : LedgerInv W (rq_init T W, 0, 0)).
  { unfold LedgerInv, rq_queued, Recvq.sizes. cbn. repeat split; lia. }
  specialize (H _ H0). destruct (fold_left ledger_step ops (rq_init T W, 0, 0)) as [[q acc] cred].
  unfold LedgerInv in H. destruct H as (H1 & H2 & _). repeat split; lia.
Qed.

(* ---------- revision-zero receiver ---------- *)
Theorem r0_holds_at_most_one (r r' : r0 T) x res :
  r0_accept r x = (r', res) ->
  match res with
  | Acc0Ok => r0_slot r = None /\ r0_slot r' = Some x
  | _ => r' = r
  end.
Proof.
  unfold r0_accept. destruct (r0_closed r); [intro H; inversion H; reflexivity|].
  destruct (r0_slot r) eqn:E; intro H; inversion H; subst; cbn; auto.
Qed.

(* a buffered item survives close: it is still delivered, exactly once *)
Theorem r0_item_survives_close (r : r0 T) x :
  r0_slot r = Some x ->
  r0_dequeue (r0_close r) = (mkR0 None true, DeqItem x 0) /\
  snd (r0_dequeue (fst (r0_dequeue (r0_close r)))) = DeqNone.
Proof. intro H. unfold r0_dequeue, r0_close. cbn. rewrite H. cbn. auto. Qed.

End P.
