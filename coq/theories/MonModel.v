(* Lock-step monitors: the table and negotiation models (Tables.v, Negotiate.v) are run on
   the frames the real endpoint was handed, and their classification is compared with what
   the endpoint then did.  They are the M2-level correspondence checks for those models and
   at the same time the oracles for hostile-peer scenarios (C08, C09, C10, C11).
     811 new_stream should have ended the tunnel (old / duplicate id)      812 rejection status missing or wrong
     813 handler started for a refused stream   814 handler not started for an accepted stream
     815 frame for a never-created stream did not end the tunnel           816 tunnel ended although the frame was routable
     821 server frame for a never-allocated stream did not end the channel 822 channel ended although the frame was routable
     1104 settings exchange outcome differs from the model                  1105 revision used differs from the one selected *)
From Coq Require Import List NArith ZArith Bool.
From GTgen Require Import Params.
From GT Require Import Trace MonWire Tables Negotiate.
Import ListNotations.
Local Open Scope N_scope.

Definition fl (code act : N) (a b : Z) : list failure := [mkFail code act a b].

Definition has_slash (s : str) : bool := existsb (N.eqb 47) s.
Definition classify_method (rpc : option N) (m : str) : mstat :=
  match rpc with
  | Some r => if r <? 128 then MOk else MUnknown     (* the harness registers methods <shape>0 .. <shape>127 *)
  | None =>
      let m' := match m with 47 :: r => r | _ => m end in
      if has_slash m' then MUnknown else MMalformed
  end.

(* the lock-step monitors follow tunnel 0; events of other tunnels are dropped *)
Definition on_tunnel0 (e : N * ev) : bool :=
  match snd e with
  | Emit _ t _ _ _ | Deliver _ t _ | StartRet t _ | ChanDone t _ | ServeRet t _ _ | NetSrvRet t _ | Stim _ t _ _ => N.eqb t 0
  | _ => true
  end.
Definition tunnel0 (tr : trace) : trace := filter on_tunnel0 tr.

(* the tunnel ended with an error during the batch of action [act] - unless that batch also contains
   a cause of its own (transport failure, marshal error, ...), which then explains the end *)
Definition ended_with_error_at (act : N) (tr : trace) : bool :=
  existsb (fun e => match e with
                    | (a, ServeRet _ _ r) | (a, NetSrvRet _ r) => N.eqb a act && negb (res_is_ok r)
                    | _ => false end) tr &&
  negb (existsb (fun e => match e with
                          | (a, Stim StMarshal _ _ _) | (a, Stim StFail _ _ _) | (a, Stim StCtxEnd _ _ _) => N.eqb a act
                          | _ => false end) tr).
Definition chan_error_at (act : N) (tr : trace) : bool :=
  existsb (fun e => match e with
                    | (a, ChanDone _ r) => N.eqb a act && negb (res_is_ok r)
                    | _ => false end) tr.

Record tstate := mkT {
  t_tab : stab; t_closing : bool; t_dead : bool;
  t_stopped : bool;   (* Stop was called: nothing can be answered any more, but stream ids are still policed *)
  t_q : list (Z * fkind);
  t_fails : list failure
}.

Definition tfail (s : tstate) (f : list failure) : tstate :=
  mkT (t_tab s) (t_closing s) (t_dead s) (t_stopped s) (t_q s) (t_fails s ++ f).

Definition tables_step (tr : trace) (s : tstate) (e : N * ev) : tstate :=
  let '(act, e) := e in
  match e with
  | Emit C2S _ id k true => mkT (t_tab s) (t_closing s) (t_dead s) (t_stopped s) (t_q s ++ [(id, k)]) (t_fails s)
  | Stim StFail _ _ _ | Stim StCtxEnd _ _ _ | Stim StMarshal _ _ _ => mkT (t_tab s) (t_closing s) true (t_stopped s) [] (t_fails s)
  | Stim StShutdown _ _ _ => mkT (t_tab s) true (t_dead s) (t_stopped s) (t_q s) (t_fails s)
  | Stim StStop _ _ _ => mkT (t_tab s) true (t_dead s) true (t_q s) (t_fails s)   (* Stop half-closes: nothing can be answered any more *)
  | ServeRet _ _ _ => mkT (t_tab s) (t_closing s) true (t_stopped s) (t_q s) (t_fails s)
  | Emit S2C _ id (KClose _ _) _ => mkT (st_remove (t_tab s) id) (t_closing s) (t_dead s) (t_stopped s) (t_q s) (t_fails s)
  | Deliver C2S _ 1 =>
      match t_q s with
      | [] => s
      | (id, k) :: rest =>
          let s := mkT (t_tab s) (t_closing s) (t_dead s) (t_stopped s) rest (t_fails s) in
          if t_dead s then s else
          if t_stopped s then
            (* only the tunnel-level verdicts remain observable *)
            match k with
            | KNew rpc m rev _ _ =>
                let '(tab', r) := st_create (t_tab s) id (t_closing s) rev (classify_method rpc m) in
                let s := mkT tab' (t_closing s) (t_dead s) (t_stopped s) (t_q s) (t_fails s) in
                match r with
                | CTunnelErr =>
                    let s := mkT (t_tab s) (t_closing s) true (t_stopped s) (t_q s) (t_fails s) in
                    if ended_with_error_at act tr then s else tfail s (fl 811 act id 1)
                | _ => s
                end
            | _ =>
                match st_get (t_tab s) id with
                | GTunnelErr =>
                    let s := mkT (t_tab s) (t_closing s) true (t_stopped s) (t_q s) (t_fails s) in
                    if ended_with_error_at act tr then s else tfail s (fl 815 act id 1)
                | _ => s
                end
            end
          else
          match k with
          | KNew rpc m rev _ _ =>
              let '(tab', r) := st_create (t_tab s) id (t_closing s) rev (classify_method rpc m) in
              let s := mkT tab' (t_closing s) (t_dead s) (t_stopped s) (t_q s) (t_fails s) in
              match r with
              | CTunnelErr =>
                  let s := mkT (t_tab s) (t_closing s) true (t_stopped s) (t_q s) (t_fails s) in
                  if ended_with_error_at act tr then s else tfail s (fl 811 act id 0)
              | CReject code =>
                  let ok := existsb (fun e => match e with
                                              | (a, Emit S2C _ id' (KClose st _) _) => N.eqb a act && Z.eqb id id' && is_code st code
                                              | _ => false end) tr in
                  let started := match rpc with
                                 | Some r => existsb (fun e => match e with (a, HStart r' _ _ _ _ _ _) => N.eqb a act && N.eqb r r' | _ => false end) tr
                                 | None => false end in
                  let s := if ok then s else tfail s (fl 812 act id (Z.of_N code)) in
                  let s := if started then tfail s (fl 813 act id 0) else s in
                  if ended_with_error_at act tr then tfail s (fl 816 act id 1) else s
              | CAccept =>
                  let started := match rpc with
                                 | Some r => existsb (fun e => match e with (a, HStart r' _ _ _ _ _ _) => N.eqb a act && N.eqb r r' | _ => false end) tr
                                 | None => true end in
                  let s := if started then s else tfail s (fl 814 act id 0) in
                  if ended_with_error_at act tr then tfail s (fl 816 act id 2) else s
              end
          | _ =>
              match st_get (t_tab s) id with
              | GTunnelErr =>
                  let s := mkT (t_tab s) (t_closing s) true (t_stopped s) (t_q s) (t_fails s) in
                  if ended_with_error_at act tr then s else tfail s (fl 815 act id 0)
              | _ => if ended_with_error_at act tr then tfail s (fl 816 act id 3) else s
              end
          end
      end
  | _ => s
  end.

(* prompt processing is only guaranteed with flow control (no parked loop) *)
Definition mon_tables (c : cfg) (tr : trace) : list failure :=
  if c_raws c || negb (expect_fc c) then []
  else let tr := tunnel0 tr in t_fails (fold_left (tables_step tr) tr (mkT stab0 false false false [] [])).

(* ---------- client side: frames for ids the client never allocated ---------- *)
Record cstate := mkC { c_lastid : Z; c_made : bool; c_deadc : bool; c_q : list (Z * fkind); c_first : bool; c_fails : list failure }.

Definition ctable_step (c : cfg) (tr : trace) (s : cstate) (e : N * ev) : cstate :=
  let '(act, e) := e in
  match e with
  | Emit C2S _ id (KNew _ _ _ _ _) _ =>
      mkC (Z.max (c_lastid s) id) true (c_deadc s) (c_q s) (c_first s) (c_fails s)
  | Emit S2C _ id k true => mkC (c_lastid s) (c_made s) (c_deadc s) (c_q s ++ [(id, k)]) (c_first s) (c_fails s)
  | Stim StFail _ _ _ | Stim StCtxEnd _ _ _ | Stim StChClose _ _ _ | Stim StMarshal _ _ _ => mkC (c_lastid s) (c_made s) true [] (c_first s) (c_fails s)
  | Deliver S2C _ 1 =>
      match c_q s with
      | [] => s
      | (id, k) :: rest =>
          let s' := mkC (c_lastid s) (c_made s) (c_deadc s) rest false (c_fails s) in
          if c_deadc s then s'
          else if c_first s && negb (c_sleg c) then s'     (* the settings exchange: see mon_negotiate *)
          else if c_made s && (id <=? c_lastid s)%Z then
            (if chan_error_at act tr then mkC (c_lastid s') (c_made s') true (c_q s') false (c_fails s' ++ fl 822 act id 0) else s')
          else
            let s'' := mkC (c_lastid s') (c_made s') true (c_q s') false (c_fails s') in
            if chan_error_at act tr then s'' else mkC (c_lastid s'') (c_made s'') true (c_q s'') false (c_fails s'' ++ fl 821 act id 0)
      end
  | ChanDone _ _ => mkC (c_lastid s) (c_made s) true (c_q s) (c_first s) (c_fails s)
  | _ => s
  end.

Definition mon_ctable (c : cfg) (tr : trace) : list failure :=
  if c_rawc c || negb (c_raws c) then []
  else let tr := tunnel0 tr in c_fails (fold_left (ctable_step c tr) tr (mkC 0 false false [] true [])).

(* ---------- the settings exchange ---------- *)
Definition first_s2c_delivery (tr : trace) : option (N * option (Z * fkind)) :=
  (* action and content of the first item handed to the client: a frame, or the end of the stream *)
  let fix go (q : list (Z * fkind)) (l : trace) :=
    match l with
    | [] => None
    | (a, Emit S2C _ id k true) :: r => go (q ++ [(id, k)]) r
    | (a, Deliver S2C _ 1) :: r => match q with x :: _ => Some (a, Some x) | [] => go q r end
    | (a, Deliver S2C _ 2) :: r => match q with [] => Some (a, None) | _ => go q r end
    | (a, Stim StFail _ _ _) :: _ | (a, Stim StCtxEnd _ _ _) :: _ => None
    | _ :: r => go q r
    end in
  go [] tr.

Definition mon_negotiate (c : cfg) (tr : trace) : list failure :=
  if c_rawc c then [] else
  let tr := tunnel0 tr in
  let news := flat_map (fun e => match e with (a, Emit C2S _ id (KNew _ _ rev _ _) _) => [(a, id, rev)] | _ => [] end) tr in
  if c_sleg c then
    (* a server that does not advertise: no exchange, revision zero *)
    flat_map (fun x => match x with (a, id, rev) => if (rev =? 0)%Z then [] else fl 1105 a id rev end) news
  else
  match first_s2c_delivery tr with
  | None => []
  | Some (act, item) =>
      let expected :=
        match item with
        | None => None                                   (* stream ended before any settings *)
        | Some (id, KSettings revs _) => if (id =? -1)%Z then choose_rev (supported (c_cdis c)) revs else None
        | Some _ => None
        end in
      match expected with
      | None => if chan_error_at act tr then [] else fl 1104 act 0 0
      | Some r =>
          (if chan_error_at act tr then fl 1104 act 1 r else []) ++
          flat_map (fun x => match x with (a, id, rev) => if (rev =? r)%Z then [] else fl 1105 a id rev end) news
      end
  end.

(* ---------- receiver window: the Recvq model in lock step with the real receiver ----------
     611 an overrunning frame did not fail the stream with ResourceExhausted (or a frame within the window did)
     612 credit returned differs from the size of the item the model dequeues next *)
From GT Require Import Recvq.

Definition nid (x : N) : N := x.
Record ostream := mkO { o_key : N * Z; o_q : rq N; o_live : bool }.
Record ostate := mkOs { os_streams : list ostream; os_q : list (N * (Z * fkind)); os_fails : list failure; os_dead : bool }.

Fixpoint oget (k : N * Z) (l : list ostream) : option ostream :=
  match l with [] => None | o :: r => if key_eqb k (o_key o) then Some o else oget k r end.
Fixpoint oset (o : ostream) (l : list ostream) : list ostream :=
  match l with [] => [o] | x :: r => if key_eqb (o_key o) (o_key x) then o :: r else x :: oset o r end.

(* drop zero-size items at the head: dequeuing them returns no credit and is invisible *)
Fixpoint drop_zeros (fuel : nat) (q : rq N) : rq N :=
  match fuel with
  | O => q
  | S k => match rq_items q with
           | 0 :: _ => drop_zeros k (fst (rq_dequeue nid q))
           | _ => q
           end
  end.

(* more than one client-to-server frame was handed over in action [act] *)
Definition burst_at (act : N) (tr : trace) : bool :=
  Nat.leb 2 (length (filter (fun e => match e with (a, Deliver C2S _ 1) => N.eqb a act | _ => false end) tr)).

Definition closed_with (code : N) (act : N) (t : N) (id : Z) (tr : trace) : bool :=
  existsb (fun e => match e with
                    | (a, Emit S2C t' id' (KClose st _) _) => N.eqb a act && N.eqb t t' && Z.eqb id id' && is_code st code
                    | _ => false end) tr.

Definition overrun_step (tr : trace) (s : ostate) (e : N * ev) : ostate :=
  let '(act, e) := e in
  if os_dead s then s else
  match e with
  | Emit C2S t id k true => mkOs (os_streams s) (os_q s ++ [(t, (id, k))]) (os_fails s) (os_dead s)
  | Stim StFail _ _ _ | Stim StCtxEnd _ _ _ | Stim StStop _ _ _ | Stim StChClose _ _ _ | Stim StMarshal _ _ _ | ServeRet _ _ _ | NetSrvRet _ _ | ChanDone _ _ =>
      mkOs (os_streams s) [] (os_fails s) true
  | Emit S2C t id (KClose _ _) _ =>
      match oget (t, id) (os_streams s) with
      | Some o => mkOs (oset (mkO (o_key o) (o_q o) false) (os_streams s)) (os_q s) (os_fails s) (os_dead s)
      | None => s
      end
  | Emit S2C t id (KWu n) _ =>
      match oget (t, id) (os_streams s) with
      | Some o =>
          if negb (o_live o) then s else
          let q := drop_zeros (length (rq_items (o_q o))) (o_q o) in
          match rq_dequeue nid q with
          | (q', DeqItem x c) =>
              let s' := mkOs (oset (mkO (o_key o) q' true) (os_streams s)) (os_q s) (os_fails s) (os_dead s) in
              if N.eqb c n then s' else mkOs (os_streams s') (os_q s') (os_fails s' ++ fl 612 act id (Z.of_N n)) (os_dead s')
          | _ => mkOs (os_streams s) (os_q s) (os_fails s ++ fl 612 act id (Z.of_N n)) (os_dead s)
          end
      | None => s
      end
  | Deliver C2S t 1 =>
      match os_q s with
      | [] => s
      | (t', (id, k)) :: rest =>
          let s := mkOs (os_streams s) rest (os_fails s) (os_dead s) in
          if os_dead s then s else
          match k with
          | KNew _ _ rev _ _ =>
              if (rev =? 0)%Z then s
              else match oget (t', id) (os_streams s) with
                   | Some _ => s
                   | None => mkOs (oset (mkO (t', id) (rq_init N init_window) true) (os_streams s)) (os_q s) (os_fails s) (os_dead s)
                   end
          | KMsg _ len | KMore len =>
              match oget (t', id) (os_streams s) with
              | Some o =>
                  if negb (o_live o) then s else
                  match rq_accept nid (o_q o) len with
                  | (q', AccOk) =>
                      let s' := mkOs (oset (mkO (o_key o) q' true) (os_streams s)) (os_q s) (os_fails s) (os_dead s) in
                      (* (in a burst - several frames handed over in one action - the close may answer a later frame) *)
                      if closed_with 8 act t' id tr && negb (burst_at act tr) then mkOs (os_streams s') (os_q s') (os_fails s' ++ fl 611 act id 1) (os_dead s') else s'
                  | (_, AccDropped) => s
                  | (_, AccOverrun) =>
                      let s' := mkOs (oset (mkO (o_key o) (o_q o) false) (os_streams s)) (os_q s) (os_fails s) (os_dead s) in
                      if closed_with 8 act t' id tr then s' else mkOs (os_streams s') (os_q s') (os_fails s' ++ fl 611 act id 0) (os_dead s')
                  end
              | None => s
              end
          | KHalf =>
              match oget (t', id) (os_streams s) with
              | Some o => mkOs (oset (mkO (o_key o) (rq_close (o_q o)) (o_live o)) (os_streams s)) (os_q s) (os_fails s) (os_dead s)
              | None => s
              end
          | KCancel | KNil =>
              match oget (t', id) (os_streams s) with
              | Some o => mkOs (oset (mkO (o_key o) (o_q o) false) (os_streams s)) (os_q s) (os_fails s) (os_dead s)
              | None => s
              end
          | _ => s
          end
      end
  | _ => s
  end.

(* handler deadlines / cancellations finish a stream without a wire event the monitor could
   order reliably, so scenarios with handler deadlines are left to the other monitors *)
Definition mon_overrun (c : cfg) (tr : trace) : list failure :=
  if c_raws c || negb (expect_fc c) then []
  else if existsb (fun e => match snd e with
                            | HStart _ _ _ (Some d) _ _ _ => (d <? 1000000000)%Z   (* can expire although the clock stands still *)
                            | Stim StAdvance _ _ _ => true                          (* the clock is moved *)
                            | _ => false end) tr then []
  else let tr := tunnel0 tr in os_fails (fold_left (overrun_step tr) tr (mkOs [] [] [] false)).

(* ---------- the pipeline model (Pipe.v) in lock step with each flow-controlled stream ----------
   For every stream and direction whose sender is the real library, the model is driven by what
   the tap shows: a data frame emitted = one PChunk (after a PSubmit when it is an envelope), a
   data frame delivered = PDeliver, a window update emitted by the receiving endpoint = the
   PDequeue of an item of that size, a window update delivered = PCredit.  The frame the model's
   sender would emit next must be exactly the frame the real sender emitted.
     631 emitted data frame differs from the model's next chunk (kind, announced size or length)
     632 data frame emitted although the model's sender has no window / no message in progress
     633 credit delivered differs from the model's next credit in flight *)
From GT Require Import Frames Pipe.

Definition umsg (n : N) : list unit := repeat tt (N.to_nat n).
Record pstream := mkPs { ps_key : N * Z * bool; ps_st : pst unit; ps_live : bool }.
Record pmon := mkPm { pm_streams : list pstream; pm_q : list (N * dir * (Z * fkind)); pm_fails : list failure }.

Definition pkey_eqb (a b : N * Z * bool) : bool :=
  key_eqb (fst a) (fst b) && Bool.eqb (snd a) (snd b).
Fixpoint psget (k : N * Z * bool) (l : list pstream) : option pstream :=
  match l with [] => None | o :: r => if pkey_eqb k (ps_key o) then Some o else psget k r end.
Fixpoint psset (o : pstream) (l : list pstream) : list pstream :=
  match l with [] => [o] | x :: r => if pkey_eqb (ps_key o) (ps_key x) then o :: r else x :: psset o r end.

Definition dirb (d : dir) : bool := match d with C2S => true | S2C => false end.
Definition pipe_step := @pstep unit (N.to_nat chunk_max).

Definition pm_fail (m : pmon) (f : list failure) : pmon := mkPm (pm_streams m) (pm_q m) (pm_fails m ++ f).
Definition pm_set (m : pmon) (o : pstream) : pmon := mkPm (psset o (pm_streams m)) (pm_q m) (pm_fails m).
Definition pm_kill (m : pmon) (t : N) (id : Z) : pmon :=
  let kill d m := match psget (t, id, d) (pm_streams m) with
                  | Some o => pm_set m (mkPs (ps_key o) (ps_st o) false) | None => m end in
  kill true (kill false m).

(* skip zero-length items: dequeuing them is invisible on the wire *)
Fixpoint deq_zeros (fuel : nat) (s : pst unit) : pst unit :=
  match fuel with
  | O => s
  | S k => match p_rq s with
           | f :: _ => if Nat.eqb (flen f) 0 then match pipe_step s PDequeue with Some s' => deq_zeros k s' | None => s end else s
           | [] => s
           end
  end.

Definition data_emit (m : pmon) (act t : N) (id : Z) (d : dir) (env : option N) (len : N) (swin0 : N) : pmon :=
  let o := match psget (t, id, dirb d) (pm_streams m) with
           | Some o => o
           | None => mkPs (t, id, dirb d) (mkP [] None 0 [] [] 0 RIdle [] [] false [] []) false   (* never announced: not tracked *)
           end in
  if negb (ps_live o) then m else
  let s := ps_st o in
  let s1 := match env, p_cur s with
            | Some size, None => match pipe_step s (PSubmit (umsg size)) with Some s' => s' | None => s end
            | _, _ => s
            end in
  match pipe_step s1 PChunk with
  | None => pm_fail (pm_set m (mkPs (ps_key o) s false)) (fl 632 act id (Z.of_N len))
  | Some s2 =>
      let ok := match last (p_sent s2) (More []), env with
                | Env sz dd, Some size => N.eqb sz size && Nat.eqb (length dd) (N.to_nat len)
                | More dd, None => Nat.eqb (length dd) (N.to_nat len)
                | _, _ => false
                end in
      if ok then pm_set m (mkPs (ps_key o) s2 true)
      else pm_fail (pm_set m (mkPs (ps_key o) s2 false))
                   (fl 631 act id (Z.of_nat (flen (last (p_sent s2) (More [])))))
  end.

Definition pipe_mon_step (c : cfg) (cwin_t : N) (m : pmon) (e : N * ev) : pmon :=
  let '(act, e) := e in
  match e with
  | Emit d t id k true =>
      let m := mkPm (pm_streams m) (pm_q m ++ [(t, d, (id, k))]) (pm_fails m) in
      let real_sender := match d with C2S => negb (c_rawc c) | S2C => negb (c_raws c) end in
      match k with
      | KMsg size len => if real_sender then data_emit m act t id d (Some size) len (if dirb d then cwin_t else init_window) else m
      | KMore len => if real_sender then data_emit m act t id d None len (if dirb d then cwin_t else init_window) else m
      | KWu n =>
          (* the receiving endpoint of direction (opp d) returns credit for an item of size n *)
          if negb real_sender then m else     (* a raw peer does not dequeue: its credit is arbitrary (below) *)
          match psget (t, id, dirb (opp d)) (pm_streams m) with
          | Some o =>
              if negb (ps_live o) then m else
              let s := deq_zeros (length (p_rq (ps_st o))) (ps_st o) in
              match p_rq s, pipe_step s PDequeue with
              | f :: _, Some s' => if Nat.eqb (flen f) (N.to_nat n) then pm_set m (mkPs (ps_key o) s' true)
                                   else pm_set m (mkPs (ps_key o) s' false)   (* judged by the receiver monitor (612) *)
              | _, _ => pm_set m (mkPs (ps_key o) s false)
              end
          | None => m
          end
      | KHalf | KCancel | KClose _ _ | KNil => pm_kill m t id
      | KNew _ _ rev win _ =>
          (* both senders of the stream start with the window their peer announced: the client's from
             the settings frame, the server's from this new_stream frame *)
          if (rev =? 0)%Z then m else
          let fresh w0 := mkP [] None (N.to_nat (N.min w0 262144)) [] [] (N.to_nat init_window) RIdle [] [] false [] [] in
          match psget (t, id, true) (pm_streams m) with
          | Some _ => m
          | None => pm_set (pm_set m (mkPs (t, id, true) (fresh cwin_t) (cwin_t <=? 262144)))
                           (mkPs (t, id, false) (fresh win) (win <=? 262144))
          end
      | _ => m
      end
  | Deliver d t 1 =>
      let fix pop (q : list (N * dir * (Z * fkind))) : option (Z * fkind) * list (N * dir * (Z * fkind)) :=
        match q with
        | [] => (None, [])
        | (t', d', x) :: r => if N.eqb t t' && dir_eqb d d' then (Some x, r)
                              else let '(y, r') := pop r in (y, (t', d', x) :: r')
        end in
      let '(x, q') := pop (pm_q m) in
      let m := mkPm (pm_streams m) q' (pm_fails m) in
      match x with
      | Some (id, KMsg _ _) | Some (id, KMore _) =>
          match psget (t, id, dirb d) (pm_streams m) with
          | Some o => if negb (ps_live o) then m else
                      match pipe_step (ps_st o) PDeliver with
                      | Some s' => pm_set m (mkPs (ps_key o) s' (negb (p_overrun s')))
                      | None => pm_set m (mkPs (ps_key o) (ps_st o) false)
                      end
          | None => m
          end
      | Some (id, KWu n) =>
          let raw_credit := match d with C2S => c_rawc c | S2C => c_raws c end in
          match psget (t, id, dirb (opp d)) (pm_streams m) with
          | Some o => if negb (ps_live o) then m else
                      if raw_credit then
                        (* credit invented by a raw peer: added to the window as is; absurd amounts (the
                           uint32 wrap-around is the business of the atomic-level model) end the tracking *)
                        let s := ps_st o in
                        if (262144 <? n) then pm_set m (mkPs (ps_key o) s false)
                        else pm_set m (mkPs (ps_key o)
                               (mkP (p_submitted s) (p_cur s) (p_swin s + N.to_nat n) (p_wire s) (p_rq s) (p_rwin s) (p_reader s)
                                    (p_delivered s) (p_credits s) (p_overrun s) (p_sent s) (p_consumed s)) true)
                      else
                      match p_credits (ps_st o), pipe_step (ps_st o) PCredit with
                      | n' :: _, Some s' => if Nat.eqb n' (N.to_nat n) then pm_set m (mkPs (ps_key o) s' true)
                                            else pm_fail (pm_set m (mkPs (ps_key o) s' false)) (fl 633 act id (Z.of_N n))
                      | _, _ => pm_set m (mkPs (ps_key o) (ps_st o) false)
                      end
          | None => m
          end
      | _ => m
      end
  | Stim StFail t _ _ | Stim StCtxEnd t _ _ | Stim StChClose t _ _ | Stim StStop t _ _ | Stim StMarshal t _ _ | ServeRet t _ _ | NetSrvRet t _ | ChanDone t _ =>
      mkPm (map (fun o => if N.eqb (fst (fst (ps_key o))) t then mkPs (ps_key o) (ps_st o) false else o) (pm_streams m))
           (filter (fun x => negb (N.eqb (fst (fst x)) t)) (pm_q m)) (pm_fails m)
  | Ret (Cx r) OCancel _ _ _ _ _ _ _ _ => m
  | _ => m
  end.

(* the window a client sender starts with is the one announced in the settings frame *)
Definition settings_window (tr : trace) : N :=
  match flat_map (fun e => match snd e with Emit S2C 0 _ (KSettings _ w) _ => [w] | _ => [] end) tr with
  | w :: _ => w | [] => init_window end.

Definition mon_pipe (c : cfg) (tr : trace) : list failure :=
  if negb (expect_fc c) && negb (c_raws c) then []
  else if existsb (fun e => match snd e with HStart _ _ _ (Some _) _ _ _ | NewCall _ _ _ _ _ _ (Some _) _ => true | _ => false end) tr then []
  else let tr := tunnel0 tr in
       pm_fails (fold_left (pipe_mon_step c (settings_window tr)) tr (mkPm [] [] [])).
