(* Write side of a server stream (tunnel_server.go: setHeader, sendHeadersLocked, SendMsg,
   setTrailer, finishStream), all serialised by the stream's write lock.  Model only. *)
From Coq Require Import List NArith Bool.
From GT Require Import Trace.
Import ListNotations.

Record sw := mkSw {
  sw_hdrs : mdt;            (* pending (not yet sent) headers *)
  sw_trls : mdt;
  sw_sent_hdrs : bool;
  sw_closed : bool;
  sw_nsent : N
}.
Definition sw0 : sw := mkSw [] [] false false 0.

(* what the write side puts on the wire (message frames abstracted to a tag) *)
Inductive sframe := SHdrs (md : mdt) | SMsg (tag : N) | SClose (st : res) (trailers : mdt).

Inductive sop :=
| WSetHeader (md : mdt) | WSendHeader (md : mdt) | WSend (tag : N) | WSetTrailer (md : mdt)
| WFinish (st : res).      (* handler returned, peer cancelled, or a stream-level violation *)

(* result: ok / refused *)
Definition sw_step (server_streams : bool) (s : sw) (o : sop) : sw * list sframe * bool :=
  match o with
  | WSetHeader md =>
      if sw_sent_hdrs s then (s, [], false)
      else (mkSw (md_join (sw_hdrs s) md) (sw_trls s) false (sw_closed s) (sw_nsent s), [], true)
  | WSendHeader md =>
      if sw_sent_hdrs s then (s, [], false)
      else (mkSw [] (sw_trls s) true (sw_closed s) (sw_nsent s), [SHdrs (md_join (sw_hdrs s) md)], true)
  | WSend tag =>
      if sw_closed s then (s, [], false)                       (* nothing may follow the close frame *)
      else
        let '(s1, fr) := if sw_sent_hdrs s then (s, [])
                         else (mkSw [] (sw_trls s) true (sw_closed s) (sw_nsent s), [SHdrs (sw_hdrs s)]) in
        if negb server_streams && N.eqb (sw_nsent s1) 1 then (s1, fr, false)
        else (mkSw (sw_hdrs s1) (sw_trls s1) (sw_sent_hdrs s1) (sw_closed s1) (sw_nsent s1 + 1), fr ++ [SMsg tag], true)
  | WSetTrailer md =>
      if sw_closed s then (s, [], false)
      else (mkSw (sw_hdrs s) (md_join (sw_trls s) md) (sw_sent_hdrs s) (sw_closed s) (sw_nsent s), [], true)
  | WFinish st =>
      if sw_closed s then (s, [], true)
      else (mkSw [] [] true true (sw_nsent s),
            (if sw_sent_hdrs s then [] else [SHdrs (sw_hdrs s)]) ++ [SClose st (sw_trls s)], true)
  end.

Fixpoint sw_run (ss : bool) (s : sw) (ops : list sop) : sw * list sframe :=
  match ops with
  | [] => (s, [])
  | o :: r => let '(s1, fr, _) := sw_step ss s o in let '(s2, fr2) := sw_run ss s1 r in (s2, fr ++ fr2)
  end.

(* the grammar a conforming peer expects from one stream: headers? msg* close?, nothing after close *)
Inductive gstate := GStart | GHdr | GClosed | GBad.
Definition g_step (g : gstate) (f : sframe) : gstate :=
  match g, f with
  | GStart, SHdrs _ => GHdr
  | GHdr, SMsg _ => GHdr
  | GHdr, SClose _ _ => GClosed
  | _, _ => GBad
  end.
Definition g_run (fs : list sframe) : gstate := fold_left g_step fs GStart.

(* what the handler asked for, as a conforming reader of the ops would compute it *)
Fixpoint wanted_headers (acc : mdt) (ops : list sop) : mdt :=
  match ops with
  | [] => acc
  | WSetHeader md :: r => wanted_headers (md_join acc md) r
  | WSendHeader md :: _ => md_join acc md
  | WSend _ :: _ => acc
  | WFinish _ :: _ => acc
  | WSetTrailer _ :: r => wanted_headers acc r
  end.
Fixpoint wanted_trailers (acc : mdt) (ops : list sop) : mdt :=
  match ops with
  | [] => acc
  | WSetTrailer md :: r => wanted_trailers (md_join acc md) r
  | WFinish _ :: _ => acc
  | _ :: r => wanted_trailers acc r
  end.
