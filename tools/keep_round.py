#!/usr/bin/env python3
"""Copies the confirmed seeded changes of a round from work/mut<N>keep into seeded/<id><letter>/ with meta.json.
   usage: keep_round.py <round: 2|3>"""
import json, os, re, shutil, sys
ROUND = int(sys.argv[1]) if len(sys.argv) > 1 else 2
V = os.path.dirname(os.path.dirname(os.path.abspath(__file__)))
NEEDS = {
 'C01a': 'a caller blocked in RecvMsg at the moment the channel is torn down (receiver cancelled before the stream outcome is recorded): a fabricated empty message',
 'C01b': 'flow control, the caller has sent several messages and half-closed, a slow handler, then the RPC is cancelled / its deadline expires / the tunnel closes: the handler sees a clean end-of-stream after a prefix',
 'C02a': 'a forward tunnel and an RPC sent with no request metadata at all: the handler sees the metadata of the tunnel-opening call',
 'C02b': 'an RPC that ends with no trailers whose grpc.Trailer target / Trailer() must then be empty (a variable reused across calls keeps the previous trailers)',
 'C03a': 'graceful shutdown initiated, then a new RPC on the existing tunnel: the refusal is not recorded and the RPC\'s next frames abort the whole tunnel',
 'C03b': 'flow control, a handler parked in SendMsg on an exhausted window (caller not reading), then that RPC is cancelled: the receive loop blocks on the write lock before cancelling',
 'C04a': 'revision zero, the receive loop parked handing a frame to an unread stream, then the tunnel context ends: close() deadlocks against accept(), the serving calls never return',
 'C04b': 'reverse tunnel: GracefulStop with an RPC still in flight, followed by Stop: Stop skips CloseSend and waits forever',
 'C05a': 'a window update whose Load sees a non-zero window, the sender taking the window to zero and parking, then the update\'s Add: no wake-up token, the stream is stranded',
 'C05b': 'same mechanism as C03b (cancel while the handler is blocked in SendMsg on an exhausted window wedges the receive loop, the only path for window updates)',
 'C06a': 'a window update processed at the same instant the application is sending on that stream: the CAS debit between Load and Store is lost and the sender overruns the advertised window',
 'C06b': 'a peer whose new_stream advertises an initial window other than 65536 and which then overruns 64 KiB on a stream with a slow handler: the server enforces the wrong window',
 'C07a': 'flow control, caller not reading, more than 64 KiB outstanding at the moment of cancel: the handler blocked in SendMsg is never woken and the tunnel wedges',
 'C07b': 'an RPC started on a context that is already cancelled (or cancelled during the start): the cancel frame can reach the wire before new_stream and the server ends the whole tunnel',
 'C08a': 'same mechanism as C07b: cancel frame for stream N on the wire before new_stream N',
 'C08b': 'graceful shutdown: an id refused while draining is not recorded in lastSeen; trailing frames abort the tunnel, a raw peer may reuse the id or go backwards',
 'C09a': 'an envelope frame declaring a huge message size followed by little data: the reassembly buffer is pre-allocated to the declared size and held while the stream is open',
 'C09b': 'revision zero, a data frame after half-close while the handler is still running: send on a closed channel panics the receive loop (probability 1/2 per frame)',
 'C10a': 'shutdown initiated, an RPC in flight, a new RPC afterwards: the refusal returns before the id is recorded and the trailing frames abort the tunnel',
 'C10b': 'reverse tunnel: GracefulStop with an RPC in flight, later Stop, then a new_stream frame arriving before the peer hangs up: accepted again because isClosing() is false in state closed',
 'C11a': 'both ends negotiate and exactly one disabled flow control: the channel announces revision zero but builds flow-controlled senders/receivers locally',
 'C11b': 'a reverse tunnel opened to a legacy network server that does not answer with the negotiate header: the tunnel server still sends a settings frame',
 'C12a': 'the last tunnel closes, a WaitForReady starts between its first removal and a later redundant one, then a new tunnel opens: the waiter is never woken',
 'C12b': 'two reverse tunnels with the same never-seen affinity key racing on their first lookup: two per-key pools, one orphaned',
 'C13a': 'revision zero and a message whose serialized size is an exact non-zero multiple of 16384: an extra empty continuation frame after the message is complete',
 'C13b': 'SendHeader(nil) after headers have gone out (twice, after SendMsg, or after a client cancel): a second response-headers frame, possibly after the close frame',
 'C14a': 'flow control, a response larger than the window that the client is not reading, the RPC ending by cancel or deadline while the handler is parked in the sender: goroutine and table entry stay',
 'C14b': 'a keyed reverse tunnel that closes cleanly (Stop) before / between the two registrations: it stays in the per-key registry',
 'C15a': 'same mechanism as C03b (lock-level deadlock between a handler blocked in SendMsg and the receive loop finishing the stream)',
 'C15b': 'revision zero, a data frame reaching a stream whose receiver is closed but still registered (after a server-side deadline or after half-close): send on closed channel panic',
 'C16a': 'a raw peer sending two request messages and a half-close for a non-streaming-request method, the handler reading its first message after the half-close was processed',
 'C16b': 'unary Invoke and a peer that ends the stream with status OK and no response message: Invoke returns nil with the response untouched',
 'C17a': 'in-place write to a value slice of the metadata returned by the tunnel-metadata accessors (md.Get(k)[i] = ...): shared with the stored tunnel metadata',
 'C17b': 'an RPC with empty request metadata over a forward tunnel: the handler context shows the tunnel-opening call\'s incoming metadata',
 'C18a': 'an hour value whose nanosecond product wraps past zero back into the positive range (5124096H..7686143H, 10248192H..): a short deadline instead of saturation',
 'C18b': 'a tunnel whose own context carries a later deadline than the RPC\'s grpc-timeout: the per-RPC timeout is dropped and the handler sees the tunnel deadline',
}
NEEDS3 = {
 'C01a': 'the peer sends an empty (zero-byte) message and the receive target has been used before (Invoke with a reused response, RecvMsg into one variable): decoding is skipped and the old content is reported',
 'C01b': 'the client has sent everything and half-closed, the handler is behind, then the stream context ends without a cancel frame (tunnel torn down, server-side grpc-timeout): the handler reads a clean end-of-stream after a prefix',
 'C02a': 'a streaming handler that sets no headers and sends a message, the caller asks for Header() mid-stream: no header frame precedes the message, Header() blocks until the RPC ends',
 'C02b': 'per-RPC credentials that reuse a key already present in the outgoing metadata (or two credentials sharing a key): earlier values are dropped (Set instead of Append)',
 'C03a': 'an RPC with unencodable (non-UTF-8) metadata on a carrier that survives the encode failure (nested tunnel / in-memory): a stray cancel frame for an id the server never saw aborts the tunnel',
 'C03b': 'revision zero, a non-reading consumer with at least two undelivered frames, then that RPC ends: close() deadlocks against accept(), every RPC of the tunnel hangs',
 'C04a': 'GracefulStop with an RPC in flight, then Stop: Stop returns early in state closing and the tunnel is never terminated',
 'C04b': 'a caller blocked in SendMsg on the 64 KiB window with a context that never ends, then the tunnel ends: the sender waits on the caller\'s context instead of the stream\'s',
 'C05a': 'full-duplex traffic with applications reading on both sides over a carrier that buffers few frames: the window update is written while the receiver lock is held and the two receive loops block behind each other',
 'C05b': 'a sender out of credit whose stream is ended by the server or by the tunnel closing (not by the caller\'s context): never woken',
 'C06a': 'a data frame larger than the whole window arriving while nothing is queued (e.g. a 65537-byte first frame): accepted, the uint32 window wraps and enforcement is off for that stream',
 'C06b': 'a peer overruns the request window of a stream whose handler is parked in SendMsg waiting for credit: the sender waits on the tunnel context, finishStream blocks on the write lock, the tunnel stalls',
 'C07a': 'cancel or deadline landing after the response message frame and before the close frame of a unary-response RPC used through the stream API: success with the message although the RPC was cancelled',
 'C07b': 'revision zero, an RPC with at least two unread response frames, then a cancel of that RPC: close() waits for the lock accept() holds',
 'C08a': 'a new_stream refused at stream level directly followed by a frame of another stream: the refusal is sent with the next frame\'s stream id (loop variable shared with the goroutine)',
 'C08b': 'an RPC started on an already cancelled context (or cancelled between id allocation and the send): the cancel frame can reach the wire before new_stream',
 'C09a': 'an envelope announcing a huge size followed by one byte, read by the client: the reassembly buffer is allocated to the announced size',
 'C09b': 'reverse tunnel: a frame for a never-created stream ends the tunnel but the tunnel-wide context is never cancelled, handlers of in-flight RPCs stay parked',
 'C10a': 'Stop / GracefulStop while a reverse tunnel is opening (after OpenReverseTunnel was sent, before the response headers): Stop returns while that Serve call goes on to serve the tunnel',
 'C10b': 'a new_stream refused while shutting down followed immediately by a frame of a different stream: the Unavailable refusal goes to the wrong stream',
 'C11a': 'a peer that advertises negotiation and then ends the stream cleanly without sending its settings frame: Err() is nil (errors.Is on the wrapped EOF)',
 'C11b': 'the local end supports fewer revisions than the peer offers (flow control disabled locally, or the peer offers [0,1,7]): the highest offered revision is chosen although not supported locally',
 'C12a': 'a reverse tunnel whose first close happens before the handler has registered it (bad first frame, carrier dies before settings, AffinityKey closes it): added to both registries and never removed',
 'C12b': 'the last tunnel of a key is removed while another tunnel with that key opens or a WaitForReady on that key runs: they hold an orphaned per-key set',
 'C13a': 'a refused stream while other streams are active: the close frame of the refusal carries the stream id of whichever frame arrived next',
 'C13b': 'revision zero and a message whose size is an exact non-zero multiple of 16384: an extra empty continuation frame',
 'C14a': 'an in-flight RPC without a deadline whose handler is blocked in Recv when the tunnel itself ends: the goroutine that would wake it was never started',
 'C14b': 'a reverse tunnel that dies between the two registrations with the tear-down reaching the per-key registry first: it stays in the per-key registry',
 'C15a': 'Close() (or a context end / tunnel failure) overlapping an in-flight Send from another goroutine: CloseSend reaches the carrier stream without the send mutex',
 'C15b': 'revision zero, a stream with at least two unread frames (receive loop parked in accept), another goroutine ends that RPC: lock-level deadlock',
 'C16a': 'unary Invoke and a peer that ends the call with OK status and no response message: Invoke returns success and leaves the response untouched',
 'C16b': 'the one allowed send on a unary-request stream fails (carrier failure mid-message, marshal failure), then the application sends again: the second SendMsg is accepted',
 'C17a': 'a client stream interceptor on the underlying connection that adds headers to the OpenTunnel call: TunnelMetadataFromOutgoingContext no longer shows them',
 'C17b': 'an RPC with zero request headers over a forward or nested-forward tunnel: the handler inherits the OpenTunnel call\'s incoming metadata',
 'C18a': 'an hour value whose nanosecond product wraps back into the positive range (5124096H, 10248192H, ...): a short deadline instead of saturation',
 'C18b': 'a well-formed zero timeout (0S, 0n, 00000000H, or a repeated header whose last value is zero): no deadline at all instead of an already expired one',
}
NEEDS4 = {
 'C01a': 'flow control, a window-limited sender and a window update landing between the sender\'s load and its compare-and-swap: the retry skips a chunk, the message arrives truncated while send reports success',
 'C01b': 'a zero-byte message received into a message value that was used before: decoding is skipped, the previous content is reported',
 'C02a': 'a streaming call through AsChannel() / KeyAsChannel() (reverse tunnels): call options are dropped, so grpc.Header / grpc.Trailer targets stay untouched and per-RPC credentials never reach the handler',
 'C02b': 'per-RPC credentials whose key also exists in the outgoing context: the context\'s values are replaced (Set instead of Append)',
 'C03a': 'the window exhausted exactly, twice, with no wait in between (two messages of exactly 65536 bytes): the wake-up token send blocks the receive loop',
 'C03b': 'GracefulStop with a tunnel still served, then a new RPC or Stop: GracefulStop waits for Serve while holding the server mutex, createStream blocks in isClosing()',
 'C04a': 'a client-streaming / unary-via-NewStream call that has its response and awaits the close frame when the tunnel terminates: success instead of a non-OK result',
 'C04b': 'GracefulStop with a handler in flight, then Stop: Stop returns early in state closing and never half-closes the tunnel',
 'C05a': 'traffic in both directions over a transport that buffers one frame: the window update is sent while the receiver lock is held, the receive loops block behind each other',
 'C05b': 'a unary or client-streaming call whose response is 65537 bytes or more: the client never returns credit for single-response calls, the server\'s sender is stranded after 64 KiB',
 'C06a': 'a revision-one peer that advertises an initial window of zero: the sender substitutes 64 KiB and sends data that was never credited',
 'C06b': 'a peer overruns a stream whose handler is blocked in SendMsg: the handler\'s context error wins, the RPC is closed with Unknown instead of ResourceExhausted',
 'C07a': 'cancel landing after RecvMsg has taken the response and before the close frame, on a non-server-streaming RPC driven through NewStream: success with empty trailers',
 'C07b': 'flow control, unread responses queued at the caller when the cancel falls: RecvMsg keeps returning the stale data with nil error before reporting Canceled',
 'C08a': 'a raw peer re-using the most recently finished id while it is still the greatest seen: accepted as a new stream, the handler runs a second time',
 'C08b': 'Stop() half-closes the tunnel, then the still-connected peer sends new_stream 5 followed by new_stream 3: Serve returns no error',
 'C09a': 'an envelope announcing up to 4 GiB followed by one byte: the server allocates the announced size',
 'C09b': 'a window_update for a revision-zero stream: panic on the receive loop',
 'C10a': 'GracefulStop while a tunnel is still served, then a new RPC: never refused, hangs (mutex held while waiting); Stop afterwards deadlocks',
 'C10b': 'after shutdown, a unary Invoke whose refusal is processed before the caller reaches SendMsg: bare context canceled instead of Unavailable',
 'C11a': 'negotiation advertised by both ends and exactly one end with flow control disabled: flow-controlled sender/receiver on a revision-zero tunnel',
 'C11b': 'a reverse tunnel opened to a legacy network server that does not advertise negotiation: a settings frame is sent anyway',
 'C12a': 'at least two tunnels, RPCs that advance the round-robin cursor, a shrink that leaves len <= idx, then another RPC: index out of range',
 'C12b': 'a tunnel that dies during registration (while the AffinityKey function runs): a close callback without a preceding open callback',
 'C13a': 'revision zero and a message whose size is an exact non-zero multiple of 16384: an extra empty continuation frame',
 'C13b': 'a network client that sends the grpctunnel-negotiate header with a value other than "on": a settings frame although nothing was negotiated',
 'C14a': 'a handler parked in RecvMsg with an empty queue whose context ends with no cancel / half-close frame reaching the server (tunnel ends, server-side deadline): it re-waits for ever',
 'C14b': 'a unary-shaped call against a peer that sends two responses and keeps the stream open: the Internal error is returned but the stream is never cancelled, entries and goroutines stay',
 'C15a': 'transport pushing back in both directions with full-duplex RPCs: window update sent under the receiver mutex, lock cycle',
 'C15b': 'Stop() of a reverse-tunnel server while handlers send: CloseSend on the raw carrier stream without the send mutex',
 'C16a': 'a raw peer sending message, message, half-close in a burst (or a handler that reads late) on a non-streaming-request method: the look-ahead is skipped once half-closed',
 'C16b': 'unary Invoke and a peer that ends the call with OK and no response: Invoke returns nil with the response untouched',
 'C17a': 'a reverse tunnel: the recorded tunnel metadata lacks the grpctunnel-negotiate pair the library adds, so it disagrees with what the server received',
 'C17b': 'an RPC with no request metadata over a forward tunnel: it inherits the tunnel-opening call\'s incoming metadata',
 'C18a': 'a well-formed grpc-timeout of zero: no deadline at all instead of one that is already due',
 'C18b': 'a grpc-timeout deadline firing while a streaming handler is blocked in RecvMsg with an empty queue (flow control) and the client neither sends nor cancels: the handler is never handed DeadlineExceeded',
}
if ROUND == 3:
    NEEDS = NEEDS3
if ROUND == 4:
    NEEDS = NEEDS4
conf = {}
for f in (('confirm2.log', 'confirm2b.log') if ROUND == 2 else ('confirm%d.log' % ROUND, 'confirm%db.log' % ROUND)):
    p = os.path.join(V, 'work', f)
    if os.path.exists(p):
        for line in open(p):
            m = re.match(r'^(C\d\d)([ab]) build=\[(.*?)\] suite=\[(.*?)\] demo_with=(\S+) demo_without=(\S+)', line)
            if m:
                conf[m.group(1) + m.group(2)] = (m.group(4).strip(), m.group(5), m.group(6))
kept = []
for key, (suite, w, wo) in sorted(conf.items()):
    if not suite.startswith('ok') or w not in ('FAIL', 'panic:') or wo != 'ok':
        print('rejected', key, suite, w, wo)
        continue
    pid, v = key[:3], key[3]
    nv = {2: {'a': 'c', 'b': 'd'}, 3: {'a': 'e', 'b': 'f'}, 4: {'a': 'g', 'b': 'h'}}[ROUND][v]
    d = os.path.join(V, 'seeded', pid + nv)
    os.makedirs(d, exist_ok=True)
    src = os.path.join(V, 'work', 'mut%dkeep' % ROUND, pid)
    shutil.copy(os.path.join(src, v + '.diff'), os.path.join(d, 'patch.diff'))
    demo = os.path.join(src, 'mutdemo_%s_test.go' % v)
    if os.path.exists(demo):
        shutil.copy(demo, os.path.join(d, 'demo_test.go.txt'))
    meta = {'property': pid, 'variant': nv, 'round': ROUND, 'needs_to_manifest': NEEDS.get(key, ''),
            'origin': 'produced by an independent sub-agent given only the property text and a scratch worktree (later rounds: at least one change per property outside the most obvious function, through an interaction of two features, at a boundary or on a rarely taken path)',
            'confirmed_in_scratch_worktree': {
                'what_was_run': 'tools/confirm_mutants.sh: git worktree of /repo HEAD under /tmp/mutv; git apply patch.diff; go build ./...; go test -mod=mod -vet=off -count=1 ./... (suite); demo test copied in and run with the change (must FAIL), change reverted, demo run again (must pass)',
                'suite_with_change': suite, 'demo_with_change': w, 'demo_without_change': wo},
            'detected_by': 'see seeded/RESULTS.md'}
    json.dump(meta, open(os.path.join(d, 'meta.json'), 'w'), indent=1)
    kept.append(pid + nv)
print('kept', len(kept), ' '.join(kept))
