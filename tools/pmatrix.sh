#!/bin/bash
# Parallel detection matrix: N workers, each with its own clone of /verif and its own worktree of
# /repo under /root/scratch/pm (outside /repo and /verif, removed at the end), so /repo itself is
# never touched and other runs on the unchanged tree can go on meanwhile.
#   tools/pmatrix.sh [N=6]      env: OWN_ONLY=1, ONLY="C01c C05d"
# Result: work/matrix.log (one line per change: <id>: Cxx=<violations> ...)
N=${1:-6}
OWN_ONLY=${OWN_ONLY:-0}
base=/root/scratch/pm
out=/verif/work/matrix.log
rm -rf $base; mkdir -p $base /verif/work
git -C /repo worktree prune
declare -A extra=( [C01]="C13" [C02]="C16" [C03]="C05 C04" [C04]="C14" [C05]="C06 C03" [C06]="C13 C09" [C07]="C03 C14" [C08]="C13 C09" [C09]="C06 C04" [C10]="C03" [C11]="C13" [C12]="C14" [C13]="C06" [C14]="C12 C07" [C15]="C02" [C16]="C02" [C17]="" [C18]="" )
ids=()
for d in /verif/seeded/C*/; do
  id=$(basename $d)
  [ -f $d/patch.diff ] || continue
  if [ -n "$ONLY" ] && ! echo " $ONLY " | grep -q " $id "; then continue; fi
  ids+=($id)
done
worker() {
  k=$1
  w=$base/w$k
  git clone -q /verif $w/verif
  git -C /repo worktree add -q --detach $w/repo HEAD
  cp -r /verif/seeded $w/seeded-src 2>/dev/null
  export VERIF_REPO=$w/repo
  ( cd $w/verif && ./setup.sh > $w/setup.log 2>&1 )
  i=0
  for id in "${ids[@]}"; do
    if [ $(( i % N )) -eq $k ]; then
      prop=${id:0:3}
      p=/verif/seeded/$id/patch.diff
      cd $w/repo
      if ! git apply $p 2>/dev/null; then patch -p1 --fuzz=3 -s < $p || { echo "$id: APPLY-FAILED" >> $w/out.log; git checkout -- .; i=$((i+1)); continue; }; fi
      find . -name '*.orig' -delete
      cd $w/verif
      line="$id:"
      for q in $prop $( [ "$OWN_ONLY" = 1 ] || echo ${extra[$prop]} ); do
        n=$(./check $q 2>/dev/null | grep -c '^VIOLATION')
        line="$line $q=$n"
      done
      echo "$line" >> $w/out.log
      git -C $w/repo checkout -- .
    fi
    i=$((i+1))
  done
}
for k in $(seq 0 $((N-1))); do worker $k & done
wait
cat $base/w*/out.log | sort > $out
echo DONE >> $out
for k in $(seq 0 $((N-1))); do git -C /repo worktree remove --force $base/w$k/repo 2>/dev/null; done
rm -rf $base
git -C /repo worktree prune
