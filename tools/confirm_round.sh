#!/bin/bash
# Confirms one candidate seeded change (rounds 5+): tools/confirm_round.sh <dir with patch.diff, demo_test.go> <ID>
# in a scratch worktree of /repo HEAD under /tmp/mutv (removed afterwards): the library builds and its
# suite passes with the change, the demonstration fails with it and passes without it. Prints one line.
d=$1; id=$2
wt=/tmp/mutv/$id
rm -rf $wt
git -C /repo worktree add -q --detach $wt HEAD || { echo "$id worktree-failed"; exit; }
cd $wt
if ! git apply $d/patch.diff 2>/dev/null; then patch -p1 --fuzz=3 -s < $d/patch.diff || { echo "$id APPLY-FAILED"; cd /; git -C /repo worktree remove --force $wt; exit; }; fi
find . -name '*.orig' -delete
build=$(go build -mod=mod ./... 2>&1 | tail -1)
suite=$(go test -mod=mod -vet=off -count=1 -timeout 20m ./... 2>&1 | grep -E "^(ok|FAIL|---)" | head -3 | tr '\n' ' ')
race=""; [ "${id:0:3}" = "C15" ] && race="-race"
cp $d/demo_test.go ./demo_${id}_test.go
with=$(go test -mod=mod -vet=off -count=1 $race -timeout 10m -run 'Demo|demo' . 2>&1 | grep -E "^(ok|FAIL|panic)" | head -1 | awk '{print $1}')
git apply -R $d/patch.diff 2>/dev/null || { git checkout -q -- .; }
git diff --quiet || git checkout -q -- .
without=$(go test -mod=mod -vet=off -count=1 $race -timeout 10m -run 'Demo|demo' . 2>&1 | grep -E "^(ok|FAIL|panic)" | head -1 | awk '{print $1}')
echo "$id build=[$build] suite=[$suite] demo_with=$with demo_without=$without"
cd /; git -C /repo worktree remove --force $wt
