#!/usr/bin/env python3
"""trace2scenario.py <trace file> <scenario name> [<new name>]: extract the controller actions of one
scenario from a trace so it can be replayed (SIM_IN) or kept in corpus/."""
import sys
trace, name = sys.argv[1], sys.argv[2]
new = sys.argv[3] if len(sys.argv) > 3 else name
on = False
for line in open(trace):
    line = line.rstrip('\n')
    if line.startswith('S '):
        f = line.split(' ')
        on = (f[1] == name)
        if on:
            print('scenario %s %s' % (new, ' '.join(f[2:])))
    elif on and line.startswith('A '):
        f = line.split(' ', 2)
        if f[2] != 'teardown':
            print(f[2])
    elif on and line.startswith('X '):
        print('end')
        on = False
