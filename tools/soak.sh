#!/bin/bash
# soak: every quick check for many seeds on the unchanged tree; any VIOLATION is a false alarm (or a rare real finding)
cd "$(dirname "$0")/.."
./setup.sh > /dev/null 2>&1
for seed in "$@"; do
  for p in C01 C02 C03 C04 C05 C06 C07 C08 C09 C10 C11 C12 C13 C14 C15 C16 C17 C18; do
    out=$(VERIF_SEED=$seed ./check $p 2>/dev/null | grep '^VIOLATION')
    if [ -n "$out" ]; then echo "seed=$seed $out"; cp -r work/replay work/replay-seed$seed 2>/dev/null; fi
  done
  echo "seed=$seed done"
done
