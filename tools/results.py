#!/usr/bin/env python3
"""Writes seeded/RESULTS.md from the detection matrix log (tools/matrix.sh) and updates the
detected_by field of every seeded/<id>/meta.json.  usage: results.py <matrix.log>..."""
import json, os, re, sys
V = os.path.dirname(os.path.dirname(os.path.abspath(__file__)))
rows = {}
for path in sys.argv[1:]:
    for line in open(path):
        m = re.match(r'^(C\d\d\w+):\s*(.*)$', line.strip())
        if not m:
            continue
        rows[m.group(1)] = dict(kv.split('=') for kv in m.group(2).split())
out = ['# Seeded changes: which check reports which change', '',
       'Produced by `tools/matrix.sh` (each change applied to /repo with `git apply`, the quick checks run, the change undone).',
       '`1` = the check printed a VIOLATION line, `0` = it did not. The first column after the id is the check of the',
       "change's own property; the others are checks of neighbouring properties that were also run.", '',
       '| change | needs to manifest | own check | other checks |', '|---|---|---|---|']
missed = []
for d in sorted(os.listdir(os.path.join(V, 'seeded'))):
    mp = os.path.join(V, 'seeded', d, 'meta.json')
    if not os.path.exists(mp):
        continue
    meta = json.load(open(mp))
    r = rows.get(d)
    own = meta['property']
    if r is None:
        out.append('| %s | %s | (not run) | |' % (d, meta.get('needs_to_manifest', '')))
        continue
    others = ', '.join('%s=%s' % (k, v) for k, v in r.items() if k != own)
    out.append('| %s | %s | %s=%s | %s |' % (d, meta.get('needs_to_manifest', '').replace('|', '/'), own, r.get(own, '?'), others))
    det = [k for k, v in r.items() if v != '0']
    meta['detected_by'] = det if det else 'NOT DETECTED by the quick checks that were run (%s)' % ', '.join(r)
    json.dump(meta, open(mp, 'w'), indent=1)
    if not det:
        missed.append(d)
out += ['', 'Not detected: ' + (', '.join(missed) if missed else 'none') + '.', '']
open(os.path.join(V, 'seeded', 'RESULTS.md'), 'w').write('\n'.join(out))
print('\n'.join(out[-3:]))
