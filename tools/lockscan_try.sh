#!/bin/bash
# usage: lockscan_try.sh <patch.diff>...   applies each to /repo, regenerates the access table, prints unseparated pairs, undoes
for p in "$@"; do
  git -C /repo apply "$p" || { echo "cannot apply $p"; continue; }
  ( cd /repo && PATH=/opt/veriftools/go1.26.8/bin:$PATH GOFLAGS=-mod=mod GOPROXY=off GOTOOLCHAIN=local /verif/bin/lockscan /repo /tmp/AccessTable.v >/dev/null )
  git -C /repo checkout -- .
  d=$(mktemp -d); mkdir -p $d/gen $d/theories; cp /tmp/AccessTable.v $d/gen/; cp /verif/coq/theories/Access.v $d/theories/
  ( cd $d && coqc -Q theories GT -Q gen GTgen theories/Access.v && coqc -Q theories GT -Q gen GTgen gen/AccessTable.v && cat > q.v <<'EOQ'
From Coq Require Import List NArith String Bool.
From GT Require Import Access.
From GTgen Require Import AccessTable.
Import ListNotations.
Local Open Scope string_scope.
Definition show (p : site * site) := (s_field (fst p), (s_fn (fst p), s_line (fst p)), (s_fn (snd p), s_line (snd p))).
Eval vm_compute in map show (filter (fun p => N.leb (s_line (fst p)) (s_line (snd p))) (bad_pairs exemptions (access_table ++ user_sites))).
Eval vm_compute in (acyclic lock_order, reacquire_count).
EOQ
  echo "== $p"; coqc -Q theories GT -Q gen GTgen q.v | tr '\n' ' ' | tr -s ' '; echo )
  rm -rf $d
done
git -C /repo status --short | grep -v '^??'
