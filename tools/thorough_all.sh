#!/bin/bash
# every check in the thorough tier on the unchanged tree; prints VIOLATION / KNOWN-FINDING lines and timings
cd "$(dirname "$0")/.."
./setup.sh > /dev/null 2>&1
for p in C18 C01 C02 C03 C04 C05 C06 C07 C08 C09 C10 C11 C12 C13 C14 C15 C16 C17; do
  t0=$(date +%s)
  out=$(./check $p --tier thorough 2>/dev/null)
  rc=$?
  echo "$p rc=$rc $(( $(date +%s) - t0 ))s $(echo "$out" | grep -c '^VIOLATION') violation(s)"
  echo "$out" | grep '^VIOLATION\|^KNOWN' | head -8
done
echo DONE
