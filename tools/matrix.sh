#!/bin/bash
# detection matrix: every candidate seeded change x (its own property's check + the checks of neighbouring properties)
MUTDIR=${MUTDIR:-/verif/work/mutkeep}
out=${OUT:-/verif/work/matrix.log}
OWN_ONLY=${OWN_ONLY:-0}
: > $out
declare -A extra=( [C01]="C13" [C02]="C16" [C03]="C05 C04" [C04]="C14" [C05]="C06 C03" [C06]="C13 C09" [C07]="C03 C14" [C08]="C13 C09" [C09]="C06 C04" [C10]="C03" [C11]="C13" [C12]="C14" [C13]="C06" [C14]="C12 C07" [C15]="C02" [C16]="C02" [C17]="" [C18]="" )
for d in $MUTDIR/C*; do
  id=$(basename $d)
  for v in a b; do
    [ -f $d/$v.diff ] || continue
    cd /repo && git diff --quiet || { echo "repo dirty" >> $out; exit 1; }
    if ! git apply $d/$v.diff 2>/dev/null; then patch -p1 --fuzz=3 -s < $d/$v.diff || { echo "$id$v APPLY-FAILED" >> $out; git checkout -- .; continue; }; fi
    find . -name '*.orig' -delete
    cd /verif
    line="$id$v:"
    for p in $id $( [ "$OWN_ONLY" = 1 ] || echo ${extra[$id]} ); do
      n=$(./check $p 2>/dev/null | grep -c '^VIOLATION')
      line="$line $p=$n"
    done
    echo "$line" >> $out
    git -C /repo checkout -- .
  done
done
echo DONE >> $out
