#!/bin/bash
# detection matrix: every kept seeded change (seeded/<id>/patch.diff) x (its own property's quick check +
# the checks of neighbouring properties).  Applies each change to /repo, runs the checks, undoes it.
# Do not edit /repo, harness/ or coq/ while it runs.   OWN_ONLY=1: only the own property's check.
# ONLY="C01c C05d": only these changes.
out=${OUT:-/verif/work/matrix.log}
OWN_ONLY=${OWN_ONLY:-0}
: > $out
declare -A extra=( [C01]="C13" [C02]="C16" [C03]="C05 C04" [C04]="C14" [C05]="C06 C03" [C06]="C13 C09" [C07]="C03 C14" [C08]="C13 C09" [C09]="C06 C04" [C10]="C03" [C11]="C13" [C12]="C14" [C13]="C06" [C14]="C12 C07" [C15]="C02" [C16]="C02" [C17]="" [C18]="" )
for d in /verif/seeded/C*/; do
  id=$(basename $d); prop=${id:0:3}
  [ -f $d/patch.diff ] || continue
  if [ -n "$ONLY" ] && ! echo " $ONLY " | grep -q " $id "; then continue; fi
  cd /repo && git diff --quiet || { echo "repo dirty" >> $out; exit 1; }
  if ! git apply $d/patch.diff 2>/dev/null; then patch -p1 --fuzz=3 -s < $d/patch.diff || { echo "$id: APPLY-FAILED" >> $out; git checkout -- .; find . -name '*.orig' -delete; find . -name '*.rej' -delete; continue; }; fi
  find . -name '*.orig' -delete
  cd /verif
  line="$id:"
  for p in $prop $( [ "$OWN_ONLY" = 1 ] || echo ${extra[$prop]} ); do
    n=$(./check $p 2>/dev/null | grep -c '^VIOLATION')
    line="$line $p=$n"
  done
  echo "$line" >> $out
  git -C /repo checkout -- .
done
echo DONE >> $out
