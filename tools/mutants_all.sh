#!/bin/sh
# run the quick checks of the listed properties against every kept/pending seeded change
