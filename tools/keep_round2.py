#!/usr/bin/env python3
"""Copies the confirmed round-2 seeded changes from work/mut2keep into seeded/<id>c|d/ with meta.json."""
import json, os, re, shutil
V = os.path.dirname(os.path.dirname(os.path.abspath(__file__)))
NEEDS = {
 'C01a': 'a caller blocked in RecvMsg at the moment the channel is torn down (receiver cancelled before the stream outcome is recorded): a fabricated empty message',
 'C01b': 'flow control, the caller has sent several messages and half-closed, a slow handler, then the RPC is cancelled / its deadline expires / the tunnel closes: the handler sees a clean end-of-stream after a prefix',
 'C02a': 'a forward tunnel and an RPC sent with no request metadata at all: the handler sees the metadata of the tunnel-opening call',
 'C02b': 'an RPC that ends with no trailers whose grpc.Trailer target / Trailer() must then be empty (a variable reused across calls keeps the previous trailers)',
 'C03a': 'graceful shutdown initiated, then a new RPC on the existing tunnel: the refusal is not recorded and the RPC\'s next frames abort the whole tunnel',
 'C03b': 'flow control, a handler parked in SendMsg on an exhausted window (caller not reading), then that RPC is cancelled: the receive loop blocks on the write lock before cancelling',
 'C04a': 'revision zero, the receive loop parked handing a frame to an unread stream, then the tunnel context ends: close() deadlocks against accept(), the serving calls never return',
 'C04b': 'reverse tunnel: GracefulStop with an RPC still in flight, followed by Stop: Stop skips CloseSend and waits forever',
 'C05a': 'a window update whose Load sees a non-zero window, the sender taking the window to zero and parking, then the update\'s Add: no wake-up token, the stream is stranded',
 'C05b': 'same mechanism as C03b (cancel while the handler is blocked in SendMsg on an exhausted window wedges the receive loop, the only path for window updates)',
 'C06a': 'a window update processed at the same instant the application is sending on that stream: the CAS debit between Load and Store is lost and the sender overruns the advertised window',
 'C06b': 'a peer whose new_stream advertises an initial window other than 65536 and which then overruns 64 KiB on a stream with a slow handler: the server enforces the wrong window',
 'C07a': 'flow control, caller not reading, more than 64 KiB outstanding at the moment of cancel: the handler blocked in SendMsg is never woken and the tunnel wedges',
 'C07b': 'an RPC started on a context that is already cancelled (or cancelled during the start): the cancel frame can reach the wire before new_stream and the server ends the whole tunnel',
 'C08a': 'same mechanism as C07b: cancel frame for stream N on the wire before new_stream N',
 'C08b': 'graceful shutdown: an id refused while draining is not recorded in lastSeen; trailing frames abort the tunnel, a raw peer may reuse the id or go backwards',
 'C09a': 'an envelope frame declaring a huge message size followed by little data: the reassembly buffer is pre-allocated to the declared size and held while the stream is open',
 'C09b': 'revision zero, a data frame after half-close while the handler is still running: send on a closed channel panics the receive loop (probability 1/2 per frame)',
 'C10a': 'shutdown initiated, an RPC in flight, a new RPC afterwards: the refusal returns before the id is recorded and the trailing frames abort the tunnel',
 'C10b': 'reverse tunnel: GracefulStop with an RPC in flight, later Stop, then a new_stream frame arriving before the peer hangs up: accepted again because isClosing() is false in state closed',
 'C11a': 'both ends negotiate and exactly one disabled flow control: the channel announces revision zero but builds flow-controlled senders/receivers locally',
 'C11b': 'a reverse tunnel opened to a legacy network server that does not answer with the negotiate header: the tunnel server still sends a settings frame',
 'C12a': 'the last tunnel closes, a WaitForReady starts between its first removal and a later redundant one, then a new tunnel opens: the waiter is never woken',
 'C12b': 'two reverse tunnels with the same never-seen affinity key racing on their first lookup: two per-key pools, one orphaned',
 'C13a': 'revision zero and a message whose serialized size is an exact non-zero multiple of 16384: an extra empty continuation frame after the message is complete',
 'C13b': 'SendHeader(nil) after headers have gone out (twice, after SendMsg, or after a client cancel): a second response-headers frame, possibly after the close frame',
 'C14a': 'flow control, a response larger than the window that the client is not reading, the RPC ending by cancel or deadline while the handler is parked in the sender: goroutine and table entry stay',
 'C14b': 'a keyed reverse tunnel that closes cleanly (Stop) before / between the two registrations: it stays in the per-key registry',
 'C15a': 'same mechanism as C03b (lock-level deadlock between a handler blocked in SendMsg and the receive loop finishing the stream)',
 'C15b': 'revision zero, a data frame reaching a stream whose receiver is closed but still registered (after a server-side deadline or after half-close): send on closed channel panic',
 'C16a': 'a raw peer sending two request messages and a half-close for a non-streaming-request method, the handler reading its first message after the half-close was processed',
 'C16b': 'unary Invoke and a peer that ends the stream with status OK and no response message: Invoke returns nil with the response untouched',
 'C17a': 'in-place write to a value slice of the metadata returned by the tunnel-metadata accessors (md.Get(k)[i] = ...): shared with the stored tunnel metadata',
 'C17b': 'an RPC with empty request metadata over a forward tunnel: the handler context shows the tunnel-opening call\'s incoming metadata',
 'C18a': 'an hour value whose nanosecond product wraps past zero back into the positive range (5124096H..7686143H, 10248192H..): a short deadline instead of saturation',
 'C18b': 'a tunnel whose own context carries a later deadline than the RPC\'s grpc-timeout: the per-RPC timeout is dropped and the handler sees the tunnel deadline',
}
conf = {}
for f in ('confirm2.log', 'confirm2b.log'):
    p = os.path.join(V, 'work', f)
    if os.path.exists(p):
        for line in open(p):
            m = re.match(r'^(C\d\d)([ab]) build=\[(.*?)\] suite=\[(.*?)\] demo_with=(\S+) demo_without=(\S+)', line)
            if m:
                conf[m.group(1) + m.group(2)] = (m.group(4).strip(), m.group(5), m.group(6))
kept = []
for key, (suite, w, wo) in sorted(conf.items()):
    if not suite.startswith('ok') or w not in ('FAIL', 'panic:') or wo != 'ok':
        print('rejected', key, suite, w, wo)
        continue
    pid, v = key[:3], key[3]
    nv = {'a': 'c', 'b': 'd'}[v]
    d = os.path.join(V, 'seeded', pid + nv)
    os.makedirs(d, exist_ok=True)
    src = os.path.join(V, 'work', 'mut2keep', pid)
    shutil.copy(os.path.join(src, v + '.diff'), os.path.join(d, 'patch.diff'))
    demo = os.path.join(src, 'mutdemo_%s_test.go' % v)
    if os.path.exists(demo):
        shutil.copy(demo, os.path.join(d, 'demo_test.go.txt'))
    meta = {'property': pid, 'variant': nv, 'round': 2, 'needs_to_manifest': NEEDS.get(key, ''),
            'origin': 'produced by an independent sub-agent given only the property text and a scratch worktree (second round: at least one change per property outside the most obvious function / through an interaction of two features)',
            'confirmed_in_scratch_worktree': {
                'what_was_run': 'tools/confirm_mutants.sh: git worktree of /repo HEAD under /tmp/mutv; git apply patch.diff; go build ./...; go test -mod=mod -vet=off -count=1 ./... (suite); demo test copied in and run with the change (must FAIL), change reverted, demo run again (must pass)',
                'suite_with_change': suite, 'demo_with_change': w, 'demo_without_change': wo},
            'detected_by': 'see seeded/RESULTS.md'}
    json.dump(meta, open(os.path.join(d, 'meta.json'), 'w'), indent=1)
    kept.append(pid + nv)
print('kept', len(kept), ' '.join(kept))
