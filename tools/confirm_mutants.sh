#!/bin/bash
# Confirms every candidate seeded change in work/mutkeep/<Cxx>/{a,b}.diff in a scratch worktree:
#  suite passes with the change, demo fails with the change, demo passes without it.
MUTDIR=${MUTDIR:-/verif/work/mutkeep}
out=${OUT:-/verif/work/confirm.log}
: > $out
for d in $MUTDIR/C*; do
  id=$(basename $d)
  for v in a b; do
    [ -f $d/$v.diff ] || continue
    wt=/tmp/mutv/$id$v
    rm -rf $wt; git -C /repo worktree prune
    git -C /repo worktree add -q --detach $wt HEAD || { echo "$id$v worktree-failed" >> $out; continue; }
    cd $wt
    if ! git apply $d/$v.diff 2>/dev/null; then patch -p1 --fuzz=3 -s < $d/$v.diff || { echo "$id$v APPLY-FAILED" >> $out; cd /; git -C /repo worktree remove --force $wt; continue; }; fi
    find . -name '*.orig' -delete
    build=$(go build -mod=mod ./... 2>&1 | tail -1)
    suite=$(go test -mod=mod -vet=off -count=1 -timeout 20m ./... 2>&1 | grep -E "^(ok|FAIL|---)" | head -3 | tr '\n' ' ')
    demo=$(ls $d/mutdemo_${v}_test.go 2>/dev/null)
    race=""
    if [ "$id" = "C15" ]; then race="-race"; fi
    with="nodemo"; without="nodemo"
    if [ -n "$demo" ]; then
      cp $demo .
      with=$(go test -mod=mod -vet=off -count=1 $race -timeout 10m -run 'MutDemo|Mutdemo|mutdemo' . 2>&1 | grep -E "^(ok|FAIL|panic)" | head -1 | awk '{print $1}')
      git checkout -q -- . 2>/dev/null; git apply -R $d/$v.diff 2>/dev/null
      git checkout -q -- .
      without=$(go test -mod=mod -vet=off -count=1 $race -timeout 10m -run 'MutDemo|Mutdemo|mutdemo' . 2>&1 | grep -E "^(ok|FAIL|panic)" | head -1 | awk '{print $1}')
    fi
    echo "$id$v build=[$build] suite=[$suite] demo_with=$with demo_without=$without" >> $out
    cd /; git -C /repo worktree remove --force $wt
  done
done
echo DONE >> $out
