#!/bin/sh
# mutant_eval.sh <diff> <property ids...>: apply a seeded change to /repo, run the quick checks, undo it.
d=$1; shift
cd /repo && git diff --quiet || { echo "/repo not clean"; exit 2; }
if ! git apply "$d" 2>/dev/null; then
  if ! patch -p1 --fuzz=3 -s < "$d"; then echo "APPLY-FAILED $d"; git checkout -- .; exit 3; fi
fi
find . -name '*.orig' -delete
cd /verif
for p in "$@"; do
  out=$(./check $p 2>/dev/null | grep -c '^VIOLATION')
  echo "$d $p violations=$out"
done
git -C /repo checkout -- .
